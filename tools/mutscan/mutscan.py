#!/usr/bin/env python3
"""mutscan.py — a first-order mutation campaign against /verif's checks (development tool, not a registered check).

  mutscan.py gen                      list the mutants of /repo's non-test code        -> $W/mutants.jsonl
  mutscan.py tests [-j N]             each mutant in a scratch copy: go build, go vet-free `go test ./...`
                                      -> $W/tests.jsonl   (nocompile | killed | survived)
  mutscan.py checks [-j N] [ids...]   each survivor: /verif's quick checks (a scratch copy of /verif per worker,
                                      VERIF_REPO pointing at the mutated copy) until the first VIOLATION
                                      -> $W/checks.jsonl  (caught by <check> | MISSED)
  mutscan.py report                   summary table; the MISSED ones are to be triaged by hand (equivalent mutant or gap)

Nothing is ever written to /repo. $W defaults to /tmp/mutscan (scratch; remove it when done).
"""
import json, os, shutil, subprocess, sys, threading, queue, time

V = os.path.dirname(os.path.dirname(os.path.dirname(os.path.abspath(__file__))))
W = os.environ.get('MUTSCAN_DIR', '/tmp/mutscan')
REPO = W + '/pristine'      # `git archive HEAD` of /repo: the committed tree, whatever the working tree holds at the moment
ENV = dict(os.environ, GOFLAGS='-mod=mod', GOPROXY='off', GOSUMDB='off', GOTOOLCHAIN='local')

ORDER = {
    'internal/origins/origins.go': ['C13', 'C01', 'C03', 'C17'],
    'internal/origins/pattern.go': ['C13', 'C05', 'C04', 'C01', 'C06'],
    'internal/origins/radix.go': ['C01', 'C06', 'C15', 'C03'],
    'internal/headers/': ['C14', 'C04', 'C02', 'C10', 'C11', 'C05'],
    'internal/methods/': ['C04', 'C15', 'C02', 'C05'],
    'internal/util/': ['C14', 'C15', 'C12', 'C06', 'C04'],
    'cfgerrors/': ['C19', 'C05', 'C17'],
    'config.go': ['C05', 'C06', 'C04', 'C19', 'C15', 'C02', 'C08'],
    'middleware.go': ['C02', 'C11', 'C09', 'C10', 'C03', 'C16', 'C07', 'C12', 'C08', 'C18'],
}
ALL = ['C%02d' % i for i in range(1, 20)]


def order_for(f):
    first = []
    for k, v in ORDER.items():
        if f.startswith(k):
            first = v
    return first + [c for c in ALL if c not in first]


def load(path):
    if not os.path.exists(path):
        return []
    return [json.loads(l) for l in open(path) if l.strip()]


def copy_repo(dst):
    if os.path.exists(dst):
        shutil.rmtree(dst)
    shutil.copytree(REPO, dst, ignore=shutil.ignore_patterns('.git'))


def apply(m, root):
    src = open(os.path.join(REPO, m['file']), 'rb').read()
    mut = src[:m['off']] + m['repl'].encode() + src[m['off'] + m['len']:]
    open(os.path.join(root, m['file']), 'wb').write(mut)


def restore(m, root):
    shutil.copyfile(os.path.join(REPO, m['file']), os.path.join(root, m['file']))


def run(cmd, cwd, timeout, env=None):
    try:
        p = subprocess.run(cmd, cwd=cwd, env=env or ENV, stdout=subprocess.PIPE, stderr=subprocess.STDOUT, timeout=timeout)
        return p.returncode, p.stdout.decode('utf-8', 'replace')
    except subprocess.TimeoutExpired:
        return 124, 'TIMEOUT'


def pool(items, nworkers, fn, outpath):
    q = queue.Queue()
    for it in items:
        q.put(it)
    lock = threading.Lock()
    out = open(outpath, 'a')

    def work(k):
        while True:
            try:
                it = q.get_nowait()
            except queue.Empty:
                return
            res = fn(k, it)
            with lock:
                out.write(json.dumps(res) + '\n')
                out.flush()
                print(res.get('id'), res.get('status'), res.get('caught_by', ''), file=sys.stderr, flush=True)
    ts = [threading.Thread(target=work, args=(k,)) for k in range(nworkers)]
    [t.start() for t in ts]
    [t.join() for t in ts]


def cmd_gen():
    os.makedirs(W, exist_ok=True)
    if os.path.exists(REPO):
        shutil.rmtree(REPO)
    os.makedirs(REPO)
    subprocess.run('git -C /repo archive HEAD | tar -x -C ' + REPO, shell=True, check=True)
    rc, out = run(['go', 'run', 'mutgen.go', '-repo', REPO], os.path.dirname(os.path.abspath(__file__)), 300)
    open(W + '/mutants.jsonl', 'w').write(out)
    print(len(out.splitlines()), 'mutants')


def cmd_tests(j):
    muts = load(W + '/mutants.jsonl')
    done = {r['id'] for r in load(W + '/tests.jsonl')}
    todo = [m for m in muts if m['id'] not in done]
    for k in range(j):
        copy_repo('%s/t%d/repo' % (W, k))

    def one(k, m):
        root = '%s/t%d/repo' % (W, k)
        apply(m, root)
        try:
            rc, out = run(['go', 'build', './...'], root, 300)
            if rc != 0:
                return dict(m, status='nocompile')
            rc, out = run(['go', 'vet', './...'], root, 300)
            if rc != 0:
                return dict(m, status='vet')     # `go test` runs vet: counted as killed by the suite
            rc, out = run(['go', 'test', '-count=1', './...'], root, 240)
            if rc != 0:
                return dict(m, status='killed', how='timeout' if rc == 124 else 'fail')
            return dict(m, status='survived')
        finally:
            restore(m, root)
    pool(todo, j, one, W + '/tests.jsonl')


def cmd_checks(j, ids):
    surv = [r for r in load(W + '/tests.jsonl') if r['status'] == 'survived']
    if ids:
        surv = [r for r in surv if r['id'] in ids]
    done = {r['id'] for r in load(W + '/checks.jsonl')}
    todo = [m for m in surv if m['id'] not in done or ids]
    for k in range(j):
        copy_repo('%s/c%d/repo' % (W, k))
        vdst = '%s/c%d/verif' % (W, k)
        if os.path.exists(vdst):
            shutil.rmtree(vdst)
        shutil.copytree(V, vdst, ignore=shutil.ignore_patterns('.git', 'replays', 'seeded', 'findings'), symlinks=True)

    def one(k, m):
        root = '%s/c%d/repo' % (W, k)
        vroot = '%s/c%d/verif' % (W, k)
        env = dict(ENV, VERIF_ROOT=vroot, VERIF_REPO=root)
        apply(m, root)
        t0 = time.time()
        tried = []
        try:
            for c in order_for(m['file']):
                rc, out = run([vroot + '/check', c, 'quick'], vroot, 1800, env)
                tried.append(c)
                last = [l for l in out.splitlines() if l.startswith(('VIOLATION', 'OK', 'KNOWN'))]
                if rc != 0 and any(l.startswith('VIOLATION') for l in last):
                    v = [l for l in last if l.startswith('VIOLATION')][-1]
                    return dict(m, status='caught', caught_by=c, tried=tried, concrete='no-failing-input-found' not in v, secs=round(time.time() - t0))
                if rc != 0:
                    return dict(m, status='check-error', caught_by=c, tried=tried, out=out[-2000:])
            return dict(m, status='MISSED', tried=tried, secs=round(time.time() - t0))
        finally:
            restore(m, root)
    pool(todo, j, one, W + '/checks.jsonl')


def cmd_report():
    tests = load(W + '/tests.jsonl')
    checks = {r['id']: r for r in load(W + '/checks.jsonl')}
    import collections
    c = collections.Counter(r['status'] for r in tests)
    print('mutants', len(tests), dict(c))
    cc = collections.Counter(r['status'] for r in checks.values())
    print('survivors checked', len(checks), dict(cc))
    print('concrete failing input among caught:', sum(1 for r in checks.values() if r['status'] == 'caught' and r.get('concrete')))
    for r in checks.values():
        if r['status'] != 'caught':
            print('%s %s:%d  %s  [%s]' % (r['id'], r['file'], r['line'], r['desc'], r['status']))


if __name__ == '__main__':
    a = sys.argv[1:]
    j = 8
    if '-j' in a:
        i = a.index('-j')
        j = int(a[i + 1])
        del a[i:i + 2]
    if a[0] == 'gen':
        cmd_gen()
    elif a[0] == 'tests':
        cmd_tests(j)
    elif a[0] == 'checks':
        cmd_checks(j, set(a[1:]))
    elif a[0] == 'report':
        cmd_report()
