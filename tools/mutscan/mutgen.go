// Command mutgen lists first-order mutants of the non-test Go files of a jub0bs/cors tree:
// one JSON object per line {id, file, off, len, repl, line, desc}. It only *lists* them; tools/mutscan/mutscan.py
// applies each one to a scratch copy (never to /repo), builds, runs the repository's tests and then /verif's checks.
//
//	go run mutgen.go -repo /repo > mutants.jsonl
package main

import (
	"encoding/json"
	"flag"
	"fmt"
	"go/ast"
	"go/parser"
	"go/scanner"
	"go/token"
	"os"
	"path/filepath"
	"sort"
	"strconv"
	"strings"
)

type mutant struct {
	ID   string `json:"id"`
	File string `json:"file"`
	Off  int    `json:"off"`
	Len  int    `json:"len"`
	Repl string `json:"repl"`
	Line int    `json:"line"`
	Desc string `json:"desc"`
}

var swaps = map[token.Token][]string{
	token.LSS: {"<="}, token.LEQ: {"<"}, token.GTR: {">="}, token.GEQ: {">"},
	token.EQL: {"!="}, token.NEQ: {"=="},
	token.LAND: {"||"}, token.LOR: {"&&"},
	token.ADD: {"-"}, token.SUB: {"+"},
	token.INC: {"--"}, token.DEC: {"++"},
}

func main() {
	repo := flag.String("repo", "/repo", "tree to mutate")
	flag.Parse()
	var files []string
	filepath.Walk(*repo, func(p string, info os.FileInfo, err error) error {
		if err != nil {
			return nil
		}
		if info.IsDir() && (info.Name() == ".git" || info.Name() == "testdata" || info.Name() == "verifdrv") {
			return filepath.SkipDir
		}
		if strings.HasSuffix(p, ".go") && !strings.HasSuffix(p, "_test.go") && !strings.HasSuffix(p, "doc.go") {
			files = append(files, p)
		}
		return nil
	})
	sort.Strings(files)
	var out []mutant
	for _, f := range files {
		src, err := os.ReadFile(f)
		if err != nil {
			panic(err)
		}
		rel, _ := filepath.Rel(*repo, f)
		fset := token.NewFileSet()
		af, err := parser.ParseFile(fset, f, src, parser.ParseComments)
		if err != nil {
			panic(err)
		}
		base := fset.File(af.Pos()).Base()
		add := func(pos, end token.Pos, repl, desc string) {
			o, e := int(pos)-base, int(end)-base
			out = append(out, mutant{File: rel, Off: o, Len: e - o, Repl: repl, Line: fset.Position(pos).Line, Desc: desc})
		}
		// which byte ranges are inside function bodies or package-level value declarations (not imports, not types)
		type span struct{ a, b int }
		var code []span
		for _, d := range af.Decls {
			switch d := d.(type) {
			case *ast.FuncDecl:
				if d.Body != nil {
					code = append(code, span{int(d.Body.Pos()) - base, int(d.Body.End()) - base})
				}
			case *ast.GenDecl:
				if d.Tok == token.CONST || d.Tok == token.VAR {
					code = append(code, span{int(d.Pos()) - base, int(d.End()) - base})
				}
			}
		}
		inCode := func(o int) bool {
			for _, s := range code {
				if s.a <= o && o < s.b {
					return true
				}
			}
			return false
		}
		// token-level mutants
		var sc scanner.Scanner
		sfset := token.NewFileSet()
		sfile := sfset.AddFile(f, -1, len(src))
		sc.Init(sfile, src, nil, 0)
		for {
			pos, tok, lit := sc.Scan()
			if tok == token.EOF {
				break
			}
			o := sfile.Offset(pos)
			if !inCode(o) {
				continue
			}
			if reps, ok := swaps[tok]; ok {
				for _, r := range reps {
					out = append(out, mutant{File: rel, Off: o, Len: len(tok.String()), Repl: r, Line: sfile.Line(pos), Desc: tok.String() + " -> " + r})
				}
			}
			if tok == token.INT {
				if v, err := strconv.ParseInt(lit, 0, 64); err == nil {
					for _, d := range []int64{1, -1} {
						if v+d < 0 {
							continue
						}
						out = append(out, mutant{File: rel, Off: o, Len: len(lit), Repl: strconv.FormatInt(v+d, 10), Line: sfile.Line(pos), Desc: fmt.Sprintf("%s -> %d", lit, v+d)})
					}
				}
			}
			if tok == token.IDENT && (lit == "true" || lit == "false") {
				r := "true"
				if lit == "true" {
					r = "false"
				}
				out = append(out, mutant{File: rel, Off: o, Len: len(lit), Repl: r, Line: sfile.Line(pos), Desc: lit + " -> " + r})
			}
			if tok == token.CONTINUE || tok == token.BREAK {
				out = append(out, mutant{File: rel, Off: o, Len: len(tok.String()), Repl: "_ = 0", Line: sfile.Line(pos), Desc: "delete " + tok.String()})
			}
		}
		// statement-level mutants
		ast.Inspect(af, func(n ast.Node) bool {
			switch n := n.(type) {
			case *ast.IfStmt:
				add(n.Cond.Pos(), n.Cond.End(), "!("+string(src[int(n.Cond.Pos())-base:int(n.Cond.End())-base])+")", "negate if condition")
				if n.Else == nil && n.Init == nil {
					// drop the guard: the body always runs / never runs
					add(n.Cond.Pos(), n.Cond.End(), "true", "if condition -> true")
					add(n.Cond.Pos(), n.Cond.End(), "false", "if condition -> false")
				}
			case *ast.AssignStmt:
				if n.Tok == token.ASSIGN || n.Tok == token.ADD_ASSIGN {
					// delete the assignment (keep the right-hand side evaluated when it is a call is not attempted)
					if len(n.Rhs) == 1 {
						if _, isCall := n.Rhs[0].(*ast.CallExpr); !isCall {
							add(n.Pos(), n.End(), "_ = 0", "delete assignment")
						}
					}
				}
			case *ast.ExprStmt:
				if c, ok := n.X.(*ast.CallExpr); ok {
					_ = c
					add(n.Pos(), n.End(), "_ = 0", "delete call statement")
				}
			case *ast.ReturnStmt:
				if len(n.Results) == 1 {
					if id, ok := n.Results[0].(*ast.Ident); ok && (id.Name == "true" || id.Name == "false") {
						return true // covered by the literal flip
					}
				}
			case *ast.BinaryExpr:
				// swap operands of && / || (evaluation order: guards before index expressions)
				if n.Op == token.LAND || n.Op == token.LOR {
					x := string(src[int(n.X.Pos())-base : int(n.X.End())-base])
					y := string(src[int(n.Y.Pos())-base : int(n.Y.End())-base])
					add(n.Pos(), n.End(), y+" "+n.Op.String()+" "+x, "swap operands of "+n.Op.String())
				}
			case *ast.CallExpr:
				// swap two arguments of the same syntactic shape (identifiers)
				if len(n.Args) >= 2 {
					for i := 0; i+1 < len(n.Args); i++ {
						a, ok1 := n.Args[i].(*ast.Ident)
						b, ok2 := n.Args[i+1].(*ast.Ident)
						if ok1 && ok2 && a.Name != b.Name {
							add(a.Pos(), b.End(), b.Name+", "+a.Name, "swap arguments "+a.Name+", "+b.Name)
						}
					}
				}
			}
			return true
		})
	}
	sort.SliceStable(out, func(i, j int) bool {
		if out[i].File != out[j].File {
			return out[i].File < out[j].File
		}
		return out[i].Off < out[j].Off
	})
	enc := json.NewEncoder(os.Stdout)
	for i := range out {
		out[i].ID = fmt.Sprintf("M%04d", i+1)
		enc.Encode(out[i])
	}
}
