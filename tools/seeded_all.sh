#!/bin/sh
# seeded_all.sh [pattern] : for every seeded change (seeded/<id>/patch.diff) apply it to /repo, run the quick check of the
# property it was written against, undo it; prints one line per change.  /repo must be clean; do not run other checks meanwhile.
V=$(cd "$(dirname "$0")/.." && pwd)
[ -z "$(git -C /repo status --short)" ] || { echo "/repo is not clean"; exit 2; }
rm -rf $V/build/evidence.saved && cp -r $V/evidence $V/build/evidence.saved   # evidence of the unchanged tree is kept
for d in $V/seeded/${1:-*}; do
  id=$(basename $d); prop=${id%%-*}
  git -C /repo apply $d/patch.diff 2>/dev/null || { echo "$id PATCH-DOES-NOT-APPLY"; continue; }
  out=$($V/check $prop quick 2>&1 | grep -E "^(VIOLATION|OK|KNOWN)" | tail -1)
  git -C /repo checkout -- .
  case "$out" in VIOLATION*) echo "$id caught  $out";; *) echo "$id MISSED  $out";; esac
done
rm -rf $V/evidence && mv $V/build/evidence.saved $V/evidence
$V/build/extract -repo /repo -out $V/lean/CorsVerif/Gen/Facts.lean
git -C /repo status --short
