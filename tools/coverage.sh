#!/bin/sh
# Statement coverage of the implementation reached by the correspondence suites (a measure of
# generator quality, DESIGN 11.6).  Copies /repo's working tree to a scratch directory, adds the
# harness, builds it instrumented, runs every suite once, prints per-function coverage and the
# uncovered blocks of the library, and removes the scratch copy.
set -e
export GOFLAGS=-mod=mod GOPROXY=off GOSUMDB=off GOTOOLCHAIN=local
V=${VERIF_ROOT:-$(cd "$(dirname "$0")/.." && pwd)}
N=${1:-3000}
W=$(mktemp -d /tmp/cors-cover-XXXXXX)
trap 'rm -rf $W' EXIT
mkdir -p $W/repo $W/cov $V/build
rsync -a --exclude .git /repo/ $W/repo/
mkdir -p $W/repo/internal/verifdrv
cp $V/harness/inject/*.go $W/repo/internal/verifdrv/
(cd $W/repo && go build -tags verif -cover -coverpkg=github.com/jub0bs/cors/... -o $W/harness.cover ./internal/verifdrv)
for s in lex tree acrh names validate serve errors history pairs10 pairs09 twins roundtrip intents schedule; do
  GOCOVERDIR=$W/cov $W/harness.cover -suite $s -seed 7 -n $N -cases $W/$s.cases -impl $W/$s.impl >/dev/null 2>&1 || echo "suite $s: exit $?"
done
(cd $W/repo && go tool covdata textfmt -i=$W/cov -o $W/profile.txt)
grep -v "internal/verifdrv" $W/profile.txt > $W/lib.txt
(cd $W/repo && go tool cover -func=$W/lib.txt | awk '$NF != "100.0%"') | tail -70
echo "--- uncovered blocks (file:startline.col,endline.col statements) ---"
awk 'NR>1 && $NF==0 {print $1, $2}' $W/lib.txt | sort -u
cp $W/lib.txt $V/build/tie-coverage.txt
