#!/bin/sh
# try_scratch.sh <patch.diff> <prop>... : run the quick checks of the given properties against a scratch copy of /repo's
# committed tree with the patch applied and a scratch copy of /verif (VERIF_ROOT / VERIF_REPO). /repo is not touched.
P=$1; shift
V=$(cd "$(dirname "$0")/.." && pwd)
W=$(mktemp -d /tmp/tryscratch.XXXXXX)
trap 'rm -rf $W' EXIT
mkdir $W/repo && git -C /repo archive HEAD | tar -x -C $W/repo
(cd $W/repo && patch -p1 -s < $P) || { echo PATCH-DOES-NOT-APPLY; exit 2; }
rsync -a --exclude .git --exclude replays --exclude seeded --exclude findings $V/ $W/verif/
for p in "$@"; do
  VERIF_ROOT=$W/verif VERIF_REPO=$W/repo $W/verif/check $p quick 2>&1 | grep -E '^(VIOLATION|OK|KNOWN)' | tail -1
done
