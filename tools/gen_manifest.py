#!/usr/bin/env python3
"""Regenerate /verif/MANIFEST.json from the table below (one entry per claimed property)."""
import json, os

V = '/verif'

NOTE = ("Trusted base: Lean 4.33.0 kernel with axioms propext/Classical.choice/Quot.sound only (audited per theorem on every run; "
        "no sorry/admit/native_decide/bv_decide/own axioms); the hand-written Lean model lean/CorsVerif/Model tied to /repo by "
        "Gen/Facts.lean (regenerated from the working tree by harness/extract), Gen/Pipeline.lean (translated from Go on every run by harness/extract/translate.go and proved equal to the model in Proofs/Translated.lean: the whole closure of Wrap with its three handlers and four pipeline steps, Reconfigure and SetDebug, validatePreflightStatus and validateMaxAge, and the loop bodies of validateOrigins / validateMethods / validateRequestHeaders / validateResponseHeaders) and by the differential correspondence harness "
        "(harness/inject, overlaid into /repo's module at build time); library behaviour modelled, not verified: x/net idna and "
        "publicsuffix and IPv6 netip (oracles answered by the real libraries per case), IPv4 netip, httpguts token table, "
        "net/http.Header, maps.Copy, errors.Join, sync.RWMutex, the Go memory model, range-over-func. ")

# id -> (category, technique, text, design_ref, extra note)
CLAIMS = {
    'C01': ('proof', 'Lean 4 refinement proof of the radix tree to a coverage semantics (mutual structural induction over the nested node type, tree invariant, signed port coding) + differential tie with near-miss probes + the binary-search loop of the library proved equal to the ordered scans of the model at every node of every buildable tree',
            "Theorems (Props/C01.lean, Proofs/Tree.lean, Proofs/Ports.lean): C01_tree - for every finite list of well-formed patterns in every order and multiplicity and every origin, the tree built by successive Insert "
            "contains the origin iff some listed pattern denotes it (Spec.denotes: same scheme; host byte-equal, or ending in `.`+base with at least one more byte in front for `*.`; port equal or arbitrary for `:*`); C01_order - the verdict "
            "depends only on the set of patterns; C01_invariant - sorted edges/schemes/ports and label = first byte of each child's suffix hold for every tree the code can build; C01_parsed - every pattern ParsePattern accepts is well-formed; "
            "C01_config / C01_allow_all / C01_request - for an accepted configuration the raw Origin value is treated as allowed iff `*` is listed or it parses and a listed pattern denotes it; C01_browser_parse / C01_browser - the request-side lexer reads every serialised origin with a domain host "
            "(scheme, `://`, LDH labels, optional trailing dot, optional port 1-65535; up to the longest such string) exactly into its parts, so the decision on the header *string* is `some listed pattern denotes the origin it stands for`; C01_browser_parse_ipv4 / C01_browser_parse_ipv6 / C01_browser_ip - the same for dotted-quad and bracketed hosts (the request side does not look inside brackets, so no oracle is involved); C13_parse_sound (Props/C13.lean) - the converse: whatever string the lexer accepts is `scheme://host[:port]` of the origin it returns, so a string that is not a serialised origin is never treated like one. The core is insert_spec: Insert adds exactly the coverage "
            "of the new entry (descend, subsumption short-cut, new leaf, split into child'/grandchildren), including the Go code's peculiar duplicate test in node.add. Tie: tree suite (ParsePattern+Insert / Parse+Contains on pattern lists sharing "
            "non-boundary suffixes with probes derived from every pattern), lex suite (Parse), decision bits of the serve suite.",
            '6/C01', "C01_parsed/C01_config/C01_request assume that the IPv6 oracle never accepts a literal starting with `*` (true of netip.ParseAddr). Serialised origins with IP-literal hosts rest on the netip oracle (tie only); bracketed non-IP hosts are matched after bracket stripping (DESIGN 8.9)."),
    'C02': ('proof', 'Lean 4 theorem (browser verdict computed by a transcription of CORS-preflight fetch / CORS check on the model\'s responses = documented meaning, all configurations x intents x debug modes x tolerated ACRH shapes) + strict differential tie of whole responses + browser verdict evaluated in Lean on the implementation\'s responses + the request path of middleware.go (closure of Wrap, the three handlers, the four pipeline steps) translated from Go to Lean on every run and proved equal to the model',
            "Theorems C02 / C02_accepted / C02_invariance (Props/C02.lean): for every accepted configuration (what acceptance guarantees is itself proved: ICfg.WF, ICfg.ReqHdrsSound), either debug mode, every browser intent (serialised origin, method token, "
            "token header names, credentials mode, private-network target) and every tolerated shape of the ACRH list (Browser.Tolerated: split over lines, <=1 OWS byte per side, <=16 empty elements), Browser.verdict - the transcription of "
            "CORS-preflight fetch step 7, the PNA requirement and the CORS check in Spec/Browser.lean, evaluated on the responses of the model of Wrap - equals Browser.permits, the documented meaning; hence the verdict is independent of debug mode and of tolerated alterations. "
            "C02_preflight_verdict / C02_debug_steps / steps_ok_iff: server-side characterisation of the pipeline for every decision oracle. With C01_request the origin clause is `some listed pattern denotes the origin`. "
            "Tie: serve suite (strict comparison of status, every header and the decision bits, both debug modes, ACRH perturbations) and intents suite (the same Browser.verdict computed by the Lean driver on the Go middleware's actual responses must equal Browser.permits of the model's internal configuration).",
            '6/C02', 'Spec/Browser.lean is a trusted reading of the Fetch standard and PNA draft. Intents are restricted to serialised origins that the request-side lexer parses, method tokens and token header names (what browsers emit).'),
    'C03': ('proof', 'Lean 4 theorem (case analysis over the four dispatch paths, buffer invariant for the preflight pipeline) + differential tie + the request path of middleware.go (closure of Wrap, the three handlers, the four pipeline steps) translated from Go to Lean on every run and proved equal to the model',
            "Theorems C03 / C03_model / C03_accepted (Props/C03.lean): for every decision oracle, every accepted (well-formed) configuration, "
            "both debug modes, every request and pre-set headers, the model's response satisfies every clause of C03Spec (ACAO is `*` only for "
            "non-credentialed allow-all or the byte-exact first Origin of an allowed origin; ACAC only `true` next to such an echo when credentialed; "
            "nothing without an allowed origin; preflight-only and actual-only headers with exactly the configured values). "
            "Tie: strict comparison of whole responses on the serve suite incl. the malformed-request stream.",
            '6/C03', "'allowed origin' is read through the decision oracle (DESIGN 3d/8.1); its identification with pattern denotations is C01."),
    'C04': ('proof', 'Lean 4 theorem (corollary of C05: validator errors = specification violations) + table-equality obligations over regenerated facts + differential tie + the loop bodies of the four list validators and the two loop-free validators of config.go translated from Go to Lean on every run and proved equal to the step functions of the model',
            "Theorems C04 / C04_nil / C04_clauses (Props/C04.lean): whenever validation accepts a Config, Spec.prohibitions (the documented prohibitions written field by field, with hand-written Fetch name "
            "tables proved to have the same members as the regenerated Go tables) is empty: at least one origin; `*` never with credentials or a PNA mode; insecure/psl patterns only under the tolerate flags; "
            "no invalid/forbidden method, no invalid/forbidden/prohibited header name, `*` response header never with credentials; max-age in [-1,86400]; status 0 or 200-299; at most one PNA mode; an error comes with a nil middleware. "
            "C04_caseMap_sites / C04_caseMap_consts_ascii / C04_valid_ascii: every call of a case-mapping function (strings.ToLower/ToUpper behind util.ByteLowercase/ByteUppercase, methods.Normalize, methods.IsForbidden), regenerated with the conditions that dominate it, sits behind the validity test or has an ASCII constant argument, and valid names are ASCII - the precondition under which the model's byte maps equal the Unicode-aware library functions. Tie: validate suite (accept/reject), names suite (exhaustive over 256 bytes and all table entries), lex suite (ParsePattern verdicts), histories (Reconfigure's verdict must not depend on the configuration in force).",
            '6/C04', "Relative to the oracles ext (idna for xn-- labels, publicsuffix, IPv6 netip) and to Pat.parsePattern as the syntactic verdict on one pattern (the grammar itself is C13's business)."),
    'C05': ('proof', 'Lean 4 theorem: fold-with-accumulator validators = per-element specification (list equality, hence multiset equality) + differential tie + the loop bodies of the four list validators and the two loop-free validators of config.go translated from Go to Lean on every run and proved equal to the step functions of the model',
            "Theorems C05 / C05_accept / C05_reject / C05_value_verbatim / C05_bounds / C19_count (Props/C05.lean): for every Config and every oracle behaviour the leaves of the returned error are exactly "
            "Spec.prohibitions - same errors, same multiplicity, same order - so nothing is missed (no early exit) and nothing spurious is reported; a Config without violations is accepted; each error carries the "
            "value as supplied (forbidden methods are untouched by normalisation) and the documented bounds (regenerated constants proved equal to 204/200/299/5/86400/-1). Tie: validate suite compares the exact error tree "
            "(shape from errors.Join, type, Value, Reason/Type/bounds), checks non-nil exported pointer types and the `cors: ` message prefix on the Go side. C05_message_prefix: every return of every Error() method of cfgerrors starts from a constant (literal or fmt.Sprintf format, regenerated) that begins with `cors: `.",
            '6/C05', 'Message texts beyond the prefix are not modelled (no property constrains them).'),
    'C06': ('proof', 'Lean 4 theorem (validating Config() succeeds and yields the same handler function; stored-entries semantics of the tree, render = inverse of parse, round trips of the set folds and max-age) + relational round-trip suite computed on the Go side + history correspondence',
            "Theorem C06_roundtrip (Props/C06.lean): for every accepted configuration (no exception: Proofs/RenderIdem.lean shows that parsing the rendering of an accepted pattern gives the same pattern, also for an IPv4 address written in brackets, which is rendered without them), newInternalConfig accepts newConfig icfg, the resulting internal configuration "
            "gives Serve.serve icfg' = Serve.serve icfg (the same function of debug flag, request and pre-existing headers), and Config() of it agrees with Config() of the original on every field other than Origins (whose elements are among the configured patterns and build an equivalent tree). "
            "Theorem C06_stable: the Config() of that second middleware is accepted too and from then on the value is a fixed point, literally equal in every field, Origins included (the property's last sentence), whatever redundant or mutually subsuming patterns were listed and in whatever order. Its proof states what Tree.Insert does to the multiset of stored entries without the tree (Proofs/StoreAbs.lean: a stored entry makes the insertion a no-op, or the new entry is stored after removing the ports its wildcard port supersedes), proves by mutual induction over the radix tree that Node.insert realises exactly that up to permutation under the tree invariant (StoreOwn.lean, StoreExact.lean), shows that the surviving entries never conflict pairwise and that re-inserting them in their original order stores all of them again (Stable.lean), and uses that Elems sorts, so the survivors of a sorted insertion are re-inserted in their original order (OriginsStable.lean). "
            "C06_ctor: zero value + Reconfigure(&c) and NewMiddleware(c) are the same function of c; C06_flags, C06_status, C06_render_ipv6. Proof layers: Proofs/Elems.lean (stored entries: elems renders them, the tree denotes the union of their coverages, "
            "insertion stores only the new entry), Render.lean (Itoa vs the digit readers), RoundTrip.lean (rendering an accepted pattern gives back the string it was parsed from), TreeRoundTrip.lean, CfgRoundTrip.lean, C06Assembly.lean. "
            "Tie: the `roundtrip` suite builds four middlewares (from c, from Config(), zero+Reconfigure, Reconfigure(Config())) and compares their Go responses pairwise in both debug modes plus Config() stability; the `history` suite includes Reconfigure(Config()) steps; the `validate` suite compares Config() with the model's.",
            '6/C06', 'Nothing in the statement is left to the tie alone; the theorems keep one hypothesis about the IPv6 oracle (it accepts no text starting with `*`), which C06_stable_std discharges for the modelled net/netip that the driver uses.'),
    'C07': ('proof', 'Lean 4 invariant proof over a lock-level small-step model (any number of threads, any schedule) with programs regenerated from the source + schedule-point harness + race-detector stress + regenerated list of receiver-mutating methods pinned to the construction-time methods',
            "Theorems C07_drf (in every reachable state a thread about to write a guarded field has no concurrent reader/writer of a guarded field) and C07_atomic (when a reader leaves its critical section everything it read there equals the shared state "
            "at that instant and no writer is inside a critical section), by induction over arbitrary traces of arbitrarily many threads running well-locked programs (Props/C07.lean, Model/Conc.lean); C07_facts / C07_wrap_snapshot / C07_only_these / C07_immutable "
            "(decide over facts regenerated from middleware.go on every run): the instruction lists of Wrap's handler, Reconfigure, SetDebug, Config, NewMiddleware are well-locked with one critical section each, Wrap reads both fields inside its read region, "
            "no other function touches the guarded fields, the request path never writes through the configuration; C07_published_immutable: every statement that writes into an internalConfig value (regenerated list function|field|kind) sits in a construction function, so neither Config()/newConfig nor the request path writes into a published configuration. Tie: `schedule` suite (Reconfigure/SetDebug/Config executed from inside Header(), WriteHeader and the wrapped handler; response must be that of the "
            "entry state, next request that of the new state), `stress` suite (every response equals that of one of the four states; thorough tier under go build -race), `history` suite.",
            '6/C07', 'PARTIAL w.r.t. the Go runtime: that sync.RWMutex implements the modelled lock semantics, that the Go memory model makes lock-ordered accesses race-free, and that the extracted instruction lists are what the compiled code does, are trusted; the race detector and the schedule-point harness exercise them.'),
    'C08': ('proof', 'Lean 4 theorem on the sequential state machine + history correspondence + Reconfigure / SetDebug translated from Go to Lean on every run and proved equal to the transitions of the model',
            "Theorems C08 / C08_error_iff / C08_obs (Props/C08.lean): for every state and every Config that validation rejects, Reconfigure returns the "
            "error and the model state (configuration, debug) is literally unchanged, hence all responses and Config() too. Tie: random histories "
            "with invalid reconfigurations, probes after every step.",
            '6/C08', 'Trivial in the model because validation builds a fresh value before the critical section; that shape of the Go code is what the history suite checks.'),
    'C09': ('proof', 'Lean 4 simulation proof by induction over operation lists + history correspondence + the request path of middleware.go (closure of Wrap, the three handlers, the four pipeline steps) translated from Go to Lean on every run and proved equal to the model',
            "Theorems C09_sim_zero / C09_sim_new / C09_ctor (Props/C09.lean): over operation sequences of any length the model of "
            "Middleware follows the documented debug state machine (off after creation, SetDebug no-op on passthrough, kept by successful Reconfigure, "
            "cleared by Reconfigure(nil), untouched by a failed one); C09_reachable_accepted / C09_reachable_response: after any such sequence the middleware is passthrough or holds the internal form of an accepted Config, and every response of the handler returned by Wrap is the untouched pass-through or Serve.serve icfg debug with the debug mode the state machine prescribes (so the per-configuration theorems of the other properties speak about every reachable state); C09_nonpreflight / C09_preflight_next: debug has no influence on non-preflight "
            "requests and never lets a preflight reach the handler; C09_preflight_frame: on a preflight every response header other than the six diagnostic ones "
            "(Allow-Origin/-Credentials/-Private-Network/-Methods/-Headers, Max-Age) is identical in both debug modes; C09_preflight_success: a preflight that succeeds without debug mode succeeds with it, "
            "with the same status and identical headers except Allow-Headers, which is either identical or the full allowed list. Tie: history suite observing the state after every step; pairs09 suite (debug on/off responses of the Go middleware).",
            '6/C09', "None beyond the trusted base: the delta on failing preflights is bounded by C09_preflight_frame (only diagnostic headers and the status may differ) and C16_fail (debug off: nothing but Vary)."),
    'C10': ('proof', 'Lean 4 2-safety theorem (reads-only lemmas per dispatch path) + differential tie + the request path of middleware.go (closure of Wrap, the three handlers, the four pipeline steps) translated from Go to Lean on every run and proved equal to the model',
            "Theorems C10 / C10_accepted / C10_preserve (Props/C10.lean): for every decision oracle, accepted configuration, debug mode, pre-set headers "
            "and every ordered pair of requests with the same method agreeing (as header lookups) on the names listed in the Vary values the middleware "
            "added to the first response, the two responses are equal; earlier Vary values are kept as a prefix. Tie: serve suite (Vary compared like any header).",
            '6/C10', 'Agreement on a header is equality of lookups (absent differs from present-with-zero-values), DESIGN 8.2.'),
    'C11': ('proof', 'Lean 4 theorem (dispatch + frame) + differential tie with identity/exactly-once instrumentation + the request path of middleware.go (closure of Wrap, the three handlers, the four pipeline steps) translated from Go to Lean on every run and proved equal to the model',
            "Theorems C11_dispatch / C11_preflight / C11_frame / C11_passthrough / C11 (Props/C11.lean): the handler is invoked iff the request is not a preflight "
            "(OPTIONS with at least one Origin and one ACRM value); preflights get a status from the middleware; on other requests no status is written, every header other than "
            "Vary/ACAO/ACAC/ACEH is untouched and Vary is only appended to; a passthrough middleware is the identity. Tie: serve suite with an inner handler recording "
            "call count, pointer identity of writer and request, and that its own output reaches the recorder unchanged.",
            '6/C11', 'Pointer identity, exactly-once and empty body are runtime facts observed by the harness, not theorems.'),
    'C12': ('proof', 'Lean 4 non-interference theorem over an ownership model instantiated with regenerated install facts + adversarial history harness',
            "Theorems C12.installs_safe / config_fresh / no_request_path_writes / handler_gets_same_args (decide over facts regenerated from the source on every run: every header-map write on a path that continues into the wrapped handler is "
            "Header.Add/Set (fresh) or a slice of the current request; Config() stores only fresh slices; the request path never writes through the configuration or to package-level variables), C12_noninterference (with these facts an adversary "
            "overwriting every cell it can reach cannot change singleton or configuration-owned cells that later calls read) and C12_history (a response depends on state, request and pre-set headers only). "
            "Tie: history and serve suites run with -adversarial (the harness overwrites every slice of the Config passed in, of every Config() result, and - inside the wrapped handler - of the request and response header maps) and are compared with the model.",
            '6/C12', 'PARTIAL w.r.t. Go aliasing: that the extractor classifies every Go expression correctly (v[:1] shares, []string{x} and Header.Add/Set allocate, slices.Clone/strings.Split/Elems allocate) is trusted and exercised by the adversarial harness, not proved.'),
    'C13': ('proof', 'Lean 4 theorems (acceptance of the documented grammar: domain hosts outright, IPv4 outright, IPv6 and Punycode relative to the library oracles; self-match; form of every accepted pattern and rejection of the documented defects; documented constants and alphabets) + differential tie on grammar-directed strings with a grammar judge + the loop body of validateOrigins translated from Go to Lean on every run and proved equal to the step function of the model',
            "Theorems C13_accept (every pattern of the documented form with a domain host - Spec/Grammar.lean, the grammar given generatively by parts: scheme, optional `*.`, LDH labels, optional trailing dot, optional port or `:*` - is accepted by the model of ParsePattern "
            "for every behaviour of the library oracles and parses to exactly its parts), C13_accept_ipv4 (dotted-quad hosts, loopback iff the first field is 127), C13_accept_idna (any lexical domain that passes the IDNA check of the model, i.e. Punycode hosts relative to profile.ToASCII), "
            "C13_accept_ipv6 (bracketed literals relative to netip.ParseAddr: zone-free, not IPv4-mapped, canonical text = the literal), C13_reject_ipv6_defects (conversely every accepted IPv6 pattern has these three properties), C13_self (an accepted pattern without `*.`/`:*`, presented verbatim as Origin within the length cap, is parsed by the request-side lexer into an origin the pattern denotes), "
            "C13_accept_self (a documented wildcard-free pattern presented verbatim as an Origin parses and is denoted, also at all length maxima at once), C13_accepted_form / C13_reject_bad_host_byte (every accepted bracket-free pattern is literally scheme://host + nothing / `:*` / `:`canonical-decimal(1..65535), "
            "host bytes from the documented alphabet: upper-case and non-ASCII hosts, userinfo, path, query, fragment, whitespace, empty/zero/over-range/over-long/leading-zero ports are rejected), "
            "C13_constants / C13_alphabets (the regenerated length maxima, ports, separators and byte tables are the documented ones; the request-side cap is the sum of the maxima), C13_accepted_shape, C13_reject_null/_star/_file/_no_sep/_bad_first_byte, C13_parse_sound (the request-side lexer accepts nothing but serialisations), C13_accept_ipv6_canonical (for every IPv6 address that is not IPv4-mapped, the pattern with its RFC 5952 canonical text between brackets is accepted: net/netip on IPv6 text is modelled in Model/Net.lean, Net.fields_render proves parse(render(address)) = address for the model, and the driver compares the model with the library on every host the harness reports and on the exhaustive ip6x suite), C13_accepted_ipv6_form (the converse: an accepted IPv6 host is the canonical text of the address it parses to), C13_netip_hext (Props/C13.lean). "
            "Tie: `lex` suite (ParsePattern verdict and Reason, Parse results on grammar-directed strings, patterns at every maximum at once, single-defect and boundary-splice mutations), judged by an independent grammar oracle.",
            '6/C13', 'IPv6 literals and Punycode labels are judged by net/netip and x/net/idna, modelled as oracles: the theorems about them are relative to the oracle answers, which the tie takes from the real libraries per case; grey zones (`_`, hyphens in label positions 3-4, digit-leading last label) are excluded from the grammar.'),
    'C14': ('proof', 'Lean 4 equivalence proof model = specification (induction over fuel/lines/elements; strict total order on byte strings) + differential tie + headers.Check with the binary search of the library spelled out proved equal to the model',
            "Theorems C14 / C14_sound / C14_browser / C14_wf (Props/C14.lean): for every SortedSet maintained by Add and every sequence of field lines over arbitrary bytes, "
            "the model of headers.Check (windowed comma cut of maxLen+3 bytes, bounded OWS trimming with its check-before-test order, global empty-element counter, IndexAfter on the "
            "suffix of the sorted set) equals Spec.approved: every element has at most one OWS byte per side, at most 16 (regenerated fact, proved = 16) elements are empty, the non-empty "
            "ones are allowed names in strictly increasing order. Corollaries: no unallowed name is ever approved; a browser's sorted unique list of allowed names is approved. "
            "Tie: acrh suite (headers.Check and TrimOWS directly, elements around the length cut-off, 0-3 OWS bytes, 15/16/17 empties, split lines) and the ACRH decision bit of the serve suite.",
            '6/C14', 'C14_browser_tolerated states completeness for every tolerated re-shaping (split lines, <=1 OWS byte per side, <=16 empties) of a sorted unique list.'),
    'C15': ('proof', 'Lean 4 theorem (twins build the same handler function: canonical sorted sets + order-independence of the three set folds + C01 for the tree) + relational twins suite computed on the Go side + the loop bodies of the four list validators and the two loop-free validators of config.go translated from Go to Lean on every run and proved equal to the step functions of the model',
            "Theorem C15_full (Props/C15.lean): two accepted configurations whose lists mean the same sets (relation Twin, Proofs/Twins.lean: same origin patterns, same effective methods after normalisation, "
            "same effective header names after byte-lowercasing, `*` and Authorization listed in both or neither, equal scalars) satisfy Serve.serve i1 = Serve.serve i2 - the same function of debug flag, request and "
            "pre-existing header map. Twin.of_same_members / respell_requestHeaders / respell_responseHeaders / respell_methods / add_safelisted_method / symm / trans show that reordering, duplication, re-casing, method re-spelling "
            "and dropped entries yield twins; C15_perm is the permutation corollary; C15_accept_members (via allErrs_nil_iff): configurations whose lists have the same members in any order and multiplicity are accepted or rejected together; C15_accept_respelt / C15_respelt (relation Respelt, Proofs/Respell.lean: every entry of one list is a spelling — same byte-lowercase header name, same normalised method — of an entry of the other, or a safelisted method / response-header name): if c1 is accepted then so is c2 and the two handlers are the same function, with no hypothesis about c2 left; C15_star_auth, C15_errors_perm, C15_accept_perm as before. Proof ingredients: sorted sets are canonical (SortedSet.ext_members), "
            "the folds of validateMethods / validateRequestHeaders / validateResponseHeaders are characterised by flags-as-disjunctions and member sets (Proofs/Folds.lean), the handler reads the tree only through IsEmpty and Contains, C01_config. "
            "Tie: the `twins` suite builds a twin by permuting/duplicating entries, re-casing header names, re-spelling normalisable methods and adding safelisted names, and compares the two Go middlewares' responses on derived requests in both debug modes; "
            "the validate and serve suites tie the model's folds and handler to the code.",
            '6/C15', 'C15_full takes both acceptances as hypotheses; C15_respelt discharges the second one for the transformations the property names (order, repetition, letter case of header names, normalisable method spellings, safelisted entries); both need the C01 hypothesis that the IPv6 oracle accepts no `*`-leading literal.'),
    'C16': ('proof', 'Lean 4 theorem (value-provenance invariant of the preflight buffer) + differential tie + the request path of middleware.go (closure of Wrap, the three handlers, the four pipeline steps) translated from Go to Lean on every run and proved equal to the model',
            "Theorems C16 / C16_fail / C16_distinct / C16_accepted (Props/C16.lean): debug off, any preflight: status is the single regenerated failure status or the configured "
            "success status (distinct for accepted configurations); with the failure status nothing but Vary changes; every header value the middleware sets is `*`, `true`, "
            "the configured max-age, `*,authorization` (only when the configuration allows all request headers, lists Authorization and is anonymous: the documented case) or a slice of the request (first Origin, first ACRM, the ACRH lines) - never the configured allow-lists. Tie: serve / servex suites and histories (debug off is a state of the documented state machine), with a judge that evaluates the same predicate on the implementation's response.",
            '6/C16', 'The failure status is a regenerated fact (403 today); a per-reason status breaks the fact-dependent model and the tie.'),
    'C17': ('proof', 'Lean 4 theorems: totality of the model (structural recursion accepted by the kernel) + the preconditions of every manual index/slice of the Go code + recover-instrumented differential tie + index-level refinement of all 60 index/slice sites',
            "PARTIAL. Every function of the model is total by structural recursion. Theorems C17_value_nonempty / C17_insert_key_nonempty (the host value of every accepted pattern, and the key handed to the tree loop after stripping `*`, is non-empty; "
            "a subdomain pattern is `*.` + non-empty base: Tree.Insert's s[0] and hostOnly's Value[2:]), C17_indexAfter_lt (IndexAfter's precondition n < Size is maintained by Check), C17_cutAtComma_in_range (str[i+1:]), C17_bracket_end (str[1:end]), "
            "C17_status_range (uint8 status arithmetic cannot wrap for accepted configurations), C17_parsePort_hoist; C17_ix_parseScheme / _parsePort / _fastParseHost / _lastByte / _splitAtCommonSuffix / _trimOWS / _cutAtComma / _parse / _treeContains / _originAllowed (the request path Origin header -> Parse -> Tree.Contains on the parallel slices of the nodes) / _check (all of headers.Check with IndexAfter: start <= Size is a proved loop invariant) / _first / _insert / _asciiSet (the [8]uint32 bit set computes list membership for every byte): Model/Ix.lean transliterates the functions that index and slice strings by hand statement by statement with int counters and Go's checked s[i], s[lo:hi] (out of range or out of loop fuel = error), and for every input the index-level program returns ok of exactly what the list-level model returns (refinement, Proofs/IxRefine.lean); C17_ix_treeInsert / _treeBuild / _add / _upsertEdge / _deleteSameSign / _treeElems / C17_node_lengths (Model/IxTree.lean, Proofs/IxTreeRefine.lean: the configuration-time half of the radix tree on nodes that keep Go's five parallel fields; inserting any list of parsed patterns from the zero Tree never panics, gives the slice representation of the list-level tree C01 is proved about, and keeps len(edges) == len(children), len(schemes) == len(ports) at every node), C17_ix_parseHostPattern / _hostOnly / _acma (Proofs/IxPatternRefine.lean); C17_ix_bodies pins the text of the 27 transliterated functions (fingerprints regenerated on every run); C17_sites: the complete list of index and slice expressions of the non-test code (60 sites), each with the conditions that syntactically dominate it (left operands of the &&/|| chains it is a right operand of, enclosing if/for/range/case conditions, negations of earlier leave-guards; regenerated from the source on every run), equals the audited list, "
            "each entry annotated with the guard or precondition theorem that keeps it in range, so a new or changed index expression and a dropped, weakened or reordered guard break an obligation even when no generated input reaches them (Props/C17.lean). Tie: every call of every suite (lex, tree, acrh, validate, serve, errors, history) runs under recover; a panic is a mismatch with its input as replay.",
            '6/C17', 'PARTIAL: panics inside library calls and the Go runtime (nil maps from a broken ResponseWriter, stack exhaustion) are outside the model; for all 60 sites the index-level refinement theorems prove in-range-ness for every input; in them slices.BinarySearch is modelled as lower bound + equality (what it returns on the sorted slices the tree keeps; sortedness is the proved tree invariant), append+slices.Sort as sorted insertion, a write through &n.children[i] as a functional update of position i.'),
    'C18': ('other', 'Lean 4 cost-model theorem + regenerated loop/install facts + allocation measurement (testing.AllocsPerRun) over size families',
            "PARTIAL. Theorem C18_bound (Props/C18.lean): in the cost semantics of the model (allocating header primitives; scanners return sub-views and are cost-free by construction) every request costs at most 4, "
            "independently of every length and element count. C18_no_alloc_in_loops / C18_loop_callees / C18_preflight_installs: regenerated facts (decide): no append/make/new/string concatenation/conversion/literal inside any `for` loop "
            "of the request path, loop callees within a fixed allow-list, preflight installs are sub-views or pre-built values. Measured conformance: the `allocs` suite measures testing.AllocsPerRun for 56 families at sizes 1 B .. 1 MiB / "
            "1 .. 100 000 elements and requires a count that does not grow and stays <= 8.",
            '6/C18', 'Whether Go allocates is decided by escape analysis and the runtime: not expressible in the model; the claim about the real code rests on the measurement.'),
    'C19': ('proof', 'Lean 4 theorem by mutual structural induction over join trees + differential tie + the loop body of validateOrigins translated from Go to Lean on every run and proved equal to the step function of the model',
            "Theorems C19 / C19_full / C19_break (Props/C19.lean): for every join tree and every consumer (hence every break position) "
            "the model of cfgerrors.All never yields after stop and yields exactly the accepted prefix of the leaves. The model is tied to "
            "cfgerrors.All by running real errors.Join trees x all break positions through both.",
            '6/C19', 'C19_count (number of yielded errors = number of violations) rests on the validate suite until C05 is proved.'),
}

PENDING = {
}

ALL = ['C%02d' % i for i in range(1, 20)]


def main():
    checks = []
    for pid in ALL:
        if pid not in CLAIMS:
            continue
        cat, tech, text, ref, extra = CLAIMS[pid]
        checks.append(dict(
            property_id=pid,
            quick_cmd='./check %s quick' % pid,
            thorough_cmd='./check %s thorough' % pid,
            evidence_file='/verif/evidence/%s.json' % pid,
            replay_cmd_template='./check %s --replay {path}' % pid,
            engine='lean-proofs+diff-harness',
            level_claimed=dict(category=cat, text=text, design_ref='DESIGN.md ' + ref),
            level_note=NOTE + extra,
            technique=tech,
        ))
    na = []
    for pid in ALL:
        if pid not in CLAIMS:
            na.append(dict(property_id=pid, reason=PENDING.get(pid, 'not claimed yet: the Lean theorems for this property are still being built in this round (model and correspondence harness exist)')))
    m = dict(
        version=1,
        setup_cmd='./tools/setup.sh',
        hooks=dict(guard='verif',
                   enable='cd /repo && go build -tags verif -overlay /verif/build/overlay.json ./internal/verifdrv  (harness files live in /verif/harness/inject and are overlaid; nothing is written to /repo)',
                   baseline_off_cmd="cd /repo && GOFLAGS=-mod=mod GOPROXY=off GOSUMDB=off go test -json -vet=off -count=1 -timeout 25m ./...",
                   source_commits=[], add_only=True),
        engines=[
            dict(name='lean-proofs', path='lean/', serves_properties=sorted(CLAIMS), kind_free_text='Lean 4 model (CorsVerif/Model), specifications (CorsVerif/Spec), theorems (CorsVerif/Props), built with lake; axioms audited'),
            dict(name='facts-extractor', path='harness/extract/', serves_properties=sorted(CLAIMS), kind_free_text='go/ast + go/types extractor regenerating CorsVerif/Gen/Facts.lean from /repo on every run'),
            dict(name='diff-harness', path='harness/inject/', serves_properties=sorted(CLAIMS), kind_free_text='Go correspondence harness overlaid into /repo at build time; line protocol against the native Lean driver (lean/Main.lean)'),
        ],
        checks=checks,
        not_applicable=na,
        notes='See DESIGN.md. ./check <id> quick|thorough|--replay <file>. Known findings: known-findings.txt.',
    )
    with open(V + '/MANIFEST.json', 'w') as f:
        json.dump(m, f, indent=1)
    print('MANIFEST.json: %d checks, %d not_applicable' % (len(checks), len(na)))


if __name__ == '__main__':
    main()
