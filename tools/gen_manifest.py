#!/usr/bin/env python3
"""Regenerate /verif/MANIFEST.json from the table below (one entry per claimed property)."""
import json, os

V = '/verif'

NOTE = ("Trusted base: Lean 4.33.0 kernel with axioms propext/Classical.choice/Quot.sound only (audited per theorem on every run; "
        "no sorry/admit/native_decide/bv_decide/own axioms); the hand-written Lean model lean/CorsVerif/Model tied to /repo by "
        "Gen/Facts.lean (regenerated from the working tree by harness/extract) and by the differential correspondence harness "
        "(harness/inject, overlaid into /repo's module at build time); library behaviour modelled, not verified: x/net idna and "
        "publicsuffix and IPv6 netip (oracles answered by the real libraries per case), IPv4 netip, httpguts token table, "
        "net/http.Header, maps.Copy, errors.Join, sync.RWMutex, the Go memory model, range-over-func. ")

# id -> (category, technique, text, design_ref, extra note)
CLAIMS = {
    'C19': ('proof', 'Lean 4 theorem by mutual structural induction over join trees + differential tie',
            "Theorems C19 / C19_full / C19_break (Props/C19.lean): for every join tree and every consumer (hence every break position) "
            "the model of cfgerrors.All never yields after stop and yields exactly the accepted prefix of the leaves. The model is tied to "
            "cfgerrors.All by running real errors.Join trees x all break positions through both.",
            '6/C19', 'C19_count (number of yielded errors = number of violations) rests on the validate suite until C05 is proved.'),
}

PENDING = {
}

ALL = ['C%02d' % i for i in range(1, 20)]


def main():
    checks = []
    for pid in ALL:
        if pid not in CLAIMS:
            continue
        cat, tech, text, ref, extra = CLAIMS[pid]
        checks.append(dict(
            property_id=pid,
            quick_cmd='./check %s quick' % pid,
            thorough_cmd='./check %s thorough' % pid,
            evidence_file='/verif/evidence/%s.json' % pid,
            replay_cmd_template='./check %s --replay {path}' % pid,
            engine='lean-proofs+diff-harness',
            level_claimed=dict(category=cat, text=text, design_ref='DESIGN.md ' + ref),
            level_note=NOTE + extra,
            technique=tech,
        ))
    na = []
    for pid in ALL:
        if pid not in CLAIMS:
            na.append(dict(property_id=pid, reason=PENDING.get(pid, 'not claimed yet: the Lean theorems for this property are still being built in this round (model and correspondence harness exist)')))
    m = dict(
        version=1,
        setup_cmd='./tools/setup.sh',
        hooks=dict(guard='verif',
                   enable='cd /repo && go build -tags verif -overlay /verif/build/overlay.json ./internal/verifdrv  (harness files live in /verif/harness/inject and are overlaid; nothing is written to /repo)',
                   baseline_off_cmd="cd /repo && GOFLAGS=-mod=mod GOPROXY=off GOSUMDB=off go test -json -vet=off -count=1 -timeout 25m ./...",
                   source_commits=[], add_only=True),
        engines=[
            dict(name='lean-proofs', path='lean/', serves_properties=sorted(CLAIMS), kind_free_text='Lean 4 model (CorsVerif/Model), specifications (CorsVerif/Spec), theorems (CorsVerif/Props), built with lake; axioms audited'),
            dict(name='facts-extractor', path='harness/extract/', serves_properties=sorted(CLAIMS), kind_free_text='go/ast + go/types extractor regenerating CorsVerif/Gen/Facts.lean from /repo on every run'),
            dict(name='diff-harness', path='harness/inject/', serves_properties=sorted(CLAIMS), kind_free_text='Go correspondence harness overlaid into /repo at build time; line protocol against the native Lean driver (lean/Main.lean)'),
        ],
        checks=checks,
        not_applicable=na,
        notes='See DESIGN.md. ./check <id> quick|thorough|--replay <file>. Known findings: known-findings.txt.',
    )
    with open(V + '/MANIFEST.json', 'w') as f:
        json.dump(m, f, indent=1)
    print('MANIFEST.json: %d checks, %d not_applicable' % (len(checks), len(na)))


if __name__ == '__main__':
    main()
