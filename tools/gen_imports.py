#!/usr/bin/env python3
"""Regenerate lean/CorsVerif.lean: one import per module of the library."""
import glob, os
V = os.path.dirname(os.path.dirname(os.path.abspath(__file__)))
out = []
for d in ('Model', 'Gen', 'Spec', 'Proofs', 'Props', 'Driver'):
    for f in sorted(glob.glob('%s/lean/CorsVerif/%s/*.lean' % (V, d))):
        out.append('import CorsVerif.%s.%s' % (d, os.path.basename(f)[:-5]))
open(V + '/lean/CorsVerif.lean', 'w').write('\n'.join(out) + '\n')
