"""Runner for the per-property checks (see /verif/check and DESIGN.md 3c)."""
import fcntl, hashlib, json, os, re, shutil, subprocess, sys, time

V = os.environ.get('VERIF_ROOT') or os.path.dirname(os.path.dirname(os.path.abspath(__file__)))
REPO = os.environ.get('VERIF_REPO') or '/repo'   # the override exists for tools/mutscan (scratch copies); the registered commands never set it
BUILD = V + '/build'
LEAN = V + '/lean'
ENV = dict(os.environ, GOFLAGS='-mod=mod', GOPROXY='off', GOSUMDB='off', GOTOOLCHAIN='local', VERIF_ROOT=V, VERIF_REPO=REPO)
ALLOWED_AXIOMS = {'propext', 'Classical.choice', 'Quot.sound'}

TRUSTED_BASE = [
    "Lean 4.33.0 kernel; axioms limited to propext, Classical.choice, Quot.sound (audited with #print axioms on every theorem of the property file); no sorry/admit/native_decide/bv_decide/own axioms",
    "hand-written Lean model of jub0bs/cors (lean/CorsVerif/Model); tied to /repo by (a) Gen/Facts.lean regenerated from the working tree by harness/extract and (b) the differential correspondence harness (harness/inject, built into /repo's module with go build -overlay) whose coverage is reported below",
    "library behaviour modelled, not verified: x/net idna (oracle for xn-- labels, plain-ASCII rule modelled), publicsuffix (oracle), net/netip (IPv4 and IPv6 text modelled in Model/Origins.lean and Model/Net.lean; the driver compares the IPv6 model with the library's answers on every host the harness reports and refuses to answer when they differ), httpguts token table, net/http.Header Add/Set, maps.Copy, errors.Join, sync.RWMutex, Go memory model, range-over-func",
    "specifications written by hand from the documentation and the standards, trusted as readings: Spec/Denote (what a pattern denotes), Spec/Prohibitions (what a Config may not be), Spec/ACRH (which header lists are approved), Spec/Browser (CORS-preflight fetch, CORS check, PNA), Spec/Grammar (documented pattern grammar), Spec/Fetch (name tables)",
    "pinned/Facts.lean: the facts of the verified tree; when the regenerated facts differ, the suites are also compared against the model built from the pinned facts",
    "the Lean compiler for the native driver (used for the tie only, not for any theorem); the Python runner and judges (tools/) that project, compare and classify outputs",
]


def log(*a):
    print(*a, file=sys.stderr, flush=True)


def sh(cmd, cwd=None, timeout=None, env=None, stdin=None):
    p = subprocess.run(cmd, cwd=cwd, env=env or ENV, stdout=subprocess.PIPE, stderr=subprocess.STDOUT,
                       timeout=timeout, stdin=stdin)
    return p.returncode, p.stdout.decode('utf-8', 'replace')


# --------------------------------------------------------------------------- staging

class Stage:
    """Facts, Lean obligations, driver and harness rebuilt from /repo's working tree."""

    def __init__(self, prop):
        self.prop = prop
        self.facts_ok = True
        self.facts_log = ''
        self.lean_ok = True
        self.lean_log = ''
        self.driver = LEAN + '/.lake/build/bin/driver'
        self.driver_fresh = True
        self.harness_ok = True
        self.harness_log = ''
        self.cmds = []
        self.facts_changed = []     # names of regenerated facts that differ from the pinned facts
        self.pinned = None          # driver built from the pinned facts (used when facts_changed)

    def run(self):
        os.makedirs(BUILD, exist_ok=True)
        with open(BUILD + '/.lock', 'w') as lk:
            fcntl.flock(lk, fcntl.LOCK_EX)
            self._extract()
            self._lake()
            self._harness()

    def _extract(self):
        exe = BUILD + '/extract'
        src = V + '/harness/extract'
        newest = max(os.path.getmtime(os.path.join(src, f)) for f in os.listdir(src))
        if not os.path.exists(exe) or os.path.getmtime(exe) < newest:
            rc, out = sh(['go', 'build', '-o', exe, '.'], cwd=src)
            if rc != 0:
                self.facts_ok, self.facts_log = False, out
                return
        cmd = [exe, '-repo', REPO, '-out', LEAN + '/CorsVerif/Gen/Facts.lean']
        self.cmds.append(' '.join(cmd))
        rc, out = sh(cmd)
        if rc != 0:
            self.facts_ok, self.facts_log = False, out
            return
        self.facts_changed = facts_diff(V + '/pinned/Facts.lean', LEAN + '/CorsVerif/Gen/Facts.lean')
        if self.facts_changed:
            self._pinned_driver()

    def _pinned_driver(self):
        """The driver of the model as verified against the pinned facts (built by tools/setup.sh, or here)."""
        pinned = BUILD + '/driver.pinned'
        src = V + '/pinned/Facts.lean'
        newest = os.path.getmtime(src)
        for root, _, files in os.walk(LEAN):
            if '.lake' in root:
                continue
            for f in files:
                if f.endswith('.lean') and not root.endswith('/Gen'):
                    newest = max(newest, os.path.getmtime(os.path.join(root, f)))
        if not os.path.exists(pinned) or os.path.getmtime(pinned) < newest:   # the model or the pinned facts moved
            gen = LEAN + '/CorsVerif/Gen/Facts.lean'
            cur = open(gen).read()
            try:
                open(gen, 'w').write(open(src).read())
                rc, out = sh(['lake', 'build', 'driver'], cwd=LEAN, timeout=3000)
                if rc == 0:
                    shutil.copy(LEAN + '/.lake/build/bin/driver', pinned)
            finally:
                open(gen, 'w').write(cur)
        self.pinned = pinned if os.path.exists(pinned) else None

    def _lake(self):
        target = 'CorsVerif.Props.' + self.prop
        cmd = ['lake', 'build', target, 'driver']
        self.cmds.append('cd lean && ' + ' '.join(cmd))
        rc, out = sh(cmd, cwd=LEAN, timeout=3000)
        self.lean_log = out
        if rc != 0:
            self.lean_ok = False
            # is the driver itself still buildable?
            rc2, _ = sh(['lake', 'build', 'driver'], cwd=LEAN, timeout=3000)
            if rc2 != 0:
                self.driver_fresh = False
                pinned = BUILD + '/driver.pinned'
                self.driver = pinned if os.path.exists(pinned) else None

    def _harness(self):
        cmd = [V + '/tools/build_harness.sh']
        self.cmds.append(' '.join(cmd))
        rc, out = sh(cmd)
        if rc != 0:
            self.harness_ok, self.harness_log = False, out


def facts_diff(pinned_path, gen_path):
    """Names of the `def`s whose text differs between the pinned and the regenerated facts."""
    def defs(path):
        d, name = {}, None
        try:
            for line in open(path):
                m = re.match(r'def (\S+)', line)
                if m:
                    name = m.group(1)
                    d[name] = ''
                if name:
                    d[name] += line
        except FileNotFoundError:
            return None
        return d
    a, b = defs(pinned_path), defs(gen_path)
    if a is None or b is None:
        return []
    return sorted(k for k in set(a) | set(b) if a.get(k) != b.get(k))


def audit_axioms(prop):
    """Return (list of (theorem, axioms)), raw output) for Props/<prop>.lean."""
    rc, out = sh(['lake', 'env', 'lean', 'CorsVerif/Props/%s.lean' % prop], cwd=LEAN, timeout=3000)
    res = []
    for m in re.finditer(r"'([^']+)' depends on axioms: \[([^\]]*)\]", out, re.S):
        res.append((m.group(1), [a.strip() for a in m.group(2).replace('\n', ' ').split(',') if a.strip()]))
    for m in re.finditer(r"'([^']+)' does not depend on any axioms", out):
        res.append((m.group(1), []))
    return rc, res, out


FORBIDDEN = re.compile(r'\b(sorry|admit|native_decide|bv_decide|implemented_by|unsafe)\b|^\s*axiom\s|maxHeartbeats 0', re.M)


def grep_forbidden():
    hits = []
    for root, _, files in os.walk(LEAN + '/CorsVerif'):
        for f in files:
            if not f.endswith('.lean'):
                continue
            p = os.path.join(root, f)
            txt = open(p).read()
            # strip comments
            txt = re.sub(r'/-.*?-/', lambda m: '\n' * m.group(0).count('\n'), txt, flags=re.S)
            txt = re.sub(r'--.*', '', txt)
            for m in FORBIDDEN.finditer(txt):
                hits.append('%s: %s' % (os.path.relpath(p, V), m.group(0).strip()))
    return hits


# --------------------------------------------------------------------------- suites and projections

def hx(s):
    return s.encode().hex()


H_VARY, H_ACAO, H_ACAC, H_ACEH = hx('Vary'), hx('Access-Control-Allow-Origin'), hx('Access-Control-Allow-Credentials'), hx('Access-Control-Expose-Headers')
H_ACAM, H_ACAH, H_ACAPN, H_ACMA = hx('Access-Control-Allow-Methods'), hx('Access-Control-Allow-Headers'), hx('Access-Control-Allow-Private-Network'), hx('Access-Control-Max-Age')
H_ORIGIN, H_ACRM, H_ACRH = hx('Origin'), hx('Access-Control-Request-Method'), hx('Access-Control-Request-Headers')
CORS_RESP = [H_ACAO, H_ACAC, H_ACAM, H_ACAH, H_ACAPN, H_ACMA, H_ACEH]


def dec_map(s):
    """'k=v,v;k=~' -> dict k -> list of hex values ('-' is the empty string)"""
    out = {}
    if s in ('~', ''):
        return out
    for e in s.split(';'):
        k, _, v = e.partition('=')
        out[k] = [] if v in ('~', '~~') else v.split(',')
    return out


def parse_resp(r):
    f = r.split('\t')
    if len(f) < 4:
        return None
    return dict(status=f[0], next=f[1], hdrs=dec_map(f[2]), flags=f[3])


def serve_case(case):
    """fields of a serve / h.serve case line: (cfg, debug, method, req hdrs, pre) — cfg/debug None for h.serve"""
    f = case.split('\t')
    if f[0] == 'serve':
        return dict(cfg=f[1], debug=f[3], method=f[4], req=dec_map(f[5]), pre=dec_map(f[6]))
    return dict(cfg=None, debug=None, method=f[2], req=dec_map(f[3]), pre=dec_map(f[4]))


def is_preflight(sc):
    return sc['method'] == hx('OPTIONS') and len(sc['req'].get(H_ORIGIN, [])) > 0 and len(sc['req'].get(H_ACRM, [])) > 0


def view_c11(sc, r):
    if r is None:
        return 'unparsable'
    if r['next'] == '0':
        return 'answered status=%s flags=%s' % ('yes' if r['status'] != '-' else 'no', r['flags'])
    others = sorted((k, tuple(v)) for k, v in r['hdrs'].items() if k not in (H_VARY, H_ACAO, H_ACAC, H_ACEH))
    pv = sc['pre'].get(H_VARY, [])
    vary_ok = r['hdrs'].get(H_VARY, [])[:len(pv)] == pv
    return 'passed status=%s flags=%s others=%s vary_prefix=%s' % (r['status'], r['flags'], others, vary_ok)


def view_cors(r):
    if r is None:
        return 'unparsable'
    return '%s %s' % ('S' if r['status'] != '-' else '-', sorted((k, tuple(v)) for k, v in r['hdrs'].items() if k in CORS_RESP))


def view_vary(r):
    if r is None:
        return 'unparsable'
    return str(r['hdrs'].get(H_VARY))


def split_resp(line):
    """serve / h.serve output: impl = resp || bits ; model = strict || dec || bits."""
    return [p.strip('\t') for p in line.split('\t||\t')]


class Cmp:
    """A comparison of implementation and model output lines of one suite under one projection."""

    def __init__(self, suite, mode, kind, only=None):
        self.suite, self.mode, self.kind, self.only = suite, mode, kind, only

    def applies(self, case):
        op = case.split('\t', 1)[0]
        if self.only and op not in self.only:
            return False
        return True

    def project(self, case, impl, model):
        """Return (impl_view, model_view)."""
        op = case.split('\t', 1)[0]
        mode = self.mode
        if op in ('serve', 'h.serve') and '\t||\t' in impl and '\t||\t' in model:
            i, m = split_resp(impl), split_resp(model)
            if len(i) == 2 and len(m) == 3:
                if mode == 'c16h':
                    # histories: preflights answered while the documented state machine says "debug off and failing"
                    # (the model, which follows it by C09, answers with the failure status): nothing but Vary may differ
                    rd = parse_resp(m[1])
                    if op == 'h.serve' and rd and rd['next'] == '0' and rd['status'] == '403':
                        return i[0], m[1]
                    return '', ''
                if mode in ('c11', 'c16', 'c03', 'vary'):
                    sc = serve_case(case)
                    ri, rs, rd = parse_resp(i[0]), parse_resp(m[0]), parse_resp(m[1])
                    if mode == 'c11':
                        return view_c11(sc, ri), view_c11(sc, rd)
                    if mode == 'c03':
                        return view_cors(ri), view_cors(rs)
                    if mode == 'vary':
                        return view_vary(ri), view_vary(rd)
                    if mode == 'c16':
                        if sc['debug'] == '0' and ((ri and ri['next'] == '0') or (rd and rd['next'] == '0')):
                            return i[0], m[1]
                        return '', ''
                if mode == 'strict':
                    return i[0], m[0]
                if mode == 'dec':
                    return i[0], m[1]
                if mode == 'bitsPA':
                    return i[1][:2], m[2][:2]
                if mode == 'bitsH':
                    return i[1][2:], m[2][2:]
                if mode == 'full':
                    return i[0] + '|' + i[1], m[0] + '|' + m[2]
        if mode in ('bitsPA', 'bitsH'):
            return '', ''
        if mode == 'treebits' and op == 'tree':
            return ' '.join(impl.split(' ')[:2]), ' '.join(model.split(' ')[:2])
        if mode == 'accept' and op == 'validate':
            return impl.split(' ', 1)[0], model.split(' ', 1)[0]
        if mode == 'errcount' and op == 'validate':
            f = lambda s: (s.split(' ')[0], s.rsplit(' ', 1)[-1]) if s.startswith('err ') else ('ok',)
            return str(f(impl)), str(f(model))
        if mode == 'firsttoken':
            return impl.split(' ', 1)[0], model.split(' ', 1)[0]
        if mode == 'panic':
            return ('PANIC' if 'PANIC' in impl else ''), ''
        return impl, model


def nontrivial(case, impl):
    op = case.split('\t', 1)[0]
    f = case.split('\t')
    if op == 'tree':
        bits = impl.split(' ')[1] if ' ' in impl else ''
        return f[1].count(',') >= 1 and '1' in bits and '0' in bits
    if op in ('parse', 'pattern'):
        return len(f[1]) > 12
    if op == 'check':
        return f[1] != '~' and f[2] != '~'
    if op == 'trim':
        return f[1] != '-'
    if op in ('serve', 'h.serve'):
        r = impl.split('\t')
        return len(r) > 2 and (r[0] != '-' or '4163636573732d436f6e74726f6c' in r[2])
    if op == 'validate':
        return True
    if op == 'errors':
        return 'J(' in f[1] and f[2] != '0'
    if op.startswith('h.'):
        return op in ('h.reconf', 'h.debug', 'h.config')
    if op == 'pair':
        return True
    return True


RULES = {
    'tree': 'random lists of 1-6 (mostly valid) patterns sharing suffixes, probes derived from every pattern (near misses); non-trivial = at least two patterns and both an allowed and a refused probe; distinct by case hash',
    'lex': 'grammar-directed pattern strings, derived origins and single-defect mutations through ParsePattern and Parse; non-trivial = longer than 6 bytes; distinct by case hash',
    'acrh': 'random allowed-name sets x ACRH field lines (browser-like lists with OWS/empty-element/line-split perturbations, elements around the length cut-off, junk) through headers.Check, plus TrimOWS cases; non-trivial = non-empty set and non-empty lines; distinct by case hash',
    'names': 'all 256 single bytes and a+byte, every table entry with case variants/extensions/truncations, random mutations, through the header/method predicates; distinct by case hash',
    'validate': 'random Config values from labelled atoms (55% aimed at acceptance) through NewMiddleware; error tree shape and fields or Config(); distinct by case hash',
    'serve': 'random accepted configurations x requests derived from them (allowed/near-miss origins, ACRM/ACRH/ACRPN presence x emptiness x multiplicity, pre-set response headers), both debug modes; non-trivial = the middleware wrote a status or an Access-Control-* header; distinct by case hash',
    'errors': 'random errors.Join trees of depth <= 5 x every break position; non-trivial = at least one join and an early break; distinct by case hash',
    'pairs10': 'accepted configurations x requests; a second request keeps the method and every header named in the Vary values added to the first response and changes all others; the two Go responses are compared with each other (C10 is 2-safety); distinct by case hash',
    'pairs09': 'accepted configurations x requests answered with debug on and off; non-preflights must get identical responses, preflights must not reach the handler; distinct by case hash',
    'twins': 'accepted configurations x a twin obtained by permuting/duplicating list entries, re-casing header names, re-spelling normalisable methods, adding safelisted methods/response headers; both middlewares answer derived requests and the Go responses are compared; distinct by case hash',
    'roundtrip': 'accepted configurations: middlewares from c, from Config(), zero+Reconfigure(&c), Reconfigure(Config()); five derived requests in both debug modes compared pairwise; Config() stable after one round trip; distinct by case hash',
    'intents': 'accepted configurations x browser intents derived from them (allowed / near-miss origin, configured / pooled method in page spelling, 0-4 header names incl. Authorization in several cases, credentials include/omit, private-network target yes/no) x debug x tolerated ACRH perturbations; the harness sends the browser-built preflight and the actual request through the real middleware, the Lean browser model (Spec/Browser.lean) reads both responses and its verdict is compared with Browser.permits',
    'schedule': 'configuration pairs (incl. to/from passthrough) x debug x requests derived from them x three schedule points (first Header() call, WriteHeader, entry of the wrapped handler) x three operations (Reconfigure to the other configuration, SetDebug flip, Config()) executed exactly at that point from inside the request; the response must be that of the state at request entry (compared with a fresh middleware in that state, Go against Go) and the next request that of the new state',
    'stress': '12 reader goroutines against 2 reconfiguring goroutines (alternating two configurations, checking Config() against the two normal forms) and one SetDebug toggler; every response must equal the response of one of the four (configuration, debug) states; two scenarios with a reduced set of legal outcomes run first (SetDebug(true) spinning against Reconfigure(nil) then Reconfigure(Y): a failing preflight must be the bare 403 of Y; a writer cycling SetDebug(true), Reconfigure(X), Reconfigure(nil), Reconfigure(Y): a response of (X, debug off), which is never current, is a violation); thorough tier runs a -race build',
    'allocs': 'testing.AllocsPerRun(20, ServeHTTP) with a reusable writer for 56 families (allow-all / discrete / `*`+Authorization / credentialed `*` configurations x debug on/off x actual GET with long Origin, preflights with long Origin / long ACRM / long ACRH name / many ACRH elements / many ACRH lines / padded allowed list) at every size of the family; every family is a distinct non-trivial case',
    'lexx': 'small-scope exhaustive: every sequence of up to 3 (thorough: 4) tokens from {a b1 1 0 255 256 01 . : * [ ] ::1 - _ / 80 8080 65536 xn-- A space} after each of https:// http:// https://*. http://[ through ParsePattern and Parse; distinct by case hash',
    'acrhx': 'small-scope exhaustive: every subset of the allowed names {a b ab} (thorough: {a b ab abc}) x every sequence of up to 4 (thorough: 5) tokens from {a b ab abc c , space tab A} as one ACRH field line, and every split of the shorter sequences over two field lines, through headers.Check; distinct by case hash',
    'treex': 'small-scope exhaustive: every ordered selection of up to 3 (thorough: 4) of 12 mutually related patterns (a host, its subdomains, the wildcards over them, other scheme, explicit and wildcard ports) inserted in that order, 48 fixed probes, Elems; distinct by case hash',
    'validatex': 'small-scope exhaustive: every sequence of up to 2 (thorough: 3) atoms in one list field at a time (10 request-header atoms x credentialed, 8 method atoms, 7 response-header atoms x credentialed, 10 origin atoms (up to 2) x credentialed x PNA modes x both tolerate switches) and every combination of 7 max-age and 9 status values, through NewMiddleware; distinct by case hash',
    'servex': 'small-scope exhaustive: 8 configurations (one per decision regime) x method {OPTIONS, GET, options} x 7 Origin atoms x 8 ACRM atoms x 6 (thorough: 9) ACRH atoms x 3 ACRPN atoms x upstream Vary or not x debug; non-trivial = the middleware wrote a status or an Access-Control-* header; distinct by case hash',
    'ip6x': 'small-scope exhaustive on IPv6 text between brackets: every sequence of up to 3 (thorough: 4) tokens from {0 1 12 abcd ABCD 00 0abc 12345 g : :: . 1.2.3.4 255 256 01 % eth0 ffff 7f00}, and every address text of up to 8 fields over {0, 1, ffff} with `::` at every position or absent, with and without an IPv4 tail, through ParsePattern (and Parse); the model answers with its own model of net/netip and the driver compares that model with the library on every reported host; distinct by case hash',
    'historyx': 'small-scope exhaustive: every sequence of up to 3 (thorough: 4) operations from {SetDebug(true), SetDebug(false), Reconfigure(nil), Reconfigure(A), Reconfigure(B), Reconfigure(invalid), Reconfigure(Config())}, from the zero value (whose handler is wrapped while it is passthrough) and from NewMiddleware(A), with Config(), a preflight failing at the method step, a succeeding preflight and an actual request after every operation; distinct by case hash',
    'history': 'random operation sequences (SetDebug, Reconfigure nil/valid/invalid/Config()) over 1-3 middlewares with probes after every step; non-trivial = state-changing or observing operation; distinct by case hash',
}


def run_suite(stage, suite, seed, n, workdir, extra=()):
    cases, impl, model = (os.path.join(workdir, '%s.%s' % (suite, x)) for x in ('cases', 'impl', 'model'))
    cmd = [BUILD + '/harness', '-suite', suite, '-seed', str(seed), '-n', str(n), '-cases', cases, '-impl', impl] + list(extra)
    try:
        rc, out = sh(cmd, timeout=6000)
    except subprocess.TimeoutExpired:
        raise HarnessCrash(suite, seed, 'the harness did not terminate within 6000 s')
    if rc != 0:
        if 'panic:' in out or 'fatal error:' in out:
            raise HarnessCrash(suite, seed, out)
        raise RuntimeError('harness failed: ' + out)
    return run_model(stage, cases, impl, model)


class HarnessCrash(Exception):
    """The harness process died of a panic that escaped every guard: the implementation (or the runtime) crashed."""
    def __init__(self, suite, seed, out):
        Exception.__init__(self, 'harness crashed in suite %s' % suite)
        self.suite, self.seed, self.out = suite, seed, out


def run_replay_file(stage, path, workdir, tag):
    cases, impl, model = (os.path.join(workdir, '%s.%s' % (tag, x)) for x in ('cases', 'impl', 'model'))
    cmd = [BUILD + '/harness', '-replay', path, '-cases', cases, '-impl', impl]
    rc, out = sh(cmd, timeout=3000)
    if rc != 0:
        raise RuntimeError('harness replay failed: ' + out)
    return run_model(stage, cases, impl, model)


def run_pinned(stage, cases_path, out_path):
    """Answers of the model built from the pinned facts on the same cases (used when the regenerated facts differ)."""
    with open(cases_path, 'rb') as fin, open(out_path, 'wb') as fout:
        p = subprocess.run([stage.pinned], stdin=fin, stdout=fout, stderr=subprocess.PIPE, timeout=3000)
    if p.returncode != 0:
        raise RuntimeError('pinned driver failed: ' + p.stderr.decode('utf-8', 'replace')[:2000])
    m = open(out_path).read().split('\n')
    return m[:-1] if m and m[-1] == '' else m


def run_model(stage, cases, impl, model):
    with open(cases, 'rb') as fin, open(model, 'wb') as fout:
        p = subprocess.run([stage.driver], stdin=fin, stdout=fout, stderr=subprocess.PIPE, timeout=3000)
    if p.returncode != 0:
        raise RuntimeError('driver failed: ' + p.stderr.decode('utf-8', 'replace')[:2000])
    c = open(cases).read().split('\n')
    i = open(impl).read().split('\n')
    m = open(model).read().split('\n')
    if c and c[-1] == '':
        c, i, m = c[:-1], i[:len(c) - 1], m[:len(c) - 1]
    if not (len(c) == len(i) == len(m)):
        raise RuntimeError('line count mismatch cases=%d impl=%d model=%d' % (len(c), len(i), len(m)))
    return c, i, m


# --------------------------------------------------------------------------- property table

def C(suite, mode='full', kind='tie', only=None):
    return Cmp(suite, mode, kind, only)


# (suite, n_quick, n_thorough, extra args) and the comparisons made on its lines
PROPS = {
    # ... and "every accepted configuration" includes those put in force by Reconfigure, also for handlers wrapped earlier
    'C01': dict(suites=[('tree', 1500, 60000), ('lex', 1500, 40000), ('serve', 3000, 60000), ('treex', 3, 4), ('lexx', 3, 4), ('servex', 1, 2), ('history', 100, 2500), ('historyx', 3, 4)],
                cmps=[C('tree', 'treebits', 'spec'), C('lex', 'full', 'tie', only=('parse',)), C('serve', 'bitsPA', 'spec'),
                      C('treex', 'treebits', 'spec'), C('lexx', 'full', 'tie', only=('parse',)), C('servex', 'bitsPA', 'spec'),
                      # the decision as the middleware itself takes it (the tree as validation built it), seen through the CORS headers
                      C('serve', 'c03', 'tie'), C('servex', 'c03', 'tie'), C('history', 'c03', 'tie'), C('historyx', 'c03', 'tie')]),
    # "every accepted configuration" includes the ones put in force by Reconfigure on a middleware whose handlers were wrapped earlier
    'C02': dict(suites=[('intents', 6000, 200000), ('serve', 3000, 80000), ('tree', 500, 20000), ('acrh', 1000, 40000), ('history', 100, 3000), ('acrhx', 4, 5), ('servex', 1, 2), ('history', 60, 1500, ('-adversarial',)), ('historyx', 3, 4)],
                cmps=[C('intents', 'firsttoken', 'spec'), C('serve', 'full', 'tie'), C('tree', 'treebits', 'spec'), C('acrh', 'full', 'spec'), C('history', 'dec', 'spec'),
                      C('acrhx', 'full', 'spec'), C('servex', 'full', 'tie'), C('historyx', 'dec', 'spec')]),
    # C03 speaks of *allowed* origins: the ties of the two origin-decision components (tree, request-side lexer) belong to it
    # ... and "the configuration" is the one in force after any history of Reconfigure calls, also for handlers wrapped earlier
    # ... and "exactly the configured values" also after a wrapped handler wrote in place into the slices it was handed
    'C03': dict(suites=[('serve', 6000, 150000), ('tree', 800, 30000), ('lex', 800, 30000), ('history', 120, 3000), ('treex', 3, 4), ('lexx', 3, 4), ('servex', 1, 2), ('historyx', 3, 4), ('history', 80, 2000, ('-adversarial',))],
                cmps=[C('serve', 'c03', 'tie'), C('tree', 'treebits', 'spec'), C('lex', 'full', 'tie', only=('parse',)), C('history', 'c03', 'tie'),
                      C('treex', 'treebits', 'spec'), C('lexx', 'full', 'tie', only=('parse',)), C('servex', 'c03', 'tie'), C('historyx', 'c03', 'tie')]),
    # Reconfigure is one of the two entry points the property names: what it accepts must not depend on the configuration in force
    'C04': dict(suites=[('validate', 3000, 100000), ('names', 300, 20000), ('lex', 1000, 20000), ('validatex', 2, 3), ('lexx', 3, 4), ('history', 150, 4000), ('historyx', 3, 4)],
                cmps=[C('validate', 'accept', 'spec'), C('names', 'full', 'tie'), C('lex', 'full', 'tie', only=('pattern',)), C('validatex', 'accept', 'spec'), C('lexx', 'full', 'tie', only=('pattern',)),
                      C('history', 'full', 'spec', only=('h.new', 'h.reconf')), C('historyx', 'full', 'spec', only=('h.new', 'h.reconf'))]),
    'C05': dict(suites=[('validate', 6000, 150000), ('validatex', 2, 3), ('history', 100, 3000), ('historyx', 3, 4)], cmps=[C('validate', 'full', 'spec'), C('validatex', 'full', 'spec'),
                C('history', 'full', 'spec', only=('h.new', 'h.reconf')), C('historyx', 'full', 'spec', only=('h.new', 'h.reconf'))]),
    'C06': dict(suites=[('roundtrip', 1500, 60000), ('history', 150, 4000), ('validate', 2000, 50000), ('treex', 3, 4), ('historyx', 3, 4)],
                cmps=[C('roundtrip', 'full', 'spec'), C('history', 'dec', 'tie'), C('validate', 'full', 'tie'), C('treex', 'full', 'tie'), C('historyx', 'dec', 'tie')]),
    # the adversarial history (in-place writes to Config() results and to the Config passed in) checks "never mutated after publication"
    'C07': dict(suites=[('schedule', 250, 6000), ('stress', 6, 20), ('history', 100, 2000, ('-adversarial',))],
                cmps=[C('schedule', 'full', 'spec'), C('stress', 'full', 'spec'), C('history', 'dec', 'spec')]),
    # "rejected" presupposes that invalid configurations are rejected: acceptance over the exhaustive single-field configurations
    'C08': dict(suites=[('history', 250, 6000), ('validatex', 2, 3), ('historyx', 3, 4), ('validate', 3000, 60000)], cmps=[C('history', 'dec', 'spec'), C('validatex', 'accept', 'spec'), C('historyx', 'dec', 'spec'), C('validate', 'accept', 'spec')]),
    # the diagnostics of every failing step, on the broad single-request generator as well as inside histories
    'C09': dict(suites=[('history', 250, 6000), ('pairs09', 3000, 100000), ('serve', 4000, 100000), ('servex', 1, 2), ('historyx', 3, 4)],
                cmps=[C('history', 'dec', 'spec'), C('pairs09', 'full', 'spec'), C('serve', 'dec', 'spec'), C('servex', 'dec', 'spec'), C('historyx', 'dec', 'spec')]),
    # second pairs10 run: wrapped handlers that overwrite in place whatever the middleware installed (a shared slice handed out
    # once poisons the Vary of every later response of the process)
    'C10': dict(suites=[('serve', 5000, 120000), ('pairs10', 5000, 150000), ('pairs10', 2500, 50000, ('-adversarial',)), ('servex', 1, 2)], cmps=[C('serve', 'vary', 'tie'), C('pairs10', 'full', 'spec'), C('servex', 'vary', 'tie')]),
    # histories: "a configured middleware" is a state, and handlers wrapped before a reconfiguration must follow it
    'C11': dict(suites=[('serve', 6000, 150000), ('history', 120, 3000), ('servex', 1, 2), ('schedule', 100, 2500), ('historyx', 3, 4)], cmps=[C('serve', 'c11', 'spec'), C('history', 'c11', 'spec'), C('servex', 'c11', 'spec'), C('schedule', 'full', 'spec'), C('historyx', 'c11', 'spec')]),
    'C12': dict(suites=[('history', 150, 4000, ('-adversarial',)), ('serve', 2000, 50000, ('-adversarial',))],
                cmps=[C('history', 'dec', 'spec'), C('serve', 'dec', 'spec')]),
    'C13': dict(suites=[('lex', 4000, 150000), ('lexx', 3, 4), ('ip6x', 3, 4), ('validatex', 2, 3)], cmps=[C('ip6x', 'full', 'tie', only=('pattern',)), C('ip6x', 'full', 'tie', only=('parse',)),
                                                                         C('lex', 'full', 'tie', only=('pattern',)), C('lex', 'full', 'tie', only=('parse',)),
                                                                         C('lexx', 'full', 'tie', only=('pattern',)), C('lexx', 'full', 'tie', only=('parse',)), C('validatex', 'full', 'tie')]),
    # the allowed set holds the byte-lowercased configured names (names suite); the verdict on a preflight must not depend on the preflights answered before it (histories)
    'C14': dict(suites=[('acrh', 3000, 150000), ('serve', 2000, 50000), ('acrhx', 4, 5), ('servex', 1, 2), ('history', 60, 1500, ('-adversarial',)), ('names', 300, 20000), ('history', 150, 4000), ('historyx', 3, 4)],
                cmps=[C('acrh', 'full', 'spec'), C('serve', 'bitsH', 'spec'), C('acrhx', 'full', 'spec'), C('servex', 'bitsH', 'spec'), C('history', 'dec', 'spec'), C('names', 'full', 'tie'), C('historyx', 'dec', 'spec')]),
    # order independence of Origins is a property of the tree: its tie belongs to the check
    # ... and a configuration means the same when Reconfigure puts it in force on a middleware that holds a relative of it (histories)
    'C15': dict(suites=[('twins', 4000, 150000), ('validate', 2000, 50000), ('tree', 800, 30000), ('treex', 3, 4), ('history', 150, 4000), ('historyx', 3, 4)],
                cmps=[C('twins', 'full', 'spec'), C('validate', 'full', 'tie'), C('tree', 'treebits', 'spec'), C('treex', 'treebits', 'spec'), C('history', 'dec', 'spec'), C('historyx', 'dec', 'spec')]),
    # "debug off" is a state of the documented state machine (C09): histories belong to the check
    'C16': dict(suites=[('serve', 8000, 200000), ('history', 150, 4000), ('servex', 1, 2), ('historyx', 3, 4)], cmps=[C('serve', 'c16', 'tie'), C('history', 'c16h', 'tie'), C('servex', 'c16', 'tie'), C('historyx', 'c16h', 'tie')]),
    'C17': dict(suites=[('lex', 1000, 30000), ('tree', 500, 20000), ('acrh', 1000, 30000), ('validate', 1500, 50000),
                        ('serve', 2000, 60000), ('errors', 50, 1000), ('history', 50, 1000), ('lexx', 3, 4), ('acrhx', 4, 5), ('treex', 3, 4), ('validatex', 2, 3), ('servex', 1, 2), ('ip6x', 3, 4), ('historyx', 3, 4), ('schedule', 100, 2500)],
                cmps=[C(s, 'panic', 'spec') for s in ('lex', 'tree', 'acrh', 'validate', 'serve', 'errors', 'history', 'lexx', 'acrhx', 'treex', 'validatex', 'servex', 'ip6x', 'historyx', 'schedule')]),
    'C18': dict(suites=[('allocs', 1, 2), ('serve', 1000, 20000)], cmps=[C('allocs', 'full', 'spec'), C('serve', 'dec', 'tie')], level='other',
                explanation='PARTIAL (category other): a Lean cost-model theorem (at most 4 allocating header primitives per request, independent of all sizes), '
                            'regenerated loop/install facts proved by decide (no allocating construct and only allow-listed callees inside loops on the request path), and measured conformance: '
                            'testing.AllocsPerRun around ServeHTTP for 56 families (4 configuration kinds x debug x 7 request kinds) at sizes 1 B .. 100 000 (thorough: .. 1 MiB); '
                            'the count must not grow within a family and must stay <= 8. Escape analysis and the runtime are outside any model; the measurement is what ties the claim to the code.'),
    'C19': dict(suites=[('errors', 150, 5000), ('validate', 2000, 50000), ('validatex', 2, 3), ('history', 100, 2500), ('historyx', 3, 4)], cmps=[C('errors', 'full', 'spec'), C('validate', 'errcount', 'spec'), C('validatex', 'errcount', 'spec'), C('history', 'full', 'spec', only=('h.new', 'h.reconf')), C('historyx', 'full', 'spec', only=('h.new', 'h.reconf'))]),
}


# --------------------------------------------------------------------------- known findings

def load_known():
    out = []
    p = V + '/known-findings.txt'
    if os.path.exists(p):
        for l in open(p):
            l = l.strip()
            m = re.match(r'finding: property=(\S+) key=(\S+) (.*)', l)
            if m:
                out.append(dict(prop=m.group(1), key=m.group(2), text=m.group(3)))
    return out


# --------------------------------------------------------------------------- main

def write_json(path, obj):
    os.makedirs(os.path.dirname(path), exist_ok=True)
    tmp = path + '.tmp'
    with open(tmp, 'w') as f:
        json.dump(obj, f, indent=1)
    os.replace(tmp, path)


def main(argv):
    if len(argv) < 2:
        print(__doc__)
        return 2
    prop = argv[0]
    if prop not in PROPS:
        print('unknown property', prop)
        return 2
    replay_path = None
    if argv[1] == '--replay':
        replay_path = argv[2]
        tier = 'quick'
    else:
        tier = argv[1]
    tier = os.environ.get('VERIF_TIER', tier)
    if tier not in ('quick', 'thorough'):
        tier = 'quick'
    seed = int(os.environ.get('VERIF_SEED', '1') or '1')
    t0 = time.time()
    import propchecks
    return propchecks.run_property(prop, tier, seed, replay_path, t0)
