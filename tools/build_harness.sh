#!/bin/sh
# Build the correspondence harness against /repo's current working tree (overlay, no edit of /repo).
set -e
export GOFLAGS=-mod=mod GOPROXY=off GOSUMDB=off GOTOOLCHAIN=local
V=${VERIF_ROOT:-$(cd "$(dirname "$0")/.." && pwd)}
export V
R=${VERIF_REPO:-/repo}
export R
mkdir -p $V/build
python3 - <<'PY'
import json,glob,os
V=os.environ['V']
files=sorted(glob.glob(V+'/harness/inject/*.go'))
ov={"Replace":{ os.environ['R']+"/internal/verifdrv/"+os.path.basename(f): f for f in files}}
json.dump(ov,open(V+'/build/overlay.json','w'),indent=1)
PY
cd $R && go build -tags verif -overlay $V/build/overlay.json -o $V/build/harness ./internal/verifdrv
