#!/bin/sh
# try_seeded.sh <patch.diff> <prop>... : apply the change to /repo, run the quick checks, undo it.
P=$1; shift
git -C /repo apply $P || exit 2
for p in "$@"; do $(dirname $0)/../check $p quick | tail -1; done
git -C /repo checkout -- .
git -C /repo status --short
