#!/bin/sh
# try_seeded.sh <patch.diff> <prop>... : apply the change to /repo, run the quick checks, undo it.
P=$1; shift
V=$(cd "$(dirname "$0")/.." && pwd)
git -C /repo apply $P || exit 2
for p in "$@"; do $V/check $p quick | tail -1; done
git -C /repo checkout -- .
git -C /repo status --short
# leave the regenerated facts as they are for the unchanged tree
$V/build/extract -repo /repo -out $V/lean/CorsVerif/Gen/Facts.lean
