#!/bin/sh
# try_seeded.sh <patch.diff> <prop>... : apply the change to /repo, run the quick checks, undo it.
P=$1; shift
V=$(cd "$(dirname "$0")/.." && pwd)
rm -rf $V/build/evidence.saved && cp -r $V/evidence $V/build/evidence.saved   # evidence of the unchanged tree is kept
git -C /repo apply $P || exit 2
for p in "$@"; do $V/check $p quick | tail -1; done
git -C /repo checkout -- .
git -C /repo status --short
rm -rf $V/evidence && mv $V/build/evidence.saved $V/evidence
# leave the regenerated facts as they are for the unchanged tree
$V/build/extract -repo /repo -out $V/lean/CorsVerif/Gen/Facts.lean
