#!/bin/sh
# confirm_seeded.sh <dir with patch.diff + demo> : in a scratch worktree, confirm that the change
# compiles, the existing suite passes with it, the demo fails with it and passes without it.
set -u
export GOFLAGS=-mod=mod GOPROXY=off GOSUMDB=off GOTOOLCHAIN=local
D=$1
WT=/tmp/wt/confirm-$$
git -C /repo worktree add -q --detach $WT HEAD || exit 2
trap 'git -C /repo worktree remove --force $WT' EXIT
cd $WT
demo=$(ls $D/*_test.go | head -1)
place=${2:-.}
cp $demo $place/zz_demo_test.go
pkg=./$place
echo "== demo WITHOUT change (expect PASS)"; go test -count=1 $pkg -run 'Demo|C[0-9][0-9]' 2>&1 | grep -v WARNING | tail -2
git apply $D/patch.diff || { echo PATCH-DOES-NOT-APPLY; exit 1; }
echo "== build"; go build ./... && echo build-ok
echo "== demo WITH change (expect FAIL)"; go test -count=1 $pkg -run 'Demo|C[0-9][0-9]' 2>&1 | grep -v WARNING | tail -2
rm $place/zz_demo_test.go
echo "== existing suite WITH change (expect ok)"; go test -count=1 ./... 2>&1 | grep -v WARNING | tail -7
