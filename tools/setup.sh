#!/bin/sh
# Build the framework offline from files on disk: facts extractor, Lean project (model, specs,
# proofs, driver), pinned driver copy, correspondence harness.
set -e
export GOFLAGS=-mod=mod GOPROXY=off GOSUMDB=off GOTOOLCHAIN=local
V=${VERIF_ROOT:-$(cd "$(dirname "$0")/.." && pwd)}
export VERIF_ROOT=$V
mkdir -p $V/build $V/evidence $V/replays
(cd $V/harness/extract && go build -o $V/build/extract .)
# pinned driver: the model with the facts of the verified tree (pinned/Facts.lean), built before anything is regenerated
cp $V/pinned/Facts.lean $V/lean/CorsVerif/Gen/Facts.lean
(cd $V/lean && lake build driver && cp .lake/build/bin/driver $V/build/driver.pinned)
$V/build/extract -repo /repo -out $V/lean/CorsVerif/Gen/Facts.lean
(cd $V/lean && lake build CorsVerif driver)
$V/tools/build_harness.sh
echo setup-done
