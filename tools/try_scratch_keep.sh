#!/bin/sh
# try_scratch_keep.sh <patch.diff> <prop> : like try_scratch.sh for one property, but copies the replay files to /tmp/scratch/replays-<prop>/
P=$1; p=$2
V=$(cd "$(dirname "$0")/.." && pwd)
W=$(mktemp -d /tmp/tryscratch.XXXXXX)
trap 'rm -rf $W' EXIT
mkdir $W/repo && git -C /repo archive HEAD | tar -x -C $W/repo
(cd $W/repo && patch -p1 -s < $P) || { echo PATCH-DOES-NOT-APPLY; exit 2; }
rsync -a --exclude .git --exclude replays --exclude seeded --exclude findings $V/ $W/verif/
VERIF_ROOT=$W/verif VERIF_REPO=$W/repo $W/verif/check $p quick 2>&1 | grep -E '^(VIOLATION|OK|KNOWN)' | tail -1
rm -rf /tmp/scratch/replays-$p; mkdir -p /tmp/scratch/replays-$p; cp -r $W/verif/replays/. /tmp/scratch/replays-$p/ 2>/dev/null
