"""The decision procedure of one property check (DESIGN.md 3c)."""
import glob, hashlib, json, os, shutil, sys, tempfile, time
import runner
from runner import V, BUILD, LEAN, log, sh


def sha(s):
    return hashlib.sha1(s.encode('utf-8', 'replace')).hexdigest()[:16]


class Result:
    def __init__(self):
        self.evaluations = 0
        self.distinct = set()
        self.samples = []
        self.mismatches = []     # dict(suite, mode, kind, case, impl, model, impl_view, model_view)
        self.dist = {}
        self.suite_rules = []

    def count(self, key):
        self.dist[key] = self.dist.get(key, 0) + 1


def history_prefix(cases, idx):
    """All lines of the history case (same `cN.` id prefix) up to and including line idx."""
    f = cases[idx].split('\t')
    if not f[0].startswith('h.') or len(f) < 2:
        return [cases[idx]]
    hid = f[1].split('.')[0] + '.'
    return [c for c in cases[:idx + 1] if c.startswith('h.') and len(c.split('\t')) > 1 and c.split('\t')[1].startswith(hid)]


def compare(res, prop, suite, cases, impl, model, pinned=False, facts_changed=False):
    cfg = runner.PROPS[prop]
    cmps = [c for c in cfg['cmps'] if c.suite == suite]
    for idx, (c, i, m) in enumerate(zip(cases, impl, model)):
        op = c.split('\t', 1)[0]
        if pinned:
            # second pass: the implementation against the model as verified with the pinned facts
            if 'ORACLE-MISS' in m or 'BAD-' in m:
                continue
            for cmpr in cmps:
                if not cmpr.applies(c):
                    continue
                iv, mv = cmpr.project(c, i, m)
                if iv != mv:
                    res.mismatches.append(dict(suite=suite, mode=cmpr.mode + '/pinned-facts', kind=cmpr.kind, case=c, impl=i, model=m,
                                               impl_view=iv, model_view=mv,
                                               replay_cases=history_prefix(cases, idx) if len(res.mismatches) < 20 else [c]))
            continue
        res.evaluations += 1
        res.count('op:' + op)
        if 'ORACLE-MISS' in m and facts_changed:
            # the regenerated facts moved a constant the harness's (fixed, independent) oracle keys depend on: the model built from them asks
            # for an oracle answer the harness did not supply.  The case cannot be judged against that model; the pinned-facts pass judges it.
            res.count('oracle-miss under changed facts (judged by the pinned-facts pass only)')
            continue
        if 'ORACLE-MISS' in m or 'BAD-' in m:
            raise RuntimeError('harness/driver protocol problem on case: %s -> %s' % (c[:300], m))
        if runner.nontrivial(c, i):
            res.distinct.add(sha(c))
        if op in ('serve', 'h.serve'):
            r = i.split('\t')
            res.count('serve:' + ('passthrough' if r[0] == '-' and len(r) > 1 and r[1] == '1' else 'status ' + r[0]))
        if op == 'validate':
            res.count('validate:' + i.split(' ', 1)[0])
        if op == 'pattern':
            res.count('pattern:' + ' '.join(i.split(' ')[:2]) if i.startswith('err') else 'pattern:ok')
        if op == 'check':
            res.count('check:' + i.split(' ', 1)[0])
        if op == 'intent' and m.startswith('agree '):
            res.count('intent:' + m[6:])
        for cmpr in cmps:
            if not cmpr.applies(c):
                continue
            iv, mv = cmpr.project(c, i, m)
            if iv != mv:
                res.mismatches.append(dict(suite=suite, mode=cmpr.mode, kind=cmpr.kind, case=c, impl=i, model=m,
                                           impl_view=iv, model_view=mv,
                                           replay_cases=history_prefix(cases, idx) if len(res.mismatches) < 20 else [c]))
    if cases and len(res.samples) < 6:
        k = len(cases) // 2
        res.samples.append(dict(suite=suite, case=cases[k][:600], impl=impl[k][:400], model=model[k][:600]))


def manifest_text(prop):
    """What the check claims (technique and statement of MANIFEST.json), repeated in the evidence."""
    try:
        m = json.load(open(V + '/MANIFEST.json'))
        for c in m['checks']:
            if c['property_id'] == prop:
                lc = c.get('level_claimed')
                text = lc.get('text') if isinstance(lc, dict) else str(lc)
                return '%s. %s' % (c.get('technique', ''), text)
    except Exception:
        pass
    return 'Lean theorems about the hand-written model + regenerated facts + differential correspondence of model and implementation on generated cases'


def shrink_note(mm):
    return mm


def run_property(prop, tier, seed, replay_path, t0):
    cfg = runner.PROPS[prop]
    evidence_path = '%s/evidence/%s.json' % (V, prop)
    stage = runner.Stage(prop)
    stage.run()
    problems = []          # broken obligations (proof side)
    if not stage.harness_ok:
        print('check: the harness does not build against /repo (does /repo compile?)')
        print(stage.harness_log[-3000:])
        return 2
    if not stage.facts_ok:
        problems.append(dict(what='facts-extractor', detail=stage.facts_log[-2000:]))
    if not stage.lean_ok:
        problems.append(dict(what='lake build CorsVerif.Props.%s' % prop, detail=stage.lean_log[-4000:]))
    theorems = []
    if stage.lean_ok:
        rc, theorems, raw = runner.audit_axioms(prop)
        if rc != 0:
            problems.append(dict(what='lean CorsVerif/Props/%s.lean' % prop, detail=raw[-3000:]))
        for name, axs in theorems:
            bad = [a for a in axs if a not in runner.ALLOWED_AXIOMS]
            if bad:
                problems.append(dict(what='axioms of ' + name, detail=', '.join(bad)))
        if not theorems:
            problems.append(dict(what='no theorem audited in Props/%s.lean' % prop, detail=raw[-2000:]))
    hits = runner.grep_forbidden()
    if hits:
        problems.append(dict(what='forbidden token in Lean sources', detail='; '.join(hits)))
    checker_cmds = list(stage.cmds) + ['cd lean && lake env lean CorsVerif/Props/%s.lean  # #print axioms audit' % prop]
    if tier == 'thorough' and stage.lean_ok:
        cmd = ['lake', 'env', 'leanchecker', 'CorsVerif.Props.' + prop]
        checker_cmds.append('cd lean && ' + ' '.join(cmd))
        rc, out = sh(cmd, cwd=LEAN, timeout=3000)
        if rc != 0:
            problems.append(dict(what='leanchecker CorsVerif.Props.%s' % prop, detail=out[-2000:]))

    res = Result()
    workdir = tempfile.mkdtemp(prefix='run-%s-' % prop, dir=BUILD)
    extra_info = {}
    try:
        if stage.driver is None:
            problems.append(dict(what='driver does not build and no pinned driver is available', detail=''))
        else:
            # corpus first
            paths = [replay_path] if replay_path else sorted(glob.glob('%s/corpus/%s/*.cases' % (V, prop)))
            for k, p in enumerate(paths):
                if replay_path and p.endswith('.json'):
                    rp = json.load(open(p))
                    tmp = os.path.join(workdir, 'replay.cases')
                    open(tmp, 'w').write('\n'.join(rp.get('cases', [])) + '\n')
                    p = tmp
                c, i, m = runner.run_replay_file(stage, p, workdir, 'corpus%d' % k)
                suite = 'corpus'
                for cm in cfg['cmps']:
                    pass
                # corpus lines are compared under every comparison of the property whose op matches
                for cm_suite in sorted(set(c_.suite for c_ in cfg['cmps'])):
                    ops = {'lex': ('parse', 'pattern'), 'tree': ('tree',), 'acrh': ('check', 'trim'), 'names': ('names',),
                           'validate': ('validate',), 'serve': ('serve',), 'errors': ('errors',),
                           'history': ('h.zero', 'h.new', 'h.reconf', 'h.debug', 'h.config', 'h.serve')}.get(cm_suite, ('pair',))
                    if ops == ('pair',):
                        kind = {'pairs10': 'C10', 'pairs09': 'C09', 'twins': 'C15', 'roundtrip': 'C06'}.get(cm_suite)
                        idx = [j for j, x in enumerate(c) if x.split('\t')[:2] == ['pair', kind]]
                        compare(res, prop, cm_suite, [c[j] for j in idx], [i[j] for j in idx], [m[j] for j in idx], facts_changed=bool(stage.facts_changed))
                        continue
                    idx = [j for j, x in enumerate(c) if x.split('\t', 1)[0] in ops]
                    compare(res, prop, cm_suite, [c[j] for j in idx], [i[j] for j in idx], [m[j] for j in idx], facts_changed=bool(stage.facts_changed))
            if not replay_path:
                # thorough: every suite twice, with two independent generator seeds
                reps = [0] if tier == 'quick' else [0, 1]
                plan = [(k, s, rep) for rep in reps for k, s in enumerate(cfg['suites'])]
                for k, s, rep in plan:
                    suite, nq, nt = s[0], s[1], s[2]
                    extra = s[3] if len(s) > 3 else ()
                    n = nq if tier == 'quick' else nt
                    if rep and suite in ('allocs', 'stress', 'names', 'lexx', 'acrhx', 'treex', 'validatex', 'servex', 'ip6x', 'historyx'):
                        continue    # deterministic or already long-running suites are not repeated
                    sseed = seed * 1000003 + k + 7919 * rep
                    try:
                        c, i, m = runner.run_suite(stage, suite, sseed, n, workdir, extra)
                    except runner.HarnessCrash as hc:
                        problems.append(dict(what='the harness process ended abnormally in suite %s (seed %d): a panic escaped inside the implementation, or a call into it did not return' % (suite, sseed),
                                             detail=hc.out[-3000:]))
                        continue
                    except RuntimeError as ex:
                        # the harness or the driver could not process the suite against this tree: the correspondence no longer checks
                        problems.append(dict(what='correspondence suite %s (seed %d) could not be evaluated' % (suite, sseed), detail=str(ex)[-3000:]))
                        continue
                    try:
                        compare(res, prop, suite, c, i, m, facts_changed=bool(stage.facts_changed))
                        if stage.facts_changed and stage.pinned:
                            mp = runner.run_pinned(stage, os.path.join(workdir, suite + '.cases'), os.path.join(workdir, suite + '.pinned'))
                            if len(mp) == len(c):
                                compare(res, prop, suite, c, i, mp, pinned=True)
                    except RuntimeError as ex:
                        problems.append(dict(what='correspondence suite %s (seed %d) could not be evaluated' % (suite, sseed), detail=str(ex)[-3000:]))
                        continue
                    if not rep:
                        res.suite_rules.append('%s: %s' % (suite, runner.RULES[suite]))
                # property-specific machinery
                import extras
                extras.run(prop, tier, seed, stage, res, problems, extra_info, workdir)
    finally:
        shutil.rmtree(workdir, ignore_errors=True)

    # ------------------------------------------------------------------ verdict
    known = [k for k in runner.load_known() if k['prop'] == prop]
    violations = []
    known_hits = []
    for mm in res.mismatches:
        key = mm['suite'] + ':' + sha(mm['case'])
        hit = [k for k in known if k['key'] == key]
        if hit:
            known_hits.append(hit[0])
            continue
        violations.append(mm)
    for k in {k['key']: k for k in known_hits}.values():
        print('KNOWN-FINDING: property=%s %s' % (prop, k['text']))

    obligations = max(len(theorems), 1) + (1 if True else 0)   # theorems + the regenerated-facts obligation
    discharged = 0
    if stage.lean_ok:
        discharged = sum(1 for name, axs in theorems if all(a in runner.ALLOWED_AXIOMS for a in axs))
    if stage.facts_ok and stage.lean_ok:
        discharged += 1
    level = cfg.get('level', 'proof')
    coverage = dict(
        obligations=obligations, discharged=discharged,
        checker_cmd=' ; '.join(checker_cmds), trusted_base=runner.TRUSTED_BASE + cfg.get('trusted_extra', []),
        theorems=[dict(name=n, axioms=a) for n, a in theorems],
        evaluations=res.evaluations, distinct_nontrivial=len(res.distinct),
        rule=' | '.join(res.suite_rules) or 'corpus / replay lines',
        samples=res.samples or [dict(note='no generated case in this run')],
        traces_validated_against_impl=res.evaluations,
        input_distribution=dict(sorted(res.dist.items())),
        exhaustive=False,
        explanation=cfg.get('explanation') or manifest_text(prop),
    )
    if stage.facts_changed:
        coverage['facts_changed'] = stage.facts_changed
        coverage['facts_changed_note'] = ('regenerated facts differ from /verif/pinned/Facts.lean; the suites were also compared against the model built from the pinned facts'
                                          if stage.pinned else 'regenerated facts differ from the pinned facts; no pinned driver available')
    coverage.update(extra_info)
    if discharged == 0:
        # nothing was discharged in this run (the obligations no longer build): keep the file within the schema's
        # fallback form and say so explicitly
        del coverage['discharged']
        coverage['obligations_discharged'] = 0
        coverage['note'] = 'no proof obligation could be discharged in this run; see the replay file'
    ev = dict(property_id=prop, tier=tier, seed=seed, level=level, coverage=coverage,
              assumptions=runner.TRUSTED_BASE + cfg.get('trusted_extra', []),
              wall_s=round(time.time() - t0, 2), violations=len(violations) + len(problems))
    runner.write_json(evidence_path, ev)

    if not violations and not problems:
        print('OK property=%s tier=%s seed=%d theorems=%d evaluations=%d distinct_nontrivial=%d wall=%.1fs' % (
            prop, tier, seed, len(theorems), res.evaluations, len(res.distinct), time.time() - t0))
        return 0

    # replay file
    os.makedirs(V + '/replays', exist_ok=True)
    concrete = [mm for mm in violations if mm['kind'] == 'spec']
    # judges may upgrade tie mismatches to concrete property failures
    import judges
    for mm in violations:
        if mm['kind'] != 'spec':
            verdict = judges.judge(prop, mm)
            if verdict:
                mm['kind'] = 'spec'
                mm['judge'] = verdict
                concrete.append(mm)
    first = (concrete or violations or [None])[0]
    tag = sha(first['case']) if first else sha(json.dumps(problems))
    rpath = '%s/replays/%s-%s.json' % (V, prop, tag)
    replay = dict(property=prop, tier=tier, seed=seed,
                  broken_obligations=problems,
                  failing_input_found=bool(concrete),
                  cases=(first.get('replay_cases') or [first['case']]) if first else [],
                  first=first,
                  mismatches=len(violations),
                  more=[dict(suite=mm['suite'], mode=mm['mode'], kind=mm['kind'], case=mm['case'][:2000], impl_view=mm['impl_view'][:1000],
                             model_view=mm['model_view'][:1000]) for mm in violations[1:6]],
                  how_to_replay='./check %s --replay %s' % (prop, rpath))
    if not concrete:
        replay['no_longer_checks'] = [p['what'] for p in problems] or [
            'correspondence suite %s (projection %s) of property %s' % (first['suite'], first['mode'], prop)]
    runner.write_json(rpath, replay)
    suffix = '' if concrete else ' no-failing-input-found'
    print('VIOLATION property=%s replay=%s%s' % (prop, rpath, suffix))
    return 1
