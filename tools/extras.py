"""Property-specific machinery beyond the shared suites (filled in per property)."""


def run(prop, tier, seed, stage, res, problems, extra_info, workdir):
    fn = globals().get('extra_' + prop)
    if fn:
        fn(tier, seed, stage, res, problems, extra_info, workdir)


import os, subprocess
import runner


def extra_C07(tier, seed, stage, res, problems, extra_info, workdir):
    """Thorough: the stress suite again with a race-detector build of the harness."""
    if tier != 'thorough' and not problems and not res.mismatches:
        extra_info['race_detector'] = 'not run in the quick tier (runs in the thorough tier, and in any tier as part of the search when an obligation is broken)'
        return
    exe = runner.BUILD + '/harness.race'
    cmd = ['go', 'build', '-race', '-tags', 'verif', '-overlay', runner.BUILD + '/overlay.json', '-o', exe, './internal/verifdrv']
    rc, out = runner.sh(cmd, cwd=runner.REPO, timeout=1200)
    if rc != 0:
        extra_info['race_detector'] = 'race build failed: ' + out[-300:]
        return
    cases, impl = os.path.join(workdir, 'race.cases'), os.path.join(workdir, 'race.impl')
    p = subprocess.run([exe, '-suite', 'stress', '-seed', str(seed), '-n', '60', '-cases', cases, '-impl', impl],
                       stdout=subprocess.PIPE, stderr=subprocess.STDOUT, timeout=3000, env=runner.ENV)
    out = p.stdout.decode('utf-8', 'replace')
    extra_info['race_detector'] = 'go build -race; stress x60: exit %d' % p.returncode
    if 'DATA RACE' in out or p.returncode != 0:
        res.mismatches.append(dict(suite='stress-race', mode='race', kind='spec', case='pair\tC07\tstress -race seed=%d' % seed,
                                   impl=out[-3000:], model='no data race', impl_view='DATA RACE reported by the Go race detector', model_view='none'))
        return
    lines = open(impl).read().split('\n')
    cl = open(cases).read().split('\n')
    for c, i in zip(cl, lines):
        if c:
            res.evaluations += 1
            if i != 'ok':
                res.mismatches.append(dict(suite='stress-race', mode='full', kind='spec', case=c, impl=i, model='ok', impl_view=i, model_view='ok'))
