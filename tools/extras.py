"""Property-specific machinery beyond the shared suites (filled in per property)."""


def run(prop, tier, seed, stage, res, problems, extra_info, workdir):
    fn = globals().get('extra_' + prop)
    if fn:
        fn(tier, seed, stage, res, problems, extra_info, workdir)
