"""Judges: apply the executable predicate of a property to the implementation's own output on a
case where implementation and model differ. A judge returns a non-empty string naming the clause
that fails (=> the mismatch is a concrete failing input of the property) or None."""


def judge(prop, mm):
    fn = globals().get('judge_' + prop)
    if fn:
        try:
            return fn(mm)
        except Exception as e:  # a judge must never turn a tie break into a crash
            return None
    return None


import runner


def _ctx(mm):
    sc = runner.serve_case(mm['case'])
    parts = runner.split_resp(mm['impl'])
    r = runner.parse_resp(parts[0])
    bits = parts[1] if len(parts) > 1 else '---'
    cfg = sc['cfg'].split('|') if sc['cfg'] else None
    return sc, r, bits, cfg


def changed(sc, r, k):
    return r['hdrs'].get(k) != sc['pre'].get(k)


def judge_C16(mm):
    """Props/C16.lean on the implementation's own response: debug off, preflight."""
    if not mm['case'].startswith('serve\t'):
        return None
    sc, r, bits, cfg = _ctx(mm)
    if r is None or sc['debug'] != '0' or not runner.is_preflight(sc):
        return None
    if r['next'] != '0':
        return None  # C11's business
    status = int(cfg[6]) if cfg[6] != '0' else 204
    others = [k for k in set(r['hdrs']) | set(sc['pre']) if k != runner.H_VARY and changed(sc, r, k)]
    if r['status'] == str(status):
        star, true_, starauth = runner.hx('*'), runner.hx('true'), runner.hx('*,authorization')
        adm = [[star], [true_], [starauth]]
        ma = int(cfg[4])
        if ma != 0:
            adm.append([runner.hx('0' if ma == -1 else str(ma))])
        for k in (runner.H_ORIGIN, runner.H_ACRM):
            if sc['req'].get(k):
                adm.append(sc['req'][k][:1])
        if runner.H_ACRH in sc['req']:
            adm.append(sc['req'][runner.H_ACRH])
        for k in others:
            if r['hdrs'].get(k) not in adm:
                return 'successful debug-off preflight carries a value of inadmissible provenance under %s' % bytes.fromhex(k).decode()
        return None
    if others:
        return 'failing debug-off preflight (status %s) changes headers other than Vary: %s' % (r['status'], [bytes.fromhex(k).decode() for k in others])
    if r['status'] != '403':
        return 'failing debug-off preflight has status %s, neither the failure status nor the configured success status' % r['status']
    return None


def judge_C03(mm):
    """Props/C03.lean (C03Spec) on the implementation's own response; 'allowed' is the harness's decision bit."""
    if not mm['case'].startswith('serve\t'):
        return None
    sc, r, bits, cfg = _ctx(mm)
    if r is None:
        return None
    origins = cfg[0].split(',') if cfg[0] != '~' else []
    allow_all = runner.hx('*') in origins
    cred = cfg[1] == '1'
    first_origin = (sc['req'].get(runner.H_ORIGIN) or [None])[0]
    # 'allowed' is the model's own decision (parse + tree), which C01 identifies with the pattern denotations
    mparts = runner.split_resp(mm['model'])
    mbits = mparts[2] if len(mparts) > 2 else bits
    allowed = len(mbits) > 1 and mbits[1] == '1'
    origin_ok = allow_all or (first_origin is not None and allowed)
    pf = runner.is_preflight(sc)
    H = r['hdrs']
    acao = H.get(runner.H_ACAO)
    echo = first_origin is not None and acao == [first_origin] and allowed
    if changed(sc, r, runner.H_ACAO):
        if not ((acao == [runner.hx('*')] and allow_all and not cred) or echo):
            return 'Access-Control-Allow-Origin %s is neither `*` for a non-credentialed allow-all configuration nor the echo of an allowed first Origin value' % acao
    if changed(sc, r, runner.H_ACAC):
        if not (H.get(runner.H_ACAC) == [runner.hx('true')] and cred and echo):
            return 'Access-Control-Allow-Credentials emitted without credentialed access and an echoed allowed origin'
    if not origin_ok:
        for k in runner.CORS_RESP:
            if changed(sc, r, k):
                return 'request without an allowed origin got %s' % bytes.fromhex(k).decode()
    for k in (runner.H_ACAM, runner.H_ACAH, runner.H_ACAPN, runner.H_ACMA):
        if changed(sc, r, k) and not pf:
            return '%s on a non-preflight response' % bytes.fromhex(k).decode()
    if changed(sc, r, runner.H_ACEH) and pf:
        return 'Access-Control-Expose-Headers on a preflight response'
    return None
