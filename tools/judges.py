"""Judges: apply the executable predicate of a property to the implementation's own output on a
case where implementation and model differ. A judge returns a non-empty string naming the clause
that fails (=> the mismatch is a concrete failing input of the property) or None."""


def judge(prop, mm):
    fn = globals().get('judge_' + prop)
    if fn:
        try:
            return fn(mm)
        except Exception as e:  # a judge must never turn a tie break into a crash
            return None
    return None
