"""Judges: apply the executable predicate of a property to the implementation's own output on a
case where implementation and model differ. A judge returns a non-empty string naming the clause
that fails (=> the mismatch is a concrete failing input of the property) or None."""


def judge(prop, mm):
    fn = globals().get('judge_' + prop)
    if fn:
        try:
            return fn(mm)
        except Exception as e:  # a judge must never turn a tie break into a crash
            return None
    return None


import runner


def _ctx(mm):
    sc = runner.serve_case(mm['case'])
    parts = runner.split_resp(mm['impl'])
    r = runner.parse_resp(parts[0])
    bits = parts[1] if len(parts) > 1 else '---'
    cfg = sc['cfg'].split('|') if sc['cfg'] else None
    return sc, r, bits, cfg


def changed(sc, r, k):
    return r['hdrs'].get(k) != sc['pre'].get(k)


def judge_C16(mm):
    """Props/C16.lean on the implementation's own response: debug off, preflight."""
    if mm['case'].startswith('h.serve\t'):
        # the documented state machine says debug is off and the preflight fails (model: 403, nothing but Vary)
        i = runner.split_resp(mm['impl'])
        r = runner.parse_resp(i[0]) if i else None
        if r is None:
            return None
        leaked = [bytes.fromhex(k).decode() for k in r['hdrs'] if k in runner.CORS_RESP]
        if r['status'] != '403' or leaked:
            return ('after this history the documented debug mode is off, yet the failing preflight is answered with status %s and %s'
                    % (r['status'], leaked or 'no CORS header'))
        return None
    if not mm['case'].startswith('serve\t'):
        return None
    sc, r, bits, cfg = _ctx(mm)
    if r is None or sc['debug'] != '0' or not runner.is_preflight(sc):
        return None
    if r['next'] != '0':
        return None  # C11's business
    status = int(cfg[6]) if cfg[6] != '0' else 204
    others = [k for k in set(r['hdrs']) | set(sc['pre']) if k != runner.H_VARY and changed(sc, r, k)]
    if r['status'] == str(status):
        star, true_, starauth = runner.hx('*'), runner.hx('true'), runner.hx('*,authorization')
        adm = [[star], [true_]]
        # `*,authorization` only in the documented case (Props/C16.lean, `admissible`): anonymous access, `*` and Authorization both listed
        names = [bytes.fromhex(x if x != '-' else '').decode('latin-1').lower() for x in cfg[3].split(',')] if cfg[3] not in ('~', '') else []
        if cfg[1] == '0' and '*' in names and 'authorization' in names:
            adm.append([starauth])
        ma = int(cfg[4])
        if ma != 0:
            adm.append([runner.hx('0' if ma == -1 else str(ma))])
        for k in (runner.H_ORIGIN, runner.H_ACRM):
            if sc['req'].get(k):
                adm.append(sc['req'][k][:1])
        if runner.H_ACRH in sc['req']:
            adm.append(sc['req'][runner.H_ACRH])
        for k in others:
            if r['hdrs'].get(k) not in adm:
                return 'successful debug-off preflight carries a value of inadmissible provenance under %s' % bytes.fromhex(k).decode()
        return None
    if others:
        return 'failing debug-off preflight (status %s) changes headers other than Vary: %s' % (r['status'], [bytes.fromhex(k).decode() for k in others])
    if r['status'] != '403':
        return 'failing debug-off preflight has status %s, neither the failure status nor the configured success status' % r['status']
    return None


def judge_C03(mm):
    """Props/C03.lean (C03Spec) on the implementation's own response; 'allowed' is the harness's decision bit."""
    if mm['case'].startswith('parse\t'):
        return parse_not_serialised(mm)
    if mm['case'].startswith('h.serve\t'):
        # history: the model carries the configuration in force; it emits no CORS header, the implementation does
        i, m = runner.split_resp(mm['impl']), runner.split_resp(mm['model'])
        ri, rm = (runner.parse_resp(i[0]) if i else None), (runner.parse_resp(m[0]) if m else None)
        if ri is None or rm is None:
            return None
        extra = [bytes.fromhex(k).decode() for k in ri['hdrs'] if k in runner.CORS_RESP and k not in rm['hdrs']]
        if extra and not any(k in rm['hdrs'] for k in runner.CORS_RESP):
            return ('after this history the configuration in force gives this request no Access-Control-* header at all, '
                    'yet the response carries %s' % extra)
        return None
    if not mm['case'].startswith('serve\t'):
        return None
    sc, r, bits, cfg = _ctx(mm)
    if r is None:
        return None
    origins = cfg[0].split(',') if cfg[0] != '~' else []
    allow_all = runner.hx('*') in origins
    cred = cfg[1] == '1'
    first_origin = (sc['req'].get(runner.H_ORIGIN) or [None])[0]
    # 'allowed' is the model's own decision (parse + tree), which C01 identifies with the pattern denotations
    mparts = runner.split_resp(mm['model'])
    mbits = mparts[2] if len(mparts) > 2 else bits
    allowed = len(mbits) > 1 and mbits[1] == '1'
    origin_ok = allow_all or (first_origin is not None and allowed)
    pf = runner.is_preflight(sc)
    H = r['hdrs']
    acao = H.get(runner.H_ACAO)
    echo = first_origin is not None and acao == [first_origin] and allowed
    if changed(sc, r, runner.H_ACAO):
        if not ((acao == [runner.hx('*')] and allow_all and not cred) or echo):
            return 'Access-Control-Allow-Origin %s is neither `*` for a non-credentialed allow-all configuration nor the echo of an allowed first Origin value' % acao
    if changed(sc, r, runner.H_ACAC):
        if not (H.get(runner.H_ACAC) == [runner.hx('true')] and cred and echo):
            return 'Access-Control-Allow-Credentials emitted without credentialed access and an echoed allowed origin'
    if not origin_ok:
        for k in runner.CORS_RESP:
            if changed(sc, r, k):
                return 'request without an allowed origin got %s' % bytes.fromhex(k).decode()
    for k in (runner.H_ACAM, runner.H_ACAH, runner.H_ACAPN, runner.H_ACMA):
        if changed(sc, r, k) and not pf:
            return '%s on a non-preflight response' % bytes.fromhex(k).decode()
    if changed(sc, r, runner.H_ACEH) and pf:
        return 'Access-Control-Expose-Headers on a preflight response'
    return None


import re

_SCHEME = re.compile(rb'^[a-z][a-z0-9+.-]{0,63}$')
_LABEL = re.compile(rb'^[a-z0-9]([a-z0-9-]{0,61}[a-z0-9])?$')


def _documented(sb):
    """True if the byte string is clearly of the documented pattern form (LDH domain or canonical IPv4 host);
    None when the string is in a zone this judge does not decide (IPv6, punycode, underscores, hyphens in 3-4, ...)."""
    m = re.match(rb'^([^:/]*)://(.*)$', sb, re.S)
    if not m:
        return None
    scheme, rest = m.group(1), m.group(2)
    if not _SCHEME.match(scheme) or scheme == b'file':
        return None
    port = b''
    host = rest
    if b':' in rest and not rest.startswith(b'['):
        host, _, port = rest.rpartition(b':')
    elif rest.startswith(b'['):
        return None
    wild = host.startswith(b'*.')
    base = host[2:] if wild else host
    body = base[:-1] if base.endswith(b'.') else base
    if not body or len(body) > (251 if wild else 253):
        return None
    labels = body.split(b'.')
    is_ip = all(l.isdigit() for l in labels)
    if is_ip:
        if wild or len(labels) != 4 or base.endswith(b'.') or scheme == b'https':
            return None
        for l in labels:
            if (len(l) > 1 and l[:1] == b'0') or int(l) > 255:
                return None
    else:
        for l in labels:
            if not _LABEL.match(l) or l.startswith(b'xn--') or (len(l) > 4 and l[2:4] == b'--'):
                return None
        if labels[-1][:1].isdigit():
            return None
    if rest.count(b':') > 1:
        return None
    if port:
        if port == b'*':
            return True
        if not re.match(rb'^[1-9][0-9]{0,4}$', port) or int(port) > 65535:
            return None
        if (scheme == b'http' and port == b'80') or (scheme == b'https' and port == b'443'):
            return None
    elif b':' in rest:
        return None
    return True


def _defect(sb):
    """A documented defect that is decidable from the bytes alone; returns its name or None."""
    if sb in (b'null',):
        return 'null'
    if sb.startswith(b'file:'):
        return 'file scheme'
    m = re.match(rb'^([a-z][a-z0-9+.-]{0,63})://(.*)$', sb, re.S)
    if not m:
        return None
    rest = m.group(2)
    for ch, name in ((b'@', 'userinfo'), (b'/', 'path'), (b'?', 'query'), (b'#', 'fragment'), (b' ', 'whitespace'), (b'\t', 'whitespace')):
        if ch in rest:
            return name
    if any(c >= 0x80 for c in rest):
        return 'non-ASCII host'
    if any(0x41 <= c <= 0x5a for c in rest):
        return 'upper-case host'
    if not rest.startswith(b'['):
        host, sep, port = rest.rpartition(b':')
        if sep:
            if port in (b'', b'0') or re.match(rb'^0[0-9]+$', port) or re.match(rb'^[0-9]{6,}$', port) or (port.isdigit() and int(port) > 65535):
                return 'bad port ' + port.decode('latin1')
            if (m.group(1) == b'http' and port == b'80') or (m.group(1) == b'https' and port == b'443'):
                return 'default port'
    else:
        mb = re.match(rb'^\[([^\]]*)\]', rest)
        if mb:
            lit = mb.group(1)
            if b'%' in lit:
                return 'zoned IPv6 literal'
            if re.match(rb'^::ffff:[0-9]+\.[0-9]+\.[0-9]+\.[0-9]+$', lit) or re.match(rb'^(0:){5}ffff:', lit):
                return 'IPv4-mapped IPv6 literal'
            if re.search(rb'(^|:)0[0-9a-f]', lit) and b'.' not in lit:
                return 'non-canonical IPv6 literal (leading zero)'
    if re.match(rb'^\*\.([0-9]+\.){3}[0-9]+(:|$)', rest) or rest.startswith(b'*.['):
        return 'wildcard before an IP'
    if not rest.startswith(b'['):
        host = rest
        mp = re.match(rb'^(.*):([0-9]+|\*)$', rest, re.S)
        if mp:
            host = mp.group(1)
        if host.startswith(b'*.'):
            host = host[2:]
        if host.endswith(b'.'):
            host = host[:-1]
        if host and re.match(rb'^[a-z0-9_.-]+$', host) and not re.match(rb'^[0-9.]+$', host):
            if any(len(l) > 63 for l in host.split(b'.')):
                return 'label longer than 63 bytes'
            if len(host) > 253:
                return 'domain longer than 253 bytes'
    return None


def _unhex(x):
    return b'' if x == '-' else bytes.fromhex(x)


def parse_not_serialised(mm):
    """The request-side lexer reads an origin out of a string that is not the serialisation of that origin
    (`scheme://host` or `scheme://host:port`, IPv6 hosts in brackets): such a string then shares the fate of a real origin."""
    f = mm['case'].split('\t')
    if f[0] != 'parse' or not mm['impl'].startswith('some '):
        return None
    sb = _unhex(f[1])
    g = mm['impl'].split(' ')
    if len(g) < 5:
        return None
    scheme, host, port = _unhex(g[1]), _unhex(g[2]), int(g[4])
    tail = (b':' + str(port).encode()) if port else b''
    ser = scheme + b'://' + host + tail
    if sb not in (ser, scheme + b'://[' + host + b']' + tail):   # Props/C13.lean, C13_parse_sound
        return ('the request-side lexer reads origin %r out of the string %r, which is not its serialisation: no pattern denotes that string, '
                'yet it is treated like the origin' % (ser[:120], sb[:120]))
    return None


def judge_C01(mm):
    """C01: the Origin value is treated as allowed iff some listed pattern denotes it. 'denoted' is the model's decision
    (parse + tree = union of denotations, C01_tree); the treatment is read off an actual (non-preflight) response."""
    if mm['case'].startswith('parse\t'):
        return parse_not_serialised(mm)
    if not mm['case'].startswith(('serve\t', 'h.serve\t')):
        return None
    sc, r, bits, cfg = _ctx(mm)
    if r is None or runner.is_preflight(sc):
        return None
    origin_vals = sc['req'].get(runner.H_ORIGIN)
    mparts = runner.split_resp(mm['model'])
    if cfg is None:
        # a request inside a history: the configuration in force is the model's state (the documented state machine, C09);
        # allow-all shows in the model's own response
        mr = runner.parse_resp(mparts[0]) if mparts else None
        if mr is None or mr['hdrs'].get(runner.H_ACAO) == [runner.hx('*')]:
            return None
    elif runner.hx('*') in (cfg[0].split(',') if cfg[0] != '~' else []):
        # the configuration lists `*`: every origin is allowed, which an actual request sees as Access-Control-Allow-Origin `*`
        # (the model, for an accepted configuration, answers so: C01_allow_all)
        mr = runner.parse_resp(mparts[0]) if mparts else None
        if mr is not None and mr['hdrs'].get(runner.H_ACAO) == [runner.hx('*')] and r['next'] == '1' and origin_vals \
                and r['hdrs'].get(runner.H_ACAO) not in ([runner.hx('*')], origin_vals[:1]):
            return 'the configuration lists `*`, yet the actual request with Origin %r gets no Access-Control-Allow-Origin' % bytes.fromhex(origin_vals[0] if origin_vals[0] != '-' else '')
        return None
    if not origin_vals:
        return None
    mbits = mparts[2] if len(mparts) > 2 else None
    if not mbits or len(mbits) < 2:
        return None
    denoted = mbits[1] == '1'
    treated = changed(sc, r, runner.H_ACAO) and r['hdrs'].get(runner.H_ACAO) == origin_vals[:1]
    if denoted and not treated and r['next'] == '1':
        return 'the Origin value %r is denoted by a listed pattern, yet the actual request gets no Access-Control-Allow-Origin for it' % bytes.fromhex(origin_vals[0] if origin_vals[0] != '-' else '')
    if treated and not denoted:
        return 'the Origin value %r is denoted by no listed pattern, yet it is echoed in Access-Control-Allow-Origin' % bytes.fromhex(origin_vals[0] if origin_vals[0] != '-' else '')
    return None


def judge_C13(mm):
    """Documented grammar (decidable fragment) against the implementation's verdict on a pattern string."""
    f = mm['case'].split('\t')
    if f[0] == 'parse':
        sb = b'' if f[1] == '-' else bytes.fromhex(f[1])
        ns = parse_not_serialised(mm)
        if ns:
            return ns
        if _documented(sb) and b'*' not in sb and mm['impl'].startswith('none'):
            return ('a wildcard-free pattern of the documented form, presented verbatim as an Origin, is not even parsed by the '
                    'request-side lexer (so it cannot be allowed): %r (%d bytes)' % (sb[:80], len(sb)))
        return None
    if f[0] == 'validate':
        # a configuration: every listed string with a documented defect must be named by an error
        cfg = f[1].split('|')
        if cfg[0] in ('~', ''):
            return None
        for x in cfg[0].split(','):
            o = b'' if x == '-' else bytes.fromhex(x)
            d = _defect(o)
            if not d or o == b'*':
                continue
            if mm['impl'].startswith('ok'):
                return 'a configuration listing a pattern with the documented defect [%s] is accepted: %r' % (d, o[:120])
            if mm['impl'].startswith('err ') and x not in mm['impl']:
                return 'no error names the listed pattern with the documented defect [%s]: %r' % (d, o[:120])
        return None
    if f[0] != 'pattern':
        return None
    sb = b'' if f[1] == '-' else bytes.fromhex(f[1])
    accepted = mm['impl'].startswith('ok ')
    if _documented(sb) and not accepted:
        return 'a pattern of the documented form is rejected: %r -> %s' % (sb[:120], mm['impl'][:60])
    d = _defect(sb)
    if d and accepted:
        return 'a pattern with the documented defect [%s] is accepted: %r' % (d, sb[:120])
    if mm['impl'].startswith('err-bad-type-or-value'):
        return 'the error does not name the pattern with an UnacceptableOriginPatternError'
    if accepted and b'*' not in sb and b'://' in sb:
        # self-match clause: the accepted pattern is stored under the parts the implementation reports; presented verbatim as an
        # Origin, the string is read into the host text between `://` and the port (brackets stripped), which must be the stored value
        # (C13_accepted_form: an accepted pattern is scheme://value[:port])
        fi = mm['impl'].split(' ')
        if len(fi) >= 3:
            value = b'' if fi[2] == '-' else bytes.fromhex(fi[2])
            rest = sb.split(b'://', 1)[1]
            if rest.startswith(b'[') and b']' in rest:
                host = rest[1:rest.index(b']')]
            else:
                host = rest.rsplit(b':', 1)[0] if b':' in rest else rest
            if host != value:
                return ('the accepted wildcard-free pattern %r is stored with host %r: presented verbatim as an Origin (host %r) it is not allowed by itself'
                        % (sb[:120], value[:80], host[:80]))
    return None
