#!/bin/sh
# Development helper: run every suite for a seed and count raw differences (all projections).
seed=${1:-1}; n=${2:-2000}
for s in lex tree acrh names validate serve errors history; do
  /verif/build/harness -suite $s -seed $seed -n $n -cases /verif/build/$s.cases -impl /verif/build/$s.impl >/dev/null && /verif/lean/.lake/build/bin/driver < /verif/build/$s.cases > /verif/build/$s.model && python3 - $s <<'PY'
import sys
s=sys.argv[1]
i=open('/verif/build/%s.impl'%s).read().split('\n'); m=open('/verif/build/%s.model'%s).read().split('\n')
d=0
for a,b in zip(i,m):
    if '\t||\t' in a:
        x=a.split('\t||\t'); y=b.split('\t||\t')
        if len(y)==3 and (x[0]!=y[0] or x[0]!=y[1] or x[1]!=y[2]): d+=1
    elif a!=b: d+=1
print(s, 'diffs', d, 'of', len(i))
PY
done
