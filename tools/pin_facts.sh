#!/bin/sh
# Re-pin the facts: to be run by the maintainer of /verif after /repo changed legitimately
# (e.g. a `fix:` commit) and all checks were re-run; never run by a check.
set -e
V=${VERIF_ROOT:-$(cd "$(dirname "$0")/.." && pwd)}
$V/build/extract -repo /repo -out $V/lean/CorsVerif/Gen/Facts.lean
cp $V/lean/CorsVerif/Gen/Facts.lean $V/pinned/Facts.lean
rm -f $V/build/driver.pinned
