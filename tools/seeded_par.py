#!/usr/bin/env python3
"""seeded_par.py [-j N] [pattern]  — re-run every seeded change (seeded/<id>/patch.diff) against the quick check of the property it
was written against, in parallel and without touching /repo: each worker has a scratch copy of /repo's committed tree
(git archive HEAD) and of /verif (VERIF_ROOT / VERIF_REPO), under $SEEDED_DIR (default /tmp/seededpar, removed at the end).
Prints one line per change and a summary; exit 1 if a change is missed."""
import fnmatch, json, os, queue, shutil, subprocess, sys, threading

V = os.path.dirname(os.path.dirname(os.path.abspath(__file__)))
W = os.environ.get('SEEDED_DIR', '/tmp/seededpar')
ENV = dict(os.environ, GOFLAGS='-mod=mod', GOPROXY='off', GOSUMDB='off', GOTOOLCHAIN='local')


def main():
    a = sys.argv[1:]
    j = 6
    if '-j' in a:
        i = a.index('-j'); j = int(a[i + 1]); del a[i:i + 2]
    pat = a[0] if a else '*'
    ids = sorted(d for d in os.listdir(V + '/seeded') if fnmatch.fnmatch(d, pat) and os.path.exists('%s/seeded/%s/patch.diff' % (V, d)))
    shutil.rmtree(W, ignore_errors=True)
    os.makedirs(W + '/pristine')
    subprocess.run('git -C /repo archive HEAD | tar -x -C %s/pristine' % W, shell=True, check=True)
    q = queue.Queue()
    for d in ids:
        q.put(d)
    lock = threading.Lock()
    missed = []

    def work(k):
        vroot = '%s/w%d/verif' % (W, k)
        shutil.copytree(V, vroot, ignore=shutil.ignore_patterns('.git', 'replays', 'seeded', 'findings'), symlinks=True)
        while True:
            try:
                d = q.get_nowait()
            except queue.Empty:
                return
            root = '%s/w%d/repo' % (W, k)
            shutil.rmtree(root, ignore_errors=True)
            shutil.copytree(W + '/pristine', root)
            prop = d.split('-')[0]
            p = subprocess.run(['git', 'apply', '--unsafe-paths', '--directory=' + root, '%s/seeded/%s/patch.diff' % (V, d)], cwd='/', capture_output=True, text=True)
            if p.returncode != 0:
                p = subprocess.run(['patch', '-p1', '-s', '-i', '%s/seeded/%s/patch.diff' % (V, d)], cwd=root, capture_output=True, text=True)
            if p.returncode != 0:
                line = '%s PATCH-DOES-NOT-APPLY' % d
            else:
                env = dict(ENV, VERIF_ROOT=vroot, VERIF_REPO=root)
                try:
                    out = subprocess.run([vroot + '/check', prop, 'quick'], cwd=vroot, env=env, capture_output=True, text=True, timeout=3000).stdout
                except subprocess.TimeoutExpired:
                    out = 'TIMEOUT'
                last = [l for l in out.splitlines() if l.startswith(('VIOLATION', 'OK', 'KNOWN'))]
                last = last[-1] if last else out[-200:]
                line = '%s %s  %s' % (d, 'caught' if last.startswith('VIOLATION') else 'MISSED', last)
            with lock:
                print(line, flush=True)
                if ' caught' not in line:
                    missed.append(d)
    ts = [threading.Thread(target=work, args=(k,)) for k in range(j)]
    [t.start() for t in ts]
    [t.join() for t in ts]
    print('%d seeded changes, %d not caught %s' % (len(ids), len(missed), missed))
    shutil.rmtree(W, ignore_errors=True)
    return 1 if missed else 0


if __name__ == '__main__':
    sys.exit(main())
