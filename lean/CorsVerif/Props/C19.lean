import CorsVerif.Model.Errors
import CorsVerif.Proofs.Translated
/-
  C19 — cfgerrors.All yields exactly the leaf errors and honours early exit.

  For every error tree (any shape and depth) and every consumer (an arbitrary function of
  what it has been handed so far, hence every break position):
    * `yield` is never called again after it returned `false` (Go would panic);
    * what the consumer receives is the longest prefix of the leaves it accepts, plus the
      leaf on which it said stop;
    * a consumer that never stops receives exactly the leaves, each once, in order.
-/
namespace Cors
namespace ETree

/-- Feeding a list of items to the consumer, stopping after the first refusal:
the specification of what a `for … range` loop with a `break` receives. -/
def feed {α : Type} (k : List α → Bool) : Run α → List α → Run α × Bool
  | r, [] => (r, true)
  | r, x :: xs =>
    match r.yield k x with
    | (r', false) => (r', false)
    | (r', true) => feed k r' xs

theorem feed_append {α : Type} (k : List α → Bool) (r : Run α) (xs ys : List α) :
    feed k r (xs ++ ys) =
      match feed k r xs with
      | (r', false) => (r', false)
      | (r', true) => feed k r' ys := by
  induction xs generalizing r with
  | nil => simp [feed]
  | cons x xs ih =>
    simp only [List.cons_append, feed]
    cases h : r.yield k x with
    | mk r' c => cases c <;> simp [ih]

mutual
theorem all_eq_feed {α : Type} (e : ETree α) (k : List α → Bool) (r : Run α) :
    all e k r = feed k r (leaves e) := by
  cases e with
  | leaf a =>
    simp only [all, leaves, feed]
    cases h : r.yield k a with
    | mk r' c => cases c <;> rfl
  | join es => simp only [all, leaves]; exact allList_eq_feed es k r
theorem allList_eq_feed {α : Type} (es : List (ETree α)) (k : List α → Bool) (r : Run α) :
    allList es k r = feed k r (leavesList es) := by
  cases es with
  | nil => simp [allList, leavesList, feed]
  | cons e es =>
    simp only [allList, leavesList, feed_append]
    rw [all_eq_feed e k r]
    cases h : feed k r (leaves e) with
    | mk r' c =>
      cases c with
      | false => rfl
      | true => exact allList_eq_feed es k r'
end

/-- Invariant of `feed`: as long as nobody has stopped, nothing is yielded after a stop. -/
theorem feed_inv {α : Type} (k : List α → Bool) (r : Run α) (xs : List α)
    (h : r.stopped = false) (ha : r.afterStop = false) :
    (feed k r xs).1.afterStop = false ∧ ((feed k r xs).2 = true → (feed k r xs).1.stopped = false) := by
  induction xs generalizing r with
  | nil => simp [feed, h, ha]
  | cons x xs ih =>
    simp only [feed, Run.yield, h]
    cases hk : k (r.yielded ++ [x]) with
    | false => simp [ha]
    | true => simpa using ih _ (by simp) (by simpa using ha)

/-- What a consumer that stops as soon as `k` says so receives from a list of items. -/
def takeUntilStop {α : Type} (k : List α → Bool) : List α → List α → List α
  | _, [] => []
  | seen, x :: xs => if k (seen ++ [x]) then x :: takeUntilStop k (seen ++ [x]) xs else [x]

theorem feed_yielded {α : Type} (k : List α → Bool) (r : Run α) (xs : List α) (h : r.stopped = false) :
    (feed k r xs).1.yielded = r.yielded ++ takeUntilStop k r.yielded xs := by
  induction xs generalizing r with
  | nil => simp [feed, takeUntilStop]
  | cons x xs ih =>
    simp only [feed, Run.yield, h, takeUntilStop]
    cases hk : k (r.yielded ++ [x]) with
    | false => simp
    | true =>
      have := ih { yielded := r.yielded ++ [x], stopped := false, afterStop := r.afterStop } rfl
      simp [this]

end ETree

open ETree

/-- **C19.** For every error tree and every consumer: no yield after stop (no panic), and the
items received are the accepted prefix of the leaves plus the one the consumer stopped on. -/
theorem C19 {α : Type} (e : ETree α) (k : List α → Bool) :
    (ETree.run e k).afterStop = false ∧
    (ETree.run e k).yielded = takeUntilStop k [] (leaves e) := by
  unfold ETree.run
  rw [all_eq_feed]
  exact ⟨(feed_inv k {} (leaves e) rfl rfl).1, by simpa using feed_yielded k {} (leaves e) rfl⟩

theorem takeUntilStop_all {α : Type} (seen xs : List α) : takeUntilStop (fun _ => true) seen xs = xs := by
  induction xs generalizing seen with
  | nil => rfl
  | cons x xs ih => simp [takeUntilStop, ih]

/-- **C19 (no break).** Ranging to the end yields exactly the leaves, each once, in order. -/
theorem C19_full {α : Type} (e : ETree α) : (ETree.run e (fun _ => true)).yielded = leaves e := by
  rw [(C19 e _).2, takeUntilStop_all]

/-- **C19 (break position).** A consumer that breaks on its `n`-th item (n ≥ 1) receives exactly
the first `n` leaves (all of them if there are fewer). -/
theorem takeUntilStop_break {α : Type} (n : Nat) (seen xs : List α) (hs : seen.length < n) :
    takeUntilStop (fun s => decide (s.length < n)) seen xs = xs.take (n - seen.length) := by
  induction xs generalizing seen with
  | nil => simp [takeUntilStop]
  | cons x xs ih =>
    simp only [takeUntilStop, List.length_append, List.length_singleton, decide_eq_true_eq]
    by_cases h : seen.length + 1 < n
    · rw [if_pos h, ih (seen ++ [x]) (by simpa using h)]
      have : n - seen.length = (n - (seen ++ [x]).length) + 1 := by simp; omega
      rw [this, List.take_succ_cons]
    · rw [if_neg h]
      have : n - seen.length = 1 := by omega
      simp [this]

theorem C19_break {α : Type} (e : ETree α) (n : Nat) (hn : 0 < n) :
    (ETree.run e (fun s => decide (s.length < n))).yielded = (leaves e).take n := by
  rw [(C19 e _).2, takeUntilStop_break n [] (leaves e) (by simpa using hn)]; simp

/-- Non-vacuity: a nested join tree with a break on the second item. -/
example : (ETree.run (.join [.leaf 1, .join [.leaf 2, .leaf 3], .join [.join [.leaf 4]]] : ETree Nat)
    (fun s => decide (s.length < 2))).yielded = [1, 2] := by decide

#print axioms C19
#print axioms C19_full
#print axioms C19_break


/-- **C19 (translated origin loop).** One iteration of the `for _, raw := range patterns` loop of `validateOrigins` — the `*`
incompatibilities, `origins.ParsePattern` and its error, the insecure-origin and public-suffix guards with their tolerance
switches (each reported, in the code's order, none skipping another), `tree.Insert` — is translated from /repo's config.go on
every run and equals `Validate.originStep` for every loop state and element (whatever the IDNA / public-suffix oracles
answer); hence the fold over any list of patterns is the model's. -/
theorem C19_originLoop_translated (ext : Ext) (credentialed pnaAny tolInsecure tolPSL : Bool) (patterns : List Bytes) :
    patterns.foldl (Gen.GoSrc.originStep ext credentialed pnaAny tolInsecure tolPSL) {} =
      patterns.foldl (Validate.originStep ext credentialed pnaAny tolInsecure tolPSL) {} :=
  Translated.originLoop_eq ext credentialed pnaAny tolInsecure tolPSL patterns

#print axioms C19_originLoop_translated


/-- **C19 (translated orchestration).** The order in which `newInternalConfig` runs its validators and appends their errors
— translated from /repo's config.go on every run as a function of the validators' results — is the order of `Validate.allErrs`
(status, PNA modes, origins, methods, request headers, max-age, response headers): every validator runs whatever the earlier
ones returned, nothing stops at the first problem.  The five copies `icfg.f = cfg.F` all happen before `validateOrigins`
runs, so the validators see the flags they read. -/
theorem C19_orchestration_translated (ext : Ext) (cfg : Config) :
    Gen.GoSrc.newInternalConfigOrder cfg.pna cfg.pnaNoCors (Validate.statusErrs cfg).head? (Validate.originErrs ext cfg).head?
        (Validate.methodErrs cfg).head? (Validate.reqHdrErrs cfg).head? (Validate.maxAgeErrs cfg).head? (Validate.resHdrErrs cfg).head? =
      Validate.allErrs ext cfg ∧
    (Gen.GoSrc.newInternalConfigCopies.length = 5 ∧ ∀ c ∈ Gen.GoSrc.newInternalConfigCopies, c.take 2 = [49, 58]) :=
  ⟨Translated.newInternalConfigOrder_eq ext cfg, Translated.newInternalConfigCopies_before_origins⟩

#print axioms C19_orchestration_translated

end Cors
