import CorsVerif.Proofs.Validate
import CorsVerif.Proofs.Translated
/-
  C05 — Every valid configuration is accepted; every violation is reported, typed.

  For every `Config` value and every behaviour of the library oracles `ext`:
    * the leaves of the error returned by validation are exactly the violations of
      `Spec.prohibitions` — same errors, same multiplicity, even the same order — so nothing is
      missed (no early exit), nothing spurious is reported, and every error carries the
      offending value as supplied with the documented Reason / Type / bounds;
    * a Config without violations is accepted;
    * `cfgerrors.All` over the returned error yields exactly these leaves (with C19).
-/
namespace Cors
open Gen ValidateProofs

/-- **C05.** The error tree of a rejected configuration flattens to exactly the violations. -/
theorem C05 (ext : Ext) (cfg : Config) (e : Err) (h : newInternalConfig ext cfg = .error e) :
    ETree.leaves e = Spec.prohibitions ext cfg := by
  unfold newInternalConfig at h
  split at h
  · cases h
  · cases h
    simp only [ETree.leaves]
    exact allErrs_leaves ext cfg

/-- **C05 (acceptance).** A Config that violates no documented prohibition is accepted. -/
theorem C05_accept (ext : Ext) (cfg : Config) (h : Spec.prohibitions ext cfg = []) :
    ∃ icfg, newInternalConfig ext cfg = .ok icfg := by
  cases hc : newInternalConfig ext cfg with
  | ok icfg => exact ⟨icfg, rfl⟩
  | error e =>
    exfalso
    have hl := C05 ext cfg e hc
    rw [h] at hl
    -- a returned error always has at least one leaf
    unfold newInternalConfig at hc
    split at hc
    · cases hc
    · rename_i hne
      cases hc
      simp only [ETree.leaves] at hl
      have := allErrs_leaves ext cfg
      rw [hl] at this
      -- allErrs non-empty but without leaves is impossible: every piece contributes a leaf
      have hnil : Validate.allErrs ext cfg = [] := by
        have hpieces : ∀ x ∈ Validate.allErrs ext cfg, ETree.leaves x ≠ [] := by
          intro x hx
          unfold Validate.allErrs at hx
          simp only [List.mem_append] at hx
          have hfield : ∀ es : List CfgErr, x ∈ Validate.fieldErr es → ETree.leaves x ≠ [] := by
            intro es hx
            unfold Validate.fieldErr at hx
            cases es with
            | nil => simp at hx
            | cons a as =>
              simp only [List.isEmpty_cons, Bool.false_eq_true, if_false, List.mem_singleton] at hx
              subst hx
              simp [ETree.leaves, ETree.leavesList]
          rcases hx with (((((hx | hx) | hx) | hx) | hx) | hx) | hx
          · unfold Validate.statusErrs at hx
            split at hx <;> simp at hx
            subst hx; simp [ETree.leaves]
          · unfold Validate.pnaErrs at hx
            split at hx <;> simp at hx
            subst hx; simp [ETree.leaves]
          · unfold Validate.originErrs at hx
            split at hx
            · simp only [List.mem_map] at hx
              obtain ⟨a, _, rfl⟩ := hx
              simp [ETree.leaves]
            · exact hfield _ hx
          · exact hfield _ hx
          · exact hfield _ hx
          · unfold Validate.maxAgeErrs at hx
            split at hx <;> simp at hx
            subst hx; simp [ETree.leaves]
          · exact hfield _ hx
        exact (leavesList_nil_iff _ hpieces).mp (by rw [allErrs_leaves]; exact h)
      rw [hnil] at hne
      simp at hne

/-- **C05 (rejection).** Conversely a Config with at least one violation is rejected: with C05,
"accepted iff no violation". -/
theorem C05_reject (ext : Ext) (cfg : Config) (icfg : ICfg) (h : newInternalConfig ext cfg = .ok icfg) :
    Spec.prohibitions ext cfg = [] := by
  obtain ⟨herrs, _⟩ := (accepted_iff ext cfg icfg).mp h
  rw [← allErrs_leaves, herrs]
  rfl

/-- The forbidden-method error is built after `Normalize`; it still carries the value as supplied. -/
theorem C05_value_verbatim (name : Bytes) (h : Spec.forbiddenMethods.contains name.upper = true) :
    Spec.normalizeMethod name = name := normalize_forbidden name h

/-- The documented bounds carried by the out-of-bounds errors are the regenerated constants. -/
theorem C05_bounds :
    Facts.cors_defaultPreflightStatus = 204 ∧ Facts.cors_validatePreflightStatus_lowerBound = 200 ∧
    Facts.cors_validatePreflightStatus_upperBound = 299 ∧ Facts.cors_validateMaxAge_defaultMaxAge = 5 ∧
    Facts.cors_validateMaxAge_upperBound = 86400 ∧ Facts.cors_validateMaxAge_disableCaching = -1 := by decide

/-- **C19 (count).** The number of errors `cfgerrors.All` yields for a rejected configuration is
the number of individual violations. -/
theorem C19_count (ext : Ext) (cfg : Config) (e : Err) (h : newInternalConfig ext cfg = .error e) :
    (ETree.leaves e).length = (Spec.prohibitions ext cfg).length := by
  rw [C05 ext cfg e h]

/-- Non-vacuity: a Config with three simultaneous violations in three fields. -/
example (ext : Ext) :
    Spec.prohibitions ext { origins := [], methods := [Spec.b "CONNECT"], maxAge := 86401 } =
      [.originPattern [] .missing, .method (Spec.b "CONNECT") .forbidden, .maxAge 86401 5 86400 (-1)] := by
  rfl

#print axioms C05
#print axioms C05_accept
#print axioms C05_reject
#print axioms C05_value_verbatim
#print axioms C05_bounds
#print axioms C19_count

/-! ### Message prefix

"… whose messages start with `cors: `".  The model carries no message texts; the regenerated fact
`cfgerrors_messageTemplates` lists, for every `Error() string` method of package cfgerrors, the constant each of its
`return`s starts from (a literal, or the constant format of `fmt.Sprintf` — whose output begins with the format's
text up to its first verb).  Every one of them begins with `cors: `, none is of another shape, and all eight exported
error types are there.  (The correspondence harness checks the same on every error value it sees; this covers the
arms no configuration reaches, such as the `default:` of `IncompatibleOriginPatternError.Error`.) -/

def corsPrefix : Bytes := Spec.b "cors: "

/-- The text after `Type|`. -/
def templateText (e : Bytes) : Bytes := (e.dropWhile (· != 124)).drop 1

/-- **C05 (messages).** -/
theorem C05_message_prefix :
    (∀ e ∈ Facts.cfgerrors_messageTemplates, (templateText e).take corsPrefix.length = corsPrefix) ∧
    (∀ ty ∈ [Spec.b "*UnacceptableOriginPatternError", Spec.b "*UnacceptableMethodError", Spec.b "*UnacceptableHeaderNameError",
        Spec.b "*MaxAgeOutOfBoundsError", Spec.b "*PreflightSuccessStatusOutOfBoundsError", Spec.b "*IncompatibleOriginPatternError",
        Spec.b "*IncompatiblePrivateNetworkAccessModesError", Spec.b "*IncompatibleWildcardResponseHeaderNameError"],
      ∃ e ∈ Facts.cfgerrors_messageTemplates, e.take ty.length = ty ∧ (e.drop ty.length).head? = some 124) := by
  decide +kernel

#print axioms C05_message_prefix


/-- **C05 (translated validators).** `validatePreflightStatus` and `validateMaxAge` — the two loop-free validators, where the
integer subtleties live (range test before the `uint8` conversion, `-1` / `0` / default handling) — are translated from
/repo's config.go on every run (constants evaluated by go/types) and equal the hand-written `Validate.status` /
`Validate.maxAge` for every integer: same acceptance, same error value with its bounds, same stored value. -/
theorem C05_validators_translated (x : Int) :
    Gen.GoSrc.validatePreflightStatus x = (match Validate.status x with | .ok v => (none, v) | .error e => (some e, 0)) ∧
    Gen.GoSrc.validateMaxAge x = (match Validate.maxAge x with | .ok v => (none, v) | .error e => (some e, [])) :=
  ⟨Translated.validatePreflightStatus_eq x, Translated.validateMaxAge_eq x⟩

#print axioms C05_validators_translated


/-- **C05 (translated loop bodies).** One iteration of the `for _, name := range names` loops of `validateMethods`,
`validateRequestHeaders` and `validateResponseHeaders` — the single-pass folds with their mid-loop flags for `*` and
`Authorization`, the validity test *before* normalisation, the forbidden / prohibited / safelisted tests on the normalised
name, the error values, what is stored — is translated from /repo's config.go on every run and equals the hand-written
step function of the model, for every loop state and element; hence the folds over any configured list are the model's.
(The prologue `len(names) == 0` and the epilogue — `errors.Join`, the assignments into `icfg` — stay hand-modelled.) -/
theorem C05_loops_translated (credentialed : Bool) (names : List Bytes) :
    names.foldl Gen.GoSrc.methodStep {} = names.foldl Validate.methodStep {} ∧
    names.foldl (Gen.GoSrc.reqHdrStep credentialed) {} = names.foldl (Validate.reqHdrStep credentialed) {} ∧
    names.foldl (Gen.GoSrc.resHdrStep credentialed) {} = names.foldl (Validate.resHdrStep credentialed) {} :=
  Translated.loops_eq credentialed names

#print axioms C05_loops_translated


/-- **C05 (translated origin loop).** One iteration of the `for _, raw := range patterns` loop of `validateOrigins` — the `*`
incompatibilities, `origins.ParsePattern` and its error, the insecure-origin and public-suffix guards with their tolerance
switches (each reported, in the code's order, none skipping another), `tree.Insert` — is translated from /repo's config.go on
every run and equals `Validate.originStep` for every loop state and element (whatever the IDNA / public-suffix oracles
answer); hence the fold over any list of patterns is the model's. -/
theorem C05_originLoop_translated (ext : Ext) (credentialed pnaAny tolInsecure tolPSL : Bool) (patterns : List Bytes) :
    patterns.foldl (Gen.GoSrc.originStep ext credentialed pnaAny tolInsecure tolPSL) {} =
      patterns.foldl (Validate.originStep ext credentialed pnaAny tolInsecure tolPSL) {} :=
  Translated.originLoop_eq ext credentialed pnaAny tolInsecure tolPSL patterns

#print axioms C05_originLoop_translated


/-! ### The hand-modelled rest of config.go

Next to the translated loop bodies and loop-free validators, the model of config.go keeps by hand: the prologue and the
epilogue of each list validator (`len(names) == 0`, the declarations, `errors.Join(errs...)`, the assignments into `icfg` —
`Validate.methods`, `requestHeaders`, `responseHeaders`, `origins`), the orchestration of `newInternalConfig` (the order of the
validators = the order of `Validate.allErrs`; the flags `validateOrigins` reads are copied before it runs; `nil` is returned
with the error) and `newConfig` (C06).  Their text is fingerprinted on every run (`cors_cfgSkeletons`: SHA-256 of the text with the loops replaced by `<loop>`; Gen/Facts.lean
carries today's texts in the comment of that fact) and pinned here to the fingerprints of the text the model was written from; the differential suites tie their meaning. -/

def auditedCfgSkeletons : List Bytes := [
  Spec.b "validateOrigins|0303a87f81b11c61c232c8ff",
  Spec.b "validateMethods|b522981c75af1f5548c1a2b1",
  Spec.b "validateRequestHeaders|87c29ec5e31706f15eea92b3",
  Spec.b "validateResponseHeaders|df585120ce1a8aa18c6f7933",
  Spec.b "newInternalConfig|420009560347ad264070d6ad",
  Spec.b "newConfig|0b7058a57d97f5fe5a297b39"
]

/-- **C05 (config skeletons).** -/
theorem C05_cfg_skeletons : Facts.cors_cfgSkeletons = auditedCfgSkeletons := by decide +kernel

#print axioms C05_cfg_skeletons


/-- **C05 (translated orchestration).** The order in which `newInternalConfig` runs its validators and appends their errors
— translated from /repo's config.go on every run as a function of the validators' results — is the order of `Validate.allErrs`
(status, PNA modes, origins, methods, request headers, max-age, response headers): every validator runs whatever the earlier
ones returned, nothing stops at the first problem.  The five copies `icfg.f = cfg.F` all happen before `validateOrigins`
runs, so the validators see the flags they read. -/
theorem C05_orchestration_translated (ext : Ext) (cfg : Config) :
    Gen.GoSrc.newInternalConfigOrder cfg.pna cfg.pnaNoCors (Validate.statusErrs cfg).head? (Validate.originErrs ext cfg).head?
        (Validate.methodErrs cfg).head? (Validate.reqHdrErrs cfg).head? (Validate.maxAgeErrs cfg).head? (Validate.resHdrErrs cfg).head? =
      Validate.allErrs ext cfg ∧
    (Gen.GoSrc.newInternalConfigCopies.length = 5 ∧ ∀ c ∈ Gen.GoSrc.newInternalConfigCopies, c.take 2 = [49, 58]) :=
  ⟨Translated.newInternalConfigOrder_eq ext cfg, Translated.newInternalConfigCopies_before_origins⟩

#print axioms C05_orchestration_translated

end Cors
