import CorsVerif.Spec.Fetch
import CorsVerif.Model.Serve
/-
  C12 — Behaviour is immune to caller-side mutation and to request history.

  (a) History independence: in the model a response is a function of (configuration, debug flag,
      request, response headers already present); serving a request changes no state.
  (b) Aliasing: an ownership model over the *regenerated* install facts.  Every slice the
      middleware puts into a header map on a path that continues into the wrapped handler is
      either allocated by the call itself (`Header.Add` / `Header.Set`) or a slice of the current
      request; `Config()` stores only fresh slices; the request path writes neither through the
      configuration nor to package-level variables.  Under these facts an adversary that
      overwrites every slice it can reach cannot change what later requests read.
  What the theorems cannot carry: that the extractor classifies every Go expression correctly
  and Go's real aliasing.  The tie performs the adversary (harness `-adversarial`).
-/
namespace Cors
open Gen Spec

namespace C12

/-- Provenance classes of slices. -/
inductive Cls | fresh | request | response | singleton | config | buffer | other
deriving DecidableEq, Repr

def clsOf (b' : Bytes) : Cls :=
  if b' == b "fresh" then .fresh
  else if b' == b "request" then .request
  else if b' == b "response" then .response
  else if b' == b "singleton" then .singleton
  else if b' == b "buffer" then .buffer
  else if b'.hasPrefix (b "config:") then .config
  else .other

/-- Functions after which the wrapped handler runs (it can reach what they installed). -/
def handlerVisible (fn : Bytes) : Bool := fn == b "handleNonCORS" || fn == b "handleCORSActual"

/-- A row `function|target|operation|provenance` is safe when, on a handler-visible path, what
goes into the response header map is fresh or a slice of this very request. -/
def safeRow : List Bytes → Bool
  | [fn, target, _, cls] =>
    if handlerVisible fn && target == b "resHdrs" then clsOf cls == .fresh || clsOf cls == .request else true
  | _ => false

/-- **C12 (facts).** Regenerated on every run from the working tree. -/
theorem installs_safe : Facts.cors_installs.all safeRow = true := by decide

/-- `Config()` stores only freshly allocated slices into its result. -/
theorem config_fresh : Facts.cors_newConfigSlices.all (fun r => r.getLast? == some (b "fresh")) = true := by decide

/-- The request path writes neither through the configuration nor to package-level variables. -/
theorem no_request_path_writes : Facts.cors_requestPathWrites = [] := by decide

/-- The wrapped handler receives the identifiers `w` and `r` themselves. -/
theorem handler_gets_same_args : Facts.cors_handlerCalls.all (· == b "w,r") = true := by decide

/-! ### Ownership model -/

/-- A heap of slice cells; each cell has an owner class and a content. -/
structure Cell where
  cls : Cls
  val : Nat
deriving DecidableEq

/-- What an adversarial wrapped handler / caller may overwrite: cells installed on handler-visible
paths, cells of the Config it passed in, cells of `Config()` results. By the facts above these are
of class `fresh`, `request` or `response` — never `singleton` or `config`. -/
def adversaryMayWrite (installed : List Cls) (c : Cell) : Bool := installed.contains c.cls

/-- One adversary step: overwrite cell `i`, if reachable, with an arbitrary value. -/
def adversaryStep (installed : List Cls) : List Cell → Nat → Nat → List Cell
  | [], _, _ => []
  | c :: cs, 0, v => (if adversaryMayWrite installed c then { c with val := v } else c) :: cs
  | c :: cs, i + 1, v => c :: adversaryStep installed cs i v

/-- What later requests of any middleware read from the heap: the shared singletons and the
configuration-owned slices (fresh and request cells belong to one call only). -/
def readByLaterCalls (heap : List Cell) : List Cell := heap.filter fun c => c.cls == .singleton || c.cls == .config

theorem step_preserves (installed : List Cls) (hs : installed.contains Cls.singleton = false)
    (hc : installed.contains Cls.config = false) (heap : List Cell) (i v : Nat) :
    readByLaterCalls (adversaryStep installed heap i v) = readByLaterCalls heap := by
  induction heap generalizing i with
  | nil => rfl
  | cons c cs ih =>
    cases i with
    | zero =>
      simp only [adversaryStep]
      by_cases hw : adversaryMayWrite installed c = true
      · rw [if_pos hw]
        have hcls : (c.cls == Cls.singleton || c.cls == Cls.config) = false := by
          unfold adversaryMayWrite at hw
          cases hcl : c.cls <;> simp_all
        simp [readByLaterCalls, List.filter_cons, hcls]
      · rw [if_neg hw]
    | succ i =>
      simp only [adversaryStep, readByLaterCalls, List.filter_cons]
      have := ih i
      unfold readByLaterCalls at this
      rw [this]

/-- **C12 (non-interference).** If no singleton or configuration-owned cell is installed where
the adversary can reach it, no sequence of adversarial writes changes what later calls read. -/
theorem noninterference (installed : List Cls) (hs : installed.contains Cls.singleton = false)
    (hc : installed.contains Cls.config = false) (heap : List Cell) (writes : List (Nat × Nat)) :
    readByLaterCalls (writes.foldl (fun h w => adversaryStep installed h w.1 w.2) heap) = readByLaterCalls heap := by
  induction writes generalizing heap with
  | nil => rfl
  | cons w ws ih => rw [List.foldl_cons, ih, step_preserves installed hs hc]

/-- The classes installed on handler-visible paths, read off the regenerated facts. -/
def installedClasses : List Cls :=
  (Facts.cors_installs.filterMap fun
    | [fn, target, _, cls] => if handlerVisible fn && target == b "resHdrs" then some (clsOf cls) else none
    | _ => none)

/-- On the current source tree the hypotheses of `noninterference` hold. -/
theorem installed_ok : installedClasses.contains Cls.singleton = false ∧ installedClasses.contains Cls.config = false := by decide

end C12

open C12 in
/-- **C12.** With the install facts of the current source tree, adversarial in-place writes to
every reachable slice never change what later requests (of this or any other middleware) read. -/
theorem C12_noninterference (heap : List Cell) (writes : List (Nat × Nat)) :
    readByLaterCalls (writes.foldl (fun h w => adversaryStep installedClasses h w.1 w.2) heap) = readByLaterCalls heap :=
  noninterference installedClasses installed_ok.1 installed_ok.2 heap writes

/-- **C12 (history independence).** Serving a request leaves the middleware state untouched: the
model's handler returns a response and nothing else, so the k-th response depends only on the
state, the k-th request and the headers already present. Stated: serving any list of requests
first does not change the answer to a later request. -/
theorem C12_history (m : Mw) (earlier : List (Req × HdrMap)) (r : Req) (pre : HdrMap) :
    (earlier.foldl (fun (st : Mw) (rq : Req × HdrMap) => let _ := st.serve rq.1 rq.2; st) m).serve r pre = m.serve r pre := by
  induction earlier with
  | nil => rfl
  | cons x xs ih => simpa using ih

#print axioms C12.installs_safe
#print axioms C12.config_fresh
#print axioms C12.no_request_path_writes
#print axioms C12.handler_gets_same_args
#print axioms C12_noninterference
#print axioms C12_history

end Cors
