import CorsVerif.Proofs.Serve
import CorsVerif.Proofs.Translated
import CorsVerif.Proofs.Accepted
/-
  C10 — Vary is sufficient: cache-equivalent requests get identical CORS treatment (2-safety).

  For every decision oracle, every well-formed internal configuration, both debug modes, every
  set of response headers already present and every ordered pair of requests with the same
  method that agree on every request header named in the Vary values the middleware *added* to
  the first response: the second request gets exactly the same response (status, headers,
  handler invoked or not).  Vary values set earlier in the chain are preserved as a prefix.
-/
namespace Cors
open Gen Serve

/-- Strip leading spaces / tabs. -/
def stripLeft : Bytes → Bytes
  | 32 :: s => stripLeft s
  | 9 :: s => stripLeft s
  | s => s

/-- The header names listed in one Vary value (comma-separated, optional whitespace). -/
def Vary.names (v : Bytes) : List Bytes :=
  (Bytes.splitOn 44 v).map fun e => (stripLeft (stripLeft e).reverse).reverse

/-- The Vary values the middleware appended: what is there now beyond what was there before. -/
def addedVary (pre : HdrMap) (resp : Resp) : List Bytes :=
  ((resp.hdrs Facts.headers_Vary).getD []).drop ((pre Facts.headers_Vary).getD []).length

/-- The request-header names listed in the Vary values added by the middleware. -/
def varyNames (pre : HdrMap) (resp : Resp) : List Bytes := (addedVary pre resp).flatMap Vary.names

/-- Two requests agree on a header when the lookups are equal (absent ≠ present with zero values). -/
def agree (names : List Bytes) (r1 r2 : Req) : Prop := ∀ n ∈ names, r1.hdrs n = r2.hdrs n

theorem names_options : Vary.names Facts.headers_ValueVaryOptions =
    [Facts.headers_ACRH, Facts.headers_ACRM, Facts.headers_ACRPN, Facts.headers_Origin] := by decide

theorem names_origin : Vary.names Facts.headers_Origin = [Facts.headers_Origin] := by decide

theorem preflightVarySgl_eq : Facts.headers_PreflightVarySgl = [Facts.headers_ValueVaryOptions] := by decide

/-- The buffer never holds a `Vary` key. -/
def NoVary (b : Buf) : Prop := b Facts.headers_Vary = none

theorem NoVary_put {b : Buf} (hb : NoVary b) (k : Bytes) (v : List Bytes) (hk : Facts.headers_Vary ≠ k) :
    NoVary (b.put k v) := by
  unfold NoVary Buf.put; rw [assign_other _ _ _ _ hk]; exact hb

theorem origin_step_novary (dec : Dec) (icfg : ICfg) (b b' : Buf) (o : Bytes) (hb : NoVary b)
    (h : processOriginForPreflight dec icfg b o = some b') : NoVary b' := by
  unfold processOriginForPreflight at h
  repeat' split at h
  all_goals
    cases h <;> first
      | exact NoVary_put hb _ _ vary_ne_acao
      | exact NoVary_put (NoVary_put hb _ _ vary_ne_acao) _ _ vary_ne_acac
      | (split <;> first
          | exact NoVary_put hb _ _ vary_ne_acao
          | exact NoVary_put (NoVary_put hb _ _ vary_ne_acao) _ _ vary_ne_acac)

theorem acrpn_step_novary (icfg : ICfg) (reqHdrs : HdrMap) (b b' : Buf) (hb : NoVary b)
    (h : processACRPN icfg b reqHdrs = some b') : NoVary b' := by
  unfold processACRPN at h
  repeat' split at h
  all_goals (cases h <;> first | exact hb | exact NoVary_put hb _ _ vary_ne_acapn)

theorem acrm_step_novary (icfg : ICfg) (b b' : Buf) (m : Bytes) (hb : NoVary b)
    (h : processACRM icfg b m = some b') : NoVary b' := by
  unfold processACRM at h
  repeat' split at h
  all_goals (cases h <;> first | exact hb | exact NoVary_put hb _ _ vary_ne_acam)

theorem acrh_step_novary (dec : Dec) (icfg : ICfg) (reqHdrs : HdrMap) (dbg : Bool) (b b' : Buf) (hb : NoVary b)
    (h : processACRH dec icfg b reqHdrs dbg = some b') : NoVary b' := by
  unfold processACRH at h
  repeat' split at h
  all_goals (cases h <;> first | exact hb | exact NoVary_put hb _ _ vary_ne_acah)

/-- Whatever the outcome of the pipeline, its buffer holds no `Vary` key. -/
def Serve.Steps.buf : Steps → Buf
  | .originFail b => b
  | .laterFail b => b
  | .ok b => b

theorem NoVary_empty : NoVary HdrMap.empty := rfl

theorem steps_novary (dec : Dec) (icfg : ICfg) (reqHdrs : HdrMap) (o a : Bytes) (dbg : Bool) :
    NoVary (preflightSteps dec icfg reqHdrs o a dbg).buf := by
  unfold preflightSteps
  cases h1 : processOriginForPreflight dec icfg HdrMap.empty o with
  | none => exact NoVary_empty
  | some b1 =>
    have n1 := origin_step_novary dec icfg _ b1 o NoVary_empty h1
    simp only []
    cases h2 : processACRPN icfg b1 reqHdrs with
    | none => exact n1
    | some b2 =>
      have n2 := acrpn_step_novary icfg reqHdrs b1 b2 n1 h2
      simp only []
      cases h3 : processACRM icfg b2 a with
      | none => exact n2
      | some b3 =>
        have n3 := acrm_step_novary icfg b2 b3 a n2 h3
        simp only []
        cases h4 : processACRH dec icfg b3 reqHdrs dbg with
        | none => exact n3
        | some b4 => exact acrh_step_novary dec icfg reqHdrs dbg b3 b4 n3 h4

theorem preflightVary_vary (h : HdrMap) :
    preflightVary h Facts.headers_Vary = some ((h Facts.headers_Vary).getD [] ++ [Facts.headers_ValueVaryOptions]) := by
  unfold preflightVary
  cases hv : h Facts.headers_Vary with
  | none => simp [assign_same, preflightVarySgl_eq]
  | some v => simp [assign_same]

/-- The Vary field of a preflight response: what was there, then the four-name value. -/
theorem preflight_vary (dec : Dec) (icfg : ICfg) (pre reqHdrs : HdrMap) (o a : Bytes) (dbg : Bool) :
    (handleCORSPreflight dec icfg pre reqHdrs o a dbg).hdrs Facts.headers_Vary =
      some ((pre Facts.headers_Vary).getD [] ++ [Facts.headers_ValueVaryOptions]) := by
  have nv := steps_novary dec icfg reqHdrs o a dbg
  unfold handleCORSPreflight
  cases hs : preflightSteps dec icfg reqHdrs o a dbg with
  | originFail b =>
    rw [hs] at nv
    simp only [Steps.buf] at nv
    cases dbg <;> simp [copy_none _ _ _ nv, preflightVary_vary]
  | laterFail b =>
    rw [hs] at nv
    simp only [Steps.buf] at nv
    cases dbg <;> simp [copy_none _ _ _ nv, preflightVary_vary]
  | ok b =>
    rw [hs] at nv
    simp only [Steps.buf] at nv
    simp only []
    split
    · rw [assign_other _ _ _ _ vary_ne_acma, copy_none _ _ _ nv, preflightVary_vary]
    · rw [copy_none _ _ _ nv, preflightVary_vary]

/-- **C10 (preservation).** Earlier Vary values are kept, in order, as a prefix. -/
theorem C10_preserve_preflight (dec : Dec) (icfg : ICfg) (pre reqHdrs : HdrMap) (o a : Bytes) (dbg : Bool) :
    keptAsPrefix (pre Facts.headers_Vary) ((handleCORSPreflight dec icfg pre reqHdrs o a dbg).hdrs Facts.headers_Vary) := by
  rw [preflight_vary]; exact List.prefix_append _ _

/-! ### What the handler reads -/

theorem first_congr {h1 h2 : HdrMap} {k : Bytes} (h : h1 k = h2 k) : h1.first k = h2.first k := by
  unfold HdrMap.first; rw [h]

theorem processACRPN_congr (icfg : ICfg) (b : Buf) {h1 h2 : HdrMap}
    (h : h1 Facts.headers_ACRPN = h2 Facts.headers_ACRPN) : processACRPN icfg b h1 = processACRPN icfg b h2 := by
  unfold processACRPN; rw [first_congr h]

theorem processACRH_congr (dec : Dec) (icfg : ICfg) (b : Buf) (dbg : Bool) {h1 h2 : HdrMap}
    (h : h1 Facts.headers_ACRH = h2 Facts.headers_ACRH) : processACRH dec icfg b h1 dbg = processACRH dec icfg b h2 dbg := by
  unfold processACRH; rw [h]

theorem preflight_congr (dec : Dec) (icfg : ICfg) (pre : HdrMap) (o a : Bytes) (dbg : Bool) {h1 h2 : HdrMap}
    (hp : h1 Facts.headers_ACRPN = h2 Facts.headers_ACRPN) (hh : h1 Facts.headers_ACRH = h2 Facts.headers_ACRH) :
    handleCORSPreflight dec icfg pre h1 o a dbg = handleCORSPreflight dec icfg pre h2 o a dbg := by
  unfold handleCORSPreflight preflightSteps
  simp only [processACRPN_congr icfg _ hp, processACRH_congr dec icfg _ dbg hh]

/-- The handler reads the request only through its method and four header lookups. -/
theorem serveDec_congr (dec : Dec) (icfg : ICfg) (dbg : Bool) (r1 r2 : Req) (pre : HdrMap)
    (hm : r1.method = r2.method)
    (ho : r1.hdrs Facts.headers_Origin = r2.hdrs Facts.headers_Origin)
    (ha : r1.hdrs Facts.headers_ACRM = r2.hdrs Facts.headers_ACRM)
    (hh : r1.hdrs Facts.headers_ACRH = r2.hdrs Facts.headers_ACRH)
    (hp : r1.hdrs Facts.headers_ACRPN = r2.hdrs Facts.headers_ACRPN) :
    serveDec dec icfg dbg r1 pre = serveDec dec icfg dbg r2 pre := by
  unfold serveDec
  rw [hm, first_congr ho, first_congr ha]
  cases r2.hdrs.first Facts.headers_Origin with
  | none => rfl
  | some o =>
    cases r2.hdrs.first Facts.headers_ACRM with
    | none => rfl
    | some a => simp only [preflight_congr dec icfg pre o a dbg hp hh]

/-- For a method other than OPTIONS only the `Origin` lookup matters. -/
theorem serveDec_congr_nonOptions (dec : Dec) (icfg : ICfg) (dbg : Bool) (r1 r2 : Req) (pre : HdrMap)
    (hm : r1.method = r2.method) (hno : (r2.method == OPTIONS) = false)
    (ho : r1.hdrs Facts.headers_Origin = r2.hdrs Facts.headers_Origin) :
    serveDec dec icfg dbg r1 pre = serveDec dec icfg dbg r2 pre := by
  unfold serveDec
  rw [hm, first_congr ho, hno]
  cases r2.hdrs.first Facts.headers_Origin with
  | none => rfl
  | some o =>
    cases r1.hdrs.first Facts.headers_ACRM <;> cases r2.hdrs.first Facts.headers_ACRM <;> simp

/-- The Vary field after `Header.Add`. -/
theorem added_after_add (pre : HdrMap) (v : Bytes) (resp : Resp)
    (h : resp.hdrs Facts.headers_Vary = some ((pre Facts.headers_Vary).getD [] ++ [v])) :
    addedVary pre resp = [v] := by
  unfold addedVary; rw [h]; simp

/-- The Vary field of the response to an OPTIONS request, on every path. -/
theorem options_vary (dec : Dec) (icfg : ICfg) (dbg : Bool) (r : Req) (pre : HdrMap) (hopt : r.method = OPTIONS) :
    ∃ rest, addedVary pre (serveDec dec icfg dbg r pre) = Facts.headers_ValueVaryOptions :: rest := by
  unfold serveDec
  simp only [hopt, beq_self_eq_true, if_true]
  cases r.hdrs.first Facts.headers_Origin with
  | none =>
    refine ⟨[], ?_⟩
    apply added_after_add
    simp only [handleNonCORS, if_true]
    repeat' split
    all_goals first
      | (simp [set_other _ _ _ _ vary_ne_acao, set_other _ _ _ _ vary_ne_aceh, add_same]; done)
      | simp_all
  | some o =>
    have hact : ∃ rest, addedVary pre { hdrs := handleCORSActual dec icfg pre o true, status := none, next := true }
        = Facts.headers_ValueVaryOptions :: rest := by
      refine ⟨[], ?_⟩
      apply added_after_add
      simp only [handleCORSActual, if_true]
      repeat' split
      all_goals simp [set_other _ _ _ _ vary_ne_acao, set_other _ _ _ _ vary_ne_aceh, set_other _ _ _ _ vary_ne_acac,
        assign_other _ _ _ _ vary_ne_acao, add_same]
    cases r.hdrs.first Facts.headers_ACRM with
    | none => exact hact
    | some a => exact ⟨[], added_after_add pre _ _ (preflight_vary dec icfg pre r.hdrs o a dbg)⟩

/-- **C10.** -/
theorem C10 (dec : Dec) (icfg : ICfg) (hwf : icfg.tree.isEmpty = true → icfg.credentialed = false)
    (dbg : Bool) (r1 r2 : Req) (pre : HdrMap) (hm : r1.method = r2.method)
    (ha : agree (varyNames pre (serveDec dec icfg dbg r1 pre)) r1 r2) :
    serveDec dec icfg dbg r2 pre = serveDec dec icfg dbg r1 pre := by
  by_cases hopt : r1.method = OPTIONS
  · -- all three paths list the four names
    obtain ⟨rest, hv⟩ := options_vary dec icfg dbg r1 pre hopt
    have hin : ∀ n ∈ [Facts.headers_ACRH, Facts.headers_ACRM, Facts.headers_ACRPN, Facts.headers_Origin],
        r1.hdrs n = r2.hdrs n := by
      intro n hn
      apply ha
      unfold varyNames
      rw [hv, List.flatMap_cons, names_options]
      exact List.mem_append_left _ hn
    exact (serveDec_congr dec icfg dbg r1 r2 pre hm (hin _ (by simp)) (hin _ (by simp)) (hin _ (by simp)) (hin _ (by simp))).symm
  · have hno1 : (r1.method == OPTIONS) = false := by simpa using hopt
    have hno2 : (r2.method == OPTIONS) = false := by rw [← hm]; exact hno1
    by_cases hdep : icfg.pnaNoCors = false ∧ icfg.tree.isEmpty = false
    · -- the response may depend on Origin, and Origin is listed
      have hv : addedVary pre (serveDec dec icfg dbg r1 pre) = [Facts.headers_Origin] := by
        apply added_after_add
        unfold serveDec
        simp only [hno1]
        cases r1.hdrs.first Facts.headers_Origin with
        | none =>
          simp only [handleNonCORS, hdep.1, hdep.2]
          simp [add_same]
        | some o =>
          have : (handleCORSActual dec icfg pre o false) Facts.headers_Vary =
              some ((pre Facts.headers_Vary).getD [] ++ [Facts.headers_Origin]) := by
            simp only [handleCORSActual, hdep.1, hdep.2, ite_app]
            repeat' split
            all_goals first
              | (simp [set_other _ _ _ _ vary_ne_acao, set_other _ _ _ _ vary_ne_aceh, set_other _ _ _ _ vary_ne_acac,
                  assign_other _ _ _ _ vary_ne_acao, add_same]; done)
              | (simp_all; done)
              | trace_state
          cases r1.hdrs.first Facts.headers_ACRM <;> simpa using this
      have ho : r1.hdrs Facts.headers_Origin = r2.hdrs Facts.headers_Origin := by
        apply ha
        unfold varyNames
        rw [hv]
        simp [names_origin]
      exact (serveDec_congr_nonOptions dec icfg dbg r1 r2 pre hm hno2 ho).symm
    · -- the response does not depend on the request at all
      have key : ∀ r : Req, (r.method == OPTIONS) = false →
          serveDec dec icfg dbg r pre = { hdrs := handleNonCORS icfg pre false, status := none, next := true } := by
        intro r hr
        unfold serveDec
        simp only [hr]
        cases r.hdrs.first Facts.headers_Origin with
        | none => rfl
        | some o =>
          have : handleCORSActual dec icfg pre o false = handleNonCORS icfg pre false := by
            unfold handleCORSActual handleNonCORS
            by_cases hp : icfg.pnaNoCors = true
            · simp [hp]
            · have hp' : icfg.pnaNoCors = false := by simpa using hp
              have ht : icfg.tree.isEmpty = true := by
                cases hte : icfg.tree.isEmpty with
                | true => rfl
                | false => exact absurd ⟨hp', hte⟩ hdep
              simp [hp', ht, hwf ht]
          cases r.hdrs.first Facts.headers_ACRM <;> simp [this]
      rw [key r1 hno1, key r2 hno2]

/-- **C10 (preservation).** Vary values set earlier in the chain are preserved, in order, as a prefix
(for non-preflight requests this is part of C11's frame theorem; here the preflight case). -/
theorem C10_preserve (dec : Dec) (icfg : ICfg) (dbg : Bool) (r : Req) (pre : HdrMap) (hp : r.isPreflight = true) :
    keptAsPrefix (pre Facts.headers_Vary) ((serveDec dec icfg dbg r pre).hdrs Facts.headers_Vary) := by
  unfold Req.isPreflight at hp
  simp only [Bool.and_eq_true, beq_iff_eq, Option.isSome_iff_exists] at hp
  obtain ⟨⟨hm, ⟨o, ho⟩⟩, ⟨a, ha⟩⟩ := hp
  simp only [serveDec, ho, ha, hm, beq_self_eq_true, if_true]
  exact C10_preserve_preflight dec icfg pre r.hdrs o a dbg

#print axioms C10
#print axioms C10_preserve

/-- **C10 for every accepted configuration**, with the model's own tree and lexer as decisions. -/
theorem C10_accepted (ext : Ext) (cfg : Config) (icfg : ICfg) (h : newInternalConfig ext cfg = .ok icfg)
    (dbg : Bool) (r1 r2 : Req) (pre : HdrMap) (hm : r1.method = r2.method)
    (ha : agree (varyNames pre (serve icfg dbg r1 pre)) r1 r2) :
    serve icfg dbg r2 pre = serve icfg dbg r1 pre :=
  C10 (modelDec icfg) icfg (accepted_wf ext cfg icfg h).star_not_cred dbg r1 r2 pre hm ha

/-- Non-vacuity: two requests that differ only in an unrelated header agree on every list of names
that does not mention it. -/
example : agree [Facts.headers_Origin] { method := [71, 69, 84], hdrs := fun k => if k == [88] then some [[1]] else none }
    { method := [71, 69, 84], hdrs := fun _ => none } := by
  intro n hn; simp at hn; subst hn; decide

#print axioms C10_accepted


/-- **C10 (translated handlers).** `handleNonCORS` and `handleCORSActual` — everything the middleware does to a request
that is not a preflight — are translated from /repo's middleware.go into Lean on every run (Gen/Pipeline.lean); for every
internal configuration, response headers already present, Origin value and method kind each translated function equals
the hand-written model's (and `handleCORSActual` writes no status).  An edit of one of these Go functions that changes its meaning, or leaves the translated
subset of Go, breaks this obligation. -/
theorem C10_handlers_translated (icfg : ICfg) (h : HdrMap) (origin : Bytes) (isOPTIONS : Bool) :
    Gen.GoSrc.handleNonCORS icfg h isOPTIONS = Serve.handleNonCORS icfg h isOPTIONS ∧
    Gen.GoSrc.handleCORSActual icfg h origin [origin] isOPTIONS =
      (Serve.handleCORSActual (Serve.modelDec icfg) icfg h origin isOPTIONS, none) :=
  Translated.handlers_eq icfg h origin isOPTIONS

#print axioms C10_handlers_translated


/-- **C10 (translated closure).** The handler closure returned by `Wrap` — from the statement after its passthrough test on:
the dispatch on the first `Origin` value, the method and the first `Access-Control-Request-Method` value, the calls of
`handleNonCORS` / `handleCORSPreflight` / `handleCORSActual` and of the wrapped handler — is translated from /repo's middleware.go
on every run, on top of the translated handlers and steps; as a function of (configuration, debug mode, request, response headers
already present) it *is* `Serve.serve`, the function every theorem about responses in this development speaks about.  So the whole
request path of middleware.go below the snapshot under the read lock is regenerated from the source and proved equal to the model;
what stays hand-modelled there is `net/http.Header`, `maps.Copy`, `headers.First` (index level: `C17_ix_first`) and the
functions the steps call (`origins.Parse`, `Tree.Contains`, `headers.Check`, `methods.IsSafelisted`, `Set.Contains`: C17's refinements). -/
theorem C10_closure_translated (icfg : ICfg) (debug : Bool) (r : Req) (pre : HdrMap) :
    Gen.GoSrc.serveClosure icfg debug r pre = Serve.serve icfg debug r pre :=
  Translated.serveClosure_eq icfg debug r pre

#print axioms C10_closure_translated

end Cors
