import CorsVerif.Proofs.Accepted
/-
  C06 — Config() round-trips: Reconfigure(Config()) is a no-op and constructors agree.

  Proved so far (partial):
    * C06_ctor: a zero-value middleware reconfigured with &c and NewMiddleware(c) are the same
      function of c (same configuration, debug off);
    * C06_flags: Config() carries the five switches through unchanged;
    * C06_status: the success status survives the round trip through Config() and validation;
    * C06_render_ipv6: an IPv6 host is rendered with its brackets (the repaired defect 7.1).
  The full statement — validation accepts newConfig icfg and yields a configuration with the same
  meaning, and Config() is stable after one round trip — needs `render ∘ parse` lemmas for every
  entry the tree can hold plus C01; it is stated as `C06_full` and is covered by the `roundtrip`
  relational suite (Go against Go) until proved.
-/
namespace Cors
open Gen

/-- **C06 (constructors).** `new(Middleware)` + `Reconfigure(&c)` ≡ `NewMiddleware(c)`. -/
theorem C06_ctor (ext : Ext) (cfg : Config) :
    Mw.zero.reconfigure ext (some cfg) =
      (match Mw.new ext cfg with | .ok m => (none, m) | .error e => (some e, Mw.zero)) := by
  unfold Mw.new Mw.reconfigure
  cases h : newInternalConfig ext cfg <;> simp [h, Mw.zero]

/-- **C06 (switches).** -/
theorem C06_flags (icfg : ICfg) :
    (newConfig icfg).credentialed = icfg.credentialed ∧ (newConfig icfg).pna = icfg.pna ∧
    (newConfig icfg).pnaNoCors = icfg.pnaNoCors ∧ (newConfig icfg).tolInsecure = icfg.insecureOrigins ∧
    (newConfig icfg).tolPSL = icfg.subsOfPublicSuffixes := ⟨rfl, rfl, rfl, rfl, rfl⟩

/-- **C06 (status).** For an accepted configuration, validating the status that Config() reports
gives back the same internal value (204 is reported as 0, the default). -/
theorem C06_status (icfg : ICfg) (h : icfg.statusMinus200 < 100) :
    Validate.status (newConfig icfg).status = .ok icfg.statusMinus200 := by
  have e1 : (Facts.cors_validatePreflightStatus_lowerBound : Int) = 200 := rfl
  have e2 : (Facts.cors_validatePreflightStatus_upperBound : Int) = 299 := rfl
  have e3 : Facts.cors_defaultPreflightStatus = 204 := rfl
  by_cases h4 : icfg.statusMinus200 = 4
  · have hs : (newConfig icfg).status = 0 := by
      simp [newConfig, h4, e3]
    rw [hs]
    simp [Validate.status, e3, h4]
  · have hs : (newConfig icfg).status = (icfg.statusMinus200 : Int) + 200 := by
      have hne : ((icfg.statusMinus200 + 200) % 256 != Facts.cors_defaultPreflightStatus % 256) = true := by
        rw [e3]; simp only [bne_iff_ne, ne_eq]; omega
      simp [newConfig, hne]
    rw [hs]
    unfold Validate.status
    rw [e1, e2]
    have hnz : ((icfg.statusMinus200 : Int) + 200 == 0) = false := by
      simp only [beq_eq_false_iff_ne, ne_eq]; omega
    have hb : (!(decide ((200 : Int) ≤ (icfg.statusMinus200 : Int) + 200) && decide ((icfg.statusMinus200 : Int) + 200 ≤ (299 : Int)))) = false := by
      simp only [Bool.not_eq_false', Bool.and_eq_true, decide_eq_true_eq]
      omega
    rw [if_neg (by rw [hnz]; simp), if_neg (by rw [hb]; simp)]
    have h1 : ((icfg.statusMinus200 : Int) + 200 - 200) = (icfg.statusMinus200 : Int) := by omega
    rw [h1, Int.toNat_natCast, Nat.mod_eq_of_lt (by omega)]

/-- **C06 (IPv6 rendering).** `Elems` puts the brackets back around a host that contains a colon. -/
theorem C06_render_ipv6 (scheme host : Bytes) (h : host.contains Facts.origins_hostPortSep = true) :
    Node.renderEntry scheme host 0 = scheme ++ Facts.origins_schemeHostSep ++ ([91] ++ host ++ [93]) := by
  unfold Node.renderEntry
  simp only [h, if_true]
  simp

/-- The full statement, to be proved. -/
def C06_full : Prop :=
  ∀ (ext : Ext) (cfg : Config) (icfg : ICfg), newInternalConfig ext cfg = .ok icfg →
    ∃ icfg', newInternalConfig ext (newConfig icfg) = .ok icfg' ∧
      (∀ dbg r pre, (Serve.serve icfg' dbg r pre).status = (Serve.serve icfg dbg r pre).status ∧
        ∀ n, (Serve.serve icfg' dbg r pre).hdrs n = (Serve.serve icfg dbg r pre).hdrs n) ∧
      newConfig icfg' = newConfig icfg

#print axioms C06_ctor
#print axioms C06_flags
#print axioms C06_status
#print axioms C06_render_ipv6

end Cors
