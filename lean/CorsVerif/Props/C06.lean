import CorsVerif.Proofs.Accepted
import CorsVerif.Proofs.C06Assembly
import CorsVerif.Proofs.OriginsStable
import CorsVerif.Proofs.NetFacts
/-
  C06 — Config() round-trips: Reconfigure(Config()) is a no-op and constructors agree.

  Proved:
    * C06_roundtrip: for every accepted configuration, the `Config` rendered by `Config()` validates,
      builds *the same handler function*, and renders again to the same `Config` in every field other
      than `Origins` (whose elements parse to listed patterns and build an equivalent tree);
    * C06_stable: after one such round trip `Config()` is a fixed point, `Origins` included;
    * C06_ctor: a zero-value middleware reconfigured with &c and NewMiddleware(c) are the same
      function of c (same configuration, debug off);
    * C06_flags, C06_status, C06_render_ipv6 (the repaired defect 7.1).
  Proof layers: Proofs/Elems.lean (stored entries of a tree: `elems` renders them, the tree denotes
  the union of their coverages, insertion stores nothing but the new entry), Proofs/Render.lean
  (`Itoa` against the digit readers), Proofs/RoundTrip.lean (rendering an accepted pattern gives
  back the string it was parsed from), Proofs/TreeRoundTrip.lean, Proofs/CfgRoundTrip.lean
  (methods, request headers, response headers, max-age), Proofs/C06Assembly.lean.
  Proofs/RenderIdem.lean (parsing the rendering of an accepted pattern gives the same pattern, also for
  an IPv4 address written in brackets, which is rendered without them), Proofs/StoreAbs … OriginsStable
  (what `Tree.Insert` does to the multiset of stored entries, and why the list stabilises).
  No configuration is excluded.
-/
namespace Cors
open Gen

/-- **C06 (constructors).** `new(Middleware)` + `Reconfigure(&c)` ≡ `NewMiddleware(c)`. -/
theorem C06_ctor (ext : Ext) (cfg : Config) :
    Mw.zero.reconfigure ext (some cfg) =
      (match Mw.new ext cfg with | .ok m => (none, m) | .error e => (some e, Mw.zero)) := by
  unfold Mw.new Mw.reconfigure
  cases h : newInternalConfig ext cfg <;> simp [h, Mw.zero]

/-- **C06 (switches).** -/
theorem C06_flags (icfg : ICfg) :
    (newConfig icfg).credentialed = icfg.credentialed ∧ (newConfig icfg).pna = icfg.pna ∧
    (newConfig icfg).pnaNoCors = icfg.pnaNoCors ∧ (newConfig icfg).tolInsecure = icfg.insecureOrigins ∧
    (newConfig icfg).tolPSL = icfg.subsOfPublicSuffixes := ⟨rfl, rfl, rfl, rfl, rfl⟩

/-- **C06 (status).** For an accepted configuration, validating the status that Config() reports
gives back the same internal value (204 is reported as 0, the default). -/
theorem C06_status (icfg : ICfg) (h : icfg.statusMinus200 < 100) :
    Validate.status (newConfig icfg).status = .ok icfg.statusMinus200 := by
  have e1 : (Facts.cors_validatePreflightStatus_lowerBound : Int) = 200 := rfl
  have e2 : (Facts.cors_validatePreflightStatus_upperBound : Int) = 299 := rfl
  have e3 : Facts.cors_defaultPreflightStatus = 204 := rfl
  by_cases h4 : icfg.statusMinus200 = 4
  · have hs : (newConfig icfg).status = 0 := by
      simp [newConfig, h4, e3]
    rw [hs]
    simp [Validate.status, e3, h4]
  · have hs : (newConfig icfg).status = (icfg.statusMinus200 : Int) + 200 := by
      have hne : ((icfg.statusMinus200 + 200) % 256 != Facts.cors_defaultPreflightStatus % 256) = true := by
        rw [e3]; simp only [bne_iff_ne, ne_eq]; omega
      simp [newConfig, hne]
    rw [hs]
    unfold Validate.status
    rw [e1, e2]
    have hnz : ((icfg.statusMinus200 : Int) + 200 == 0) = false := by
      simp only [beq_eq_false_iff_ne, ne_eq]; omega
    have hb : (!(decide ((200 : Int) ≤ (icfg.statusMinus200 : Int) + 200) && decide ((icfg.statusMinus200 : Int) + 200 ≤ (299 : Int)))) = false := by
      simp only [Bool.not_eq_false', Bool.and_eq_true, decide_eq_true_eq]
      omega
    rw [if_neg (by rw [hnz]; simp), if_neg (by rw [hb]; simp)]
    have h1 : ((icfg.statusMinus200 : Int) + 200 - 200) = (icfg.statusMinus200 : Int) := by omega
    rw [h1, Int.toNat_natCast, Nat.mod_eq_of_lt (by omega)]

/-- **C06 (IPv6 rendering).** `Elems` puts the brackets back around a host that contains a colon. -/
theorem C06_render_ipv6 (scheme host : Bytes) (h : host.contains Facts.origins_hostPortSep = true) :
    Node.renderEntry scheme host 0 = scheme ++ Facts.origins_schemeHostSep ++ ([91] ++ host ++ [93]) := by
  unfold Node.renderEntry
  simp only [h, if_true]
  simp

/-- What `newConfig` renders for the status. -/
def statusOf (n : Nat) : Int :=
  if (n + 200) % 256 != Facts.cors_defaultPreflightStatus % 256 then (n : Int) + 200 else 0

theorem newConfig_status (i : ICfg) : (newConfig i).status = statusOf i.statusMinus200 := by
  unfold newConfig statusOf
  rfl

open Validate CfgRT TreeRT C06A in
/-- **C06 (round trip).** For every accepted configuration: validating the `Config` that `Config()`
returns succeeds; the middleware built from it — equivalently, the same middleware after
`Reconfigure(Config())` — is the same handler function (same status, headers and hand-over for
every debug mode, request and pre-existing header map); and the two `Config()` values agree on
every field other than `Origins` (whose patterns build an equivalent tree).

`hext` is the hypothesis of `C01_parsed` (the IPv6 oracle accepts no literal starting with `*`). -/
theorem C06_roundtrip (ext : Ext) (hext : ∀ h info, ext.ip6 h = some info → h.head? ≠ some 42)
    (cfg : Config) (icfg : ICfg) (acc : newInternalConfig ext cfg = .ok icfg) :
    ∃ icfg', newInternalConfig ext (newConfig icfg) = .ok icfg' ∧
      Serve.serve icfg' = Serve.serve icfg ∧
      (newConfig icfg').credentialed = (newConfig icfg).credentialed ∧
      (newConfig icfg').methods = (newConfig icfg).methods ∧
      (newConfig icfg').requestHeaders = (newConfig icfg).requestHeaders ∧
      (newConfig icfg').maxAge = (newConfig icfg).maxAge ∧
      (newConfig icfg').responseHeaders = (newConfig icfg).responseHeaders ∧
      (newConfig icfg').status = (newConfig icfg).status ∧
      (newConfig icfg').pna = (newConfig icfg).pna ∧ (newConfig icfg').pnaNoCors = (newConfig icfg).pnaNoCors ∧
      (newConfig icfg').tolInsecure = (newConfig icfg).tolInsecure ∧ (newConfig icfg').tolPSL = (newConfig icfg).tolPSL := by
  obtain ⟨herrs, hb⟩ := (accepted_iff ext cfg icfg).mp acc
  obtain ⟨h0, h1, h2, h3, h4, h5, h6⟩ := allErrs_nil herrs
  have hwf := accepted_wf ext cfg icfg acc
  subst hb
  -- the pieces of the original validation
  have hMerr : (Validate.methods cfg.methods).1 = [] := fieldErr_nil h3
  have hQerr : (Validate.requestHeaders cfg.credentialed cfg.requestHeaders).1 = [] := fieldErr_nil h4
  have hEerr : (Validate.responseHeaders cfg.credentialed cfg.responseHeaders).1 = [] := fieldErr_nil h6
  obtain ⟨acma, hA⟩ : ∃ acma, Validate.maxAge cfg.maxAge = .ok acma := by
    unfold Validate.maxAgeErrs at h5
    cases hm : Validate.maxAge cfg.maxAge with
    | error e => rw [hm] at h5; simp at h5
    | ok v => exact ⟨v, rfl⟩
  have hne : cfg.origins ≠ [] := by
    intro h
    unfold Validate.originErrs at h2
    simp [h, Validate.originsResult, Validate.origins] at h2
  have hclean : cfg.origins.flatMap (rawErrs ext cfg.credentialed (Validate.pnaAny cfg) cfg.tolInsecure cfg.tolPSL) = [] := by
    unfold Validate.originErrs at h2
    have he : cfg.origins.isEmpty = false := by
      cases hc : cfg.origins with
      | nil => exact absurd hc hne
      | cons _ _ => rfl
    rw [he] at h2
    have := fieldErr_nil (by simpa using h2)
    unfold Validate.originsResult at this
    rw [origins_eq _ _ _ _ _ _ hne] at this
    exact this
  -- the round trips of the fields
  have hO := origins_part ext hext cfg.credentialed (Validate.pnaAny cfg) cfg.tolInsecure cfg.tolPSL cfg.origins hne hclean
  simp only [] at hO
  obtain ⟨hOne, hOerr, hOtree⟩ := hO
  have hM := methods_roundtrip cfg.methods
  obtain ⟨hQ1, hQ2, hQ3, hQ4⟩ := reqHdrs_roundtrip cfg.credentialed cfg.requestHeaders hQerr
  have hE := resHdrs_roundtrip cfg.credentialed cfg.responseHeaders hEerr
  have hA' := maxAge_roundtrip cfg.maxAge acma hA
  have hS := C06_status (Validate.build ext cfg) hwf.status_lt
  have hacma : (Validate.build ext cfg).acma = acma := by
    show (match Validate.maxAge cfg.maxAge with | .ok v => v | .error _ => []) = acma
    rw [hA]
  have hempty : cfg.origins.isEmpty = false := by
    cases hc : cfg.origins with
    | nil => exact absurd hc hne
    | cons _ _ => rfl
  -- acceptance of the rendered configuration
  have e0 : Validate.statusErrs (newConfig (Validate.build ext cfg)) = [] := by
    unfold Validate.statusErrs
    rw [hS]
  have e1 : Validate.pnaErrs (newConfig (Validate.build ext cfg)) = [] := h1
  have e2 : Validate.originErrs ext (newConfig (Validate.build ext cfg)) = [] := by
    unfold Validate.originErrs Validate.originsResult
    have hne' : (newConfig (Validate.build ext cfg)).origins.isEmpty = false := by
      cases hc : (newConfig (Validate.build ext cfg)).origins with
      | nil => exact absurd hc hOne
      | cons _ _ => rfl
    rw [hne']
    simp only [Bool.false_eq_true, if_false]
    show Validate.fieldErr (Validate.origins ext cfg.credentialed (Validate.pnaAny cfg) cfg.tolInsecure cfg.tolPSL
      (if Node.isEmpty (Validate.origins ext cfg.credentialed (Validate.pnaAny cfg) cfg.tolInsecure cfg.tolPSL cfg.origins).2 = true
        then [Validate.star]
        else Tree.elems (Validate.origins ext cfg.credentialed (Validate.pnaAny cfg) cfg.tolInsecure cfg.tolPSL cfg.origins).2)).1 = []
    rw [hOerr]; rfl
  have e3 : Validate.methodErrs (newConfig (Validate.build ext cfg)) = [] := by
    show Validate.fieldErr (Validate.methods (renderMethods (Validate.methods cfg.methods).2.1 (Validate.methods cfg.methods).2.2)).1 = []
    rw [hM]; rfl
  have e4 : Validate.reqHdrErrs (newConfig (Validate.build ext cfg)) = [] := by
    show Validate.fieldErr (Validate.requestHeaders cfg.credentialed (renderReqHdrs cfg.credentialed
      (Validate.requestHeaders cfg.credentialed cfg.requestHeaders).2.1 (Validate.requestHeaders cfg.credentialed cfg.requestHeaders).2.2.1
      (Validate.requestHeaders cfg.credentialed cfg.requestHeaders).2.2.2.1)).1 = []
    rw [hQ1]; rfl
  have e5 : Validate.maxAgeErrs (newConfig (Validate.build ext cfg)) = [] := by
    have hm : (newConfig (Validate.build ext cfg)).maxAge = renderMaxAge (Validate.build ext cfg).acma := rfl
    unfold Validate.maxAgeErrs
    rw [hm, hacma, hA']
  have e6 : Validate.resHdrErrs (newConfig (Validate.build ext cfg)) = [] := by
    show Validate.fieldErr (Validate.responseHeaders cfg.credentialed (renderResHdrs (Validate.responseHeaders cfg.credentialed cfg.responseHeaders).2)).1 = []
    rw [hE]; rfl
  have hall : Validate.allErrs ext (newConfig (Validate.build ext cfg)) = [] := by
    unfold Validate.allErrs
    rw [e0, e1, e2, e3, e4, e5, e6]; rfl
  have hacc' : newInternalConfig ext (newConfig (Validate.build ext cfg)) = .ok (Validate.build ext (newConfig (Validate.build ext cfg))) :=
    (accepted_iff ext _ _).mpr ⟨hall, rfl⟩
  refine ⟨_, hacc', ?_, ?_⟩
  · -- the same handler
    apply serve_congr
    refine ⟨?_, ?_, ?_, ?_, ?_, rfl, ?_, ?_, ?_, rfl, rfl, ?_, ?_, rfl, rfl⟩
    · exact hOtree
    · show (Validate.methods (renderMethods (Validate.methods cfg.methods).2.1 (Validate.methods cfg.methods).2.2)).2.2 = (Validate.methods cfg.methods).2.2
      rw [hM]
    · have := congrArg (fun x => x.1) hQ3
      exact this
    · have := congrArg (fun x => x.2) hQ3
      exact this
    · show (match Validate.status (newConfig (Validate.build ext cfg)).status with | .ok v => v | .error _ => 0) = (Validate.build ext cfg).statusMinus200
      rw [hS]
    · show (Validate.methods (renderMethods (Validate.methods cfg.methods).2.1 (Validate.methods cfg.methods).2.2)).2.1 = (Validate.methods cfg.methods).2.1
      rw [hM]
    · exact hQ2
    · by_cases hx : ((Validate.build ext cfg).asteriskReqHdrs && (Validate.build ext cfg).credentialed) = true
      · exact Or.inl hx
      · exact Or.inr (hQ4 ((Bool.not_eq_true _).mp hx))
    · show (match Validate.maxAge (renderMaxAge (Validate.build ext cfg).acma) with | .ok v => v | .error _ => []) = (Validate.build ext cfg).acma
      rw [hacma, hA']
    · show (Validate.responseHeaders cfg.credentialed (renderResHdrs (Validate.responseHeaders cfg.credentialed cfg.responseHeaders).2)).2 =
        (Validate.responseHeaders cfg.credentialed cfg.responseHeaders).2
      rw [hE]
  · -- `Config()` is stable in every field other than Origins
    have f_any : (Validate.build ext (newConfig (Validate.build ext cfg))).allowAnyMethod = (Validate.build ext cfg).allowAnyMethod := by
      show (Validate.methods (renderMethods (Validate.methods cfg.methods).2.1 (Validate.methods cfg.methods).2.2)).2.1 = (Validate.methods cfg.methods).2.1
      rw [hM]
    have f_am : (Validate.build ext (newConfig (Validate.build ext cfg))).allowedMethods = (Validate.build ext cfg).allowedMethods := by
      show (Validate.methods (renderMethods (Validate.methods cfg.methods).2.1 (Validate.methods cfg.methods).2.2)).2.2 = (Validate.methods cfg.methods).2.2
      rw [hM]
    have f_ast : (Validate.build ext (newConfig (Validate.build ext cfg))).asteriskReqHdrs = (Validate.build ext cfg).asteriskReqHdrs := hQ2
    have f_set : (Validate.build ext (newConfig (Validate.build ext cfg))).allowedReqHdrs = (Validate.build ext cfg).allowedReqHdrs :=
      congrArg (fun x => x.1) hQ3
    have f_acma : (Validate.build ext (newConfig (Validate.build ext cfg))).acma = (Validate.build ext cfg).acma := by
      show (match Validate.maxAge (renderMaxAge (Validate.build ext cfg).acma) with | .ok v => v | .error _ => []) = (Validate.build ext cfg).acma
      rw [hacma, hA']
    have f_aceh : (Validate.build ext (newConfig (Validate.build ext cfg))).aceh = (Validate.build ext cfg).aceh := by
      show (Validate.responseHeaders cfg.credentialed (renderResHdrs (Validate.responseHeaders cfg.credentialed cfg.responseHeaders).2)).2 =
        (Validate.responseHeaders cfg.credentialed cfg.responseHeaders).2
      rw [hE]
    have f_st : (Validate.build ext (newConfig (Validate.build ext cfg))).statusMinus200 = (Validate.build ext cfg).statusMinus200 := by
      show (match Validate.status (newConfig (Validate.build ext cfg)).status with | .ok v => v | .error _ => 0) = (Validate.build ext cfg).statusMinus200
      rw [hS]
    refine ⟨rfl, ?_, ?_, ?_, ?_, ?_, rfl, rfl, rfl, rfl⟩
    · show renderMethods (Validate.build ext (newConfig (Validate.build ext cfg))).allowAnyMethod
          (Validate.build ext (newConfig (Validate.build ext cfg))).allowedMethods =
        renderMethods (Validate.build ext cfg).allowAnyMethod (Validate.build ext cfg).allowedMethods
      rw [f_any, f_am]
    · -- the Authorization flag may differ only under a credentialed `*`, where it is not rendered
      show renderReqHdrs (Validate.build ext cfg).credentialed (Validate.build ext (newConfig (Validate.build ext cfg))).asteriskReqHdrs
          (Validate.build ext (newConfig (Validate.build ext cfg))).allowAuthorization
          (Validate.build ext (newConfig (Validate.build ext cfg))).allowedReqHdrs =
        renderReqHdrs (Validate.build ext cfg).credentialed (Validate.build ext cfg).asteriskReqHdrs
          (Validate.build ext cfg).allowAuthorization (Validate.build ext cfg).allowedReqHdrs
      rw [f_ast, f_set]
      by_cases hx : ((Validate.build ext cfg).asteriskReqHdrs && (Validate.build ext cfg).credentialed) = true
      · simp only [Bool.and_eq_true] at hx
        unfold renderReqHdrs
        rw [hx.2, hx.1]
        simp
      · have hau : (Validate.build ext (newConfig (Validate.build ext cfg))).allowAuthorization = (Validate.build ext cfg).allowAuthorization :=
          hQ4 ((Bool.not_eq_true _).mp hx)
        rw [hau]
    · show renderMaxAge (Validate.build ext (newConfig (Validate.build ext cfg))).acma = renderMaxAge (Validate.build ext cfg).acma
      rw [f_acma]
    · show renderResHdrs (Validate.build ext (newConfig (Validate.build ext cfg))).aceh = renderResHdrs (Validate.build ext cfg).aceh
      rw [f_aceh]
    · rw [newConfig_status, newConfig_status, f_st]

theorem Config.ext' (a b : Config) (h1 : a.origins = b.origins) (h2 : a.credentialed = b.credentialed)
    (h3 : a.methods = b.methods) (h4 : a.requestHeaders = b.requestHeaders) (h5 : a.maxAge = b.maxAge)
    (h6 : a.responseHeaders = b.responseHeaders) (h7 : a.status = b.status) (h8 : a.pna = b.pna)
    (h9 : a.pnaNoCors = b.pnaNoCors) (h10 : a.tolInsecure = b.tolInsecure) (h11 : a.tolPSL = b.tolPSL) : a = b := by
  cases a; cases b
  simp only [] at h1 h2 h3 h4 h5 h6 h7 h8 h9 h10 h11
  subst h1 h2 h3 h4 h5 h6 h7 h8 h9 h10 h11
  rfl

open Validate CfgRT TreeRT C06A in
/-- **C06 (last sentence: after one round trip `Config()` no longer changes).** For every accepted
configuration: the `Config` that `Config()` returns is
accepted; the `Config()` of *that* middleware is accepted as well, and from then on the value is a
fixed point — literally equal in every field, `Origins` included, whatever redundant or mutually
subsuming patterns the original listed and in whatever order. -/
theorem C06_stable (ext : Ext) (hext : ∀ h info, ext.ip6 h = some info → h.head? ≠ some 42)
    (cfg : Config) (icfg : ICfg) (acc : newInternalConfig ext cfg = .ok icfg) :
    ∃ icfg' icfg'', newInternalConfig ext (newConfig icfg) = .ok icfg' ∧
      newInternalConfig ext (newConfig icfg') = .ok icfg'' ∧
      newConfig icfg'' = newConfig icfg' := by
  -- the Origins field of the input is acceptable
  obtain ⟨herrs, hb⟩ := (accepted_iff ext cfg icfg).mp acc
  obtain ⟨_, _, h2, _, _, _, _⟩ := allErrs_nil herrs
  have hne : cfg.origins ≠ [] := by
    intro h
    unfold Validate.originErrs at h2
    simp [h, Validate.originsResult, Validate.origins] at h2
  have hclean : cfg.origins.flatMap (rawErrs ext cfg.credentialed (Validate.pnaAny cfg) cfg.tolInsecure cfg.tolPSL) = [] := by
    unfold Validate.originErrs at h2
    have he : cfg.origins.isEmpty = false := by
      cases hc : cfg.origins with
      | nil => exact absurd hc hne
      | cons _ _ => rfl
    rw [he] at h2
    have := fieldErr_nil (by simpa using h2)
    unfold Validate.originsResult at this
    rw [origins_eq _ _ _ _ _ _ hne] at this
    exact this
  have hA : Acceptable ext cfg.credentialed (Validate.pnaAny cfg) cfg.tolInsecure cfg.tolPSL cfg.origins :=
    ⟨hne, nil_of_flatMap_nil hclean⟩
  -- first round trip
  obtain ⟨icfg', acc', _, _⟩ := C06_roundtrip ext hext cfg icfg acc
  obtain ⟨_, hb'⟩ := (accepted_iff ext _ icfg').mp acc'
  subst hb
  have ho1 : (newConfig (Validate.build ext cfg)).origins =
      originsOf ext cfg.credentialed (Validate.pnaAny cfg) cfg.tolInsecure cfg.tolPSL cfg.origins := rfl
  -- second round trip
  obtain ⟨icfg'', acc'', _, f2, f3, f4, f5, f6, f7, f8, f9, f10, f11⟩ :=
    C06_roundtrip ext hext (newConfig (Validate.build ext cfg)) icfg' acc'
  obtain ⟨_, hb''⟩ := (accepted_iff ext _ icfg'').mp acc''
  refine ⟨icfg', icfg'', acc', acc'', ?_⟩
  apply Config.ext' _ _ ?_ f2 f3 f4 f5 f6 f7 f8 f9 f10 f11
  subst hb' hb''
  have ho2 : (newConfig (Validate.build ext (newConfig (Validate.build ext cfg)))).origins =
      originsOf ext cfg.credentialed (Validate.pnaAny cfg) cfg.tolInsecure cfg.tolPSL
        (originsOf ext cfg.credentialed (Validate.pnaAny cfg) cfg.tolInsecure cfg.tolPSL cfg.origins) := rfl
  have ho3 : (newConfig (Validate.build ext (newConfig (Validate.build ext (newConfig (Validate.build ext cfg)))))).origins =
      originsOf ext cfg.credentialed (Validate.pnaAny cfg) cfg.tolInsecure cfg.tolPSL
        (originsOf ext cfg.credentialed (Validate.pnaAny cfg) cfg.tolInsecure cfg.tolPSL
          (originsOf ext cfg.credentialed (Validate.pnaAny cfg) cfg.tolInsecure cfg.tolPSL cfg.origins)) := rfl
  rw [ho3, ho2]
  exact originsOf_stable ext hext _ _ _ _ _ hA

/-- `C06_roundtrip` and `C06_stable` for the library answers as the driver uses them (`Net.std`: IDNA and
public-suffix answers from the real libraries, IPv6 text from the model of `net/netip`): no hypothesis is left. -/
theorem C06_stable_std (idna etld : Bytes → Bool) (cfg : Config) (icfg : ICfg)
    (acc : newInternalConfig (Net.std idna etld) cfg = .ok icfg) :
    ∃ icfg' icfg'', newInternalConfig (Net.std idna etld) (newConfig icfg) = .ok icfg' ∧
      newInternalConfig (Net.std idna etld) (newConfig icfg') = .ok icfg'' ∧
      Serve.serve icfg' = Serve.serve icfg ∧
      newConfig icfg'' = newConfig icfg' := by
  obtain ⟨i1, i2, a1, a2, heq⟩ := C06_stable (Net.std idna etld) (Net.hext_std idna etld) cfg icfg acc
  obtain ⟨i1', a1', hserve, _⟩ := C06_roundtrip (Net.std idna etld) (Net.hext_std idna etld) cfg icfg acc
  rw [a1] at a1'
  cases a1'
  exact ⟨i1, i2, a1, a2, hserve, heq⟩

/-! A test (evaluated by the compiler, not a theorem): one round trip can be needed, and is enough.
Listing the narrower pattern first keeps both in the tree; `Elems` sorts the wildcard first, so the
rebuilt tree drops the narrower one; from then on nothing changes. -/
section
open TreeRT
def extS : Ext := { idnaXn := fun _ => true, isETLD := fun _ => false, ip6 := fun _ => none }
def rawsS : List Bytes := [Spec.b "https://b.a.com", Spec.b "https://*.a.com"]
#guard originsOf extS false false false false rawsS == [Spec.b "https://*.a.com", Spec.b "https://b.a.com"]
#guard originsOf extS false false false false (originsOf extS false false false false rawsS) == [Spec.b "https://*.a.com"]
#guard originsOf extS false false false false (originsOf extS false false false false (originsOf extS false false false false rawsS)) == [Spec.b "https://*.a.com"]
end

/-! A test (evaluated): an IPv4 address written in brackets is accepted, rendered without the brackets,
and the rendering parses to the same pattern (`RenderIdem.parse_render` is the theorem). -/
#guard (match Pat.parsePattern extS (Spec.b "http://[127.0.0.1]:8080") with
  | .ok p => RoundTrip.renderOf p == Spec.b "http://127.0.0.1:8080" &&
      (match Pat.parsePattern extS (RoundTrip.renderOf p) with | .ok q => q == p | .error _ => false)
  | .error _ => false)


/-! ### `slices.Sort` by its contract

`Tree.Elems` ends with `slices.Sort(res)` and `node.add` with `append(ports, port); slices.Sort(ports)`; the model uses an
insertion sort (`sortBy`) resp. a sorted insertion (`insertSorted`).  Nothing about pattern-defeating quicksort is
needed: *any* function whose result is a sorted permutation of its input — the documented contract of `slices.Sort` —
returns what the model returns, because a sorted permutation is unique. -/

/-- **C06 (sort contract, Elems).** Whatever `slices.Sort` does, if its result `s` is a permutation of `l` and sorted
(no element byte-lexicographically before its predecessor), it is the model's `sortBy Bytes.lt l`. -/
theorem C06_sort_contract (l s : List Bytes) (hperm : l.Perm s) (hsorted : Node.SortedB s) : s = sortBy Bytes.lt l :=
  (Node.sortBy_of_sorted hsorted hperm).symm

/-- **C06 (sort contract, port lists).** If `s` is a sorted permutation of `append(ports, port)` and `ports` was sorted,
`s` is the model's `insertSorted port ports`. -/
theorem C06_sort_contract_ports (ports s : List Int) (port : Int) (hp : Node.SortedInts ports)
    (hperm : (ports ++ [port]).Perm s) (hsorted : Node.SortedInts s) :
    s = insertSorted (fun a b => decide (a < b)) port ports := by
  have h1 : (insertSorted (fun a b => decide (a < b)) port ports).Perm s :=
    (Node.insertSorted_perm port ports).trans ((List.perm_append_comm (l₁ := [port]) (l₂ := ports)).trans hperm)
  exact (List.Perm.eq_of_pairwise (le := (· ≤ ·)) (fun a b _ _ hab hba => Int.le_antisymm hab hba)
    (Node.insertSorted_int_sorted port ports hp) hsorted h1).symm

#print axioms C06_ctor
#print axioms C06_flags
#print axioms C06_status
#print axioms C06_render_ipv6
#print axioms C06_roundtrip
#print axioms C06_stable
#print axioms C06_stable_std

#print axioms C06_sort_contract
#print axioms C06_sort_contract_ports

end Cors
