import CorsVerif.Proofs.Tree
import CorsVerif.Proofs.Translated
import CorsVerif.Proofs.Pattern
import CorsVerif.Spec.Denote
import CorsVerif.Spec.Fetch
import CorsVerif.Proofs.Accepted
import CorsVerif.Proofs.Accept
import CorsVerif.Proofs.LexOrigins
import CorsVerif.Proofs.NetFacts
import CorsVerif.Proofs.BinarySearch
/-
  C01 — Allowed origins are exactly the union of what the configured patterns denote.

  `C01_tree`: for every finite list of well-formed patterns (any order, duplicates, mutually
  subsuming patterns, hosts sharing byte suffixes that are not label boundaries, several
  schemes and ports per host) and every origin, the radix tree built by successive `Insert`
  contains the origin iff some pattern of the list denotes it (`Spec.denotes`: same scheme;
  host byte-equal, or ending in `.`+base with at least one more byte in front for a `*.`
  pattern; port equal or arbitrary for `:*`).  `C01_order`: the verdict depends only on the set
  of patterns.  `C01_parsed`: every pattern accepted by `ParsePattern` is well-formed (relative
  to the IPv6 oracle never accepting a literal that starts with `*`).
-/
namespace Cors
open Gen Node

/-- What `Tree.Insert` relies on: the port code is in range and the first byte of the host value
is `*` exactly for subdomain patterns (whose value is `*.`+base). -/
structure Pattern.WF (p : Pattern) : Prop where
  port : p.port ≤ 65536
  wild : p.kind = .subdomains → ∃ base, p.value = 42 :: 46 :: base
  plain : p.kind ≠ .subdomains → p.value.head? ≠ some 42

/-- The key and flag under which `Tree.Insert` stores a pattern (reversed view). -/
def treeKey (p : Pattern) : Bytes × Bool :=
  match p.value with
  | 42 :: s => (s.reverse, true)
  | s => (s.reverse, false)

theorem tree_insert_eq (t : Tree) (p : Pattern) :
    Tree.insert t p = Node.insert t (treeKey p).1 p.scheme p.port (treeKey p).2 := by
  unfold Tree.insert treeKey
  cases hv : p.value with
  | nil => rfl
  | cons a t =>
    by_cases ha : a = 42
    · subst ha; rfl
    · have h1 : ∀ s, a :: t = 42 :: s → False := by
        intro s hs; simp at hs; exact ha hs.1
      split
      · rename_i s hs; exact absurd hs (h1 s)
      · split
        · rename_i s hs; exact absurd hs (h1 s)
        · rfl

/-- What the stored entry of a pattern covers, on an origin. -/
def treeCovers (p : Pattern) (o : Origin) : Bool :=
  entryCovers (treeKey p).1 p.scheme p.port (treeKey p).2 o.host.value.reverse o.scheme o.port

theorem contains_empty (h sch : Bytes) (p : Int) : Node.contains Node.empty h sch p = false := by
  unfold Node.empty
  cases h with
  | nil => rw [contains_nil_host]; simp [containsPort, lookupScheme]
  | cons x t => rw [contains_cons_host, containsKids_nil]; simp [containsPort, lookupScheme]

/-- Building a tree by successive insertions accumulates exactly the coverage of the entries. -/
theorem fold_insert (ps : List Pattern) (hwf : ∀ p ∈ ps, p.port ≤ 65536) (t : Tree) (ht : Node.Inv t)
    (o : Origin) (ho : o.port ≤ 65535) :
    Node.Inv (ps.foldl Tree.insert t) ∧
    Tree.contains (ps.foldl Tree.insert t) o = (Tree.contains t o || ps.any (fun p => treeCovers p o)) := by
  induction ps generalizing t with
  | nil => exact ⟨ht, by simp⟩
  | cons p ps ih =>
    have hp : p.port ≤ 65536 := hwf p List.mem_cons_self
    obtain ⟨hinv, _, hcont⟩ := insert_spec t ht (treeKey p).1 p.scheme p.port (treeKey p).2 ⟨by omega, by omega⟩
    rw [List.foldl_cons, tree_insert_eq]
    obtain ⟨h1, h2⟩ := ih (fun q hq => hwf q (List.mem_cons_of_mem _ hq)) _ hinv
    refine ⟨h1, ?_⟩
    rw [h2]
    unfold Tree.contains at *
    rw [hcont _ _ _ ⟨by omega, by omega⟩]
    simp only [List.any_cons, treeCovers, Bool.or_assoc]

/-- For a well-formed pattern the coverage of its tree entry is the documented denotation. -/
theorem treeCovers_eq_denotes (p : Pattern) (hp : p.WF) (o : Origin) : treeCovers p o = Spec.denotes p o := by
  unfold treeCovers Spec.denotes entryCovers
  by_cases hk : p.kind = .subdomains
  · obtain ⟨base, hv⟩ := hp.wild hk
    have hkey : treeKey p = ((46 :: base).reverse, true) := by unfold treeKey; rw [hv]; rfl
    have hbase : Spec.baseOf p = base := by unfold Spec.baseOf; rw [hv]; rfl
    rw [hkey, hbase]
    simp only [hk, beq_self_eq_true, if_true]
    have hlen : decide ((46 :: base).reverse.length < o.host.value.reverse.length) =
        decide (o.host.value.length > base.length + 1) := by
      simp only [List.length_reverse, List.length_cons]
    have hsuf : (46 :: base).reverse.isPrefixOf o.host.value.reverse = (46 :: base).isSuffixOf o.host.value := rfl
    rw [hlen, hsuf]
    have hport : ((p.port : Int) == (o.port : Int) || (p.port : Int) == 65536) =
        (p.port == Facts.origins_wildcardPort || p.port == o.port) := by
      rw [Bool.eq_iff_iff]
      simp only [Bool.or_eq_true, beq_iff_eq, Facts.origins_wildcardPort]
      constructor
      · rintro (h | h)
        · exact Or.inr (by omega)
        · exact Or.inl (by omega)
      · rintro (h | h)
        · exact Or.inr (by omega)
        · exact Or.inl (by omega)
    rw [hport]
    cases (p.scheme == o.scheme) <;> simp
  · have hhead := hp.plain hk
    have hkey : treeKey p = (p.value.reverse, false) := by
      unfold treeKey
      split
      · rename_i s hs
        rw [hs] at hhead
        simp at hhead
      · rfl
    rw [hkey]
    have hk' : (p.kind == Kind.subdomains) = false := by simpa using hk
    simp only [hk', Bool.false_eq_true, if_false]
    have hhost : (p.value.reverse == o.host.value.reverse) = (o.host.value == p.value) := by
      rw [Bool.eq_iff_iff]
      simp only [beq_iff_eq, List.reverse_inj]
      exact eq_comm
    have hport : ((p.port : Int) == (o.port : Int) || (p.port : Int) == 65536) =
        (p.port == Facts.origins_wildcardPort || p.port == o.port) := by
      rw [Bool.eq_iff_iff]
      simp only [Bool.or_eq_true, beq_iff_eq, Facts.origins_wildcardPort]
      constructor
      · rintro (h | h)
        · exact Or.inr (by omega)
        · exact Or.inl (by omega)
      · rintro (h | h)
        · exact Or.inr (by omega)
        · exact Or.inl (by omega)
    rw [hhost, hport, Bool.and_assoc]

theorem any_congr {α : Type} (l : List α) (f g : α → Bool) (h : ∀ x ∈ l, f x = g x) : l.any f = l.any g := by
  induction l with
  | nil => rfl
  | cons x xs ih =>
    simp only [List.any_cons]
    rw [h x List.mem_cons_self, ih (fun y hy => h y (List.mem_cons_of_mem _ hy))]

/-- **C01 (tree).** For every list of well-formed patterns, in every order and multiplicity, and
every origin: the tree built by successive `Insert` contains the origin iff some listed pattern
denotes it. -/
theorem C01_tree (ps : List Pattern) (hwf : ∀ p ∈ ps, p.WF) (o : Origin) (ho : o.port ≤ 65535) :
    Tree.contains (ps.foldl Tree.insert Node.empty) o = ps.any (fun p => Spec.denotes p o) := by
  have h := (fold_insert ps (fun p hp => (hwf p hp).port) Node.empty Inv_empty o ho).2
  rw [h]
  unfold Tree.contains
  rw [contains_empty, Bool.false_or]
  exact any_congr ps _ _ (fun p hp => treeCovers_eq_denotes p (hwf p hp) o)

/-- **C01 (order and multiplicity).** Two lists with the same members give the same verdict on
every origin. -/
theorem C01_order (ps qs : List Pattern) (hps : ∀ p ∈ ps, p.WF) (hqs : ∀ p ∈ qs, p.WF)
    (hsame : ∀ p, p ∈ ps ↔ p ∈ qs) (o : Origin) (ho : o.port ≤ 65535) :
    Tree.contains (ps.foldl Tree.insert Node.empty) o = Tree.contains (qs.foldl Tree.insert Node.empty) o := by
  rw [C01_tree ps hps o ho, C01_tree qs hqs o ho, Bool.eq_iff_iff]
  simp only [List.any_eq_true]
  constructor
  · rintro ⟨p, hp, hd⟩; exact ⟨p, (hsame p).mp hp, hd⟩
  · rintro ⟨p, hp, hd⟩; exact ⟨p, (hsame p).mpr hp, hd⟩

/-- The invariant of the tree (sorted edges and schemes, labels = first byte of each child's
suffix, port lists sorted and in range) holds for every tree the configuration code can build. -/
theorem C01_invariant (ps : List Pattern) (hwf : ∀ p ∈ ps, p.WF) :
    Node.Inv (ps.foldl Tree.insert Node.empty) :=
  (fold_insert ps (fun p hp => (hwf p hp).port) Node.empty Inv_empty default (by simp [default, instInhabitedOrigin]; exact Nat.zero_le _)).1

/-! ### From accepted configurations to the tree theorem -/

theorem hostLoop_head {s : Bytes} {ps ip fst : Bool} {h r : Bytes} {ip' : Bool}
    (hl : Lex.hostLoop s ps ip fst = some (h, r, ip')) : h.head? ≠ some 42 := by
  cases s with
  | nil => simp [Lex.hostLoop] at hl; rw [hl.1]; simp
  | cons b t =>
    simp only [Lex.hostLoop] at hl
    split at hl
    · rename_i hb
      have hb' : b = 46 := by simpa [Facts.origins_labelSep] using hb
      split at hl
      · cases hl
      · cases hrec : Lex.hostLoop t true ip false with
        | none => simp [hrec] at hl
        | some x =>
          obtain ⟨h', r', ip''⟩ := x
          simp only [hrec, Option.map_some, Option.some.injEq, Prod.mk.injEq] at hl
          rw [← hl.1]; simp [hb']
    · split at hl
      · rename_i _ hd
        generalize (if ps || fst then true else ip) = ipn at hl
        cases hrec : Lex.hostLoop t false ipn false with
        | none => simp [hrec] at hl
        | some x =>
          obtain ⟨h', r', ip''⟩ := x
          simp only [hrec, Option.map_some, Option.some.injEq, Prod.mk.injEq] at hl
          rw [← hl.1]
          simp only [List.head?_cons, ne_eq, Option.some.injEq]
          intro h42; subst h42
          simp [Lex.isDigit, asciiContains, Facts.origins_digits] at hd
      · split at hl
        · rename_i _ _ hd
          generalize (if ps then false else ip) = ipn at hl
          cases hrec : Lex.hostLoop t false ipn false with
          | none => simp [hrec] at hl
          | some x =>
            obtain ⟨h', r', ip''⟩ := x
            simp only [hrec, Option.map_some, Option.some.injEq, Prod.mk.injEq] at hl
            rw [← hl.1]
            simp only [List.head?_cons, ne_eq, Option.some.injEq]
            intro h42; subst h42
            simp [Lex.isASCIILabelByte, asciiContains, Facts.origins_asciiLabelBytes] at hd
        · simp only [Option.some.injEq, Prod.mk.injEq] at hl
          rw [← hl.1]; simp

theorem parsePort_le {s : Bytes} {port : Nat} {r : Bytes} (h : Lex.parsePort s = some (port, r)) : port ≤ 65535 := by
  unfold Lex.parsePort at h
  cases s with
  | nil => simp at h
  | cons b t =>
    simp only [] at h
    split at h
    · cases h
    · cases hpl : Lex.portLoop (Facts.origins_maxPortLen - 1) t (b - 48) with
      | mk pv rest =>
        simp only [hpl] at h
        split at h
        · cases h
        · rename_i hle
          simp only [Option.some.injEq, Prod.mk.injEq] at h
          rw [← h.1]
          simp only [Facts.origins_maxUint16] at hle
          omega

/-- **C01 (parsed patterns are well-formed).** Relative to the IPv6 oracle never accepting a
literal whose first byte is `*` (true of `netip.ParseAddr`). -/
theorem C01_parsed (ext : Ext) (hext : ∀ h info, ext.ip6 h = some info → h.head? ≠ some 42)
    (s : Bytes) (p : Pattern) (h : Pat.parsePattern ext s = .ok p) : p.WF := by
  have inv := parsePattern_inv h
  obtain ⟨rest, _, rest2, _, rest3, hhp, hport⟩ := inv.scheme
  have hshape := parseHostPattern_shape hhp
  refine ⟨?_, fun hk => ?_, fun hk => ?_⟩
  · rcases hport with ⟨_, h0⟩ | ⟨rest4, _, hpp⟩
    · rw [h0]; omega
    · unfold Pat.parsePortPattern at hpp
      cases hc : rest4.cutPrefix Facts.origins_portWildcard with
      | some x => simp [hc] at hpp; rw [← hpp.1]; simp [Facts.origins_wildcardPort]
      | none =>
        simp only [hc] at hpp
        have := parsePort_le hpp; omega
  · obtain ⟨base, hb, _, _⟩ := hshape.2 hk
    exact ⟨base, hb⟩
  · obtain ⟨host, hf, hval⟩ := parseHostPattern_nonwild hhp hk
    rcases hval with ⟨hip, hv⟩ | ⟨hip, hv, _⟩
    · -- IP literal: digits and dots, or the oracle's verdict
      rw [hv]
      intro h42
      -- recover the verdict
      have hverdict : ∃ lb, Pat.ipVerdict ext host.value = .ok lb := by
        unfold Pat.parseHostPattern at hhp
        simp only [] at hhp
        cases hpk : Pat.peekKind rest2 with
        | domain =>
          simp only [hpk] at hhp
          have hho : Pat.hostOnly rest2 Kind.domain = rest2 := by simp [Pat.hostOnly]
          rw [hho, hf] at hhp
          simp only [show (Kind.domain == Kind.subdomains) = false from rfl, Bool.false_and, Bool.false_eq_true, if_false, hip, if_true] at hhp
          cases hvd : Pat.ipVerdict ext host.value with
          | bad => simp [hvd] at hhp
          | prohibited => simp [hvd] at hhp
          | ok lb => exact ⟨lb, rfl⟩
        | subdomains =>
          exfalso
          have := (parseHostPattern_shape hhp)
          simp only [hpk] at hhp
          cases hf2 : Lex.fastParseHost (Pat.hostOnly rest2 Kind.subdomains) with
          | none => simp [hf2] at hhp
          | some hr =>
            obtain ⟨host2, r2⟩ := hr
            simp only [hf2] at hhp
            split at hhp
            · cases hhp
            · split at hhp
              · cases hhp
              · rename_i hnip
                have hip2 : host2.assumeIP = false := by simpa using hnip
                simp only [hip2, Bool.false_eq_true, if_false] at hhp
                split at hhp
                · cases hhp
                · simp only [Except.ok.injEq, Prod.mk.injEq] at hhp
                  exact hk hhp.2.1.symm
        | nonLoopbackIP => simp [Pat.peekKind] at hpk; split at hpk <;> cases hpk
        | loopbackIP => simp [Pat.peekKind] at hpk; split at hpk <;> cases hpk
      obtain ⟨lb, hvd⟩ := hverdict
      cases hhv : host.value with
      | nil => rw [hhv] at h42; simp at h42
      | cons a t =>
        rw [hhv] at h42
        simp at h42
        subst h42
        unfold Pat.ipVerdict at hvd
        rw [hhv] at hvd
        cases hm : Pat.firstIPMark (42 :: t) with
        | none => simp [hm] at hvd
        | some m =>
          simp only [hm] at hvd
          by_cases h46 : m = 46
          · subst h46
            simp only [] at hvd
            -- parseIPv4 of a string starting with `*` fails
            have : Pat.parseIPv4 (42 :: t) = none := by
              unfold Pat.parseIPv4
              have hsplit : ∃ f fs, Bytes.splitOn 46 (42 :: t) = (42 :: f) :: fs := by
                simp only [Bytes.splitOn]
                cases hsp : Bytes.splitOn 46 t with
                | nil => exact ⟨[], [], by simp⟩
                | cons x xs => exact ⟨x, xs, by simp⟩
              obtain ⟨f, fs, hsp⟩ := hsplit
              rw [hsp]
              cases fs with
              | nil => rfl
              | cons b1 fs1 =>
                cases fs1 with
                | nil => rfl
                | cons b2 fs2 =>
                  cases fs2 with
                  | nil => rfl
                  | cons b3 fs3 =>
                    cases fs3 with
                    | nil => simp [Pat.octetOK, Bytes.isDigitB]
                    | cons _ _ => rfl
            rw [this] at hvd
            cases hvd
          · by_cases h58 : m = 58
            · subst h58
              simp only [] at hvd
              cases hip6 : ext.ip6 (42 :: t) with
              | none => simp [hip6] at hvd
              | some info =>
                have := hext _ _ hip6
                simp at this
            · -- any other mark is rejected
              split at hvd
              · rename_i heq; simp at heq; exact absurd heq h46
              · rename_i heq; simp at heq; exact absurd heq h58
              · cases hvd
    · -- domain: the lexer only consumes label bytes and dots
      have happ := fastParseHost_append hf (Or.inl hip)
      have hvv : p.value = host.value := by
        rw [hv]; conv => lhs; rw [happ]
        simp
      rw [hvv]
      unfold Lex.fastParseHost at hf
      split at hf
      · cases hc : Bytes.cutAt 93 rest2 with
        | none => simp [hc] at hf
        | some pr =>
          obtain ⟨before, after⟩ := pr
          simp only [hc, Option.some.injEq, Prod.mk.injEq] at hf
          rw [← hf.1] at hip
          cases hip
      · cases rest2 with
        | nil => simp at hf
        | cons c t2 =>
          simp only [] at hf
          split at hf
          · cases hf
          · cases hl : Lex.hostLoop (c :: t2) false false true with
            | none => simp [hl] at hf
            | some x =>
              obtain ⟨hh, r, ip⟩ := x
              simp only [hl, Option.some.injEq, Prod.mk.injEq] at hf
              rw [← hf.1]
              exact hostLoop_head hl

/-- The patterns of a list of origin strings that `ParsePattern` accepts (`*` and rejected strings
are skipped), in order. -/
def parsedPatterns (ext : Ext) (raws : List Bytes) : List Pattern :=
  raws.filterMap fun raw =>
    if raw == Validate.star then none
    else match Pat.parsePattern ext raw with
      | .ok p => some p
      | .error _ => none

theorem origins_fold_parsed (ext : Ext) (cred pnaAny tolI tolP : Bool) (raws : List Bytes) (st : Validate.OState) :
    (raws.foldl (Validate.originStep ext cred pnaAny tolI tolP) st).tree =
      (parsedPatterns ext raws).foldl Tree.insert st.tree ∧
    (raws.foldl (Validate.originStep ext cred pnaAny tolI tolP) st).allowAny = (st.allowAny || raws.contains Validate.star) := by
  induction raws generalizing st with
  | nil => simp [parsedPatterns]
  | cons raw rest ih =>
    rw [List.foldl_cons]
    obtain ⟨h1, h2⟩ := ih (Validate.originStep ext cred pnaAny tolI tolP st raw)
    rw [h1, h2]
    unfold Validate.originStep parsedPatterns
    by_cases hs : (raw == Validate.star) = true
    · have : raw = Validate.star := by simpa using hs
      subst this
      simp
    · have hs' : (raw == Validate.star) = false := by simpa using hs
      have hne : (Validate.star == raw) = false := by
        simp only [beq_eq_false_iff_ne, ne_eq] at hs' ⊢; exact fun h => hs' h.symm
      simp only [hs', Bool.false_eq_true, if_false, List.filterMap_cons, List.contains_cons, hne, Bool.false_or]
      cases Pat.parsePattern ext raw with
      | error r => simp
      | ok p => simp

/-- **C01 (accepted configurations).** For an accepted configuration that does not list `*`, the
tree decides exactly the union of the denotations of the listed patterns. -/
theorem C01_config (ext : Ext) (hext : ∀ h info, ext.ip6 h = some info → h.head? ≠ some 42)
    (cfg : Config) (icfg : ICfg) (acc : newInternalConfig ext cfg = .ok icfg)
    (hns : cfg.origins.contains Validate.star = false) (o : Origin) (ho : o.port ≤ 65535) :
    Tree.contains icfg.tree o = (parsedPatterns ext cfg.origins).any (fun p => Spec.denotes p o) := by
  obtain ⟨_, rfl⟩ := (accepted_iff ext cfg icfg).mp acc
  have hne : cfg.origins.isEmpty = false := by
    cases h : cfg.origins.isEmpty with
    | false => rfl
    | true =>
      exfalso
      obtain ⟨herrs, _⟩ := (accepted_iff ext cfg _).mp acc
      obtain ⟨_, _, h2, _⟩ := allErrs_nil herrs
      unfold Validate.originErrs at h2
      simp [h, Validate.originsResult, Validate.origins] at h2
  simp only [Validate.build, Validate.originsResult, Validate.origins, hne, Bool.false_eq_true, if_false]
  obtain ⟨ht, ha⟩ := origins_fold_parsed ext cfg.credentialed (Validate.pnaAny cfg) cfg.tolInsecure cfg.tolPSL cfg.origins {}
  rw [ha, hns]
  simp only [Bool.or_self, Bool.false_eq_true, if_false]
  rw [ht]
  apply C01_tree _ _ o ho
  intro p hp
  unfold parsedPatterns at hp
  simp only [List.mem_filterMap] at hp
  obtain ⟨raw, _, hraw⟩ := hp
  split at hraw
  · cases hraw
  · cases hpp : Pat.parsePattern ext raw with
    | error r => simp [hpp] at hraw
    | ok q =>
      simp only [hpp, Option.some.injEq] at hraw
      subst hraw
      exact C01_parsed ext hext raw q hpp

/-- **C01 (`*`).** Listing `*` discards the tree: every origin is allowed (the handler then
answers `*` without consulting the tree). -/
theorem C01_allow_all (ext : Ext) (cfg : Config) (icfg : ICfg) (acc : newInternalConfig ext cfg = .ok icfg)
    (hs : cfg.origins.contains Validate.star = true) : icfg.tree.isEmpty = true := by
  obtain ⟨_, rfl⟩ := (accepted_iff ext cfg icfg).mp acc
  have hne : cfg.origins.isEmpty = false := by
    cases h : cfg.origins with
    | nil => rw [h] at hs; cases hs
    | cons _ _ => rfl
  simp only [Validate.build, Validate.originsResult, Validate.origins, hne, Bool.false_eq_true, if_false]
  obtain ⟨_, ha⟩ := origins_fold_parsed ext cfg.credentialed (Validate.pnaAny cfg) cfg.tolInsecure cfg.tolPSL cfg.origins {}
  rw [ha, hs]
  rfl

theorem parse_port_le {raw : Bytes} {o : Origin} (h : Lex.parse raw = some o) : o.port ≤ 65535 := by
  unfold Lex.parse at h
  split at h
  · cases h
  · cases hps : Lex.parseScheme raw with
    | none => simp [hps] at h
    | some sr =>
      obtain ⟨scheme, rest⟩ := sr
      simp only [hps] at h
      cases hcp : rest.cutPrefix Facts.origins_schemeHostSep with
      | none => simp [hcp] at h
      | some rest2 =>
        simp only [hcp] at h
        cases hf : Lex.fastParseHost rest2 with
        | none => simp [hf] at h
        | some hr =>
          obtain ⟨host, rest3⟩ := hr
          simp only [hf] at h
          split at h
          · cases h; simp
          · cases hc : rest3.cutPrefix [Facts.origins_hostPortSep] with
            | none => simp [hc] at h
            | some rest4 =>
              simp only [hc] at h
              cases hpp : Lex.parsePort rest4 with
              | none => simp [hpp] at h
              | some pr =>
                obtain ⟨port, r5⟩ := pr
                simp only [hpp] at h
                split at h
                · cases h
                · cases h
                  exact parsePort_le hpp

/-- **C01 (requests).** For an accepted configuration without `*`, a raw `Origin` value is treated
as allowed iff it parses and some listed pattern denotes the parsed origin. -/
theorem C01_request (ext : Ext) (hext : ∀ h info, ext.ip6 h = some info → h.head? ≠ some 42)
    (cfg : Config) (icfg : ICfg) (acc : newInternalConfig ext cfg = .ok icfg)
    (hns : cfg.origins.contains Validate.star = false) (raw : Bytes) :
    (Serve.modelDec icfg).allowed raw =
      match Lex.parse raw with
      | none => false
      | some o => (parsedPatterns ext cfg.origins).any (fun p => Spec.denotes p o) := by
  unfold Serve.modelDec
  simp only []
  cases hp : Lex.parse raw with
  | none => rfl
  | some o => exact C01_config ext hext cfg icfg acc hns o (parse_port_le hp)

/-! ### Origins as browsers serialise them -/

/-- The origin a serialised origin string stands for. -/
def Spec.DocPattern.origin (d : Spec.DocPattern) : Origin where
  scheme := d.scheme
  host := { value := d.host, assumeIP := false }
  port := match d.port with
    | .absent => 0
    | .num ds => Spec.portValue ds
    | .any => 0

open Spec Accept in
/-- **The request-side lexer reads every serialised origin with a domain host**: scheme, `://`,
letter-digit-hyphen labels (optionally a trailing dot), optionally `:` and a port 1-65535 without
leading zeros — exactly into its parts, up to the longest possible such string. -/
theorem C01_browser_parse (d : DocPattern) (hs : docScheme d.scheme = true) (hd : docDomain d.labels = true)
    (hp : docPortOK d.port = true) (hw : d.wildcard = false) (hany : d.port ≠ .any) :
    Lex.parse d.render = some d.origin := by
  have hL := labels_of_doc hd
  have hsep : Spec.b "://" = [58, 47, 47] := by decide
  have hrender : d.render = d.scheme ++ (58 :: 47 :: 47 :: (hostOf d.labels d.trailingDot ++ d.portString)) := by
    unfold DocPattern.render DocPattern.hostPattern DocPattern.host hostOf
    rw [hsep, hw]
    simp
  have hstops : Stops d.portString := by
    unfold DocPattern.portString
    cases d.port with
    | absent => exact Or.inl rfl
    | num ds => exact stops_colon ds
    | any => exact stops_colon [42]
  have hlen : ¬ (d.render.length > Facts.origins_Parse_maxOriginLen) := by
    have h1 : d.scheme.length ≤ 64 := by
      unfold docScheme at hs
      cases hsc : d.scheme with
      | nil => rw [hsc] at hs; simp at hs
      | cons c t =>
        rw [hsc] at hs
        simp only [Bool.and_eq_true, decide_eq_true_eq] at hs
        exact hs.1.2
    have h2 : (hostOf d.labels d.trailingDot).length ≤ 254 := by
      unfold hostOf
      have := hL.len
      cases d.trailingDot <;> simp <;> omega
    have h3 : d.portString.length ≤ 6 := by
      unfold DocPattern.portString
      cases hpt : d.port with
      | absent => simp
      | any => simp
      | num ds =>
        rw [hpt] at hp
        unfold docPortOK at hp
        simp only [Bool.and_eq_true, decide_eq_true_eq] at hp
        simp only [List.length_cons]
        omega
    rw [hrender]
    simp only [List.length_append, List.length_cons, Facts.origins_Parse_maxOriginLen]
    omega
  unfold Lex.parse
  rw [if_neg hlen, hrender, parseScheme_doc hs _ (by simp only [List.head?_cons, Option.all_some]; decide)]
  simp only []
  have hcut : Bytes.cutPrefix (58 :: 47 :: 47 :: (hostOf d.labels d.trailingDot ++ d.portString)) Facts.origins_schemeHostSep =
      some (hostOf d.labels d.trailingDot ++ d.portString) := by
    simp [Facts.origins_schemeHostSep, Bytes.cutPrefix]
  rw [hcut]
  simp only []
  rw [fastParseHost_doc hL d.trailingDot _ hstops]
  simp only []
  unfold DocPattern.origin DocPattern.host hostOf DocPattern.portString
  cases hport : d.port with
  | absent => simp
  | any => exact absurd hport hany
  | num ds =>
    rw [hport] at hp
    simp only [List.isEmpty_cons, Bool.false_eq_true, if_false]
    have : Bytes.cutPrefix (58 :: ds) [Facts.origins_hostPortSep] = some ds := by
      simp [Bytes.cutPrefix, Facts.origins_hostPortSep]
    rw [this]
    simp only []
    rw [parsePort_doc ds hp]
    simp

open Spec Accept in
/-- **C01 at the level of header values.** For an accepted configuration without `*` and every
serialised origin with a domain host, the middleware's origin decision on the *string* is: some
listed pattern denotes the origin the string stands for. -/
theorem C01_browser (ext : Ext) (hext : ∀ h info, ext.ip6 h = some info → h.head? ≠ some 42)
    (cfg : Config) (icfg : ICfg) (acc : newInternalConfig ext cfg = .ok icfg)
    (hns : cfg.origins.contains Validate.star = false)
    (d : DocPattern) (hs : docScheme d.scheme = true) (hd : docDomain d.labels = true)
    (hp : docPortOK d.port = true) (hw : d.wildcard = false) (hany : d.port ≠ .any) :
    (Serve.modelDec icfg).allowed d.render = (parsedPatterns ext cfg.origins).any (fun p => Spec.denotes p d.origin) := by
  rw [C01_request ext hext cfg icfg acc hns, C01_browser_parse d hs hd hp hw hany]

open Spec Accept in
/-- **Serialised origins with an IPv4 host**: the lexer reads `scheme://a.b.c.d[:port]` into its parts
(and marks the host as an IP address). -/
theorem C01_browser_parse_ipv4 (scheme a b c d : Bytes) (p : DocPort) (hs : docScheme scheme = true)
    (ha : docOctet a = true) (hb : docOctet b = true) (hc : docOctet c = true) (hd : docOctet d = true)
    (hp : docPortOK p = true) (hany : p ≠ .any) :
    Lex.parse (scheme ++ Spec.b "://" ++ Bytes.join 46 [a, b, c, d] ++ portStr p) =
      some { scheme := scheme, host := { value := Bytes.join 46 [a, b, c, d], assumeIP := true }, port := portNum p } := by
  apply parse_assemble scheme _ _ p hs hp hany (fun r hr => fastParseHost_v4 a b c d ha hb hc hd r hr)
  have h1 : scheme.length ≤ 64 := by
    unfold docScheme at hs
    cases hsc : scheme with
    | nil => rw [hsc] at hs; simp at hs
    | cons x t =>
      rw [hsc] at hs
      simp only [Bool.and_eq_true, decide_eq_true_eq] at hs
      exact hs.1.2
  have ho : ∀ f, docOctet f = true → f.length ≤ 3 := by
    intro f hf
    unfold docOctet at hf
    simp only [Bool.and_eq_true, decide_eq_true_eq] at hf
    exact hf.1.2
  have h2 : (Bytes.join 46 [a, b, c, d]).length ≤ 15 := by
    have := ho a ha; have := ho b hb; have := ho c hc; have := ho d hd
    simp [Bytes.join]
    omega
  have h3 : (portStr p).length ≤ 6 := by
    cases p with
    | absent => simp [portStr]
    | any => simp [portStr]
    | num ds =>
      unfold docPortOK at hp
      simp only [Bool.and_eq_true, decide_eq_true_eq] at hp
      simp only [portStr, List.length_cons]
      omega
  simp only [Facts.origins_Parse_maxOriginLen]
  omega

open Spec Accept in
/-- **Serialised origins with a bracketed (IPv6) host**: the lexer reads `scheme://[lit][:port]` into
its parts; it does not look inside the brackets. -/
theorem C01_browser_parse_ipv6 (scheme lit : Bytes) (p : DocPort) (hs : docScheme scheme = true)
    (hlen : 2 ≤ lit.length) (hmax : lit.length ≤ 45) (hnb : (93 : Nat) ∉ lit)
    (hp : docPortOK p = true) (hany : p ≠ .any) :
    Lex.parse (scheme ++ Spec.b "://" ++ ([91] ++ lit ++ [93]) ++ portStr p) =
      some { scheme := scheme, host := { value := lit, assumeIP := true }, port := portNum p } := by
  apply parse_assemble scheme _ _ p hs hp hany (fun r _ => fastParseHost_bracket lit hlen hnb r)
  have h1 : scheme.length ≤ 64 := by
    unfold docScheme at hs
    cases hsc : scheme with
    | nil => rw [hsc] at hs; simp at hs
    | cons x t =>
      rw [hsc] at hs
      simp only [Bool.and_eq_true, decide_eq_true_eq] at hs
      exact hs.1.2
  have h3 : (portStr p).length ≤ 6 := by
    cases p with
    | absent => simp [portStr]
    | any => simp [portStr]
    | num ds =>
      unfold docPortOK at hp
      simp only [Bool.and_eq_true, decide_eq_true_eq] at hp
      simp only [portStr, List.length_cons]
      omega
  simp only [Facts.origins_Parse_maxOriginLen, List.length_append, List.length_cons, List.length_nil]
  omega

open Spec Accept in
/-- **C01 at the level of header values, IP hosts.** For an accepted configuration without `*`, the
decision on a serialised origin with an IPv4 or bracketed host is again: some listed pattern denotes
the origin the string stands for. -/
theorem C01_browser_ip (ext : Ext) (hext : ∀ h info, ext.ip6 h = some info → h.head? ≠ some 42)
    (cfg : Config) (icfg : ICfg) (acc : newInternalConfig ext cfg = .ok icfg)
    (hns : cfg.origins.contains Validate.star = false)
    (scheme : Bytes) (p : DocPort) (hs : docScheme scheme = true) (hp : docPortOK p = true) (hany : p ≠ .any) :
    (∀ a b c d, docOctet a = true → docOctet b = true → docOctet c = true → docOctet d = true →
      (Serve.modelDec icfg).allowed (scheme ++ Spec.b "://" ++ Bytes.join 46 [a, b, c, d] ++ portStr p) =
        (parsedPatterns ext cfg.origins).any (fun q => Spec.denotes q
          { scheme := scheme, host := { value := Bytes.join 46 [a, b, c, d], assumeIP := true }, port := portNum p })) ∧
    (∀ lit, 2 ≤ lit.length → lit.length ≤ 45 → (93 : Nat) ∉ lit →
      (Serve.modelDec icfg).allowed (scheme ++ Spec.b "://" ++ ([91] ++ lit ++ [93]) ++ portStr p) =
        (parsedPatterns ext cfg.origins).any (fun q => Spec.denotes q
          { scheme := scheme, host := { value := lit, assumeIP := true }, port := portNum p })) := by
  constructor
  · intro a b c d ha hb hc hd
    rw [C01_request ext hext cfg icfg acc hns, C01_browser_parse_ipv4 scheme a b c d p hs ha hb hc hd hp hany]
  · intro lit h1 h2 h3
    rw [C01_request ext hext cfg icfg acc hns, C01_browser_parse_ipv6 scheme lit p hs h1 h2 h3 hp hany]

/-- `C01_config` for the library answers as the driver uses them (`Net.std`: IDNA and public-suffix
answers from the real libraries, IPv6 text from the model of `net/netip`): no hypothesis about an oracle is left. -/
theorem C01_config_std (idna etld : Bytes → Bool) (cfg : Config) (icfg : ICfg)
    (acc : newInternalConfig (Net.std idna etld) cfg = .ok icfg)
    (hns : cfg.origins.contains Validate.star = false) (o : Origin) (ho : o.port ≤ 65535) :
    Tree.contains icfg.tree o = (parsedPatterns (Net.std idna etld) cfg.origins).any (fun p => Spec.denotes p o) :=
  C01_config (Net.std idna etld) (Net.hext_std idna etld) cfg icfg acc hns o ho

example : Spec.docOctet (Spec.b "127") = true ∧ Spec.docOctet (Spec.b "0") = true ∧ Spec.docOctet (Spec.b "255") = true := by decide

/-- Non-vacuity: hosts sharing a byte suffix that is not a label boundary (`foo.com`, `barfoo.com`)
and a wildcard; `xfoo.com` is a near miss of both. -/
def ex1 : Pattern := { scheme := Spec.b "https", value := Spec.b "foo.com", kind := .domain, port := 0 }
def ex2 : Pattern := { scheme := Spec.b "https", value := Spec.b "barfoo.com", kind := .domain, port := 0 }
def ex3 : Pattern := { scheme := Spec.b "https", value := Spec.b "*.bar.com", kind := .subdomains, port := 65536 }
example : [ex1, ex2, ex3].any (fun p => Spec.denotes p
    { scheme := Spec.b "https", host := { value := Spec.b "a.bar.com", assumeIP := false }, port := 8080 }) = true := by decide
example : [ex1, ex2, ex3].any (fun p => Spec.denotes p
    { scheme := Spec.b "https", host := { value := Spec.b "xfoo.com", assumeIP := false }, port := 0 }) = false := by decide

/-! ### `slices.BinarySearch` on the slices of the tree

The Go code finds edges, schemes and port codes with `slices.BinarySearch`; the model scans ordered lists.  The two agree
because the slices are sorted — an invariant that is proved (`C01_invariant`), not assumed.  `Ix.binarySearch` is the
library's loop itself (Proofs/BinarySearch.lean); at every node of every tree the configuration code can build, it returns
what the model's searches return. -/

/-- **C01 (binary search).** For every list of well-formed patterns, at every node `m` of the tree built from it:
`slices.BinarySearch(n.edges, label)` and `slices.BinarySearch(n.schemes, scheme)` — the library's halving loop — return
the lower bound and the found flag the model computes by scanning (`Ix.bsearch`), the position the look-ups of
`Tree.Contains` / `node.contains` use (`Ix.findPos`) is that position, and on every port list of the node
`slices.BinarySearch(ports, port)` reports exactly membership. -/
theorem C01_binarySearch (ps : List Pattern) (hwf : ∀ p ∈ ps, p.WF) (m : Node)
    (hm : Ix.Sub (ps.foldl Tree.insert Node.empty) m) (label : Nat) (scheme : Bytes) (port : Int) :
    (Ix.binarySearch Ix.natLt label (m.kids.map Prod.fst) = Ix.bsearch Ix.natLt label (m.kids.map Prod.fst) ∧
      Ix.findPos label (m.kids.map Prod.fst) =
        cond (Ix.bsearch Ix.natLt label (m.kids.map Prod.fst)).2 (some (Ix.bsearch Ix.natLt label (m.kids.map Prod.fst)).1) none) ∧
    (Ix.binarySearch Bytes.lt scheme (m.schemes.map Prod.fst) = Ix.bsearch Bytes.lt scheme (m.schemes.map Prod.fst) ∧
      Ix.findPos scheme (m.schemes.map Prod.fst) =
        cond (Ix.bsearch Bytes.lt scheme (m.schemes.map Prod.fst)).2 (some (Ix.bsearch Bytes.lt scheme (m.schemes.map Prod.fst)).1) none) ∧
    (∀ i, i < m.schemes.length →
      Ix.binarySearch Ix.intLt port ((m.schemes.map Prod.snd).getD i default) = Ix.bsearch Ix.intLt port ((m.schemes.map Prod.snd).getD i default) ∧
      (Ix.bsearch Ix.intLt port ((m.schemes.map Prod.snd).getD i default)).2 = ((m.schemes.map Prod.snd).getD i default).contains port) := by
  have hinv : Node.Inv m := Ix.Inv_sub (C01_invariant ps hwf) hm
  refine ⟨Ix.binarySearch_edges m hinv label, Ix.binarySearch_schemes m hinv scheme, ?_⟩
  intro i hi
  cases m with
  | mk suf S K => exact Ix.binarySearch_ports _ (Ix.SchemesOK_ports_mem (Node.Inv_mk.mp hinv).1 i hi) port

/-- **C01 (Tree.Contains as the code runs it).** `Ix.treeContainsBS` is `Tree.Contains` with every index expression checked
(`n.ports[i]`, `n.children[i]`, `lastByte`, `splitAtCommonSuffix`) *and* every `slices.BinarySearch` run as the library's
halving loop.  On every tree built from well-formed patterns it returns `.ok` of the list-level model's answer — which
`C01_tree` identifies with "some listed pattern denotes the origin". -/
theorem C01_contains_binarySearch (ps : List Pattern) (hwf : ∀ p ∈ ps, p.WF) (o : Origin) :
    Ix.treeContainsBS (ps.foldl Tree.insert Node.empty) o = .ok (Tree.contains (ps.foldl Tree.insert Node.empty) o) :=
  Ix.treeContainsBS_refines _ (C01_invariant ps hwf) o

/-- Whatever a slice holds (sorted or not), `slices.BinarySearch` returns a position in `[0, len]` and `found` only inside
the slice: the index expressions that use its result cannot go out of range. -/
theorem C01_binarySearch_range {α : Type} [BEq α] [Inhabited α] (lt : α → α → Bool) (x : α) (l : List α) :
    (Ix.binarySearch lt x l).1 ≤ l.length ∧ ((Ix.binarySearch lt x l).2 = true → (Ix.binarySearch lt x l).1 < l.length) :=
  Ix.binarySearch_range lt x l

example : Ix.binarySearch Ix.natLt 5 [1, 3, 5, 7, 9] = (2, true) := by decide
example : Ix.binarySearch Ix.natLt 6 [1, 3, 5, 7, 9] = (3, false) := by decide
/-- on an unsorted slice the loop and the scan differ: sortedness is what the theorem needs -/
example : Ix.binarySearch Ix.natLt 2 [3, 1, 2] ≠ Ix.bsearch Ix.natLt 2 [3, 1, 2] := by decide

#print axioms C01_tree
#print axioms C01_order
#print axioms C01_invariant
#print axioms C01_parsed
#print axioms C01_config
#print axioms C01_allow_all
#print axioms C01_request
#print axioms C01_browser_parse
#print axioms C01_browser
#print axioms C01_browser_parse_ipv4
#print axioms C01_browser_parse_ipv6
#print axioms C01_browser_ip
#print axioms C01_config_std
#print axioms C01_binarySearch
#print axioms C01_binarySearch_range
#print axioms C01_contains_binarySearch


/-- **C01 (translated origin loop).** One iteration of the `for _, raw := range patterns` loop of `validateOrigins` — the `*`
incompatibilities, `origins.ParsePattern` and its error, the insecure-origin and public-suffix guards with their tolerance
switches (each reported, in the code's order, none skipping another), `tree.Insert` — is translated from /repo's config.go on
every run and equals `Validate.originStep` for every loop state and element (whatever the IDNA / public-suffix oracles
answer); hence the fold over any list of patterns is the model's. -/
theorem C01_originLoop_translated (ext : Ext) (credentialed pnaAny tolInsecure tolPSL : Bool) (patterns : List Bytes) :
    patterns.foldl (Gen.GoSrc.originStep ext credentialed pnaAny tolInsecure tolPSL) {} =
      patterns.foldl (Validate.originStep ext credentialed pnaAny tolInsecure tolPSL) {} :=
  Translated.originLoop_eq ext credentialed pnaAny tolInsecure tolPSL patterns

#print axioms C01_originLoop_translated

end Cors
