import CorsVerif.Props.C05
import CorsVerif.Proofs.Translated
/-
  C04 — No insecure or out-of-range configuration is ever accepted.

  Whenever validation accepts a Config, the Config violates none of the documented
  prohibitions (`Spec.prohibitions`, written field by field from the documentation); and an
  error always comes with a nil middleware.
-/
namespace Cors
open Gen

/-- **C04.** Acceptance implies that there is no violation at all. -/
theorem C04 (ext : Ext) (cfg : Config) (icfg : ICfg) (h : newInternalConfig ext cfg = .ok icfg) :
    Spec.prohibitions ext cfg = [] := C05_reject ext cfg icfg h

/-- **C04 (nil middleware).** `NewMiddleware` returns a middleware exactly when validation accepts. -/
theorem C04_nil (ext : Ext) (cfg : Config) (e : Err) (h : newInternalConfig ext cfg = .error e) :
    Mw.new ext cfg = .error e := by
  simp [Mw.new, h]

/-- Unfolded consequences, in the words of the property. -/
theorem C04_clauses (ext : Ext) (cfg : Config) (icfg : ICfg) (h : newInternalConfig ext cfg = .ok icfg) :
    cfg.origins ≠ [] ∧
    (Spec.star ∈ cfg.origins → cfg.credentialed = false ∧ cfg.pna = false ∧ cfg.pnaNoCors = false) ∧
    (cfg.pna && cfg.pnaNoCors) = false ∧
    (-1 ≤ cfg.maxAge ∧ cfg.maxAge ≤ 86400) ∧
    (cfg.status = 0 ∨ (200 ≤ cfg.status ∧ cfg.status ≤ 299)) ∧
    (∀ m ∈ cfg.methods, Spec.methodViolations m = []) ∧
    (∀ n ∈ cfg.requestHeaders, Spec.requestHeaderViolations n = []) ∧
    (∀ n ∈ cfg.responseHeaders, Spec.responseHeaderViolations cfg.credentialed n = []) ∧
    (∀ o ∈ cfg.origins, Spec.originViolations ext cfg o = []) := by
  have hp := C04 ext cfg icfg h
  unfold Spec.prohibitions at hp
  simp only [List.append_eq_nil_iff, List.flatMap_eq_nil_iff] at hp
  obtain ⟨⟨⟨⟨⟨⟨hs, hpna⟩, ho⟩, hm⟩, hr⟩, ha⟩, he⟩ := hp
  have hne : cfg.origins.isEmpty = false := by
    unfold Spec.originsViolations at ho
    cases hem : cfg.origins.isEmpty with
    | false => rfl
    | true => simp [hem] at ho
  have hoAll : ∀ o ∈ cfg.origins, Spec.originViolations ext cfg o = [] := by
    unfold Spec.originsViolations at ho
    simp only [hne, Bool.false_eq_true, if_false, List.flatMap_eq_nil_iff] at ho
    exact ho
  refine ⟨?_, ?_, ?_, ?_, ?_, hm, hr, he, hoAll⟩
  · intro hnil; rw [hnil] at hne; cases hne
  · intro hstar
    have := hoAll Spec.star hstar
    unfold Spec.originViolations at this
    simp only [beq_self_eq_true, if_true, List.append_eq_nil_iff] at this
    obtain ⟨h1, h2⟩ := this
    refine ⟨?_, ?_, ?_⟩
    · cases hc : cfg.credentialed with
      | false => rfl
      | true => simp [hc] at h1
    · cases hc : cfg.pna with
      | false => rfl
      | true => simp [hc] at h2
    · cases hc : cfg.pnaNoCors with
      | false => rfl
      | true => simp [hc] at h2
  · unfold Spec.pnaViolations at hpna
    cases hc : (cfg.pna && cfg.pnaNoCors) with
    | false => rfl
    | true => simp [hc] at hpna
  · unfold Spec.maxAgeViolations at ha
    by_cases hb : ((-1 : Int) ≤ cfg.maxAge && cfg.maxAge ≤ 86400) = true
    · simpa using hb
    · simp [hb] at ha
  · unfold Spec.statusViolations at hs
    by_cases hb : (cfg.status == 0 || (200 ≤ cfg.status && cfg.status ≤ 299)) = true
    · simp only [Bool.or_eq_true, beq_iff_eq, Bool.and_eq_true, decide_eq_true_eq] at hb; exact hb
    · simp [hb] at hs

/-! ### The ASCII precondition of the case-mapping calls

`util.ByteLowercase` / `util.ByteUppercase` are `strings.ToLower` / `strings.ToUpper`, which map *Unicode* letters
(U+017F `ſ` ↦ `S`, U+0131 `ı` ↦ `I`, U+212A ↦ `k`, U+0130 ↦ `i̇`); the model (`Bytes.lower`, `Bytes.upper`,
`Methods.normalize`) is the ASCII byte map.  The two agree exactly on ASCII input.  The list below (regenerated from
the source on every run) holds every call of such a function in the non-test code with the conditions that
syntactically dominate it, or its constant argument.  Audit, site by site:

  * `validateMethods|methods.Normalize(name)` and `…|methods.IsForbidden(name)` — after `!(!methods.IsValid(name))`: a valid
    method is a token, tokens are ASCII (`C04_valid_ascii`);
  * `validateRequestHeaders|util.ByteLowercase(name)`, `validateResponseHeaders|util.ByteLowercase(name)` — after
    `!(!headers.IsValid(name))`: a valid header name is a token;
  * `headers.|util.ByteLowercase(<const>)` — package-level tables built from constants, all ASCII (`C04_caseMap_consts_ascii`);
  * `methods.IsForbidden|util.ByteUppercase(name)`, `methods.Normalize|util.ByteUppercase(method)`,
    `util.ByteLowercase|strings.ToLower(str)`, `util.ByteUppercase|strings.ToUpper(str)` — the wrappers themselves; their
    callers are the sites above (no call from the request path: a method or header name taken from a request is never case-mapped).

A new call site (say, on request data), a validity test dropped or moved below the call, break the obligation. -/

def auditedCaseMapSites : List Bytes := [
  Spec.b "cors.validateMethods|methods.IsForbidden(name)|!(len(names) == 0) ; _ := range names ; !(name == headers.ValueWildcard) ; !(!methods.IsValid(name)) ; !(methods.IsSafelisted(name))",
  Spec.b "cors.validateMethods|methods.Normalize(name)|!(len(names) == 0) ; _ := range names ; !(name == headers.ValueWildcard) ; !(!methods.IsValid(name))",
  Spec.b "cors.validateRequestHeaders|util.ByteLowercase(name)|!(len(names) == 0) ; _ := range names ; !(name == headers.ValueWildcard) ; !(!headers.IsValid(name))",
  Spec.b "cors.validateResponseHeaders|util.ByteLowercase(name)|!(len(names) == 0) ; _ := range names ; !(name == headers.ValueWildcard) ; !(!headers.IsValid(name))",
  Spec.b "headers.|util.ByteLowercase(ACAC)|const=Access-Control-Allow-Credentials",
  Spec.b "headers.|util.ByteLowercase(ACAH)|const=Access-Control-Allow-Headers",
  Spec.b "headers.|util.ByteLowercase(ACAH)|const=Access-Control-Allow-Headers",
  Spec.b "headers.|util.ByteLowercase(ACAM)|const=Access-Control-Allow-Methods",
  Spec.b "headers.|util.ByteLowercase(ACAM)|const=Access-Control-Allow-Methods",
  Spec.b "headers.|util.ByteLowercase(ACAO)|const=Access-Control-Allow-Origin",
  Spec.b "headers.|util.ByteLowercase(ACAPN)|const=Access-Control-Allow-Private-Network",
  Spec.b "headers.|util.ByteLowercase(ACAPN)|const=Access-Control-Allow-Private-Network",
  Spec.b "headers.|util.ByteLowercase(ACEH)|const=Access-Control-Expose-Headers",
  Spec.b "headers.|util.ByteLowercase(ACMA)|const=Access-Control-Max-Age",
  Spec.b "headers.|util.ByteLowercase(ACMA)|const=Access-Control-Max-Age",
  Spec.b "headers.|util.ByteLowercase(ACRH)|const=Access-Control-Request-Headers",
  Spec.b "headers.|util.ByteLowercase(ACRH)|const=Access-Control-Request-Headers",
  Spec.b "headers.|util.ByteLowercase(ACRM)|const=Access-Control-Request-Method",
  Spec.b "headers.|util.ByteLowercase(ACRM)|const=Access-Control-Request-Method",
  Spec.b "headers.|util.ByteLowercase(ACRPN)|const=Access-Control-Request-Private-Network",
  Spec.b "headers.|util.ByteLowercase(ACRPN)|const=Access-Control-Request-Private-Network",
  Spec.b "headers.|util.ByteLowercase(Origin)|const=Origin",
  Spec.b "headers.|util.ByteLowercase(Origin)|const=Origin",
  Spec.b "methods.IsForbidden|util.ByteUppercase(name)|",
  Spec.b "methods.Normalize|util.ByteUppercase(method)|",
  Spec.b "util.ByteLowercase|strings.ToLower(str)|",
  Spec.b "util.ByteUppercase|strings.ToUpper(str)|"
]

/-- **C04 (case-mapping sites).** The code case-maps exactly at the audited sites, each under exactly the audited
dominating conditions. -/
theorem C04_caseMap_sites : Facts.cors_caseMapSites = auditedCaseMapSites := by decide +kernel

/-- The constant arguments of the case-mapping calls are ASCII. -/
theorem C04_caseMap_consts_ascii : ∀ s ∈ Facts.cors_caseMapConstArgs, ∀ b ∈ s, b < 128 := by decide +kernel

/-- A name that passes the validity test (`httpguts.ValidHeaderFieldName`, `methods.IsValid`: non-empty, token bytes
only) is ASCII: on it the Unicode-aware library functions and the model's byte maps coincide. -/
theorem C04_valid_ascii (name : Bytes) (h : Headers.isValid name = true) : ∀ b ∈ name, b < 128 := by
  intro b hb
  unfold Headers.isValid at h
  simp only [Bool.and_eq_true, List.all_eq_true] at h
  have ht := h.2 b hb
  unfold Headers.isTchar at ht
  simp only [Bool.or_eq_true, Bool.and_eq_true, decide_eq_true_eq, List.contains_eq_mem, List.mem_cons, List.mem_nil_iff, or_false] at ht
  omega

#print axioms C04_caseMap_sites
#print axioms C04_caseMap_consts_ascii
#print axioms C04_valid_ascii

#print axioms C04
#print axioms C04_nil
#print axioms C04_clauses


/-- **C04 (translated validators).** `validatePreflightStatus` and `validateMaxAge` — the two loop-free validators, where the
integer subtleties live (range test before the `uint8` conversion, `-1` / `0` / default handling) — are translated from
/repo's config.go on every run (constants evaluated by go/types) and equal the hand-written `Validate.status` /
`Validate.maxAge` for every integer: same acceptance, same error value with its bounds, same stored value. -/
theorem C04_validators_translated (x : Int) :
    Gen.GoSrc.validatePreflightStatus x = (match Validate.status x with | .ok v => (none, v) | .error e => (some e, 0)) ∧
    Gen.GoSrc.validateMaxAge x = (match Validate.maxAge x with | .ok v => (none, v) | .error e => (some e, [])) :=
  ⟨Translated.validatePreflightStatus_eq x, Translated.validateMaxAge_eq x⟩

#print axioms C04_validators_translated


/-- **C04 (translated loop bodies).** One iteration of the `for _, name := range names` loops of `validateMethods`,
`validateRequestHeaders` and `validateResponseHeaders` — the single-pass folds with their mid-loop flags for `*` and
`Authorization`, the validity test *before* normalisation, the forbidden / prohibited / safelisted tests on the normalised
name, the error values, what is stored — is translated from /repo's config.go on every run and equals the hand-written
step function of the model, for every loop state and element; hence the folds over any configured list are the model's.
(The prologue `len(names) == 0` and the epilogue — `errors.Join`, the assignments into `icfg` — stay hand-modelled.) -/
theorem C04_loops_translated (credentialed : Bool) (names : List Bytes) :
    names.foldl Gen.GoSrc.methodStep {} = names.foldl Validate.methodStep {} ∧
    names.foldl (Gen.GoSrc.reqHdrStep credentialed) {} = names.foldl (Validate.reqHdrStep credentialed) {} ∧
    names.foldl (Gen.GoSrc.resHdrStep credentialed) {} = names.foldl (Validate.resHdrStep credentialed) {} :=
  Translated.loops_eq credentialed names

#print axioms C04_loops_translated


/-- **C04 (translated origin loop).** One iteration of the `for _, raw := range patterns` loop of `validateOrigins` — the `*`
incompatibilities, `origins.ParsePattern` and its error, the insecure-origin and public-suffix guards with their tolerance
switches (each reported, in the code's order, none skipping another), `tree.Insert` — is translated from /repo's config.go on
every run and equals `Validate.originStep` for every loop state and element (whatever the IDNA / public-suffix oracles
answer); hence the fold over any list of patterns is the model's. -/
theorem C04_originLoop_translated (ext : Ext) (credentialed pnaAny tolInsecure tolPSL : Bool) (patterns : List Bytes) :
    patterns.foldl (Gen.GoSrc.originStep ext credentialed pnaAny tolInsecure tolPSL) {} =
      patterns.foldl (Validate.originStep ext credentialed pnaAny tolInsecure tolPSL) {} :=
  Translated.originLoop_eq ext credentialed pnaAny tolInsecure tolPSL patterns

#print axioms C04_originLoop_translated

end Cors
