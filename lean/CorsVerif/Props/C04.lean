import CorsVerif.Props.C05
/-
  C04 — No insecure or out-of-range configuration is ever accepted.

  Whenever validation accepts a Config, the Config violates none of the documented
  prohibitions (`Spec.prohibitions`, written field by field from the documentation); and an
  error always comes with a nil middleware.
-/
namespace Cors
open Gen

/-- **C04.** Acceptance implies that there is no violation at all. -/
theorem C04 (ext : Ext) (cfg : Config) (icfg : ICfg) (h : newInternalConfig ext cfg = .ok icfg) :
    Spec.prohibitions ext cfg = [] := C05_reject ext cfg icfg h

/-- **C04 (nil middleware).** `NewMiddleware` returns a middleware exactly when validation accepts. -/
theorem C04_nil (ext : Ext) (cfg : Config) (e : Err) (h : newInternalConfig ext cfg = .error e) :
    Mw.new ext cfg = .error e := by
  simp [Mw.new, h]

/-- Unfolded consequences, in the words of the property. -/
theorem C04_clauses (ext : Ext) (cfg : Config) (icfg : ICfg) (h : newInternalConfig ext cfg = .ok icfg) :
    cfg.origins ≠ [] ∧
    (Spec.star ∈ cfg.origins → cfg.credentialed = false ∧ cfg.pna = false ∧ cfg.pnaNoCors = false) ∧
    (cfg.pna && cfg.pnaNoCors) = false ∧
    (-1 ≤ cfg.maxAge ∧ cfg.maxAge ≤ 86400) ∧
    (cfg.status = 0 ∨ (200 ≤ cfg.status ∧ cfg.status ≤ 299)) ∧
    (∀ m ∈ cfg.methods, Spec.methodViolations m = []) ∧
    (∀ n ∈ cfg.requestHeaders, Spec.requestHeaderViolations n = []) ∧
    (∀ n ∈ cfg.responseHeaders, Spec.responseHeaderViolations cfg.credentialed n = []) ∧
    (∀ o ∈ cfg.origins, Spec.originViolations ext cfg o = []) := by
  have hp := C04 ext cfg icfg h
  unfold Spec.prohibitions at hp
  simp only [List.append_eq_nil_iff, List.flatMap_eq_nil_iff] at hp
  obtain ⟨⟨⟨⟨⟨⟨hs, hpna⟩, ho⟩, hm⟩, hr⟩, ha⟩, he⟩ := hp
  have hne : cfg.origins.isEmpty = false := by
    unfold Spec.originsViolations at ho
    cases hem : cfg.origins.isEmpty with
    | false => rfl
    | true => simp [hem] at ho
  have hoAll : ∀ o ∈ cfg.origins, Spec.originViolations ext cfg o = [] := by
    unfold Spec.originsViolations at ho
    simp only [hne, Bool.false_eq_true, if_false, List.flatMap_eq_nil_iff] at ho
    exact ho
  refine ⟨?_, ?_, ?_, ?_, ?_, hm, hr, he, hoAll⟩
  · intro hnil; rw [hnil] at hne; cases hne
  · intro hstar
    have := hoAll Spec.star hstar
    unfold Spec.originViolations at this
    simp only [beq_self_eq_true, if_true, List.append_eq_nil_iff] at this
    obtain ⟨h1, h2⟩ := this
    refine ⟨?_, ?_, ?_⟩
    · cases hc : cfg.credentialed with
      | false => rfl
      | true => simp [hc] at h1
    · cases hc : cfg.pna with
      | false => rfl
      | true => simp [hc] at h2
    · cases hc : cfg.pnaNoCors with
      | false => rfl
      | true => simp [hc] at h2
  · unfold Spec.pnaViolations at hpna
    cases hc : (cfg.pna && cfg.pnaNoCors) with
    | false => rfl
    | true => simp [hc] at hpna
  · unfold Spec.maxAgeViolations at ha
    by_cases hb : ((-1 : Int) ≤ cfg.maxAge && cfg.maxAge ≤ 86400) = true
    · simpa using hb
    · simp [hb] at ha
  · unfold Spec.statusViolations at hs
    by_cases hb : (cfg.status == 0 || (200 ≤ cfg.status && cfg.status ≤ 299)) = true
    · simp only [Bool.or_eq_true, beq_iff_eq, Bool.and_eq_true, decide_eq_true_eq] at hb; exact hb
    · simp [hb] at hs

#print axioms C04
#print axioms C04_nil
#print axioms C04_clauses

end Cors
