import CorsVerif.Proofs.Serve
import CorsVerif.Proofs.Translated
import CorsVerif.Proofs.Accepted
import CorsVerif.Proofs.NamesNe
/-
  C03 — CORS response headers are well-formed and never over-grant, for any request.

  Stated for every decision oracle `dec` (DESIGN.md 3d: "allowed origin" is read as
  `allow-all ∨ dec.allowed (first Origin value)`; composing with C01 gives the statement in
  terms of pattern denotations), every internal configuration, both debug modes, every request
  (any method, any header lookups: absent, zero values, many values, any bytes) and every set
  of response headers already present.  "Emitted" means: differs from what was there before.
-/
namespace Cors
open Gen Serve

/-- The request has an allowed origin: the configuration allows all origins, or the first
`Origin` value is allowed (see DESIGN.md 8.1). -/
def originOK (dec : Dec) (icfg : ICfg) (r : Req) : Prop :=
  icfg.tree.isEmpty = true ∨ ∃ o, r.hdrs.first Facts.headers_Origin = some o ∧ dec.allowed o = true

/-- The echo of an allowed origin: exactly one value, byte-equal to the first `Origin` value. -/
def echoes (dec : Dec) (r : Req) (v : Option (List Bytes)) : Prop :=
  ∃ o, r.hdrs.first Facts.headers_Origin = some o ∧ v = some [o] ∧ dec.allowed o = true

def corsResponseNames : List Bytes :=
  [Facts.headers_ACAO, Facts.headers_ACAC, Facts.headers_ACAM, Facts.headers_ACAH, Facts.headers_ACAPN,
   Facts.headers_ACMA, Facts.headers_ACEH]

/-- The conjunction C03 demands of a response. -/
structure C03Spec (dec : Dec) (icfg : ICfg) (r : Req) (pre : HdrMap) (resp : Resp) : Prop where
  /-- at most one ACAO value: `*` (only non-credentialed allow-all) or the echo of an allowed origin -/
  acao : resp.hdrs Facts.headers_ACAO = pre Facts.headers_ACAO ∨
    (resp.hdrs Facts.headers_ACAO = some [Facts.headers_ValueWildcard] ∧ icfg.tree.isEmpty = true ∧ icfg.credentialed = false) ∨
    echoes dec r (resp.hdrs Facts.headers_ACAO)
  /-- ACAC only `true`, only when credentialed, only next to an echoed allowed origin -/
  acac : resp.hdrs Facts.headers_ACAC = pre Facts.headers_ACAC ∨
    (resp.hdrs Facts.headers_ACAC = some [Facts.headers_ValueTrue] ∧ icfg.credentialed = true ∧
      echoes dec r (resp.hdrs Facts.headers_ACAO))
  /-- without an allowed origin: no Access-Control-Allow-* / -Expose-* / -Max-Age header at all -/
  nothing : ¬ originOK dec icfg r → ∀ n ∈ corsResponseNames, resp.hdrs n = pre n
  /-- Allow-Methods / -Headers / -Private-Network and Max-Age only on preflight responses -/
  preflightOnly : ∀ n ∈ [Facts.headers_ACAM, Facts.headers_ACAH, Facts.headers_ACAPN, Facts.headers_ACMA],
    resp.hdrs n ≠ pre n → r.isPreflight = true
  /-- Max-Age carries exactly the configured value -/
  acma : resp.hdrs Facts.headers_ACMA = pre Facts.headers_ACMA ∨ resp.hdrs Facts.headers_ACMA = some icfg.acma
  /-- Expose-Headers only on other responses, carrying exactly the configured value -/
  aceh : resp.hdrs Facts.headers_ACEH = pre Facts.headers_ACEH ∨
    (r.isPreflight = false ∧ resp.hdrs Facts.headers_ACEH = some [icfg.aceh])

theorem wildcardSgl_eq : Facts.headers_WildcardSgl = [Facts.headers_ValueWildcard] := by decide
theorem trueSgl_eq : Facts.headers_TrueSgl = [Facts.headers_ValueTrue] := by decide

/-! ### The preflight buffer -/

/-- What the accumulation buffer may hold under the keys C03 talks about. -/
structure BufSpec (dec : Dec) (icfg : ICfg) (o : Bytes) (b : Buf) : Prop where
  acao : b Facts.headers_ACAO = none ∨
    (b Facts.headers_ACAO = some [Facts.headers_ValueWildcard] ∧ icfg.tree.isEmpty = true ∧ icfg.credentialed = false) ∨
    (b Facts.headers_ACAO = some [o] ∧ dec.allowed o = true)
  acac : b Facts.headers_ACAC = none ∨
    (b Facts.headers_ACAC = some [Facts.headers_ValueTrue] ∧ icfg.credentialed = true ∧
      b Facts.headers_ACAO = some [o] ∧ dec.allowed o = true)
  aceh : b Facts.headers_ACEH = none
  acma : b Facts.headers_ACMA = none

theorem BufSpec_empty (dec : Dec) (icfg : ICfg) (o : Bytes) : BufSpec dec icfg o HdrMap.empty :=
  ⟨Or.inl rfl, Or.inl rfl, rfl, rfl⟩

theorem BufSpec_put_other {dec : Dec} {icfg : ICfg} {o : Bytes} {b : Buf} (hb : BufSpec dec icfg o b)
    (k : Bytes) (v : List Bytes) (h1 : Facts.headers_ACAO ≠ k) (h2 : Facts.headers_ACAC ≠ k)
    (h3 : Facts.headers_ACEH ≠ k) (h4 : Facts.headers_ACMA ≠ k) : BufSpec dec icfg o (b.put k v) := by
  unfold Buf.put
  refine ⟨?_, ?_, ?_, ?_⟩
  · rw [assign_other _ _ _ _ h1]; exact hb.acao
  · rw [assign_other _ _ _ _ h2, assign_other _ _ _ _ h1]; exact hb.acac
  · rw [assign_other _ _ _ _ h3]; exact hb.aceh
  · rw [assign_other _ _ _ _ h4]; exact hb.acma

theorem acao_ne_acac : Facts.headers_ACAO ≠ Facts.headers_ACAC := by decide
theorem acao_ne_acam : Facts.headers_ACAO ≠ Facts.headers_ACAM := by decide
theorem acao_ne_acah : Facts.headers_ACAO ≠ Facts.headers_ACAH := by decide
theorem acao_ne_acapn : Facts.headers_ACAO ≠ Facts.headers_ACAPN := by decide
theorem acao_ne_acma : Facts.headers_ACAO ≠ Facts.headers_ACMA := by decide
theorem acao_ne_aceh : Facts.headers_ACAO ≠ Facts.headers_ACEH := by decide
theorem acac_ne_acam : Facts.headers_ACAC ≠ Facts.headers_ACAM := by decide
theorem acac_ne_acah : Facts.headers_ACAC ≠ Facts.headers_ACAH := by decide
theorem acac_ne_acapn : Facts.headers_ACAC ≠ Facts.headers_ACAPN := by decide
theorem acac_ne_acma : Facts.headers_ACAC ≠ Facts.headers_ACMA := by decide
theorem acac_ne_aceh : Facts.headers_ACAC ≠ Facts.headers_ACEH := by decide
theorem aceh_ne_acam : Facts.headers_ACEH ≠ Facts.headers_ACAM := by decide
theorem aceh_ne_acah : Facts.headers_ACEH ≠ Facts.headers_ACAH := by decide
theorem aceh_ne_acapn : Facts.headers_ACEH ≠ Facts.headers_ACAPN := by decide
theorem aceh_ne_acma : Facts.headers_ACEH ≠ Facts.headers_ACMA := by decide
theorem acma_ne_acam : Facts.headers_ACMA ≠ Facts.headers_ACAM := by decide
theorem acma_ne_acah : Facts.headers_ACMA ≠ Facts.headers_ACAH := by decide
theorem acma_ne_acapn : Facts.headers_ACMA ≠ Facts.headers_ACAPN := by decide

theorem origin_step_spec (dec : Dec) (icfg : ICfg) (o : Bytes) (b' : Buf)
    (h : processOriginForPreflight dec icfg HdrMap.empty o = some b') :
    BufSpec dec icfg o b' ∧ (icfg.tree.isEmpty = true ∨ dec.allowed o = true) := by
  unfold processOriginForPreflight at h
  split at h
  · cases h
  · split at h
    · rename_i hc
      simp only [Bool.and_eq_true, Bool.not_eq_true'] at hc
      cases h
      refine ⟨⟨Or.inr (Or.inl ⟨by simp [Buf.put, assign_same, wildcardSgl_eq], hc.2, hc.1⟩), Or.inl ?_, ?_, ?_⟩, Or.inl hc.2⟩
      · simp [Buf.put, assign_other _ _ _ _ acao_ne_acac.symm, HdrMap.empty]
      · simp [Buf.put, assign_other _ _ _ _ acao_ne_aceh.symm, HdrMap.empty]
      · simp [Buf.put, assign_other _ _ _ _ acao_ne_acma.symm, HdrMap.empty]
    · split at h
      · cases h
      · rename_i ha
        have ha' : dec.allowed o = true := by simpa using ha
        cases h
        refine ⟨?_, Or.inr ha'⟩
        split
        · rename_i hc
          refine ⟨Or.inr (Or.inr ⟨?_, ha'⟩), Or.inr ⟨?_, hc, ?_, ha'⟩, ?_, ?_⟩
          · simp [Buf.put, assign_other _ _ _ _ acao_ne_acac, assign_same]
          · simp [Buf.put, assign_same, trueSgl_eq]
          · simp [Buf.put, assign_other _ _ _ _ acao_ne_acac, assign_same]
          · simp [Buf.put, assign_other _ _ _ _ acac_ne_aceh.symm, assign_other _ _ _ _ acao_ne_aceh.symm, HdrMap.empty]
          · simp [Buf.put, assign_other _ _ _ _ acac_ne_acma.symm, assign_other _ _ _ _ acao_ne_acma.symm, HdrMap.empty]
        · refine ⟨Or.inr (Or.inr ⟨?_, ha'⟩), Or.inl ?_, ?_, ?_⟩
          · simp [Buf.put, assign_same]
          · simp [Buf.put, assign_other _ _ _ _ acao_ne_acac.symm, HdrMap.empty]
          · simp [Buf.put, assign_other _ _ _ _ acao_ne_aceh.symm, HdrMap.empty]
          · simp [Buf.put, assign_other _ _ _ _ acao_ne_acma.symm, HdrMap.empty]

theorem acrpn_step_spec {dec : Dec} {icfg : ICfg} {o : Bytes} (reqHdrs : HdrMap) (b b' : Buf) (hb : BufSpec dec icfg o b)
    (h : processACRPN icfg b reqHdrs = some b') : BufSpec dec icfg o b' := by
  unfold processACRPN at h
  repeat' split at h
  all_goals (cases h <;> first | exact hb | exact BufSpec_put_other hb _ _ acao_ne_acapn acac_ne_acapn aceh_ne_acapn acma_ne_acapn)

theorem acrm_step_spec {dec : Dec} {icfg : ICfg} {o : Bytes} (b b' : Buf) (m : Bytes) (hb : BufSpec dec icfg o b)
    (h : processACRM icfg b m = some b') : BufSpec dec icfg o b' := by
  unfold processACRM at h
  repeat' split at h
  all_goals (cases h <;> first | exact hb | exact BufSpec_put_other hb _ _ acao_ne_acam acac_ne_acam aceh_ne_acam acma_ne_acam)

theorem acrh_step_spec {dec : Dec} {icfg : ICfg} {o : Bytes} (reqHdrs : HdrMap) (dbg : Bool) (b b' : Buf) (hb : BufSpec dec icfg o b)
    (h : processACRH dec icfg b reqHdrs dbg = some b') : BufSpec dec icfg o b' := by
  unfold processACRH at h
  repeat' split at h
  all_goals (cases h <;> first | exact hb | exact BufSpec_put_other hb _ _ acao_ne_acah acac_ne_acah aceh_ne_acah acma_ne_acah)

/-- The buffer of any outcome of the pipeline meets `BufSpec`; an outcome other than an origin
failure implies an allowed origin; an origin failure comes with an empty buffer. -/
theorem steps_spec (dec : Dec) (icfg : ICfg) (reqHdrs : HdrMap) (o a : Bytes) (dbg : Bool) :
    match preflightSteps dec icfg reqHdrs o a dbg with
    | .originFail b => b = HdrMap.empty
    | .laterFail b => BufSpec dec icfg o b ∧ (icfg.tree.isEmpty = true ∨ dec.allowed o = true)
    | .ok b => BufSpec dec icfg o b ∧ (icfg.tree.isEmpty = true ∨ dec.allowed o = true) := by
  unfold preflightSteps
  cases h1 : processOriginForPreflight dec icfg HdrMap.empty o with
  | none => rfl
  | some b1 =>
    obtain ⟨s1, hok⟩ := origin_step_spec dec icfg o b1 h1
    simp only []
    cases h2 : processACRPN icfg b1 reqHdrs with
    | none => exact ⟨s1, hok⟩
    | some b2 =>
      have s2 := acrpn_step_spec reqHdrs b1 b2 s1 h2
      simp only []
      cases h3 : processACRM icfg b2 a with
      | none => exact ⟨s2, hok⟩
      | some b3 =>
        have s3 := acrm_step_spec b2 b3 a s2 h3
        simp only []
        cases h4 : processACRH dec icfg b3 reqHdrs dbg with
        | none => exact ⟨s3, hok⟩
        | some b4 => exact ⟨acrh_step_spec reqHdrs dbg b3 b4 s3 h4, hok⟩

theorem preflightVary_other' (h : HdrMap) (n : Bytes) (hn : n ≠ Facts.headers_Vary) : preflightVary h n = h n := by
  unfold preflightVary; cases h Facts.headers_Vary <;> exact assign_other _ _ _ _ hn

/-- Headers of `(preflightVary pre).copy b` under the names C03 talks about. -/
theorem copied_spec (dec : Dec) (icfg : ICfg) (r : Req) (pre : HdrMap) (o : Bytes) (b : Buf)
    (ho : r.hdrs.first Facts.headers_Origin = some o) (hb : BufSpec dec icfg o b) :
    let h := (preflightVary pre).copy b
    (h Facts.headers_ACAO = pre Facts.headers_ACAO ∨
      (h Facts.headers_ACAO = some [Facts.headers_ValueWildcard] ∧ icfg.tree.isEmpty = true ∧ icfg.credentialed = false) ∨
      echoes dec r (h Facts.headers_ACAO)) ∧
    (h Facts.headers_ACAC = pre Facts.headers_ACAC ∨
      (h Facts.headers_ACAC = some [Facts.headers_ValueTrue] ∧ icfg.credentialed = true ∧ echoes dec r (h Facts.headers_ACAO))) ∧
    h Facts.headers_ACEH = pre Facts.headers_ACEH ∧ h Facts.headers_ACMA = pre Facts.headers_ACMA := by
  intro h
  have pv : ∀ n, n ≠ Facts.headers_Vary → preflightVary pre n = pre n := preflightVary_other' pre
  refine ⟨?_, ?_, ?_, ?_⟩
  · rcases hb.acao with h0 | ⟨h1, h2, h3⟩ | ⟨h1, h2⟩
    · left; show (HdrMap.copy _ b) _ = _; rw [copy_none _ _ _ h0, pv _ vary_ne_acao.symm]
    · right; left; exact ⟨copy_some _ _ _ _ h1, h2, h3⟩
    · right; right; exact ⟨o, ho, copy_some _ _ _ _ h1, h2⟩
  · rcases hb.acac with h0 | ⟨h1, h2, h3, h4⟩
    · left; show (HdrMap.copy _ b) _ = _; rw [copy_none _ _ _ h0, pv _ vary_ne_acac.symm]
    · right; exact ⟨copy_some _ _ _ _ h1, h2, o, ho, copy_some _ _ _ _ h3, h4⟩
  · show (HdrMap.copy _ b) _ = _; rw [copy_none _ _ _ hb.aceh, pv _ vary_ne_aceh.symm]
  · show (HdrMap.copy _ b) _ = _; rw [copy_none _ _ _ hb.acma, pv _ vary_ne_acma.symm]

open NamesNe in
/-- Non-CORS path. -/
theorem nonCORS_spec (dec : Dec) (icfg : ICfg) (hwf : icfg.tree.isEmpty = true → icfg.credentialed = false)
    (r : Req) (pre : HdrMap) (isOpt : Bool)
    (ho : r.hdrs.first Facts.headers_Origin = none) (hp : r.isPreflight = false) :
    C03Spec dec icfg r pre { hdrs := handleNonCORS icfg pre isOpt, status := none, next := true } := by
  have hnot : ¬ originOK dec icfg r → icfg.tree.isEmpty = false := by
    intro h; cases ht : icfg.tree.isEmpty with
    | false => rfl
    | true => exact absurd (Or.inl ht) h
  cases hpn : icfg.pnaNoCors <;> cases ht : icfg.tree.isEmpty <;> cases he : icfg.aceh.isEmpty <;> cases isOpt
  all_goals
    refine ⟨?_, ?_, ?_, ?_, ?_, ?_⟩
    · first
        | (left; simp [handleNonCORS, hpn, ht, he, set_other, add_other]; done)
        | (right; left; exact ⟨by simp [handleNonCORS, hpn, ht, he, set_other, add_other, set_same], ht, hwf ht⟩)
    · left; simp [handleNonCORS, hpn, ht, he, set_other, add_other]
    · intro hno n hn
      have ht' := hnot hno
      simp only [corsResponseNames, List.mem_cons, List.not_mem_nil, or_false] at hn
      rcases hn with rfl | rfl | rfl | rfl | rfl | rfl | rfl <;>
        simp_all [handleNonCORS, set_other, add_other]
    · intro n hn hne
      exfalso; apply hne
      simp only [List.mem_cons, List.not_mem_nil, or_false] at hn
      rcases hn with rfl | rfl | rfl | rfl <;> simp [handleNonCORS, hpn, ht, he, set_other, add_other]
    · left; simp [handleNonCORS, hpn, ht, he, set_other, add_other]
    · first
        | (left; simp [handleNonCORS, hpn, ht, he, set_other, add_other]; done)
        | (right; exact ⟨hp, by simp [handleNonCORS, hpn, ht, he, set_other, add_other, set_same]⟩)

open NamesNe in
/-- Actual (non-preflight CORS) path. -/
theorem actual_spec (dec : Dec) (icfg : ICfg) (hwf : icfg.tree.isEmpty = true → icfg.credentialed = false)
    (r : Req) (pre : HdrMap) (isOpt : Bool) (o : Bytes)
    (ho : r.hdrs.first Facts.headers_Origin = some o) (hp : r.isPreflight = false) :
    C03Spec dec icfg r pre { hdrs := handleCORSActual dec icfg pre o isOpt, status := none, next := true } := by
  have hnot : ¬ originOK dec icfg r → icfg.tree.isEmpty = false ∧ dec.allowed o = false := by
    intro h
    constructor
    · cases ht : icfg.tree.isEmpty with
      | false => rfl
      | true => exact absurd (Or.inl ht) h
    · cases ha : dec.allowed o with
      | false => rfl
      | true => exact absurd (Or.inr ⟨o, ho, ha⟩) h
  cases hpn : icfg.pnaNoCors <;> cases ht : icfg.tree.isEmpty <;> cases he : icfg.aceh.isEmpty <;> cases isOpt <;>
    cases hc : icfg.credentialed <;> cases ha : dec.allowed o
  all_goals first
    | (have := hwf ht; simp [hc] at this; done)     -- allow-all with credentials: excluded by well-formedness
    | skip
  all_goals
    refine ⟨?_, ?_, ?_, ?_, ?_, ?_⟩
    · first
        | (left; simp [handleCORSActual, hpn, ht, he, hc, ha, set_other, add_other, assign_other]; done)
        | (right; left; exact ⟨by simp [handleCORSActual, hpn, ht, he, hc, ha, set_other, add_other, assign_other, set_same], ht, hc⟩)
        | (right; right; exact ⟨o, ho, by simp [handleCORSActual, hpn, ht, he, hc, ha, set_other, add_other, assign_other, assign_same], ha⟩)
    · first
        | (left; simp [handleCORSActual, hpn, ht, he, hc, ha, set_other, add_other, assign_other]; done)
        | (right; exact ⟨by simp [handleCORSActual, hpn, ht, he, hc, ha, set_other, add_other, assign_other, set_same], hc,
            o, ho, by simp [handleCORSActual, hpn, ht, he, hc, ha, set_other, add_other, assign_other, assign_same], ha⟩)
    · intro hno n hn
      obtain ⟨ht', ha'⟩ := hnot hno
      simp only [corsResponseNames, List.mem_cons, List.not_mem_nil, or_false] at hn
      rcases hn with rfl | rfl | rfl | rfl | rfl | rfl | rfl <;>
        simp_all [handleCORSActual, set_other, add_other, assign_other]
    · intro n hn hne
      exfalso; apply hne
      simp only [List.mem_cons, List.not_mem_nil, or_false] at hn
      rcases hn with rfl | rfl | rfl | rfl <;>
        simp [handleCORSActual, hpn, ht, he, hc, ha, set_other, add_other, assign_other]
    · left; simp [handleCORSActual, hpn, ht, he, hc, ha, set_other, add_other, assign_other]
    · first
        | (left; simp [handleCORSActual, hpn, ht, he, hc, ha, set_other, add_other, assign_other]; done)
        | (right; exact ⟨hp, by simp [handleCORSActual, hpn, ht, he, hc, ha, set_other, add_other, assign_other, set_same]⟩)

open NamesNe in
/-- Preflight path. -/
theorem preflight_spec (dec : Dec) (icfg : ICfg) (r : Req) (pre : HdrMap) (o a : Bytes) (dbg : Bool)
    (ho : r.hdrs.first Facts.headers_Origin = some o) (hp : r.isPreflight = true) :
    C03Spec dec icfg r pre (handleCORSPreflight dec icfg pre r.hdrs o a dbg) := by
  have pv : ∀ n, n ≠ Facts.headers_Vary → preflightVary pre n = pre n := preflightVary_other' pre
  have hspec := steps_spec dec icfg r.hdrs o a dbg
  have hOK : (icfg.tree.isEmpty = true ∨ dec.allowed o = true) → originOK dec icfg r := by
    rintro (h | h)
    · exact Or.inl h
    · exact Or.inr ⟨o, ho, h⟩
  unfold handleCORSPreflight
  cases hs : preflightSteps dec icfg r.hdrs o a dbg with
  | originFail b =>
    rw [hs] at hspec
    simp only [] at hspec
    subst hspec
    have hall : ∀ n, n ≠ Facts.headers_Vary → (if dbg = true then (preflightVary pre).copy HdrMap.empty else preflightVary pre) n = pre n := by
      intro n hn; rw [copy_empty]; simp [pv n hn]
    refine ⟨Or.inl (hall _ (by simp)), Or.inl (hall _ (by simp)), ?_, ?_, Or.inl (hall _ (by simp)), Or.inl (hall _ (by simp))⟩
    · intro _ n hn
      simp only [corsResponseNames, List.mem_cons, List.not_mem_nil, or_false] at hn
      rcases hn with rfl | rfl | rfl | rfl | rfl | rfl | rfl <;> exact hall _ (by simp)
    · intro n _ _; exact hp
  | laterFail b =>
    rw [hs] at hspec
    obtain ⟨hb, hallowed⟩ := hspec
    have hc := copied_spec dec icfg r pre o b ho hb
    simp only [] at hc
    cases dbg with
    | false =>
      simp only [Bool.false_eq_true, if_false]
      refine ⟨Or.inl (pv _ (by simp)), Or.inl (pv _ (by simp)), ?_, fun _ _ _ => hp, Or.inl (pv _ (by simp)), Or.inl (pv _ (by simp))⟩
      intro hno; exact absurd (hOK hallowed) hno
    | true =>
      simp only [if_true]
      refine ⟨hc.1, hc.2.1, ?_, fun _ _ _ => hp, Or.inl hc.2.2.2, Or.inl hc.2.2.1⟩
      intro hno; exact absurd (hOK hallowed) hno
  | ok b =>
    rw [hs] at hspec
    obtain ⟨hb, hallowed⟩ := hspec
    have hc := copied_spec dec icfg r pre o b ho hb
    simp only [] at hc
    simp only []
    split
    · refine ⟨?_, ?_, ?_, fun _ _ _ => hp, Or.inr (by simp [assign_same]), Or.inl ?_⟩
      · simpa [assign_other] using hc.1
      · simpa [assign_other] using hc.2.1
      · intro hno; exact absurd (hOK hallowed) hno
      · simpa [assign_other] using hc.2.2.1
    · refine ⟨hc.1, hc.2.1, ?_, fun _ _ _ => hp, Or.inl hc.2.2.2, Or.inl hc.2.2.1⟩
      intro hno; exact absurd (hOK hallowed) hno

/-- **C03.** For every decision oracle, well-formed configuration, debug mode, request and pre-set
response headers, the response meets every clause of `C03Spec`. -/
theorem C03 (dec : Dec) (icfg : ICfg) (hwf : icfg.tree.isEmpty = true → icfg.credentialed = false)
    (dbg : Bool) (r : Req) (pre : HdrMap) :
    C03Spec dec icfg r pre (serveDec dec icfg dbg r pre) := by
  unfold serveDec
  cases ho : r.hdrs.first Facts.headers_Origin with
  | none =>
    have hp : r.isPreflight = false := by simp [Req.isPreflight, ho]
    exact nonCORS_spec dec icfg hwf r pre _ ho hp
  | some o =>
    cases ha : r.hdrs.first Facts.headers_ACRM with
    | none =>
      have hp : r.isPreflight = false := by simp [Req.isPreflight, ha]
      exact actual_spec dec icfg hwf r pre _ o ho hp
    | some a =>
      by_cases hm : r.method = OPTIONS
      · have hp : r.isPreflight = true := by simp [Req.isPreflight, ho, ha, hm]
        simp only [hm, beq_self_eq_true, if_true]
        exact preflight_spec dec icfg r pre o a dbg ho hp
      · have hm' : (r.method == OPTIONS) = false := by simpa using hm
        have hp : r.isPreflight = false := by simp [Req.isPreflight, hm']
        simp only [hm']
        exact actual_spec dec icfg hwf r pre _ o ho hp

/-- The statement for the model's own decisions (tree and lexer). -/
theorem C03_model (icfg : ICfg) (hwf : icfg.WF) (dbg : Bool) (r : Req) (pre : HdrMap) :
    C03Spec (modelDec icfg) icfg r pre (serve icfg dbg r pre) :=
  C03 (modelDec icfg) icfg hwf.star_not_cred dbg r pre

#print axioms C03
#print axioms C03_model

/-- **C03 for every accepted configuration**, with the model's own tree and lexer as decisions. -/
theorem C03_accepted (ext : Ext) (cfg : Config) (icfg : ICfg) (h : newInternalConfig ext cfg = .ok icfg)
    (dbg : Bool) (r : Req) (pre : HdrMap) : C03Spec (modelDec icfg) icfg r pre (serve icfg dbg r pre) :=
  C03_model icfg (accepted_wf ext cfg icfg h) dbg r pre

#print axioms C03_accepted


/-- **C03 (translated pipeline).** The four decision steps of the preflight pipeline — `processOriginForPreflight`,
`processACRPN`, `processACRM`, `processACRH` — are translated from /repo's middleware.go into Lean on every run
(Gen/Pipeline.lean, by harness/extract/translate.go); for every internal configuration, buffer, request headers and debug
mode each translated function returns the hand-written model's result (with the model's own origin and header-list decisions) —
and, when the step fails, the buffer exactly as it was: a failing step leaves nothing behind for debug mode to copy —,
so the theorems of this file speak about the code as it reads now.  An edit of one of these Go functions that changes its
meaning — or leaves the translated subset — breaks this obligation. -/
theorem C03_pipeline_translated (icfg : ICfg) (buf : Serve.Buf) (reqHdrs : HdrMap) (origin acrm : Bytes) (debug : Bool) :
    Gen.GoSrc.processOriginForPreflight icfg buf origin [origin] = GoRt.result buf (Serve.processOriginForPreflight (Serve.modelDec icfg) icfg buf origin) ∧
    Gen.GoSrc.processACRPN icfg buf reqHdrs = GoRt.result buf (Serve.processACRPN icfg buf reqHdrs) ∧
    Gen.GoSrc.processACRM icfg buf acrm [acrm] = GoRt.result buf (Serve.processACRM icfg buf acrm) ∧
    Gen.GoSrc.processACRH icfg buf reqHdrs debug = GoRt.result buf (Serve.processACRH (Serve.modelDec icfg) icfg buf reqHdrs debug) :=
  Translated.pipeline_eq icfg buf reqHdrs origin acrm debug

#print axioms C03_pipeline_translated


/-- **C03 (translated handlers).** `handleNonCORS` and `handleCORSActual` — everything the middleware does to a request
that is not a preflight — are translated from /repo's middleware.go into Lean on every run (Gen/Pipeline.lean); for every
internal configuration, response headers already present, Origin value and method kind each translated function equals
the hand-written model's (and `handleCORSActual` writes no status).  An edit of one of these Go functions that changes its meaning, or leaves the translated
subset of Go, breaks this obligation. -/
theorem C03_handlers_translated (icfg : ICfg) (h : HdrMap) (origin : Bytes) (isOPTIONS : Bool) :
    Gen.GoSrc.handleNonCORS icfg h isOPTIONS = Serve.handleNonCORS icfg h isOPTIONS ∧
    Gen.GoSrc.handleCORSActual icfg h origin [origin] isOPTIONS =
      (Serve.handleCORSActual (Serve.modelDec icfg) icfg h origin isOPTIONS, none) :=
  Translated.handlers_eq icfg h origin isOPTIONS

#print axioms C03_handlers_translated


/-- **C03 (translated preflight handler).** `handleCORSPreflight` — the Vary step, the four steps in Fetch order, what is copied
from the buffer and which status is written when a step fails (both debug modes), `maps.Copy`, the max-age header and the success
status — is translated from /repo's middleware.go on every run (Gen/Pipeline.lean, calling the translated steps); for every internal
configuration, response headers already present, request headers, Origin and ACRM values and debug mode it produces the header map and
the status of the hand-written model.  It contains no call of the wrapped handler (the translator has no construct for one). -/
theorem C03_preflight_translated (icfg : ICfg) (h reqHdrs : HdrMap) (origin acrm : Bytes) (debug : Bool) :
    Gen.GoSrc.handleCORSPreflight icfg h reqHdrs origin [origin] acrm [acrm] debug =
      ((Serve.handleCORSPreflight (Serve.modelDec icfg) icfg h reqHdrs origin acrm debug).hdrs,
       (Serve.handleCORSPreflight (Serve.modelDec icfg) icfg h reqHdrs origin acrm debug).status) :=
  Translated.handleCORSPreflight_eq icfg h reqHdrs origin acrm debug

#print axioms C03_preflight_translated


/-- **C03 (translated closure).** The handler closure returned by `Wrap` — from the statement after its passthrough test on:
the dispatch on the first `Origin` value, the method and the first `Access-Control-Request-Method` value, the calls of
`handleNonCORS` / `handleCORSPreflight` / `handleCORSActual` and of the wrapped handler — is translated from /repo's middleware.go
on every run, on top of the translated handlers and steps; as a function of (configuration, debug mode, request, response headers
already present) it *is* `Serve.serve`, the function every theorem about responses in this development speaks about.  So the whole
request path of middleware.go below the snapshot under the read lock is regenerated from the source and proved equal to the model;
what stays hand-modelled there is `net/http.Header`, `maps.Copy`, `headers.First` (index level: `C17_ix_first`) and the
functions the steps call (`origins.Parse`, `Tree.Contains`, `headers.Check`, `methods.IsSafelisted`, `Set.Contains`: C17's refinements). -/
theorem C03_closure_translated (icfg : ICfg) (debug : Bool) (r : Req) (pre : HdrMap) :
    Gen.GoSrc.serveClosure icfg debug r pre = Serve.serve icfg debug r pre :=
  Translated.serveClosure_eq icfg debug r pre

#print axioms C03_closure_translated

end Cors
