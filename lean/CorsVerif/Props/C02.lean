import CorsVerif.Proofs.Serve
import CorsVerif.Proofs.Translated
import CorsVerif.Proofs.Pipeline
import CorsVerif.Proofs.Verdict
import CorsVerif.Props.C01
import CorsVerif.Proofs.Twins
import CorsVerif.Proofs.Accepted
/-
  C02 — A Fetch-compliant browser's verdict equals what the configuration means.

  * C02 / C02_accepted: for every accepted configuration, either debug mode, every browser request
    intent (serialised origin, method token, token header names, credentials mode, private-network
    target) and every tolerated shape of the Access-Control-Request-Headers list, the browser's
    end-to-end verdict (Spec/Browser.lean: CORS-preflight fetch step 7, PNA, the CORS check — a
    transcription of the Fetch standard that mentions nothing of the implementation) evaluated on
    the responses of the model of `Wrap` equals `Browser.permits`, the documented meaning.
  * C02_invariance: hence the verdict does not depend on debug mode nor on tolerated alterations.
  * C02_preflight_verdict, C02_debug_steps, steps_ok_iff: the server-side characterisation of the
    preflight pipeline, for every decision oracle.
  Proof layers: Proofs/Pipeline.lean (which step writes which header with which value; frame),
  Proofs/BrowserLists.lean (what "extract header list values" yields on tokens, joined lists and
  tolerated lines; the unsafe-name list is sorted and unique), Proofs/Sound.lean (what acceptance
  guarantees about the stored header set and the pre-rendered Allow-Headers value),
  Proofs/Verdict.lean (the browser's conjuncts evaluated on each outcome of the pipeline), C14.
  With C01_request the origin clause `dec.allowed` is "some listed pattern denotes the origin".

  What the theorem cannot carry: that the Go handler answers like the model (tie: `serve` suite,
  strict comparison of status, headers and decisions; `intents` suite: this very verdict computed in
  Lean on the implementation's responses), and the fidelity of Spec/Browser.lean to the standard
  (trusted reading).
-/
namespace Cors
open Gen Serve

/-- **C02 (server-side verdict, debug off).** -/
theorem C02_preflight_verdict (dec : Dec) (icfg : ICfg) (hwf : icfg.WF) (r : Req) (pre : HdrMap) (o m : Bytes)
    (ho : r.hdrs.first Facts.headers_Origin = some o) (hm : r.hdrs.first Facts.headers_ACRM = some m)
    (hopt : r.method = OPTIONS) :
    (serveDec dec icfg false r pre).status = some (okStatus icfg) ↔
      (originCond dec icfg o && pnaCond icfg r.hdrs && methodCond icfg m && headerCond dec icfg r.hdrs) = true := by
  rw [← steps_ok_iff]
  have hd : okStatus icfg ≠ forbidden := by
    have := hwf.status_lt
    unfold okStatus forbidden
    simp only [Facts.cors_preflightFailStatuses]
    omega
  simp only [serveDec, ho, hm, hopt, beq_self_eq_true, if_true, handleCORSPreflight]
  cases hs : preflightSteps dec icfg r.hdrs o m false with
  | originFail b =>
    simp only [Bool.false_eq_true, if_false]
    constructor
    · intro h; exact absurd (Option.some.inj h).symm hd
    · rintro ⟨b', hb'⟩; cases hb'
  | laterFail b =>
    simp only [Bool.false_eq_true, if_false]
    constructor
    · intro h; exact absurd (Option.some.inj h).symm hd
    · rintro ⟨b', hb'⟩; cases hb'
  | ok b =>
    simp only []
    constructor
    · intro _; exact ⟨b, rfl⟩
    · intro _; trivial

/-- **C02 (debug cannot rescue a failing step).** The first three conditions do not mention the
debug flag; in debug mode the pipeline succeeds under the same origin / PNA / method conditions
and a header condition in which the scan of the lines is replaced by "some discrete list is
configured" (the browser then applies its own membership test to the full list). -/
theorem C02_debug_steps (dec : Dec) (icfg : ICfg) (reqHdrs : HdrMap) (o m : Bytes) :
    (∃ b, preflightSteps dec icfg reqHdrs o m true = .ok b) ↔
      (originCond dec icfg o && pnaCond icfg reqHdrs && methodCond icfg m &&
        (match reqHdrs Facts.headers_ACRH with
          | none => true
          | some _ => icfg.asteriskReqHdrs || !icfg.acah.isEmpty)) = true := by
  unfold preflightSteps
  rw [← origin_step_iff dec icfg HdrMap.empty o]
  cases h1 : processOriginForPreflight dec icfg HdrMap.empty o with
  | none => simp
  | some b1 =>
    simp only [Option.isSome_some, Bool.true_and]
    rw [← pna_step_iff icfg b1 reqHdrs]
    cases h2 : processACRPN icfg b1 reqHdrs with
    | none => simp
    | some b2 =>
      simp only [Option.isSome_some, Bool.true_and]
      rw [← method_step_iff icfg b2 m]
      cases h3 : processACRM icfg b2 m with
      | none => simp
      | some b3 =>
        simp only [Option.isSome_some, Bool.true_and]
        unfold processACRH
        cases reqHdrs Facts.headers_ACRH with
        | none => simp
        | some lines =>
          simp only []
          cases icfg.asteriskReqHdrs <;> cases icfg.credentialed <;> cases icfg.allowAuthorization <;>
            cases icfg.acah.isEmpty <;> simp

/-! ### End to end: the browser's verdict -/

open Browser in
/-- **C02.** For every internal configuration with the properties acceptance guarantees
(`ICfg.WF`, `ICfg.ReqHdrsSound`; see `C02_accepted`), either debug mode, and every request intent
of a Fetch-compliant browser — a serialised origin, a method token, CORS-unsafe header names that
are tokens, any credentials mode, private-network target or not — with the
Access-Control-Request-Headers list reaching the server in any tolerated shape (`Tolerated`: split
over field lines, at most one OWS byte around elements, at most 16 empty elements):

the browser's end-to-end verdict — CORS-preflight fetch when one is required, then the CORS check
on the response to the actual request, both transcribed from the Fetch standard in
`Spec/Browser.lean` and evaluated on the responses of the model of `Wrap` — equals
`Browser.permits`, the documented meaning of the configuration. -/
theorem C02 (icfg : ICfg) (hwf : icfg.WF) (hrs : icfg.ReqHdrsSound) (dbg : Bool) (i : Intent) (lines : List Bytes)
    (hO : (Lex.parse i.origin).isSome = true)
    (hM : Headers.isValid (methodN i) = true)
    (hN : ∀ n ∈ i.headerNames, Headers.isValid n = true)
    (hL : unsafeNames i ≠ [] → Tolerated (unsafeNames i) lines) :
    verdict (fun r => Serve.serve icfg dbg r HdrMap.empty) i lines = permits (Serve.modelDec icfg) icfg i := by
  have hne : i.origin ≠ Spec.star := by
    intro h
    rw [h] at hO
    revert hO
    decide
  unfold verdict
  simp only []
  rw [preflight_check icfg hwf hrs dbg i lines hO hne hM hN hL]
  have hact : corsCheck i (Serve.serve icfg dbg (actualRequest i) HdrMap.empty).hdrs =
      (originPermit (Serve.modelDec icfg) icfg i && !icfg.pnaNoCors) :=
    actual_check (Serve.modelDec icfg) icfg dbg i hne
  rw [hact]
  unfold permits needsPreflight originPermit methodPermit hdrPermit
  cases hs : safelisted (methodN i) <;> cases hu : unsafeNames i <;> cases hp : i.pna <;>
    cases icfg.tree.isEmpty <;> cases icfg.credentialed <;> cases (Serve.modelDec icfg).allowed i.origin <;>
    cases i.creds <;> cases icfg.pnaNoCors <;> cases icfg.pna <;> cases icfg.allowAnyMethod <;>
    cases icfg.allowedMethods.contains (methodN i) <;>
    simp

open Browser in
/-- **C02 for accepted configurations.** -/
theorem C02_accepted (ext : Ext) (cfg : Config) (icfg : ICfg) (acc : newInternalConfig ext cfg = .ok icfg)
    (dbg : Bool) (i : Intent) (lines : List Bytes)
    (hO : (Lex.parse i.origin).isSome = true) (hM : Headers.isValid (methodN i) = true)
    (hN : ∀ n ∈ i.headerNames, Headers.isValid n = true)
    (hL : unsafeNames i ≠ [] → Tolerated (unsafeNames i) lines) :
    verdict (fun r => Serve.serve icfg dbg r HdrMap.empty) i lines = permits (Serve.modelDec icfg) icfg i :=
  C02 icfg (accepted_wf ext cfg icfg acc) (accepted_reqHdrs ext cfg icfg acc) dbg i lines hO hM hN hL

open Browser in
/-- **C02 (debug mode and tolerated alterations are irrelevant).** The verdict is the same with
debug mode on or off, and the same for every tolerated shape of the header list as for the single
line the browser emitted. -/
theorem C02_invariance (icfg : ICfg) (hwf : icfg.WF) (hrs : icfg.ReqHdrsSound) (d1 d2 : Bool) (i : Intent)
    (lines : List Bytes)
    (hO : (Lex.parse i.origin).isSome = true) (hM : Headers.isValid (methodN i) = true)
    (hN : ∀ n ∈ i.headerNames, Headers.isValid n = true)
    (hL : unsafeNames i ≠ [] → Tolerated (unsafeNames i) lines) :
    verdict (fun r => Serve.serve icfg d1 r HdrMap.empty) i lines =
      verdict (fun r => Serve.serve icfg d2 r HdrMap.empty) i [Bytes.join Headers.comma (unsafeNames i)] := by
  rw [C02 icfg hwf hrs d1 i lines hO hM hN hL,
    C02 icfg hwf hrs d2 i _ hO hM hN (fun hne => tolerated_plain _ hne (unsafe_valid i hN))]

open Browser Spec in
/-- **C02 with the origin clause spelled out.** For an accepted configuration that does not list
`*`, and a page whose origin is a serialised origin with a domain host (`C01_browser_parse`): the
browser's verdict is success iff some listed pattern denotes the page's origin, credentials are
used only if enabled, the method and the header names are allowed, private-network access only if
enabled, and the configuration is not in no-cors-only PNA mode. -/
theorem C02_documented_origin (ext : Ext) (hext : ∀ h info, ext.ip6 h = some info → h.head? ≠ some 42)
    (cfg : Config) (icfg : ICfg) (acc : newInternalConfig ext cfg = .ok icfg)
    (hns : cfg.origins.contains Validate.star = false) (dbg : Bool) (i : Intent) (lines : List Bytes)
    (d : DocPattern) (hd1 : docScheme d.scheme = true) (hd2 : docDomain d.labels = true) (hd3 : docPortOK d.port = true)
    (hd4 : d.wildcard = false) (hd5 : d.port ≠ .any) (hio : i.origin = d.render)
    (hM : Headers.isValid (methodN i) = true) (hN : ∀ n ∈ i.headerNames, Headers.isValid n = true)
    (hL : unsafeNames i ≠ [] → Tolerated (unsafeNames i) lines) :
    verdict (fun r => Serve.serve icfg dbg r HdrMap.empty) i lines =
      ((parsedPatterns ext cfg.origins).any (fun p => Spec.denotes p d.origin)
        && (!i.creds || icfg.credentialed) && !icfg.pnaNoCors
        && (safelisted (methodN i) || icfg.allowAnyMethod || icfg.allowedMethods.contains (methodN i))
        && (unsafeNames i).all (fun n =>
              icfg.allowedReqHdrs.contains n
              || (icfg.asteriskReqHdrs && (n != Spec.authorization || icfg.credentialed || icfg.allowAuthorization)))
        && (!i.pna || icfg.pna)) := by
  have hparse := C01_browser_parse d hd1 hd2 hd3 hd4 hd5
  have hO : (Lex.parse i.origin).isSome = true := by rw [hio, hparse]; rfl
  rw [C02_accepted ext cfg icfg acc dbg i lines hO hM hN hL]
  unfold permits
  have hne : icfg.tree.isEmpty = false := by
    rw [accepted_tree_isEmpty ext cfg icfg acc, hns]
  rw [hne, hio, C01_browser ext hext cfg icfg acc hns d hd1 hd2 hd3 hd4 hd5]
  simp

/-! ### Non-vacuity -/

/-- A page on https://a.example asks for PUT with X-Foo and Authorization, with credentials. -/
def exIntent : Browser.Intent where
  origin := Spec.b "https://a.example"
  method := Spec.b "put"
  headerNames := [Spec.b "X-Foo", Spec.b "Authorization", Spec.b "x-foo"]
  creds := true
  pna := false

example : (Lex.parse exIntent.origin).isSome = true := by decide
example : Browser.methodN exIntent = Spec.b "PUT" ∧ Headers.isValid (Browser.methodN exIntent) = true := by decide
example : ∀ n ∈ exIntent.headerNames, Headers.isValid n = true := by decide
example : Browser.unsafeNames exIntent = [Spec.b "authorization", Spec.b "x-foo"] := by decide
/-- The list as an intermediary may deliver it: two field lines, padding, empty elements. -/
example : Browser.Tolerated (Browser.unsafeNames exIntent) [Spec.b "authorization ,,", Spec.b "\tx-foo"] :=
  ⟨[Spec.b "authorization", [], [], Spec.b "x-foo"], by decide, by decide, by decide⟩
/-- Three bytes of padding are not tolerated (and the scanner refuses them, C14). -/
example : ¬ Browser.Tolerated (Browser.unsafeNames exIntent) [Spec.b "authorization,  x-foo "] := by
  rintro ⟨ns, h, _⟩
  have : Spec.names (Spec.elements [Spec.b "authorization,  x-foo "]) = none := by decide
  rw [this] at h
  cases h

#print axioms C02_preflight_verdict
#print axioms C02_debug_steps
#print axioms steps_ok_iff
#print axioms C02
#print axioms C02_accepted
#print axioms C02_invariance
#print axioms C02_documented_origin


/-- **C02 (translated pipeline).** The four decision steps of the preflight pipeline — `processOriginForPreflight`,
`processACRPN`, `processACRM`, `processACRH` — are translated from /repo's middleware.go into Lean on every run
(Gen/Pipeline.lean, by harness/extract/translate.go); for every internal configuration, buffer, request headers and debug
mode each translated function returns the hand-written model's result (with the model's own origin and header-list decisions) —
and, when the step fails, the buffer exactly as it was: a failing step leaves nothing behind for debug mode to copy —,
so the theorems of this file speak about the code as it reads now.  An edit of one of these Go functions that changes its
meaning — or leaves the translated subset — breaks this obligation. -/
theorem C02_pipeline_translated (icfg : ICfg) (buf : Serve.Buf) (reqHdrs : HdrMap) (origin acrm : Bytes) (debug : Bool) :
    Gen.GoSrc.processOriginForPreflight icfg buf origin [origin] = GoRt.result buf (Serve.processOriginForPreflight (Serve.modelDec icfg) icfg buf origin) ∧
    Gen.GoSrc.processACRPN icfg buf reqHdrs = GoRt.result buf (Serve.processACRPN icfg buf reqHdrs) ∧
    Gen.GoSrc.processACRM icfg buf acrm [acrm] = GoRt.result buf (Serve.processACRM icfg buf acrm) ∧
    Gen.GoSrc.processACRH icfg buf reqHdrs debug = GoRt.result buf (Serve.processACRH (Serve.modelDec icfg) icfg buf reqHdrs debug) :=
  Translated.pipeline_eq icfg buf reqHdrs origin acrm debug

#print axioms C02_pipeline_translated


/-- **C02 (translated preflight handler).** `handleCORSPreflight` — the Vary step, the four steps in Fetch order, what is copied
from the buffer and which status is written when a step fails (both debug modes), `maps.Copy`, the max-age header and the success
status — is translated from /repo's middleware.go on every run (Gen/Pipeline.lean, calling the translated steps); for every internal
configuration, response headers already present, request headers, Origin and ACRM values and debug mode it produces the header map and
the status of the hand-written model.  It contains no call of the wrapped handler (the translator has no construct for one). -/
theorem C02_preflight_translated (icfg : ICfg) (h reqHdrs : HdrMap) (origin acrm : Bytes) (debug : Bool) :
    Gen.GoSrc.handleCORSPreflight icfg h reqHdrs origin [origin] acrm [acrm] debug =
      ((Serve.handleCORSPreflight (Serve.modelDec icfg) icfg h reqHdrs origin acrm debug).hdrs,
       (Serve.handleCORSPreflight (Serve.modelDec icfg) icfg h reqHdrs origin acrm debug).status) :=
  Translated.handleCORSPreflight_eq icfg h reqHdrs origin acrm debug

#print axioms C02_preflight_translated


/-- **C02 (translated closure).** The handler closure returned by `Wrap` — from the statement after its passthrough test on:
the dispatch on the first `Origin` value, the method and the first `Access-Control-Request-Method` value, the calls of
`handleNonCORS` / `handleCORSPreflight` / `handleCORSActual` and of the wrapped handler — is translated from /repo's middleware.go
on every run, on top of the translated handlers and steps; as a function of (configuration, debug mode, request, response headers
already present) it *is* `Serve.serve`, the function every theorem about responses in this development speaks about.  So the whole
request path of middleware.go below the snapshot under the read lock is regenerated from the source and proved equal to the model;
what stays hand-modelled there is `net/http.Header`, `maps.Copy`, `headers.First` (index level: `C17_ix_first`) and the
functions the steps call (`origins.Parse`, `Tree.Contains`, `headers.Check`, `methods.IsSafelisted`, `Set.Contains`: C17's refinements). -/
theorem C02_closure_translated (icfg : ICfg) (debug : Bool) (r : Req) (pre : HdrMap) :
    Gen.GoSrc.serveClosure icfg debug r pre = Serve.serve icfg debug r pre :=
  Translated.serveClosure_eq icfg debug r pre

#print axioms C02_closure_translated

end Cors
