import CorsVerif.Proofs.Serve
import CorsVerif.Proofs.Accepted
/-
  C02 — A Fetch-compliant browser's verdict equals what the configuration means.  (PARTIAL)

  Proved here, for every decision oracle, configuration, preflight request and pre-set headers:
    * C02_preflight_verdict: with debug off the middleware answers a preflight with the success
      status exactly when the four documented conditions hold — origin step (parses, and
      allow-all without credentials or allowed), private-network step (not asked, or enabled),
      method step (safelisted, `*`, or listed), header step (no ACRH field, `*`, or a non-empty
      discrete list that approves the lines);
    * C02_debug_steps: in debug mode the pipeline succeeds under the same origin / PNA / method
      conditions and a header condition in which the scan of the lines is replaced by "a discrete
      list is configured" (the browser then applies its own membership test to the full list);
    * steps_ok_iff: the pipeline characterisation both are built on.
  NOT proved yet: the browser side (the transcription of CORS-preflight fetch step 7 and of the
  CORS check in `Spec/Fetch`, applied to the emitted Allow-Methods / Allow-Headers values), hence
  the end-to-end statement `C02_full`.  It is covered by the `serve` suite (full strict
  comparison of responses and decisions) only.
-/
namespace Cors
open Gen Serve

/-- The four documented conditions of a preflight, debug off. -/
def originCond (dec : Dec) (icfg : ICfg) (o : Bytes) : Bool :=
  dec.parses o && ((!icfg.credentialed && icfg.tree.isEmpty) || dec.allowed o)

def pnaCond (icfg : ICfg) (reqHdrs : HdrMap) : Bool :=
  !(reqHdrs.first Facts.headers_ACRPN == some Facts.headers_ValueTrue) || icfg.pna || icfg.pnaNoCors

def methodCond (icfg : ICfg) (m : Bytes) : Bool :=
  Methods.isSafelisted m || icfg.allowAnyMethod || icfg.allowedMethods.contains m

def headerCond (dec : Dec) (icfg : ICfg) (reqHdrs : HdrMap) : Bool :=
  match reqHdrs Facts.headers_ACRH with
  | none => true
  | some lines => icfg.asteriskReqHdrs || (icfg.allowedReqHdrs.size != 0 && dec.acrhOK lines)

theorem origin_step_iff (dec : Dec) (icfg : ICfg) (b : Buf) (o : Bytes) :
    (processOriginForPreflight dec icfg b o).isSome = originCond dec icfg o := by
  unfold processOriginForPreflight originCond
  cases dec.parses o <;> cases icfg.credentialed <;> cases icfg.tree.isEmpty <;> cases dec.allowed o <;> simp

theorem pna_step_iff (icfg : ICfg) (b : Buf) (reqHdrs : HdrMap) :
    (processACRPN icfg b reqHdrs).isSome = pnaCond icfg reqHdrs := by
  unfold processACRPN pnaCond
  cases h : reqHdrs.first Facts.headers_ACRPN with
  | none => simp
  | some v =>
    simp only []
    by_cases hv : v = Facts.headers_ValueTrue
    · subst hv; cases icfg.pna <;> cases icfg.pnaNoCors <;> simp
    · have h1 : (v != Facts.headers_ValueTrue) = true := by simpa using hv
      have h2 : (some v == some Facts.headers_ValueTrue) = false := by simpa using hv
      simp [h1, h2]

theorem method_step_iff (icfg : ICfg) (b : Buf) (m : Bytes) :
    (processACRM icfg b m).isSome = methodCond icfg m := by
  unfold processACRM methodCond
  cases Methods.isSafelisted m <;> cases icfg.allowAnyMethod <;> cases icfg.credentialed <;>
    cases icfg.allowedMethods.contains m <;> simp

theorem header_step_iff (dec : Dec) (icfg : ICfg) (b : Buf) (reqHdrs : HdrMap) :
    (processACRH dec icfg b reqHdrs false).isSome = headerCond dec icfg reqHdrs := by
  unfold processACRH headerCond
  cases reqHdrs Facts.headers_ACRH with
  | none => rfl
  | some lines =>
    simp only []
    cases icfg.asteriskReqHdrs <;> cases icfg.credentialed <;> cases icfg.allowAuthorization <;>
      cases h1 : (icfg.allowedReqHdrs.size == 0) <;> cases dec.acrhOK lines <;> simp_all

/-- The pipeline succeeds (debug off) exactly under the four conditions. -/
theorem steps_ok_iff (dec : Dec) (icfg : ICfg) (reqHdrs : HdrMap) (o m : Bytes) :
    (∃ b, preflightSteps dec icfg reqHdrs o m false = .ok b) ↔
      (originCond dec icfg o && pnaCond icfg reqHdrs && methodCond icfg m && headerCond dec icfg reqHdrs) = true := by
  unfold preflightSteps
  rw [← origin_step_iff dec icfg HdrMap.empty o]
  cases h1 : processOriginForPreflight dec icfg HdrMap.empty o with
  | none => simp
  | some b1 =>
    simp only [Option.isSome_some, Bool.true_and]
    rw [← pna_step_iff icfg b1 reqHdrs]
    cases h2 : processACRPN icfg b1 reqHdrs with
    | none => simp
    | some b2 =>
      simp only [Option.isSome_some, Bool.true_and]
      rw [← method_step_iff icfg b2 m]
      cases h3 : processACRM icfg b2 m with
      | none => simp
      | some b3 =>
        simp only [Option.isSome_some, Bool.true_and]
        rw [← header_step_iff dec icfg b3 reqHdrs]
        cases h4 : processACRH dec icfg b3 reqHdrs false with
        | none => simp
        | some b4 => simp

/-- **C02 (server-side verdict, debug off).** -/
theorem C02_preflight_verdict (dec : Dec) (icfg : ICfg) (hwf : icfg.WF) (r : Req) (pre : HdrMap) (o m : Bytes)
    (ho : r.hdrs.first Facts.headers_Origin = some o) (hm : r.hdrs.first Facts.headers_ACRM = some m)
    (hopt : r.method = OPTIONS) :
    (serveDec dec icfg false r pre).status = some (okStatus icfg) ↔
      (originCond dec icfg o && pnaCond icfg r.hdrs && methodCond icfg m && headerCond dec icfg r.hdrs) = true := by
  rw [← steps_ok_iff]
  have hd : okStatus icfg ≠ forbidden := by
    have := hwf.status_lt
    unfold okStatus forbidden
    simp only [Facts.cors_preflightFailStatuses]
    omega
  simp only [serveDec, ho, hm, hopt, beq_self_eq_true, if_true, handleCORSPreflight]
  cases hs : preflightSteps dec icfg r.hdrs o m false with
  | originFail b =>
    simp only [Bool.false_eq_true, if_false]
    constructor
    · intro h; exact absurd (Option.some.inj h).symm hd
    · rintro ⟨b', hb'⟩; cases hb'
  | laterFail b =>
    simp only [Bool.false_eq_true, if_false]
    constructor
    · intro h; exact absurd (Option.some.inj h).symm hd
    · rintro ⟨b', hb'⟩; cases hb'
  | ok b =>
    simp only []
    constructor
    · intro _; exact ⟨b, rfl⟩
    · intro _; trivial

/-- **C02 (debug cannot rescue a failing step).** The first three conditions do not mention the
debug flag; in debug mode the pipeline succeeds under the same origin / PNA / method conditions
and a header condition in which the scan of the lines is replaced by "some discrete list is
configured" (the browser then applies its own membership test to the full list). -/
theorem C02_debug_steps (dec : Dec) (icfg : ICfg) (reqHdrs : HdrMap) (o m : Bytes) :
    (∃ b, preflightSteps dec icfg reqHdrs o m true = .ok b) ↔
      (originCond dec icfg o && pnaCond icfg reqHdrs && methodCond icfg m &&
        (match reqHdrs Facts.headers_ACRH with
          | none => true
          | some _ => icfg.asteriskReqHdrs || !icfg.acah.isEmpty)) = true := by
  unfold preflightSteps
  rw [← origin_step_iff dec icfg HdrMap.empty o]
  cases h1 : processOriginForPreflight dec icfg HdrMap.empty o with
  | none => simp
  | some b1 =>
    simp only [Option.isSome_some, Bool.true_and]
    rw [← pna_step_iff icfg b1 reqHdrs]
    cases h2 : processACRPN icfg b1 reqHdrs with
    | none => simp
    | some b2 =>
      simp only [Option.isSome_some, Bool.true_and]
      rw [← method_step_iff icfg b2 m]
      cases h3 : processACRM icfg b2 m with
      | none => simp
      | some b3 =>
        simp only [Option.isSome_some, Bool.true_and]
        unfold processACRH
        cases reqHdrs Facts.headers_ACRH with
        | none => simp
        | some lines =>
          simp only []
          cases icfg.asteriskReqHdrs <;> cases icfg.credentialed <;> cases icfg.allowAuthorization <;>
            cases icfg.acah.isEmpty <;> simp

#print axioms C02_preflight_verdict
#print axioms C02_debug_steps
#print axioms steps_ok_iff

end Cors
