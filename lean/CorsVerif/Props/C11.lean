import CorsVerif.Proofs.Serve
import CorsVerif.Proofs.Translated
/-
  C11 — Preflights are answered by the middleware alone; everything else passes intact.

  Stated for every decision oracle `dec` (hence in particular for the model's own tree and
  scanner), every internal configuration (accepted or not), both debug modes, every request and
  every set of response headers already present.
-/
namespace Cors
open Gen Serve

/-- The preflight handler always writes a status and never calls the wrapped handler. -/
theorem handleCORSPreflight_status (dec : Dec) (icfg : ICfg) (h reqHdrs : HdrMap) (origin acrm : Bytes) (dbg : Bool) :
    (handleCORSPreflight dec icfg h reqHdrs origin acrm dbg).next = false ∧
    (handleCORSPreflight dec icfg h reqHdrs origin acrm dbg).status.isSome = true := by
  unfold handleCORSPreflight
  simp only []
  repeat' split
  all_goals simp

/-- **C11 (dispatch).** The wrapped handler is invoked exactly when the request is not a preflight
(the model invokes it at most once by construction: `next : Bool`). -/
theorem C11_dispatch (dec : Dec) (icfg : ICfg) (dbg : Bool) (r : Req) (pre : HdrMap) :
    (serveDec dec icfg dbg r pre).next = !r.isPreflight := by
  unfold serveDec Req.isPreflight
  cases ho : r.hdrs.first Facts.headers_Origin with
  | none => simp
  | some origin =>
    cases ha : r.hdrs.first Facts.headers_ACRM with
    | none => simp
    | some acrm =>
      by_cases hm : r.method = OPTIONS
      · simp [hm, (handleCORSPreflight_status dec icfg pre r.hdrs origin acrm dbg).1]
      · simp [hm]

/-- **C11 (preflight).** A preflight gets a status from the middleware itself. (The model of the
middleware never writes a body: `Resp` has no body field and the harness checks that none is written.) -/
theorem C11_preflight (dec : Dec) (icfg : ICfg) (dbg : Bool) (r : Req) (pre : HdrMap) (h : r.isPreflight = true) :
    (serveDec dec icfg dbg r pre).status.isSome = true ∧ (serveDec dec icfg dbg r pre).next = false := by
  refine ⟨?_, by rw [C11_dispatch, h]; rfl⟩
  unfold Req.isPreflight at h
  simp only [Bool.and_eq_true, beq_iff_eq, Option.isSome_iff_exists] at h
  obtain ⟨⟨hm, ⟨o, ho⟩⟩, ⟨a, ha⟩⟩ := h
  unfold serveDec
  simp only [ho, ha, hm, beq_self_eq_true, if_true]
  exact (handleCORSPreflight_status dec icfg pre r.hdrs o a dbg).2

/-- The names the middleware may touch on a non-preflight response. -/
def touchable : List Bytes := [Facts.headers_Vary, Facts.headers_ACAO, Facts.headers_ACAC, Facts.headers_ACEH]

/-- Frame property of `handleNonCORS`. -/
theorem handleNonCORS_frame (icfg : ICfg) (pre : HdrMap) (isOpt : Bool) :
    (∀ n, n ∉ touchable → handleNonCORS icfg pre isOpt n = pre n) ∧
    keptAsPrefix (pre Facts.headers_Vary) (handleNonCORS icfg pre isOpt Facts.headers_Vary) := by
  constructor
  · intro n hn
    simp only [touchable, List.mem_cons, List.not_mem_nil, or_false, not_or] at hn
    obtain ⟨h1, h2, h3, h4⟩ := hn
    unfold handleNonCORS
    repeat' split
    all_goals simp [set_other, add_other, h1, h2, h3, h4]
  · unfold handleNonCORS
    repeat' split
    all_goals
      try simp only [set_other _ _ _ _ vary_ne_acao, set_other _ _ _ _ vary_ne_aceh]
      first
        | exact keptAsPrefix_add _ _ _
        | exact keptAsPrefix_refl _
        | exact keptAsPrefix_trans (keptAsPrefix_add _ _ _) (keptAsPrefix_add _ _ _)

/-- Frame property of `handleCORSActual`. -/
theorem handleCORSActual_frame (dec : Dec) (icfg : ICfg) (pre : HdrMap) (origin : Bytes) (isOpt : Bool) :
    (∀ n, n ∉ touchable → handleCORSActual dec icfg pre origin isOpt n = pre n) ∧
    keptAsPrefix (pre Facts.headers_Vary) (handleCORSActual dec icfg pre origin isOpt Facts.headers_Vary) := by
  constructor
  · intro n hn
    simp only [touchable, List.mem_cons, List.not_mem_nil, or_false, not_or] at hn
    obtain ⟨h1, h2, h3, h4⟩ := hn
    unfold handleCORSActual
    repeat' split
    all_goals simp [set_other, add_other, assign_other, h1, h2, h3, h4]
  · unfold handleCORSActual
    repeat' split
    all_goals
      try simp only [set_other _ _ _ _ vary_ne_acao, set_other _ _ _ _ vary_ne_aceh, set_other _ _ _ _ vary_ne_acac,
        assign_other _ _ _ _ vary_ne_acao]
      first
        | exact keptAsPrefix_add _ _ _
        | exact keptAsPrefix_refl _
        | exact keptAsPrefix_trans (keptAsPrefix_add _ _ _) (keptAsPrefix_add _ _ _)

/-- **C11 (frame).** On a request that is not a preflight the middleware writes no status, leaves
every response header other than Vary / Access-Control-Allow-Origin / -Allow-Credentials /
-Expose-Headers exactly as it found it, and only appends to Vary. -/
theorem C11_frame (dec : Dec) (icfg : ICfg) (dbg : Bool) (r : Req) (pre : HdrMap) (h : r.isPreflight = false) :
    (serveDec dec icfg dbg r pre).status = none ∧
    (∀ n, n ∉ touchable → (serveDec dec icfg dbg r pre).hdrs n = pre n) ∧
    keptAsPrefix (pre Facts.headers_Vary) ((serveDec dec icfg dbg r pre).hdrs Facts.headers_Vary) := by
  unfold Req.isPreflight at h
  unfold serveDec
  cases ho : r.hdrs.first Facts.headers_Origin with
  | none =>
    exact ⟨rfl, (handleNonCORS_frame icfg pre _).1, (handleNonCORS_frame icfg pre _).2⟩
  | some origin =>
    cases ha : r.hdrs.first Facts.headers_ACRM with
    | none =>
      exact ⟨rfl, (handleCORSActual_frame dec icfg pre origin _).1, (handleCORSActual_frame dec icfg pre origin _).2⟩
    | some acrm =>
      have hm : (r.method == OPTIONS) = false := by simpa [ho, ha] using h
      simp only [hm]
      exact ⟨rfl, (handleCORSActual_frame dec icfg pre origin _).1, (handleCORSActual_frame dec icfg pre origin _).2⟩

/-- **C11 (passthrough).** A passthrough middleware (zero value, or after `Reconfigure(nil)`) is the
identity on all requests. -/
theorem C11_passthrough (dbg : Bool) (r : Req) (pre : HdrMap) :
    Mw.serve { icfg := none, debug := dbg } r pre = { hdrs := pre, status := none, next := true } := rfl

theorem C11_passthrough_reconfigure_nil (ext : Ext) (m : Mw) (r : Req) (pre : HdrMap) :
    (m.reconfigure ext none).2.serve r pre = { hdrs := pre, status := none, next := true } := rfl

/-- The full statement for the model's own decisions. -/
theorem C11 (icfg : ICfg) (dbg : Bool) (r : Req) (pre : HdrMap) :
    (serve icfg dbg r pre).next = !r.isPreflight ∧
    (r.isPreflight = true → (serve icfg dbg r pre).status.isSome = true) ∧
    (r.isPreflight = false → (serve icfg dbg r pre).status = none ∧
      (∀ n, n ∉ touchable → (serve icfg dbg r pre).hdrs n = pre n) ∧
      keptAsPrefix (pre Facts.headers_Vary) ((serve icfg dbg r pre).hdrs Facts.headers_Vary)) :=
  ⟨C11_dispatch _ icfg dbg r pre, fun h => (C11_preflight _ icfg dbg r pre h).1, C11_frame _ icfg dbg r pre⟩

/-- Non-vacuity: a concrete preflight and a concrete non-preflight request. -/
example : (Req.isPreflight { method := OPTIONS, hdrs := fun k =>
    if k == Facts.headers_Origin then some [[1]] else if k == Facts.headers_ACRM then some [[2]] else none }) = true := by decide
example : (Req.isPreflight { method := OPTIONS, hdrs := fun k =>
    if k == Facts.headers_Origin then some [] else if k == Facts.headers_ACRM then some [[2]] else none }) = false := by decide

#print axioms C11_dispatch
#print axioms C11_preflight
#print axioms C11_frame
#print axioms C11_passthrough
#print axioms C11_passthrough_reconfigure_nil
#print axioms C11


/-- **C11 (translated handlers).** `handleNonCORS` and `handleCORSActual` — everything the middleware does to a request
that is not a preflight — are translated from /repo's middleware.go into Lean on every run (Gen/Pipeline.lean); for every
internal configuration, response headers already present, Origin value and method kind each translated function equals
the hand-written model's (and `handleCORSActual` writes no status).  An edit of one of these Go functions that changes its meaning, or leaves the translated
subset of Go, breaks this obligation. -/
theorem C11_handlers_translated (icfg : ICfg) (h : HdrMap) (origin : Bytes) (isOPTIONS : Bool) :
    Gen.GoSrc.handleNonCORS icfg h isOPTIONS = Serve.handleNonCORS icfg h isOPTIONS ∧
    Gen.GoSrc.handleCORSActual icfg h origin [origin] isOPTIONS =
      (Serve.handleCORSActual (Serve.modelDec icfg) icfg h origin isOPTIONS, none) :=
  Translated.handlers_eq icfg h origin isOPTIONS

#print axioms C11_handlers_translated


/-- **C11 (translated preflight handler).** `handleCORSPreflight` — the Vary step, the four steps in Fetch order, what is copied
from the buffer and which status is written when a step fails (both debug modes), `maps.Copy`, the max-age header and the success
status — is translated from /repo's middleware.go on every run (Gen/Pipeline.lean, calling the translated steps); for every internal
configuration, response headers already present, request headers, Origin and ACRM values and debug mode it produces the header map and
the status of the hand-written model.  It contains no call of the wrapped handler (the translator has no construct for one). -/
theorem C11_preflight_translated (icfg : ICfg) (h reqHdrs : HdrMap) (origin acrm : Bytes) (debug : Bool) :
    Gen.GoSrc.handleCORSPreflight icfg h reqHdrs origin [origin] acrm [acrm] debug =
      ((Serve.handleCORSPreflight (Serve.modelDec icfg) icfg h reqHdrs origin acrm debug).hdrs,
       (Serve.handleCORSPreflight (Serve.modelDec icfg) icfg h reqHdrs origin acrm debug).status) :=
  Translated.handleCORSPreflight_eq icfg h reqHdrs origin acrm debug

#print axioms C11_preflight_translated


/-- **C11 (translated closure).** The handler closure returned by `Wrap` — from the statement after its passthrough test on:
the dispatch on the first `Origin` value, the method and the first `Access-Control-Request-Method` value, the calls of
`handleNonCORS` / `handleCORSPreflight` / `handleCORSActual` and of the wrapped handler — is translated from /repo's middleware.go
on every run, on top of the translated handlers and steps; as a function of (configuration, debug mode, request, response headers
already present) it *is* `Serve.serve`, the function every theorem about responses in this development speaks about.  So the whole
request path of middleware.go below the snapshot under the read lock is regenerated from the source and proved equal to the model;
what stays hand-modelled there is `net/http.Header`, `maps.Copy`, `headers.First` (index level: `C17_ix_first`) and the
functions the steps call (`origins.Parse`, `Tree.Contains`, `headers.Check`, `methods.IsSafelisted`, `Set.Contains`: C17's refinements). -/
theorem C11_closure_translated (icfg : ICfg) (debug : Bool) (r : Req) (pre : HdrMap) :
    Gen.GoSrc.serveClosure icfg debug r pre = Serve.serve icfg debug r pre :=
  Translated.serveClosure_eq icfg debug r pre

#print axioms C11_closure_translated


/-- **C11 (translated handler, whole).** The whole closure returned by `Wrap`, read on the model's state — the snapshot of
(configuration pointer, debug flag) under the read lock, the passthrough branch (`h.ServeHTTP(w, r); return`), then the
dispatch — translated from /repo's middleware.go on every run, is `Mw.serve`: a passthrough middleware is the identity that
calls the wrapped handler, a configured one answers with `Serve.serve icfg debug`.  (That the two fields are read in one
critical section is `C07_wrap_snapshot`; the translator checks that the prologue consists of exactly those statements.) -/
theorem C11_handler_translated (m : Mw) (r : Req) (pre : HdrMap) : Gen.GoSrc.serveMw m r pre = Mw.serve m r pre :=
  Translated.serveMw_eq m r pre

#print axioms C11_handler_translated

end Cors
