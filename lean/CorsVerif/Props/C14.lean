import CorsVerif.Proofs.ACRH
import CorsVerif.Proofs.BinarySearch
import CorsVerif.Proofs.BrowserLists
/-
  C14 — Requested-header lists: sound for any bytes, complete for browsers.

  `Headers.check` (the model of `headers.Check`: windowed comma cut, bounded OWS trimming,
  empty-element budget, strictly increasing positions in the sorted set) is proved equal to the
  specification `Spec.approved`, for every well-formed sorted set and every sequence of field
  lines over arbitrary bytes.
-/
namespace Cors
open Gen Headers ACRH

/-- **C14.** For every set maintained by `SortedSet.Add` and all field lines (any bytes, any
length): approved iff every element has at most one OWS byte per side, at most 16 elements are
empty, and the non-empty elements are allowed names in strictly increasing order. -/
theorem C14 (set : SortedSet) (hwf : set.WF) (lines : List Bytes) :
    Headers.check set lines = Spec.approved Facts.headers_MaxEmptyElements set.elems lines := by
  rw [check_eq_fold, foldElems_iff set hwf _ _ (Nat.zero_le _)]
  unfold Spec.approved
  cases Spec.names (Spec.elements lines) with
  | none => rfl
  | some ns =>
    simp only [Nat.zero_add, List.drop_zero]
    rw [chain_iff set.elems hwf.sorted, Bool.and_assoc]

/-- The number the property text fixes: at most 16 empty elements. -/
theorem C14_maxEmpty : Facts.headers_MaxEmptyElements = 16 := rfl

/-- Every set the configuration code can build (by successive `Add`) is well-formed. -/
theorem C14_wf (names : List Bytes) : (names.foldl SortedSet.add {}).WF :=
  SortedSet.ofList_wf names

/-- **C14 (soundness).** Whatever the bytes: if the lines are approved, every non-empty name they
contain is an allowed name. -/
theorem C14_sound (set : SortedSet) (hwf : set.WF) (lines : List Bytes) (h : Headers.check set lines = true) :
    ∃ ns, Spec.names (Spec.elements lines) = some ns ∧ ∀ n ∈ ns, n ≠ [] → n ∈ set.elems := by
  rw [C14 set hwf] at h
  unfold Spec.approved at h
  cases hn : Spec.names (Spec.elements lines) with
  | none => simp [hn] at h
  | some ns =>
    refine ⟨ns, rfl, ?_⟩
    simp only [hn, Bool.and_eq_true, List.all_eq_true, List.mem_filter, and_imp] at h
    intro n hmem hne
    have := h.1.2 n hmem (by cases n <;> simp_all)
    simpa using this

/-- **C14 (completeness for browsers).** The list a Fetch-compliant browser emits for allowed
headers — non-empty names without commas or whitespace, sorted, unique, all allowed, joined by
commas on one line — is approved. -/
theorem C14_browser (set : SortedSet) (hwf : set.WF) (names : List Bytes)
    (hne : ∀ n ∈ names, n ≠ [] ∧ comma ∉ n ∧ ∀ b ∈ n, isOWS b = false)
    (hmem : ∀ n ∈ names, n ∈ set.elems) (hsorted : Spec.strictlyIncreasing names = true) (hnn : names ≠ []) :
    Headers.check set [Bytes.join comma names] = true := by
  rw [C14 set hwf]
  have hsplit : ∀ ns : List Bytes, ns ≠ [] → (∀ n ∈ ns, comma ∉ n) → Bytes.splitOn comma (Bytes.join comma ns) = ns := by
    intro ns
    induction ns with
    | nil => intro h; exact absurd rfl h
    | cons n rest ih =>
      intro _ hc
      cases rest with
      | nil => simp [Bytes.join, splitOn_no_comma (hc n List.mem_cons_self)]
      | cons r rs =>
        simp only [Bytes.join]
        rw [splitOn_append (hc n List.mem_cons_self)]
        rw [ih (by simp) (fun x hx => hc x (List.mem_cons_of_mem _ hx))]
  unfold Spec.approved Spec.elements
  simp only [List.flatMap_cons, List.flatMap_nil, List.append_nil]
  rw [hsplit names hnn (fun n hn => (hne n hn).2.1), names_plain names (fun n hn => (hne n hn).2.2)]
  have hfe : names.filter (fun n => n.isEmpty) = [] := by
    rw [List.filter_eq_nil_iff]
    intro n hn
    have := (hne n hn).1
    cases n <;> simp_all
  have hfn : names.filter (fun n => !n.isEmpty) = names := by
    rw [List.filter_eq_self]
    intro n hn
    have := (hne n hn).1
    cases n <;> simp_all
  simp only [hfe, hfn, List.length_nil, Nat.zero_le, decide_true, Bool.true_and, hsorted, Bool.and_true, List.all_eq_true]
  intro n hn
  simpa using hmem n hn

/-- **C14 (completeness for browsers, any tolerated shape).** A browser's list (sorted, unique),
re-shaped by an intermediary in any tolerated way — split across field lines, at most one OWS byte
around each element, at most 16 empty elements (`Browser.Tolerated`) — is approved exactly when
every name is allowed. -/
theorem C14_browser_tolerated (set : SortedSet) (hwf : set.WF) (names lines : List Bytes)
    (hsorted : StrictSorted names) (ht : Browser.Tolerated names lines) :
    Headers.check set lines = names.all (fun n => set.elems.contains n) :=
  Browser.check_tolerated set hwf names lines hsorted ht

/-- Non-vacuity and the documented boundary cases, on a concrete set {"a", "bc"}:
two-byte whitespace-only elements are empty elements, three bytes are refused;
16 empty elements pass, 17 fail; order matters. -/
example : (SortedSet.ofList [[98, 99], [97]]).elems = [[97], [98, 99]] := by decide
example : Headers.check (SortedSet.ofList [[98, 99], [97]]) [[97, 44, 32, 98, 99, 9], [32, 32]] = true := by decide
example : Headers.check (SortedSet.ofList [[98, 99], [97]]) [[97, 44, 32, 32, 32]] = false := by decide
example : Headers.check (SortedSet.ofList [[98, 99], [97]]) [[98, 99, 44, 97]] = false := by decide
example : Headers.check (SortedSet.ofList [[97]]) [List.replicate 15 44] = true := by decide
example : Headers.check (SortedSet.ofList [[97]]) [List.replicate 16 44] = false := by decide


/-! ### `slices.BinarySearch` in `SortedSet.IndexAfter` -/

theorem findIdx_eq_findPos (e : Bytes) (l : List Bytes) : SortedSet.findIdx e l = Ix.findPos e l := by
  induction l with
  | nil => rfl
  | cons x xs ih => simp only [SortedSet.findIdx, Ix.findPos, ih]

/-- **C14 (binary search).** `IndexAfter` searches `set.elems[start:]` with `slices.BinarySearch`; the model scans for the
first occurrence.  For every well-formed set (strictly sorted: what `SortedSet.Add` maintains, `SortedSet.ofList_wf`) and
every `start`, the library's halving loop returns the lower bound with the found flag the scan computes, and the
model's `findIdx` is that position when found. -/
theorem C14_binarySearch (set : SortedSet) (h : set.WF) (start : Nat) (e : Bytes) :
    Ix.binarySearch Bytes.lt e (set.elems.drop start) = Ix.bsearch Bytes.lt e (set.elems.drop start) ∧
    SortedSet.findIdx e (set.elems.drop start) =
      cond (Ix.bsearch Bytes.lt e (set.elems.drop start)).2 (some (Ix.bsearch Bytes.lt e (set.elems.drop start)).1) none := by
  have hs : (set.elems.drop start).Pairwise (fun a b => Bytes.lt a b = true) :=
    List.Pairwise.sublist (List.drop_sublist start set.elems) h.sorted
  refine ⟨Ix.binarySearch_sorted Bytes.lt e _ (fun a b c h1 h2 => Bytes.lt_trans h1 h2) hs, ?_⟩
  rw [findIdx_eq_findPos]
  exact Ix.findPos_sorted Bytes.lt e _ Bytes.lt_irrefl hs


/-- **C14 (Check as the code runs it).** `Ix.checkBS` is `headers.Check` with every index and slice expression checked
(`cutAtComma`, `TrimOWS`, `set.elems[start:]`) *and* every `slices.BinarySearch` run as the library's halving loop.  For every
well-formed set of allowed names and every sequence of field lines — any bytes — it returns `.ok` of the list-level model's
verdict, which `C14` identifies with the documented approval condition. -/
theorem C14_check_binarySearch (set : SortedSet) (h : set.WF) (acrhs : List Bytes) :
    Ix.checkBS set acrhs = .ok (Headers.check set acrhs) := Ix.checkBS_refines set h acrhs

#print axioms C14
#print axioms C14_sound
#print axioms C14_browser
#print axioms C14_browser_tolerated
#print axioms C14_wf

#print axioms C14_binarySearch
#print axioms C14_check_binarySearch

end Cors
