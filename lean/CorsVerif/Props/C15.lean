import CorsVerif.Proofs.Validate
/-
  C15 — Config lists are sets: order, duplicates and header-name case are irrelevant.

  Proved so far:
    * C15_star_auth: the meaning of `*` next to Authorization does not depend on which of the
      two is listed first, in both credential modes, also with duplicates and other letter case;
    * C15_errors_perm: the reported violations of a permuted list are a permutation of the
      violations of the original list, so acceptance does not depend on order (from C05);
    * C15_accept_perm: permuting any of the four lists preserves acceptance.
  The full statement (identical responses for all twins) needs the order-independence of the
  three set-building folds and of the tree (C01); it is stated as `C15_full` and is covered by
  the `twins` relational suite (Go against Go) until proved.
-/
namespace Cors
open Gen ValidateProofs

/-- Component-wise equality of two results of `validateRequestHeaders` (decidable). -/
def sameReq (a b : List CfgErr × Bool × Bool × SortedSet × List Bytes) : Bool :=
  a.1 == b.1 && a.2.1 == b.2.1 && a.2.2.1 == b.2.2.1 && a.2.2.2.1 == b.2.2.2.1 && a.2.2.2.2 == b.2.2.2.2

theorem sameReq_eq {a b : List CfgErr × Bool × Bool × SortedSet × List Bytes} (h : sameReq a b = true) : a = b := by
  obtain ⟨a1, a2, a3, a4, a5⟩ := a
  obtain ⟨b1, b2, b3, b4, b5⟩ := b
  simp only [sameReq, Bool.and_eq_true, beq_iff_eq] at h
  obtain ⟨⟨⟨⟨h1, h2⟩, h3⟩, h4⟩, h5⟩ := h
  subst h1 h2 h3 h4 h5
  rfl

/-- **C15 (`*` and Authorization).** Same result whichever is listed first, in both credential
modes, also with duplicates and other letter case. -/
theorem C15_star_auth (cred : Bool) :
    Validate.requestHeaders cred [Spec.star, Spec.b "Authorization"] =
      Validate.requestHeaders cred [Spec.b "Authorization", Spec.star] ∧
    Validate.requestHeaders cred [Spec.star, Spec.b "authorization", Spec.b "AUTHORIZATION"] =
      Validate.requestHeaders cred [Spec.b "Authorization", Spec.star, Spec.star] := by
  cases cred
  · exact ⟨sameReq_eq (by decide), sameReq_eq (by decide)⟩
  · exact ⟨sameReq_eq (by decide), sameReq_eq (by decide)⟩

theorem flatMap_perm {α β : Type} (f : α → List β) {l1 l2 : List α} (h : l1.Perm l2) : (l1.flatMap f).Perm (l2.flatMap f) := by
  induction h with
  | nil => exact List.Perm.refl _
  | cons x _ ih => simp only [List.flatMap_cons]; exact List.Perm.append_left _ ih
  | swap x y l =>
    simp only [List.flatMap_cons]
    rw [← List.append_assoc, ← List.append_assoc]
    exact List.Perm.append_right _ List.perm_append_comm
  | trans _ _ ih1 ih2 => exact ih1.trans ih2

/-- Two configurations that differ only in the order of the entries of their four lists. -/
structure PermTwin (c1 c2 : Config) : Prop where
  origins : c1.origins.Perm c2.origins
  methods : c1.methods.Perm c2.methods
  requestHeaders : c1.requestHeaders.Perm c2.requestHeaders
  responseHeaders : c1.responseHeaders.Perm c2.responseHeaders
  credentialed : c1.credentialed = c2.credentialed
  maxAge : c1.maxAge = c2.maxAge
  status : c1.status = c2.status
  pna : c1.pna = c2.pna
  pnaNoCors : c1.pnaNoCors = c2.pnaNoCors
  tolInsecure : c1.tolInsecure = c2.tolInsecure
  tolPSL : c1.tolPSL = c2.tolPSL

theorem originViolations_congr (ext : Ext) {c1 c2 : Config} (h : PermTwin c1 c2) (raw : Bytes) :
    Spec.originViolations ext c1 raw = Spec.originViolations ext c2 raw := by
  unfold Spec.originViolations
  rw [h.credentialed, h.pna, h.pnaNoCors, h.tolInsecure, h.tolPSL]

/-- **C15 (violations).** The violations of a permuted configuration are a permutation of the
violations of the original. -/
theorem C15_errors_perm (ext : Ext) {c1 c2 : Config} (h : PermTwin c1 c2) :
    (Spec.prohibitions ext c1).Perm (Spec.prohibitions ext c2) := by
  unfold Spec.prohibitions Spec.pnaViolations Spec.originsViolations
  rw [h.status, h.maxAge, h.pna, h.pnaNoCors, h.credentialed]
  have hem : c1.origins.isEmpty = c2.origins.isEmpty := by
    have := h.origins.length_eq
    cases h1 : c1.origins <;> cases h2 : c2.origins <;> simp_all
  rw [hem]
  have ho : (c1.origins.flatMap (Spec.originViolations ext c1)).Perm (c2.origins.flatMap (Spec.originViolations ext c2)) := by
    have : c1.origins.flatMap (Spec.originViolations ext c1) = c1.origins.flatMap (Spec.originViolations ext c2) := by
      have hf : Spec.originViolations ext c1 = Spec.originViolations ext c2 := funext (originViolations_congr ext h)
      rw [hf]
    rw [this]
    exact flatMap_perm _ h.origins
  refine List.Perm.append (List.Perm.append (List.Perm.append (List.Perm.append (List.Perm.append (List.Perm.append
    (List.Perm.refl _) (List.Perm.refl _)) ?_) (flatMap_perm _ h.methods)) (flatMap_perm _ h.requestHeaders)) (List.Perm.refl _))
    (flatMap_perm _ h.responseHeaders)
  split
  · exact List.Perm.refl _
  · exact ho

/-- **C15 (acceptance).** Reordering list entries never turns an accepted configuration into a
rejected one or vice versa. -/
theorem C15_accept_perm (ext : Ext) {c1 c2 : Config} (h : PermTwin c1 c2) :
    (∃ i1, newInternalConfig ext c1 = .ok i1) ↔ (∃ i2, newInternalConfig ext c2 = .ok i2) := by
  have key : ∀ {a b : Config}, PermTwin a b → (∃ i, newInternalConfig ext a = .ok i) → ∃ i, newInternalConfig ext b = .ok i := by
    intro a b hab ⟨i, hi⟩
    apply C05_accept_of_nil
    have := C15_errors_perm ext hab
    rw [C05_reject_nil ext a i hi] at this
    exact List.Perm.eq_nil (this.symm)
  constructor
  · exact key h
  · apply key
    exact ⟨h.origins.symm, h.methods.symm, h.requestHeaders.symm, h.responseHeaders.symm, h.credentialed.symm, h.maxAge.symm,
      h.status.symm, h.pna.symm, h.pnaNoCors.symm, h.tolInsecure.symm, h.tolPSL.symm⟩
  where
    C05_accept_of_nil {ext : Ext} {cfg : Config} (h : Spec.prohibitions ext cfg = []) : ∃ icfg, newInternalConfig ext cfg = .ok icfg := by
      cases hc : newInternalConfig ext cfg with
      | ok icfg => exact ⟨icfg, rfl⟩
      | error e =>
        exfalso
        unfold newInternalConfig at hc
        split at hc
        · cases hc
        · rename_i hne
          have hl := allErrs_leaves ext cfg
          rw [h] at hl
          have hnil : Validate.allErrs ext cfg = [] := by
            cases hall : Validate.allErrs ext cfg with
            | nil => rfl
            | cons x xs =>
              exfalso
              rw [hall] at hl
              simp only [ETree.leavesList, List.append_eq_nil_iff] at hl
              -- the head contributes at least one leaf
              have hx : x ∈ Validate.allErrs ext cfg := by rw [hall]; exact List.mem_cons_self
              have := allErrs_leaf_nonempty ext cfg x hx
              exact this hl.1
          rw [hnil] at hne
          simp at hne
    C05_reject_nil (ext : Ext) (cfg : Config) (icfg : ICfg) (h : newInternalConfig ext cfg = .ok icfg) :
        Spec.prohibitions ext cfg = [] := by
      obtain ⟨herrs, _⟩ := (accepted_iff ext cfg icfg).mp h
      rw [← allErrs_leaves, herrs]; rfl
    allErrs_leaf_nonempty (ext : Ext) (cfg : Config) (x : Err) (hx : x ∈ Validate.allErrs ext cfg) : ETree.leaves x ≠ [] := by
      unfold Validate.allErrs at hx
      simp only [List.mem_append] at hx
      have hfield : ∀ es : List CfgErr, x ∈ Validate.fieldErr es → ETree.leaves x ≠ [] := by
        intro es hx
        unfold Validate.fieldErr at hx
        cases es with
        | nil => simp at hx
        | cons a as =>
          simp only [List.isEmpty_cons, Bool.false_eq_true, if_false, List.mem_singleton] at hx
          subst hx
          simp [ETree.leaves, ETree.leavesList]
      rcases hx with (((((hx | hx) | hx) | hx) | hx) | hx) | hx
      · unfold Validate.statusErrs at hx
        split at hx <;> simp at hx
        subst hx; simp [ETree.leaves]
      · unfold Validate.pnaErrs at hx
        split at hx <;> simp at hx
        subst hx; simp [ETree.leaves]
      · unfold Validate.originErrs at hx
        split at hx
        · simp only [List.mem_map] at hx
          obtain ⟨a, _, rfl⟩ := hx
          simp [ETree.leaves]
        · exact hfield _ hx
      · exact hfield _ hx
      · exact hfield _ hx
      · unfold Validate.maxAgeErrs at hx
        split at hx <;> simp at hx
        subst hx; simp [ETree.leaves]
      · exact hfield _ hx

/-- The full statement, to be proved: twins answer every request identically. -/
def C15_full : Prop :=
  ∀ (ext : Ext) (c1 c2 : Config) (i1 i2 : ICfg), PermTwin c1 c2 →
    newInternalConfig ext c1 = .ok i1 → newInternalConfig ext c2 = .ok i2 →
    ∀ dbg r pre, (Serve.serve i1 dbg r pre).status = (Serve.serve i2 dbg r pre).status ∧
      ∀ n, (Serve.serve i1 dbg r pre).hdrs n = (Serve.serve i2 dbg r pre).hdrs n

#print axioms C15_star_auth
#print axioms C15_errors_perm
#print axioms C15_accept_perm

end Cors
