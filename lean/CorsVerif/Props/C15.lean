import CorsVerif.Proofs.Validate
import CorsVerif.Proofs.Translated
import CorsVerif.Proofs.Twins
import CorsVerif.Proofs.Respell
import CorsVerif.Proofs.NetFacts
import CorsVerif.Proofs.C06Assembly
/-
  C15 — Config lists are sets: order, duplicates and header-name case are irrelevant.

  Proved:
    * C15_full: two accepted configurations whose lists mean the same sets (`Twin`, defined in
      Proofs/Twins.lean: same origin patterns; same effective methods after normalisation; same
      effective header names after byte-lowercasing; `*` and Authorization listed in both or in
      neither) produce the *same handler function* — same status, same headers, same decision to
      call the wrapped handler, for every debug setting, request and pre-existing header map.
      `Twin.of_same_members` (any order, any multiplicity), `Twin.respell_*` (letter case, method
      spelling), `Twin.add_safelisted_method`, `Twin.symm`, `Twin.trans` show that the documented
      variations are twins; `C15_perm` is the corollary for permutations.
    * C15_star_auth: the meaning of `*` next to Authorization does not depend on which of the
      two is listed first, in both credential modes, also with duplicates and other letter case;
    * C15_errors_perm: the reported violations of a permuted list are a permutation of the
      violations of the original list (from C05);
    * C15_accept_perm: permuting any of the four lists preserves acceptance;
    * C15_accept_members (via allErrs_nil_iff: a configuration is accepted iff its scalars are fine
      and every entry of every list is clean on its own): configurations whose lists have the same
      members, in any order and multiplicity, are accepted or rejected together.
  The `twins` relational suite (Go against Go) ties the implementation to this: generated twins of
  generated configurations must be accepted alike and answer generated requests identically.
-/
namespace Cors
open Gen ValidateProofs

/-- Component-wise equality of two results of `validateRequestHeaders` (decidable). -/
def sameReq (a b : List CfgErr × Bool × Bool × SortedSet × List Bytes) : Bool :=
  a.1 == b.1 && a.2.1 == b.2.1 && a.2.2.1 == b.2.2.1 && a.2.2.2.1 == b.2.2.2.1 && a.2.2.2.2 == b.2.2.2.2

theorem sameReq_eq {a b : List CfgErr × Bool × Bool × SortedSet × List Bytes} (h : sameReq a b = true) : a = b := by
  obtain ⟨a1, a2, a3, a4, a5⟩ := a
  obtain ⟨b1, b2, b3, b4, b5⟩ := b
  simp only [sameReq, Bool.and_eq_true, beq_iff_eq] at h
  obtain ⟨⟨⟨⟨h1, h2⟩, h3⟩, h4⟩, h5⟩ := h
  subst h1 h2 h3 h4 h5
  rfl

/-- **C15 (`*` and Authorization).** Same result whichever is listed first, in both credential
modes, also with duplicates and other letter case. -/
theorem C15_star_auth (cred : Bool) :
    Validate.requestHeaders cred [Spec.star, Spec.b "Authorization"] =
      Validate.requestHeaders cred [Spec.b "Authorization", Spec.star] ∧
    Validate.requestHeaders cred [Spec.star, Spec.b "authorization", Spec.b "AUTHORIZATION"] =
      Validate.requestHeaders cred [Spec.b "Authorization", Spec.star, Spec.star] := by
  cases cred
  · exact ⟨sameReq_eq (by decide), sameReq_eq (by decide)⟩
  · exact ⟨sameReq_eq (by decide), sameReq_eq (by decide)⟩

theorem flatMap_perm {α β : Type} (f : α → List β) {l1 l2 : List α} (h : l1.Perm l2) : (l1.flatMap f).Perm (l2.flatMap f) := by
  induction h with
  | nil => exact List.Perm.refl _
  | cons x _ ih => simp only [List.flatMap_cons]; exact List.Perm.append_left _ ih
  | swap x y l =>
    simp only [List.flatMap_cons]
    rw [← List.append_assoc, ← List.append_assoc]
    exact List.Perm.append_right _ List.perm_append_comm
  | trans _ _ ih1 ih2 => exact ih1.trans ih2

/-- Two configurations that differ only in the order of the entries of their four lists. -/
structure PermTwin (c1 c2 : Config) : Prop where
  origins : c1.origins.Perm c2.origins
  methods : c1.methods.Perm c2.methods
  requestHeaders : c1.requestHeaders.Perm c2.requestHeaders
  responseHeaders : c1.responseHeaders.Perm c2.responseHeaders
  credentialed : c1.credentialed = c2.credentialed
  maxAge : c1.maxAge = c2.maxAge
  status : c1.status = c2.status
  pna : c1.pna = c2.pna
  pnaNoCors : c1.pnaNoCors = c2.pnaNoCors
  tolInsecure : c1.tolInsecure = c2.tolInsecure
  tolPSL : c1.tolPSL = c2.tolPSL

theorem originViolations_congr (ext : Ext) {c1 c2 : Config} (h : PermTwin c1 c2) (raw : Bytes) :
    Spec.originViolations ext c1 raw = Spec.originViolations ext c2 raw := by
  unfold Spec.originViolations
  rw [h.credentialed, h.pna, h.pnaNoCors, h.tolInsecure, h.tolPSL]

/-- **C15 (violations).** The violations of a permuted configuration are a permutation of the
violations of the original. -/
theorem C15_errors_perm (ext : Ext) {c1 c2 : Config} (h : PermTwin c1 c2) :
    (Spec.prohibitions ext c1).Perm (Spec.prohibitions ext c2) := by
  unfold Spec.prohibitions Spec.pnaViolations Spec.originsViolations
  rw [h.status, h.maxAge, h.pna, h.pnaNoCors, h.credentialed]
  have hem : c1.origins.isEmpty = c2.origins.isEmpty := by
    have := h.origins.length_eq
    cases h1 : c1.origins <;> cases h2 : c2.origins <;> simp_all
  rw [hem]
  have ho : (c1.origins.flatMap (Spec.originViolations ext c1)).Perm (c2.origins.flatMap (Spec.originViolations ext c2)) := by
    have : c1.origins.flatMap (Spec.originViolations ext c1) = c1.origins.flatMap (Spec.originViolations ext c2) := by
      have hf : Spec.originViolations ext c1 = Spec.originViolations ext c2 := funext (originViolations_congr ext h)
      rw [hf]
    rw [this]
    exact flatMap_perm _ h.origins
  refine List.Perm.append (List.Perm.append (List.Perm.append (List.Perm.append (List.Perm.append (List.Perm.append
    (List.Perm.refl _) (List.Perm.refl _)) ?_) (flatMap_perm _ h.methods)) (flatMap_perm _ h.requestHeaders)) (List.Perm.refl _))
    (flatMap_perm _ h.responseHeaders)
  split
  · exact List.Perm.refl _
  · exact ho

/-- **C15 (acceptance).** Reordering list entries never turns an accepted configuration into a
rejected one or vice versa. -/
theorem C15_accept_perm (ext : Ext) {c1 c2 : Config} (h : PermTwin c1 c2) :
    (∃ i1, newInternalConfig ext c1 = .ok i1) ↔ (∃ i2, newInternalConfig ext c2 = .ok i2) := by
  have key : ∀ {a b : Config}, PermTwin a b → (∃ i, newInternalConfig ext a = .ok i) → ∃ i, newInternalConfig ext b = .ok i := by
    intro a b hab ⟨i, hi⟩
    apply C05_accept_of_nil
    have := C15_errors_perm ext hab
    rw [C05_reject_nil ext a i hi] at this
    exact List.Perm.eq_nil (this.symm)
  constructor
  · exact key h
  · apply key
    exact ⟨h.origins.symm, h.methods.symm, h.requestHeaders.symm, h.responseHeaders.symm, h.credentialed.symm, h.maxAge.symm,
      h.status.symm, h.pna.symm, h.pnaNoCors.symm, h.tolInsecure.symm, h.tolPSL.symm⟩
  where
    C05_accept_of_nil {ext : Ext} {cfg : Config} (h : Spec.prohibitions ext cfg = []) : ∃ icfg, newInternalConfig ext cfg = .ok icfg := by
      cases hc : newInternalConfig ext cfg with
      | ok icfg => exact ⟨icfg, rfl⟩
      | error e =>
        exfalso
        unfold newInternalConfig at hc
        split at hc
        · cases hc
        · rename_i hne
          have hl := allErrs_leaves ext cfg
          rw [h] at hl
          have hnil : Validate.allErrs ext cfg = [] := by
            cases hall : Validate.allErrs ext cfg with
            | nil => rfl
            | cons x xs =>
              exfalso
              rw [hall] at hl
              simp only [ETree.leavesList, List.append_eq_nil_iff] at hl
              -- the head contributes at least one leaf
              have hx : x ∈ Validate.allErrs ext cfg := by rw [hall]; exact List.mem_cons_self
              have := allErrs_leaf_nonempty ext cfg x hx
              exact this hl.1
          rw [hnil] at hne
          simp at hne
    C05_reject_nil (ext : Ext) (cfg : Config) (icfg : ICfg) (h : newInternalConfig ext cfg = .ok icfg) :
        Spec.prohibitions ext cfg = [] := by
      obtain ⟨herrs, _⟩ := (accepted_iff ext cfg icfg).mp h
      rw [← allErrs_leaves, herrs]; rfl
    allErrs_leaf_nonempty (ext : Ext) (cfg : Config) (x : Err) (hx : x ∈ Validate.allErrs ext cfg) : ETree.leaves x ≠ [] := by
      unfold Validate.allErrs at hx
      simp only [List.mem_append] at hx
      have hfield : ∀ es : List CfgErr, x ∈ Validate.fieldErr es → ETree.leaves x ≠ [] := by
        intro es hx
        unfold Validate.fieldErr at hx
        cases es with
        | nil => simp at hx
        | cons a as =>
          simp only [List.isEmpty_cons, Bool.false_eq_true, if_false, List.mem_singleton] at hx
          subst hx
          simp [ETree.leaves, ETree.leavesList]
      rcases hx with (((((hx | hx) | hx) | hx) | hx) | hx) | hx
      · unfold Validate.statusErrs at hx
        split at hx <;> simp at hx
        subst hx; simp [ETree.leaves]
      · unfold Validate.pnaErrs at hx
        split at hx <;> simp at hx
        subst hx; simp [ETree.leaves]
      · unfold Validate.originErrs at hx
        split at hx
        · simp only [List.mem_map] at hx
          obtain ⟨a, _, rfl⟩ := hx
          simp [ETree.leaves]
        · exact hfield _ hx
      · exact hfield _ hx
      · exact hfield _ hx
      · unfold Validate.maxAgeErrs at hx
        split at hx <;> simp at hx
        subst hx; simp [ETree.leaves]
      · exact hfield _ hx

/-- **C15 (twins answer identically).** Two accepted configurations whose lists mean the same
sets (`Twin`: any order, any multiplicity, any letter case of header names, any spelling of a
normalisable method, with or without entries that validation drops) produce handlers that are the
same function: for every debug setting, every request and every pre-existing response header map,
the same status, the same header map and the same decision to call the wrapped handler.

The hypothesis on `ext` is the one of `C01_parsed`: the IPv6 oracle accepts no literal starting
with `*` (netip.ParseAddr does not). -/
theorem C15_full (ext : Ext) (hext : ∀ h info, ext.ip6 h = some info → h.head? ≠ some 42)
    {c1 c2 : Config} (h : Twin c1 c2) (i1 i2 : ICfg)
    (a1 : newInternalConfig ext c1 = .ok i1) (a2 : newInternalConfig ext c2 = .ok i2) :
    Serve.serve i1 = Serve.serve i2 := by
  have hstar : c1.origins.contains Validate.star = c2.origins.contains Validate.star := contains_congr h.origins _
  have hempty : i1.tree.isEmpty = i2.tree.isEmpty := by
    rw [accepted_tree_isEmpty ext c1 i1 a1, accepted_tree_isEmpty ext c2 i2 a2, hstar]
  -- the origin decision
  have hcontains : ∀ o : Origin, o.port ≤ 65535 → Tree.contains i1.tree o = Tree.contains i2.tree o := by
    intro o ho
    cases hs : c2.origins.contains Validate.star with
    | true =>
      rw [accepted_tree_star ext c1 i1 a1 (by rw [hstar, hs]), accepted_tree_star ext c2 i2 a2 hs]
    | false =>
      rw [C01_config ext hext c1 i1 a1 (by rw [hstar, hs]) o ho, C01_config ext hext c2 i2 a2 hs o ho, Bool.eq_iff_iff]
      simp only [List.any_eq_true]
      constructor
      · rintro ⟨p, hp, hd⟩; exact ⟨p, (parsedPatterns_congr ext h.origins p).mp hp, hd⟩
      · rintro ⟨p, hp, hd⟩; exact ⟨p, (parsedPatterns_congr ext h.origins p).mpr hp, hd⟩
  -- every other field of the internal configuration
  obtain ⟨_, e1⟩ := (accepted_iff ext c1 i1).mp a1
  obtain ⟨_, e2⟩ := (accepted_iff ext c2 i2).mp a2
  have hm := methods_twin h.methodsStar h.methods
  have hq := requestHeaders_twin c1.credentialed h.reqStar h.reqAuth h.req
  have hr := responseHeaders_twin c1.credentialed h.resStar h.res
  have hrest : i1 = { i2 with tree := i1.tree } := by
    rw [e1, e2]
    unfold Validate.build
    simp only []
    rw [← h.credentialed, ← h.maxAge, ← h.status, ← h.pna, ← h.pnaNoCors, ← h.tolInsecure, ← h.tolPSL, ← hm, ← hq, ← hr]
  have hdec : Serve.modelDec i1 = Serve.modelDec i2 := by
    unfold Serve.modelDec
    congr 1
    · funext raw
      cases hp : Lex.parse raw with
      | none => rfl
      | some o => exact hcontains o (parse_port_le hp)
    · have : i1.allowedReqHdrs = i2.allowedReqHdrs := by rw [hrest]
      rw [this]
  unfold Serve.serve
  rw [hdec]
  conv => lhs; rw [hrest]
  exact serveDec_congr_tree (Serve.modelDec i2) i2 i1.tree hempty

/-- Corollary for the plainest twins: permuted lists. -/
theorem C15_perm (ext : Ext) (hext : ∀ h info, ext.ip6 h = some info → h.head? ≠ some 42)
    {c1 c2 : Config} (h : PermTwin c1 c2) (i1 i2 : ICfg)
    (a1 : newInternalConfig ext c1 = .ok i1) (a2 : newInternalConfig ext c2 = .ok i2) :
    Serve.serve i1 = Serve.serve i2 :=
  C15_full ext hext (Twin.of_same_members h.credentialed h.maxAge h.status h.pna h.pnaNoCors h.tolInsecure h.tolPSL
    (fun _ => h.origins.mem_iff) (fun _ => h.methods.mem_iff) (fun _ => h.requestHeaders.mem_iff)
    (fun _ => h.responseHeaders.mem_iff)) i1 i2 a1 a2

/-! ### Acceptance does not depend on order or multiplicity either -/

open Validate Folds TreeRT C06A CfgRT in
/-- The errors of a configuration vanish iff its scalars are fine and every entry of every list is
clean on its own — a statement about *members*, not about lists. -/
theorem allErrs_nil_iff (ext : Ext) (c : Config) :
    Validate.allErrs ext c = [] ↔
      (Validate.statusErrs c = [] ∧ Validate.pnaErrs c = [] ∧ Validate.maxAgeErrs c = [] ∧ c.origins ≠ [] ∧
       (∀ raw ∈ c.origins, rawErrs ext c.credentialed (Validate.pnaAny c) c.tolInsecure c.tolPSL raw = []) ∧
       (∀ n ∈ c.methods, methodErr n = []) ∧ (∀ n ∈ c.requestHeaders, reqHdrErr n = []) ∧
       (∀ n ∈ c.responseHeaders, resHdrErr c.credentialed n = [])) := by
  have hfield : ∀ es : List CfgErr, Validate.fieldErr es = [] ↔ es = [] := by
    intro es
    constructor
    · exact fieldErr_nil
    · intro h; rw [h]; rfl
  have hM : Validate.methodErrs c = [] ↔ ∀ n ∈ c.methods, methodErr n = [] := by
    unfold Validate.methodErrs
    rw [hfield]
    have : (Validate.methods c.methods).1 = c.methods.flatMap methodErr := by
      show (c.methods.foldl methodStep {}).errs = _
      rw [Folds.methods_errs]; rfl
    rw [this]
    exact ⟨nil_of_flatMap_nil, flatMap_nil_of _ _⟩
  have hQ : Validate.reqHdrErrs c = [] ↔ ∀ n ∈ c.requestHeaders, reqHdrErr n = [] := by
    unfold Validate.reqHdrErrs
    rw [hfield]
    have : (Validate.requestHeaders c.credentialed c.requestHeaders).1 = c.requestHeaders.flatMap reqHdrErr := by
      have h1 : (Validate.requestHeaders c.credentialed c.requestHeaders).1 = (c.requestHeaders.foldl (reqHdrStep c.credentialed) {}).errs := by
        unfold Validate.requestHeaders
        simp only []
        split <;> rfl
      rw [h1, Folds.reqHdr_errs]; rfl
    rw [this]
    exact ⟨nil_of_flatMap_nil, flatMap_nil_of _ _⟩
  have hE : Validate.resHdrErrs c = [] ↔ ∀ n ∈ c.responseHeaders, resHdrErr c.credentialed n = [] := by
    unfold Validate.resHdrErrs
    rw [hfield]
    have : (Validate.responseHeaders c.credentialed c.responseHeaders).1 = c.responseHeaders.flatMap (resHdrErr c.credentialed) := by
      show (c.responseHeaders.foldl (resHdrStep c.credentialed) {}).errs = _
      rw [Folds.resHdr_errs]; rfl
    rw [this]
    exact ⟨nil_of_flatMap_nil, flatMap_nil_of _ _⟩
  have hO : Validate.originErrs ext c = [] ↔ (c.origins ≠ [] ∧
      ∀ raw ∈ c.origins, rawErrs ext c.credentialed (Validate.pnaAny c) c.tolInsecure c.tolPSL raw = []) := by
    unfold Validate.originErrs Validate.originsResult
    cases ho : c.origins with
    | nil => simp [Validate.origins]
    | cons a t =>
      have hne : a :: t ≠ [] := by simp
      simp only [List.isEmpty_cons, Bool.false_eq_true, if_false]
      rw [hfield, origins_eq _ _ _ _ _ _ hne]
      simp only []
      constructor
      · intro h; exact ⟨hne, nil_of_flatMap_nil h⟩
      · rintro ⟨_, h⟩; exact flatMap_nil_of _ _ h
  unfold Validate.allErrs
  simp only [List.append_eq_nil_iff]
  rw [hM, hQ, hE, hO]
  constructor
  · rintro ⟨⟨⟨⟨⟨⟨h0, h1⟩, h2, h2'⟩, h3⟩, h4⟩, h5⟩, h6⟩
    exact ⟨h0, h1, h5, h2, h2', h3, h4, h6⟩
  · rintro ⟨h0, h1, h5, h2, h2', h3, h4, h6⟩
    exact ⟨⟨⟨⟨⟨⟨h0, h1⟩, h2, h2'⟩, h3⟩, h4⟩, h5⟩, h6⟩

/-- **C15 (acceptance of twins).** Two configurations with equal scalars whose lists have the same
members — whatever the order and the multiplicities — are accepted or rejected together. -/
theorem C15_accept_members (ext : Ext) (c1 c2 : Config)
    (hc : c1.credentialed = c2.credentialed) (hm : c1.maxAge = c2.maxAge) (hs : c1.status = c2.status)
    (hp : c1.pna = c2.pna) (hn : c1.pnaNoCors = c2.pnaNoCors) (hi : c1.tolInsecure = c2.tolInsecure)
    (hl : c1.tolPSL = c2.tolPSL)
    (ho : ∀ x, x ∈ c1.origins ↔ x ∈ c2.origins) (hme : ∀ x, x ∈ c1.methods ↔ x ∈ c2.methods)
    (hrq : ∀ x, x ∈ c1.requestHeaders ↔ x ∈ c2.requestHeaders)
    (hrs : ∀ x, x ∈ c1.responseHeaders ↔ x ∈ c2.responseHeaders) :
    (∃ i1, newInternalConfig ext c1 = .ok i1) ↔ (∃ i2, newInternalConfig ext c2 = .ok i2) := by
  have hacc : ∀ c : Config, (∃ i, newInternalConfig ext c = .ok i) ↔ Validate.allErrs ext c = [] := by
    intro c
    constructor
    · rintro ⟨i, hi⟩; exact ((accepted_iff ext c i).mp hi).1
    · intro h; exact ⟨_, (accepted_iff ext c _).mpr ⟨h, rfl⟩⟩
  rw [hacc, hacc, allErrs_nil_iff, allErrs_nil_iff]
  have e0 : Validate.statusErrs c1 = Validate.statusErrs c2 := by unfold Validate.statusErrs; rw [hs]
  have e1 : Validate.pnaErrs c1 = Validate.pnaErrs c2 := by unfold Validate.pnaErrs; rw [hp, hn]
  have e2 : Validate.maxAgeErrs c1 = Validate.maxAgeErrs c2 := by unfold Validate.maxAgeErrs; rw [hm]
  have e3 : Validate.pnaAny c1 = Validate.pnaAny c2 := by unfold Validate.pnaAny; rw [hp, hn]
  have e4 : (c1.origins ≠ []) ↔ (c2.origins ≠ []) := by
    constructor
    · intro h h2
      cases h1 : c1.origins with
      | nil => exact h h1
      | cons a t => have := (ho a).mp (by rw [h1]; exact List.mem_cons_self); rw [h2] at this; cases this
    · intro h h1
      cases h2 : c2.origins with
      | nil => exact h h2
      | cons a t => have := (ho a).mpr (by rw [h2]; exact List.mem_cons_self); rw [h1] at this; cases this
  rw [e0, e1, e2, e3, hc, hi, hl, e4]
  constructor
  · rintro ⟨a, b, c, d, e, f, g, h⟩
    exact ⟨a, b, c, d, fun x hx => e x ((ho x).mpr hx), fun x hx => f x ((hme x).mpr hx),
      fun x hx => g x ((hrq x).mpr hx), fun x hx => h x ((hrs x).mpr hx)⟩
  · rintro ⟨a, b, c, d, e, f, g, h⟩
    exact ⟨a, b, c, d, fun x hx => e x ((ho x).mp hx), fun x hx => f x ((hme x).mp hx),
      fun x hx => g x ((hrq x).mp hx), fun x hx => h x ((hrs x).mp hx)⟩

/-! ### Re-spelt configurations: accepted together, and then the same handler -/

open Validate Folds TreeRT in
theorem accept_of_respelt (ext : Ext) {c1 c2 : Config} (h : Respelt c1 c2)
    (h1 : Validate.allErrs ext c1 = []) : Validate.allErrs ext c2 = [] := by
  rw [allErrs_nil_iff] at h1 ⊢
  obtain ⟨a, b, c, d, e, f, g, k⟩ := h1
  have e0 : Validate.statusErrs c2 = Validate.statusErrs c1 := by unfold Validate.statusErrs; rw [h.status]
  have e1 : Validate.pnaErrs c2 = Validate.pnaErrs c1 := by unfold Validate.pnaErrs; rw [h.pna, h.pnaNoCors]
  have e2 : Validate.maxAgeErrs c2 = Validate.maxAgeErrs c1 := by unfold Validate.maxAgeErrs; rw [h.maxAge]
  have e3 : Validate.pnaAny c2 = Validate.pnaAny c1 := by unfold Validate.pnaAny; rw [h.pna, h.pnaNoCors]
  refine ⟨e0 ▸ a, e1 ▸ b, e2 ▸ c, ?_, ?_, ?_, ?_, ?_⟩
  · intro h2
    cases h1 : c1.origins with
    | nil => exact d h1
    | cons x t => have := (h.origins x).mp (by rw [h1]; exact List.mem_cons_self); rw [h2] at this; cases this
  · intro raw hraw
    rw [e3, ← h.credentialed, ← h.tolInsecure, ← h.tolPSL]
    exact e raw ((h.origins raw).mpr hraw)
  · intro n hn
    rw [methodErr_nil_iff]
    rcases h.methods21 n hn with ⟨n', hn', hr⟩ | hd
    · rw [hr.methodClean, ← methodErr_nil_iff]; exact f n' hn'
    · exact hd.clean
  · intro n hn
    rw [reqHdrErr_nil_iff]
    obtain ⟨n', hn', hr⟩ := h.req21 n hn
    rw [hr.reqClean, ← reqHdrErr_nil_iff]; exact g n' hn'
  · intro n hn
    rw [resHdrErr_nil_iff]
    rcases h.res21 n hn with ⟨n', hn', hr⟩ | hd
    · rw [hr.resClean, ← h.credentialed, ← resHdrErr_nil_iff]; exact k n' hn'
    · exact hd.clean _

/-- **C15 (acceptance of re-spelt configurations).** Configurations that differ only in order,
repetition, the letter case of header names, the spelling of normalisable methods and in listing
safelisted methods / response-header names are accepted or rejected together. -/
theorem C15_accept_respelt (ext : Ext) {c1 c2 : Config} (h : Respelt c1 c2) :
    (∃ i1, newInternalConfig ext c1 = .ok i1) ↔ (∃ i2, newInternalConfig ext c2 = .ok i2) := by
  have hacc : ∀ c : Config, (∃ i, newInternalConfig ext c = .ok i) ↔ Validate.allErrs ext c = [] := by
    intro c
    constructor
    · rintro ⟨i, hi⟩; exact ((accepted_iff ext c i).mp hi).1
    · intro h; exact ⟨_, (accepted_iff ext c _).mpr ⟨h, rfl⟩⟩
  rw [hacc, hacc]
  exact ⟨accept_of_respelt ext h, accept_of_respelt ext h.symm⟩

/-- **C15, closed form.** If `c1` is accepted and `c2` says the same in other words (`Respelt`), then
`c2` is accepted as well and the two handlers are the same function. No hypothesis about `c2`'s
acceptance is left. -/
theorem C15_respelt (ext : Ext) (hext : ∀ h info, ext.ip6 h = some info → h.head? ≠ some 42)
    {c1 c2 : Config} (h : Respelt c1 c2) (i1 : ICfg) (a1 : newInternalConfig ext c1 = .ok i1) :
    ∃ i2, newInternalConfig ext c2 = .ok i2 ∧ Serve.serve i1 = Serve.serve i2 := by
  obtain ⟨i2, a2⟩ := (C15_accept_respelt ext h).mp ⟨i1, a1⟩
  exact ⟨i2, a2, C15_full ext hext h.twin i1 i2 a1 a2⟩

/-- `C15_respelt` for the library answers as the driver uses them (`Net.std`): no hypothesis is left. -/
theorem C15_respelt_std (idna etld : Bytes → Bool) {c1 c2 : Config} (h : Respelt c1 c2) (i1 : ICfg)
    (a1 : newInternalConfig (Net.std idna etld) c1 = .ok i1) :
    ∃ i2, newInternalConfig (Net.std idna etld) c2 = .ok i2 ∧ Serve.serve i1 = Serve.serve i2 :=
  C15_respelt (Net.std idna etld) (Net.hext_std idna etld) h i1 a1

/-! ### Non-vacuity: a concrete pair of accepted twins that differ in order, multiplicity, letter
case, method spelling and dropped entries -/

theorem mem_iff_of_subsets {A B : List Bytes} (h : (A.all B.contains && B.all A.contains) = true) (x : Bytes) : x ∈ A ↔ x ∈ B := by
  simp only [Bool.and_eq_true, List.all_eq_true, List.contains_iff_mem] at h
  exact ⟨h.1 x, h.2 x⟩

theorem exists_iff_mem_filter_map (l : List Bytes) (g : Bytes → Bool) (f : Bytes → Bytes) (x : Bytes) :
    (∃ n ∈ l, g n = true ∧ x = f n) ↔ x ∈ (l.filter g).map f := by
  simp only [List.mem_map, List.mem_filter]
  constructor
  · rintro ⟨n, hn, hg, rfl⟩; exact ⟨n, ⟨hn, hg⟩, rfl⟩
  · rintro ⟨n, ⟨hn, hg⟩, rfl⟩; exact ⟨n, hn, hg, rfl⟩

def extTw : Ext := { idnaXn := fun _ => true, isETLD := fun _ => false, ip6 := fun _ => none }
def tw1 : Config where
  origins := [Spec.b "https://a.com", Spec.b "https://*.b.com:8080"]
  methods := [Spec.b "PUT", Spec.b "delete"]
  requestHeaders := [Spec.b "X-Foo", Spec.b "Authorization"]
  responseHeaders := [Spec.b "X-Bar"]
  credentialed := true
def tw2 : Config where
  origins := [Spec.b "https://*.b.com:8080", Spec.b "https://a.com", Spec.b "https://a.com"]
  methods := [Spec.b "DELETE", Spec.b "PUT", Spec.b "GET"]
  requestHeaders := [Spec.b "authorization", Spec.b "x-foo", Spec.b "X-FOO"]
  responseHeaders := [Spec.b "x-bar", Spec.b "X-Bar", Spec.b "Cache-Control"]
  credentialed := true

example : Twin tw1 tw2 where
  credentialed := rfl
  maxAge := rfl
  status := rfl
  pna := rfl
  pnaNoCors := rfl
  tolInsecure := rfl
  tolPSL := rfl
  origins := mem_iff_of_subsets (by decide)
  methodsStar := by decide
  methods := fun x => by
    rw [exists_iff_mem_filter_map, exists_iff_mem_filter_map]; exact mem_iff_of_subsets (by decide) x
  reqStar := by decide
  reqAuth := by decide
  req := fun x => by
    rw [exists_iff_mem_filter_map, exists_iff_mem_filter_map]; exact mem_iff_of_subsets (by decide) x
  resStar := by decide
  res := fun x => by
    rw [exists_iff_mem_filter_map, exists_iff_mem_filter_map]; exact mem_iff_of_subsets (by decide) x
example : Respelt tw1 tw2 where
  credentialed := rfl
  maxAge := rfl
  status := rfl
  pna := rfl
  pnaNoCors := rfl
  tolInsecure := rfl
  tolPSL := rfl
  origins := mem_iff_of_subsets (by decide)
  methods12 := by decide
  methods21 := by decide
  req12 := by decide
  req21 := by decide
  res12 := by decide
  res21 := by decide
example : ∃ i, newInternalConfig extTw tw1 = .ok i := by
  unfold newInternalConfig; rw [if_pos (by decide)]; exact ⟨_, rfl⟩
example : ∃ i, newInternalConfig extTw tw2 = .ok i := by
  unfold newInternalConfig; rw [if_pos (by decide)]; exact ⟨_, rfl⟩
example : ∀ h info, extTw.ip6 h = some info → h.head? ≠ some 42 := fun _ _ h => by cases h

#print axioms C15_star_auth
#print axioms C15_errors_perm
#print axioms C15_accept_perm
#print axioms C15_full
#print axioms C15_perm
#print axioms allErrs_nil_iff
#print axioms C15_accept_members
#print axioms C15_accept_respelt
#print axioms C15_respelt
#print axioms C15_respelt_std


/-- **C15 (translated loop bodies).** One iteration of the `for _, name := range names` loops of `validateMethods`,
`validateRequestHeaders` and `validateResponseHeaders` — the single-pass folds with their mid-loop flags for `*` and
`Authorization`, the validity test *before* normalisation, the forbidden / prohibited / safelisted tests on the normalised
name, the error values, what is stored — is translated from /repo's config.go on every run and equals the hand-written
step function of the model, for every loop state and element; hence the folds over any configured list are the model's.
(The prologue `len(names) == 0` and the epilogue — `errors.Join`, the assignments into `icfg` — stay hand-modelled.) -/
theorem C15_loops_translated (credentialed : Bool) (names : List Bytes) :
    names.foldl Gen.GoSrc.methodStep {} = names.foldl Validate.methodStep {} ∧
    names.foldl (Gen.GoSrc.reqHdrStep credentialed) {} = names.foldl (Validate.reqHdrStep credentialed) {} ∧
    names.foldl (Gen.GoSrc.resHdrStep credentialed) {} = names.foldl (Validate.resHdrStep credentialed) {} :=
  Translated.loops_eq credentialed names

#print axioms C15_loops_translated


/-- **C15 (translated origin loop).** One iteration of the `for _, raw := range patterns` loop of `validateOrigins` — the `*`
incompatibilities, `origins.ParsePattern` and its error, the insecure-origin and public-suffix guards with their tolerance
switches (each reported, in the code's order, none skipping another), `tree.Insert` — is translated from /repo's config.go on
every run and equals `Validate.originStep` for every loop state and element (whatever the IDNA / public-suffix oracles
answer); hence the fold over any list of patterns is the model's. -/
theorem C15_originLoop_translated (ext : Ext) (credentialed pnaAny tolInsecure tolPSL : Bool) (patterns : List Bytes) :
    patterns.foldl (Gen.GoSrc.originStep ext credentialed pnaAny tolInsecure tolPSL) {} =
      patterns.foldl (Validate.originStep ext credentialed pnaAny tolInsecure tolPSL) {} :=
  Translated.originLoop_eq ext credentialed pnaAny tolInsecure tolPSL patterns

#print axioms C15_originLoop_translated

end Cors
