import CorsVerif.Proofs.Pattern
import CorsVerif.Proofs.Translated
import CorsVerif.Spec.Fetch
import CorsVerif.Spec.Denote
import CorsVerif.Proofs.Accept
import CorsVerif.Proofs.RoundTrip
import CorsVerif.Proofs.LexSound
import CorsVerif.Proofs.NetFacts
import CorsVerif.Proofs.NetRoundTrip
/-
  C13 — Origin-pattern grammar: documented forms accepted, documented non-forms rejected.

  Proved here (for every behaviour of the library oracles `ext`):
    * C13_accept: every pattern of the documented form with a domain host (Spec/Grammar.lean: the
      grammar given generatively, by parts; grey zones excluded) is accepted and parses to its parts;
    * C13_self: an accepted wildcard-free pattern (no `*.`, no `:*`) presented verbatim as an
      `Origin` value is parsed by the request-side lexer into an origin that the pattern denotes
      (with C01: it is allowed);
    * C13_constants, C13_alphabets: the regenerated length maxima, ports, separators and byte tables
      are the documented ones (no upper-case, non-ASCII, userinfo/path/query byte can ever be part
      of a scheme or host);
    * rejection of documented defects that do not depend on the host grammar: `null`, `*`,
      the `file` scheme, a missing `://`, the scheme's default port, port 0, https with an IP host;
    * shape facts of every accepted pattern: non-empty lower-case scheme of at most 64 bytes,
      port absent / 1-65535 / wildcard, non-empty host value, wildcard base of at most 251 bytes.
    * C13_accept_self: a documented wildcard-free pattern, presented verbatim as an Origin, parses
      and is denoted by the pattern — also at every length maximum at once;
    * C13_accepted_form / C13_reject_bad_host_byte: every accepted bracket-free pattern is literally
      `scheme://host` + nothing / `:*` / `:`canonical-decimal(1..65535) with host bytes from the
      documented alphabet, so upper-case or non-ASCII hosts, userinfo, path, query, fragment,
      whitespace and empty / zero / over-range / over-long / leading-zero ports are rejected.
    * C13_accept_ipv4: dotted-quad hosts (loopback iff the first field is 127);
    * C13_accept_idna: any lexical domain that passes the IDNA check of the model — Punycode hosts
      relative to `profile.ToASCII` (oracle);
    * C13_accept_ipv6 / C13_reject_ipv6_defects: bracketed IPv6 literals are accepted exactly when
      `netip.ParseAddr` (oracle) reads them as zone-free, not IPv4-mapped and canonical.
  What the theorems cannot carry: what `netip` and `idna` themselves accept (oracles; in the tie the
  real libraries answer for every generated case).
-/
namespace Cors
open Gen Pat

/-- The port pattern is not the wildcard: `parsePortPattern` is `parsePort`. -/
theorem parsePortPattern_nonwild {rest4 : Bytes} {port : Nat} {r : Bytes}
    (h : parsePortPattern rest4 = some (port, r)) (hp : port ≠ Facts.origins_wildcardPort) :
    Lex.parsePort rest4 = some (port, r) := by
  unfold parsePortPattern at h
  cases hc : rest4.cutPrefix Facts.origins_portWildcard with
  | some x => simp [hc] at h; exact absurd h.1.symm hp
  | none => simpa [hc] using h

/-- **C13 (self-match).** An accepted pattern without wildcards, presented verbatim as an Origin
(within the request-side length cap), parses to an origin that the pattern denotes. -/
theorem C13_self (ext : Ext) (s : Bytes) (p : Pattern) (h : parsePattern ext s = .ok p)
    (hw : p.kind ≠ .subdomains) (hp : p.port ≠ Facts.origins_wildcardPort)
    (hlen : s.length ≤ Facts.origins_Parse_maxOriginLen) :
    ∃ o, Lex.parse s = some o ∧ Spec.denotes p o = true := by
  have inv := parsePattern_inv h
  obtain ⟨rest, hps, rest2, hcp, rest3, hhp, hport⟩ := inv.scheme
  obtain ⟨host, hfh, hval⟩ := parseHostPattern_nonwild hhp hw
  have hvalue : host.value = p.value := by
    rcases hval with ⟨_, hv⟩ | ⟨hip, hv, _⟩
    · exact hv.symm
    · have happ := fastParseHost_append hfh (Or.inl hip)
      rw [hv]
      conv => rhs; rw [happ]
      simp
  have hlen' : ¬ (s.length > Facts.origins_Parse_maxOriginLen) := by omega
  rcases hport with ⟨hr3, hp0⟩ | ⟨rest4, hc4, hpp⟩
  · refine ⟨{ scheme := p.scheme, host := host, port := 0 }, ?_, ?_⟩
    · unfold Lex.parse
      simp [hlen', hps, hcp, hfh, hr3]
    · unfold Spec.denotes
      simp [hw, hvalue, hp0]
  · have hpp' := parsePortPattern_nonwild hpp hp
    have hr3 : rest3.isEmpty = false := by
      cases rest3 with
      | nil => simp [Bytes.cutPrefix] at hc4
      | cons _ _ => rfl
    refine ⟨{ scheme := p.scheme, host := host, port := p.port }, ?_, ?_⟩
    · unfold Lex.parse
      simp [hlen', hps, hcp, hfh, hr3, hc4, hpp']
    · unfold Spec.denotes
      simp [hw, hvalue]

/-- `null` and `*` are prohibited. -/
theorem C13_reject_null (ext : Ext) : parsePattern ext null = .error .prohibited := rfl
theorem C13_reject_star (ext : Ext) : parsePattern ext star = .error .prohibited := rfl

/-- Every accepted pattern: scheme is not `file`; https never comes with an IP host; an explicit
port is never the scheme's default. -/
theorem C13_accepted_shape (ext : Ext) (s : Bytes) (p : Pattern) (h : parsePattern ext s = .ok p) :
    p.scheme ≠ file ∧
    ¬ ((p.kind = .loopbackIP ∨ p.kind = .nonLoopbackIP) ∧ p.scheme = Facts.origins_schemeHTTPS) ∧
    ¬ (p.scheme = Facts.origins_schemeHTTP ∧ p.port = 80) ∧ ¬ (p.scheme = Facts.origins_schemeHTTPS ∧ p.port = 443) ∧
    p.scheme ≠ [] ∧ p.scheme.length ≤ 64 := by
  have inv := parsePattern_inv h
  obtain ⟨rest, hps, _⟩ := inv.scheme
  have hsch := parseScheme_append hps
  refine ⟨inv.notFile, inv.httpsNoIP, ?_, ?_, hsch.2.1, hsch.2.2⟩
  · rintro ⟨h1, h2⟩
    have := inv.noDefaultPort
    simp [isDefaultPortForScheme, h1, h2, Facts.origins_portHTTP] at this
  · rintro ⟨h1, h2⟩
    have := inv.noDefaultPort
    simp [isDefaultPortForScheme, h1, h2, Facts.origins_portHTTPS] at this

/-- A string whose scheme is `file` is prohibited, whatever follows. -/
theorem C13_reject_file (ext : Ext) (s rest : Bytes) (h : Lex.parseScheme s = some (file, rest)) (hs : s ≠ star ∧ s ≠ null) :
    parsePattern ext s = .error .prohibited := by
  unfold parsePattern
  have : (s == star || s == null) = false := by simp [hs.1, hs.2]
  simp [this, h]

/-- A string without `://` after the scheme is invalid. -/
theorem C13_reject_no_sep (ext : Ext) (s scheme rest : Bytes) (h : Lex.parseScheme s = some (scheme, rest))
    (hs : s ≠ star ∧ s ≠ null) (hf : scheme ≠ file) (hsep : rest.cutPrefix Facts.origins_schemeHostSep = none) :
    parsePattern ext s = .error .invalid := by
  unfold parsePattern
  have : (s == star || s == null) = false := by simp [hs.1, hs.2]
  simp [this, h, hf, hsep]

/-- A string that does not start with a lower-case letter is invalid (upper-case scheme,
leading whitespace, empty string, …). -/
theorem C13_reject_bad_first_byte (ext : Ext) (s : Bytes) (hs : s ≠ star ∧ s ≠ null)
    (h : ∀ b t, s = b :: t → Lex.isLowerAlpha b = false) : parsePattern ext s = .error .invalid := by
  unfold parsePattern
  have : (s == star || s == null) = false := by simp [hs.1, hs.2]
  have hps : Lex.parseScheme s = none := by
    unfold Lex.parseScheme
    cases s with
    | nil => rfl
    | cons b t => simp [h b t rfl]
  simp [this, hps]

/-! ### The documented constants and alphabets (regenerated facts, pinned to the documentation) -/

/-- Same members (decidable). -/
def sameBytes (xs ys : List Nat) : Bool := xs.all ys.contains && ys.all xs.contains

/-- **C13 (constants).** The length maxima, ports, separators and special schemes the code uses are
the documented ones: 64-byte scheme, 253-byte host, 5-digit port up to 65535, default ports 80 / 443,
`://`, `.`, `:`, `*.`, `*`; the request-side length cap is exactly the sum of the maxima
(scheme + `://` + host + trailing dot + `:` + port). -/
theorem C13_constants :
    Facts.origins_maxSchemeLen = 64 ∧ Facts.origins_maxHostLen = 253 ∧ Facts.origins_maxPortLen = 5 ∧
    Facts.origins_maxUint16 = 65535 ∧ Facts.origins_portHTTP = 80 ∧ Facts.origins_portHTTPS = 443 ∧
    Facts.origins_schemeHTTP = Spec.b "http" ∧ Facts.origins_schemeHTTPS = Spec.b "https" ∧
    Facts.origins_schemeHostSep = Spec.b "://" ∧ Facts.origins_labelSep = 46 ∧ Facts.origins_hostPortSep = 58 ∧
    Facts.origins_peekKind_wildcardSeq = Spec.b "*." ∧ Facts.origins_portWildcard = Spec.b "*" ∧
    Facts.origins_subdomainWildcard = Spec.b "*" ∧ Facts.origins_parsePort_base = 10 ∧
    Facts.origins_Parse_maxOriginLen = 64 + 3 + 253 + 1 + 1 + 5 ∧
    Facts.origins_fastParseHost_minIPv6HostLen = 4 ∧ file = Spec.b "file" ∧ null = Spec.b "null" := by decide

/-- **C13 (alphabets).** First scheme byte: exactly a-z.  Later scheme bytes: every documented one
(a-z, 0-9, `+`, `-`, `.`) and nothing else except the grey-zone `_`.  Label bytes: every documented
one (a-z, 0-9, `-`) and nothing else except the grey-zone `_` — in particular no upper-case letter,
no byte above 127, none of `@ / ? # : [ ]` and no whitespace.  Digits: 0-9; first port digit: 1-9. -/
theorem C13_alphabets :
    sameBytes Facts.origins_lowerAlpha (Spec.b "abcdefghijklmnopqrstuvwxyz") = true ∧
    (Spec.b "abcdefghijklmnopqrstuvwxyz0123456789+-.").all Facts.origins_laterSchemeBytes.contains = true ∧
    Facts.origins_laterSchemeBytes.all (Spec.b "abcdefghijklmnopqrstuvwxyz0123456789+-._").contains = true ∧
    (Spec.b "abcdefghijklmnopqrstuvwxyz0123456789-").all Facts.origins_asciiLabelBytes.contains = true ∧
    Facts.origins_asciiLabelBytes.all (Spec.b "abcdefghijklmnopqrstuvwxyz0123456789-_").contains = true ∧
    sameBytes Facts.origins_digits (Spec.b "0123456789") = true ∧
    sameBytes Facts.origins_nonzeroDigits (Spec.b "123456789") = true := by decide

/-! ### Documented forms are accepted -/

open Spec Accept in
/-- **C13 (acceptance, domain hosts).** Every pattern of the documented form with a domain host —
`Spec.DocPattern` (Spec/Grammar.lean): lower-case scheme of at most 64 bytes other than `file`;
`://`; optionally `*.`; one or more letter-digit-hyphen labels of at most 63 bytes joined by dots,
at most 253 bytes (251 after `*.`), optionally a trailing dot; optionally `:` and a port 1-65535
without leading zeros that is not the scheme's default, or `:*` — is accepted by `ParsePattern`,
whatever the library oracles answer, and parses to exactly its parts. -/
theorem C13_accept (ext : Ext) (d : DocPattern) (h : d.ok = true) :
    parsePattern ext d.render = .ok
      { scheme := d.scheme, value := d.hostPattern,
        kind := if d.wildcard then Kind.subdomains else Kind.domain,
        port := match d.port with
          | .absent => 0
          | .num ds => portValue ds
          | .any => Facts.origins_wildcardPort } := by
  simp only [DocPattern.ok, Bool.and_eq_true, Bool.not_eq_true', Bool.or_eq_true, decide_eq_true_eq] at h
  obtain ⟨⟨⟨⟨hs, hd⟩, hp⟩, hw⟩, hdef⟩ := h
  have hL := labels_of_doc hd
  have hsep : Spec.b "://" = [58, 47, 47] := by decide
  have hstar : Spec.b "*." = [42, 46] := by decide
  -- the shape of the rendered string
  have hrender : d.render = d.scheme ++ (58 :: 47 :: 47 :: ((if d.wildcard then [42, 46] else []) ++ hostOf d.labels d.trailingDot ++ d.portString)) := by
    unfold DocPattern.render DocPattern.hostPattern DocPattern.host hostOf
    rw [hsep, hstar]
    simp
  have hstops : Stops d.portString := by
    unfold DocPattern.portString
    cases d.port with
    | absent => exact Or.inl rfl
    | num ds => exact stops_colon ds
    | any => exact stops_colon [42]
  -- not `*`, not `null`
  have h58 : (58 : Nat) ∈ d.render := by rw [hrender]; simp
  have hns : (d.render == Pat.star || d.render == Pat.null) = false := by
    simp only [Bool.or_eq_false_iff, beq_eq_false_iff_ne, ne_eq]
    constructor
    · intro h0; rw [h0] at h58; revert h58; decide
    · intro h0; rw [h0] at h58; revert h58; decide
  unfold parsePattern
  rw [if_neg (by rw [hns]; simp)]
  rw [hrender, parseScheme_doc hs _ (by simp only [List.head?_cons, Option.all_some]; decide)]
  simp only []
  have hnf : (d.scheme == file) = false := by
    unfold docScheme at hs
    cases hsc : d.scheme with
    | nil => rw [hsc] at hs; simp at hs
    | cons c t =>
      rw [hsc] at hs
      simp only [Bool.and_eq_true, bne_iff_ne, ne_eq] at hs
      have : Spec.b "file" = file := by decide
      rw [← this]
      simpa using hs.2
  rw [if_neg (by rw [hnf]; simp)]
  have hcut : Bytes.cutPrefix (58 :: 47 :: 47 :: ((if d.wildcard then [42, 46] else []) ++ hostOf d.labels d.trailingDot ++ d.portString))
      Facts.origins_schemeHostSep = some ((if d.wildcard then [42, 46] else []) ++ hostOf d.labels d.trailingDot ++ d.portString) := by
    simp [Facts.origins_schemeHostSep, Bytes.cutPrefix]
  rw [hcut]
  simp only []
  have hwl : d.wildcard = true → (hostOf d.labels d.trailingDot).length ≤ 251 := by
    intro hwt
    rcases hw with h0 | h0
    · rw [hwt] at h0; cases h0
    · exact h0
  rw [parseHostPattern_doc ext hL d.trailingDot d.wildcard hwl _ hstops]
  simp only []
  have hkind : ((if d.wildcard = true then Kind.subdomains else Kind.domain) == Kind.loopbackIP ||
      (if d.wildcard = true then Kind.subdomains else Kind.domain) == Kind.nonLoopbackIP) = false := by
    cases d.wildcard <;> rfl
  rw [hkind]
  simp only [Bool.false_and, Bool.false_eq_true, if_false]
  have hvalue : d.hostPattern = (if d.wildcard then [42, 46] else []) ++ hostOf d.labels d.trailingDot := by
    unfold DocPattern.hostPattern DocPattern.host hostOf
    rw [hstar]
  rw [hvalue]
  unfold DocPattern.isDefaultPort at hdef
  unfold DocPattern.portString
  cases hport : d.port with
  | absent => simp
  | any =>
    simp only [List.isEmpty_cons, Bool.false_eq_true, if_false]
    have : Bytes.cutPrefix [58, 42] [Facts.origins_hostPortSep] = some [42] := by decide
    rw [this]
    simp only []
    have : parsePortPattern [42] = some (Facts.origins_wildcardPort, []) := by decide
    rw [this]
    simp only [List.isEmpty_nil, Bool.not_true, Bool.false_eq_true, if_false]
    have : isDefaultPortForScheme d.scheme Facts.origins_wildcardPort = false := by
      simp [isDefaultPortForScheme, Facts.origins_wildcardPort, Facts.origins_portHTTP, Facts.origins_portHTTPS]
    rw [this]
    simp
  | num ds =>
    rw [hport] at hp hdef
    simp only [List.isEmpty_cons, Bool.false_eq_true, if_false]
    have : Bytes.cutPrefix (58 :: ds) [Facts.origins_hostPortSep] = some ds := by
      simp [Bytes.cutPrefix, Facts.origins_hostPortSep]
    rw [this]
    simp only []
    have hpp : parsePortPattern ds = some (portValue ds, []) := by
      unfold parsePortPattern
      have hd0 : ∃ c t, ds = c :: t ∧ c ≠ 42 := by
        unfold docPortOK at hp
        cases ds with
        | nil => simp at hp
        | cons c t =>
          refine ⟨c, t, rfl, ?_⟩
          simp only [Bool.and_eq_true, decide_eq_true_eq] at hp
          omega
      obtain ⟨c, t, rfl, hc⟩ := hd0
      have : Bytes.cutPrefix (c :: t) Facts.origins_portWildcard = none := by
        simp [Bytes.cutPrefix, Facts.origins_portWildcard, hc]
      rw [this]
      exact parsePort_doc _ hp
    rw [hpp]
    simp only [List.isEmpty_nil, Bool.not_true, Bool.false_eq_true, if_false]
    have hndef : isDefaultPortForScheme d.scheme (portValue ds) = false := by
      have e1 : Spec.b "http" = Facts.origins_schemeHTTP := by decide
      have e2 : Spec.b "https" = Facts.origins_schemeHTTPS := by decide
      simp only [e1, e2] at hdef
      unfold isDefaultPortForScheme
      simp only [Facts.origins_portHTTP, Facts.origins_portHTTPS]
      rw [Bool.and_comm (portValue ds == 80), Bool.and_comm (portValue ds == 443)]
      exact hdef
    rw [hndef]
    simp

open Spec Accept in
/-- **C13 (acceptance, any lexical domain that passes the IDNA check).** The general form of
`C13_accept`: scheme, port and length conditions as documented; labels only required to be non-empty
letter-digit-hyphen strings with a letter-leading last label; and the host accepted by the IDNA
check of the model (`idnaOK`: the modelled plain-ASCII rule, or the answer of `profile.ToASCII` —
the oracle `ext.idnaXn` — when a label starts with `xn--`).  This covers Punycode hosts relative to
the library. -/
theorem C13_accept_idna (ext : Ext) (d : DocPattern) (hs : docScheme d.scheme = true) (hL : LexLabels d.labels)
    (hid : idnaOK ext d.host = true) (hp : docPortOK d.port = true)
    (hw : (!d.wildcard || decide (d.host.length ≤ 251)) = true) (hdef : d.isDefaultPort = false) :
    parsePattern ext d.render = .ok
      { scheme := d.scheme, value := d.hostPattern,
        kind := if d.wildcard then Kind.subdomains else Kind.domain,
        port := match d.port with
          | .absent => 0
          | .num ds => portValue ds
          | .any => Facts.origins_wildcardPort } := by
  simp only [Bool.not_eq_true', Bool.or_eq_true, decide_eq_true_eq] at hw
  have hid' : idnaOK ext (hostOf d.labels d.trailingDot) = true := hid
  have hsep : Spec.b "://" = [58, 47, 47] := by decide
  have hstar : Spec.b "*." = [42, 46] := by decide
  -- the shape of the rendered string
  have hrender : d.render = d.scheme ++ (58 :: 47 :: 47 :: ((if d.wildcard then [42, 46] else []) ++ hostOf d.labels d.trailingDot ++ d.portString)) := by
    unfold DocPattern.render DocPattern.hostPattern DocPattern.host hostOf
    rw [hsep, hstar]
    simp
  have hstops : Stops d.portString := by
    unfold DocPattern.portString
    cases d.port with
    | absent => exact Or.inl rfl
    | num ds => exact stops_colon ds
    | any => exact stops_colon [42]
  -- not `*`, not `null`
  have h58 : (58 : Nat) ∈ d.render := by rw [hrender]; simp
  have hns : (d.render == Pat.star || d.render == Pat.null) = false := by
    simp only [Bool.or_eq_false_iff, beq_eq_false_iff_ne, ne_eq]
    constructor
    · intro h0; rw [h0] at h58; revert h58; decide
    · intro h0; rw [h0] at h58; revert h58; decide
  unfold parsePattern
  rw [if_neg (by rw [hns]; simp)]
  rw [hrender, parseScheme_doc hs _ (by simp only [List.head?_cons, Option.all_some]; decide)]
  simp only []
  have hnf : (d.scheme == file) = false := by
    unfold docScheme at hs
    cases hsc : d.scheme with
    | nil => rw [hsc] at hs; simp at hs
    | cons c t =>
      rw [hsc] at hs
      simp only [Bool.and_eq_true, bne_iff_ne, ne_eq] at hs
      have : Spec.b "file" = file := by decide
      rw [← this]
      simpa using hs.2
  rw [if_neg (by rw [hnf]; simp)]
  have hcut : Bytes.cutPrefix (58 :: 47 :: 47 :: ((if d.wildcard then [42, 46] else []) ++ hostOf d.labels d.trailingDot ++ d.portString))
      Facts.origins_schemeHostSep = some ((if d.wildcard then [42, 46] else []) ++ hostOf d.labels d.trailingDot ++ d.portString) := by
    simp [Facts.origins_schemeHostSep, Bytes.cutPrefix]
  rw [hcut]
  simp only []
  have hwl : d.wildcard = true → (hostOf d.labels d.trailingDot).length ≤ 251 := by
    intro hwt
    rcases hw with h0 | h0
    · rw [hwt] at h0; cases h0
    · exact h0
  rw [parseHostPattern_lex ext hL d.trailingDot d.wildcard hid' hwl _ hstops]
  simp only []
  have hkind : ((if d.wildcard = true then Kind.subdomains else Kind.domain) == Kind.loopbackIP ||
      (if d.wildcard = true then Kind.subdomains else Kind.domain) == Kind.nonLoopbackIP) = false := by
    cases d.wildcard <;> rfl
  rw [hkind]
  simp only [Bool.false_and, Bool.false_eq_true, if_false]
  have hvalue : d.hostPattern = (if d.wildcard then [42, 46] else []) ++ hostOf d.labels d.trailingDot := by
    unfold DocPattern.hostPattern DocPattern.host hostOf
    rw [hstar]
  rw [hvalue]
  unfold DocPattern.isDefaultPort at hdef
  unfold DocPattern.portString
  cases hport : d.port with
  | absent => simp
  | any =>
    simp only [List.isEmpty_cons, Bool.false_eq_true, if_false]
    have : Bytes.cutPrefix [58, 42] [Facts.origins_hostPortSep] = some [42] := by decide
    rw [this]
    simp only []
    have : parsePortPattern [42] = some (Facts.origins_wildcardPort, []) := by decide
    rw [this]
    simp only [List.isEmpty_nil, Bool.not_true, Bool.false_eq_true, if_false]
    have : isDefaultPortForScheme d.scheme Facts.origins_wildcardPort = false := by
      simp [isDefaultPortForScheme, Facts.origins_wildcardPort, Facts.origins_portHTTP, Facts.origins_portHTTPS]
    rw [this]
    simp
  | num ds =>
    rw [hport] at hp hdef
    simp only [List.isEmpty_cons, Bool.false_eq_true, if_false]
    have : Bytes.cutPrefix (58 :: ds) [Facts.origins_hostPortSep] = some ds := by
      simp [Bytes.cutPrefix, Facts.origins_hostPortSep]
    rw [this]
    simp only []
    have hpp : parsePortPattern ds = some (portValue ds, []) := by
      unfold parsePortPattern
      have hd0 : ∃ c t, ds = c :: t ∧ c ≠ 42 := by
        unfold docPortOK at hp
        cases ds with
        | nil => simp at hp
        | cons c t =>
          refine ⟨c, t, rfl, ?_⟩
          simp only [Bool.and_eq_true, decide_eq_true_eq] at hp
          omega
      obtain ⟨c, t, rfl, hc⟩ := hd0
      have : Bytes.cutPrefix (c :: t) Facts.origins_portWildcard = none := by
        simp [Bytes.cutPrefix, Facts.origins_portWildcard, hc]
      rw [this]
      exact parsePort_doc _ hp
    rw [hpp]
    simp only [List.isEmpty_nil, Bool.not_true, Bool.false_eq_true, if_false]
    have hndef : isDefaultPortForScheme d.scheme (portValue ds) = false := by
      have e1 : Spec.b "http" = Facts.origins_schemeHTTP := by decide
      have e2 : Spec.b "https" = Facts.origins_schemeHTTPS := by decide
      simp only [e1, e2] at hdef
      unfold isDefaultPortForScheme
      simp only [Facts.origins_portHTTP, Facts.origins_portHTTPS]
      rw [Bool.and_comm (portValue ds == 80), Bool.and_comm (portValue ds == 443)]
      exact hdef
    rw [hndef]
    simp

open Spec Accept in
/-- **C13 (self-match of documented patterns, at every length maximum).** A documented pattern
without wildcards, presented verbatim as an Origin, is parsed by the request-side lexer into an
origin that the pattern denotes — in particular at all maxima at once (64-byte scheme, 253-byte
domain, trailing dot, 5-digit port: 327 bytes, the request-side cap). -/
theorem C13_accept_self (ext : Ext) (d : DocPattern) (h : d.ok = true) (hw : d.wildcard = false) (hany : d.port ≠ .any) :
    ∃ p o, parsePattern ext d.render = .ok p ∧ Lex.parse d.render = some o ∧ Spec.denotes p o = true := by
  have hacc := C13_accept ext d h
  have hkind : (if d.wildcard = true then Kind.subdomains else Kind.domain) ≠ Kind.subdomains := by rw [hw]; simp
  have hport : (match d.port with | .absent => 0 | .num ds => portValue ds | .any => Facts.origins_wildcardPort) ≠ Facts.origins_wildcardPort := by
    simp only [DocPattern.ok, Bool.and_eq_true, Bool.not_eq_true', Bool.or_eq_true, decide_eq_true_eq] at h
    obtain ⟨⟨⟨⟨_, _⟩, hpo⟩, _⟩, _⟩ := h
    cases hpt : d.port with
    | absent => simp [Facts.origins_wildcardPort]
    | any => exact absurd hpt hany
    | num ds =>
      rw [hpt] at hpo
      unfold docPortOK at hpo
      simp only [Bool.and_eq_true, decide_eq_true_eq] at hpo
      simp only [Facts.origins_wildcardPort]
      omega
  -- the length bound: scheme ≤ 64, `://`, host ≤ 254, port string ≤ 6
  have hlen : d.render.length ≤ Facts.origins_Parse_maxOriginLen := by
    simp only [DocPattern.ok, Bool.and_eq_true, Bool.not_eq_true', Bool.or_eq_true, decide_eq_true_eq] at h
    obtain ⟨⟨⟨⟨hs, hd⟩, hpo⟩, _⟩, _⟩ := h
    have hL := labels_of_doc hd
    have h1 : d.scheme.length ≤ 64 := by
      unfold docScheme at hs
      cases hsc : d.scheme with
      | nil => rw [hsc] at hs; simp at hs
      | cons c t =>
        rw [hsc] at hs
        simp only [Bool.and_eq_true, decide_eq_true_eq] at hs
        exact hs.1.2
    have h2 : d.host.length ≤ 254 := by
      unfold DocPattern.host
      have := hL.len
      cases d.trailingDot <;> simp <;> omega
    have h3 : d.portString.length ≤ 6 := by
      unfold DocPattern.portString
      cases hpt : d.port with
      | absent => simp
      | any => simp
      | num ds =>
        rw [hpt] at hpo
        unfold docPortOK at hpo
        simp only [Bool.and_eq_true, decide_eq_true_eq] at hpo
        simp only [List.length_cons]
        omega
    unfold DocPattern.render DocPattern.hostPattern
    rw [hw]
    have hsep : (Spec.b "://").length = 3 := by decide
    simp only [Bool.false_eq_true, if_false, List.nil_append, List.length_append, hsep, Facts.origins_Parse_maxOriginLen]
    omega
  obtain ⟨o, ho, hd⟩ := C13_self ext d.render _ hacc hkind hport hlen
  exact ⟨_, o, hacc, ho, hd⟩

open Spec Accept in
/-- **C13 (acceptance, dotted-quad IPv4 hosts).** Every pattern `scheme://a.b.c.d[:port]` with a
documented scheme other than `https`, four fields of 1-3 digits without leading zero and at most
255, and a documented port (or `:*`) is accepted, as a loopback pattern exactly when the first
field is `127`. -/
theorem C13_accept_ipv4 (ext : Ext) (v : DocV4) (h : v.ok = true) :
    parsePattern ext v.render = .ok
      { scheme := v.scheme, value := v.host,
        kind := if v.a == [49, 50, 55] then Kind.loopbackIP else Kind.nonLoopbackIP,
        port := match v.port with
          | .absent => 0
          | .num ds => portValue ds
          | .any => Facts.origins_wildcardPort } := by
  simp only [DocV4.ok, Bool.and_eq_true, Bool.not_eq_true', bne_iff_ne, ne_eq] at h
  obtain ⟨⟨⟨⟨⟨⟨⟨hs, hnh⟩, ha⟩, hb⟩, hc⟩, hd⟩, hp⟩, hdef⟩ := h
  have hsep : Spec.b "://" = [58, 47, 47] := by decide
  have hrender : v.render = v.scheme ++ (58 :: 47 :: 47 :: (Bytes.join 46 [v.a, v.b, v.c, v.d] ++ v.portString)) := by
    unfold DocV4.render DocV4.host
    rw [hsep]; simp
  have hstops : Stops v.portString := by
    unfold DocV4.portString
    cases v.port with
    | absent => exact Or.inl rfl
    | num ds => exact stops_colon ds
    | any => exact stops_colon [42]
  have h58 : (58 : Nat) ∈ v.render := by rw [hrender]; simp
  have hns : (v.render == Pat.star || v.render == Pat.null) = false := by
    simp only [Bool.or_eq_false_iff, beq_eq_false_iff_ne, ne_eq]
    constructor
    · intro h0; rw [h0] at h58; revert h58; decide
    · intro h0; rw [h0] at h58; revert h58; decide
  unfold parsePattern
  rw [if_neg (by rw [hns]; simp)]
  rw [hrender, parseScheme_doc hs _ (by simp only [List.head?_cons, Option.all_some]; decide)]
  simp only []
  have hnf : (v.scheme == file) = false := by
    unfold docScheme at hs
    cases hsc : v.scheme with
    | nil => rw [hsc] at hs; simp at hs
    | cons c t =>
      rw [hsc] at hs
      simp only [Bool.and_eq_true, bne_iff_ne, ne_eq] at hs
      have : Spec.b "file" = file := by decide
      rw [← this]
      simpa using hs.2
  rw [if_neg (by rw [hnf]; simp)]
  have hcut : Bytes.cutPrefix (58 :: 47 :: 47 :: (Bytes.join 46 [v.a, v.b, v.c, v.d] ++ v.portString))
      Facts.origins_schemeHostSep = some (Bytes.join 46 [v.a, v.b, v.c, v.d] ++ v.portString) := by
    simp [Facts.origins_schemeHostSep, Bytes.cutPrefix]
  rw [hcut]
  simp only []
  rw [parseHostPattern_v4 ext v.a v.b v.c v.d ha hb hc hd _ hstops]
  simp only []
  have hhttps : (v.scheme == Facts.origins_schemeHTTPS) = false := by
    have : Spec.b "https" = Facts.origins_schemeHTTPS := by decide
    rw [← this]; simpa using hnh
  rw [hhttps]
  simp only [Bool.and_false, Bool.false_eq_true, if_false]
  unfold DocV4.isDefaultPort at hdef
  unfold DocV4.portString DocV4.host
  cases hport : v.port with
  | absent => simp
  | any =>
    simp only [List.isEmpty_cons, Bool.false_eq_true, if_false]
    have : Bytes.cutPrefix [58, 42] [Facts.origins_hostPortSep] = some [42] := by decide
    rw [this]
    simp only []
    have : parsePortPattern [42] = some (Facts.origins_wildcardPort, []) := by decide
    rw [this]
    simp only [List.isEmpty_nil, Bool.not_true, Bool.false_eq_true, if_false]
    have : isDefaultPortForScheme v.scheme Facts.origins_wildcardPort = false := by
      simp [isDefaultPortForScheme, Facts.origins_wildcardPort, Facts.origins_portHTTP, Facts.origins_portHTTPS]
    rw [this]
    simp
  | num ds =>
    rw [hport] at hp hdef
    simp only [List.isEmpty_cons, Bool.false_eq_true, if_false]
    have : Bytes.cutPrefix (58 :: ds) [Facts.origins_hostPortSep] = some ds := by
      simp [Bytes.cutPrefix, Facts.origins_hostPortSep]
    rw [this]
    simp only []
    have hpp : parsePortPattern ds = some (portValue ds, []) := by
      unfold parsePortPattern
      have hd0 : ∃ c t, ds = c :: t ∧ c ≠ 42 := by
        unfold docPortOK at hp
        cases ds with
        | nil => simp at hp
        | cons c t =>
          refine ⟨c, t, rfl, ?_⟩
          simp only [Bool.and_eq_true, decide_eq_true_eq] at hp
          omega
      obtain ⟨c, t, rfl, hc'⟩ := hd0
      have : Bytes.cutPrefix (c :: t) Facts.origins_portWildcard = none := by
        simp [Bytes.cutPrefix, Facts.origins_portWildcard, hc']
      rw [this]
      exact parsePort_doc _ hp
    rw [hpp]
    simp only [List.isEmpty_nil, Bool.not_true, Bool.false_eq_true, if_false]
    have hndef : isDefaultPortForScheme v.scheme (portValue ds) = false := by
      have e1 : Spec.b "http" = Facts.origins_schemeHTTP := by decide
      simp only [e1] at hdef
      unfold isDefaultPortForScheme
      simp only [Facts.origins_portHTTP, Facts.origins_portHTTPS, hhttps, Bool.and_false, Bool.or_false]
      rw [Bool.and_comm]
      exact hdef
    rw [hndef]
    simp

/-- Non-vacuity: a loopback pattern with a port, and the metadata address. -/
example : ({ scheme := Spec.b "http", a := Spec.b "127", b := Spec.b "0", c := Spec.b "0", d := Spec.b "1",
             port := .num (Spec.b "8080") } : Spec.DocV4).ok = true := by decide
example : ({ scheme := Spec.b "http", a := Spec.b "169", b := Spec.b "254", c := Spec.b "169", d := Spec.b "254",
             port := .any } : Spec.DocV4).render = Spec.b "http://169.254.169.254:*" := by decide
example : ({ scheme := Spec.b "http", a := Spec.b "256", b := Spec.b "0", c := Spec.b "0", d := Spec.b "1",
             port := .absent } : Spec.DocV4).ok = false := by decide

open Spec Accept in
/-- **C13 (acceptance, bracketed IPv6 hosts, relative to the address library).** A pattern
`scheme://[lit][:port]` with a documented scheme other than `https` and a documented port is
accepted as soon as `netip.ParseAddr` (the oracle `ext.ip6`) reads `lit` as a zone-free address
that is not IPv4-mapped and whose canonical text is `lit` itself; it is a loopback pattern exactly
when the library says the address is a loopback address.  (Nothing else about the literal
matters: this is the complete list of oracle answers the acceptance depends on.) -/
theorem C13_accept_ipv6 (ext : Ext) (v : DocV6) (h : v.ok = true) (info : IP6Info)
    (hmark : firstIPMark v.lit = some 58) (horacle : ext.ip6 v.lit = some info)
    (hz : info.zone = false) (h46 : info.is4in6 = false) (hcanon : info.canon = v.lit) :
    parsePattern ext v.render = .ok
      { scheme := v.scheme, value := v.lit,
        kind := if info.loopback then Kind.loopbackIP else Kind.nonLoopbackIP,
        port := match v.port with
          | .absent => 0
          | .num ds => portValue ds
          | .any => Facts.origins_wildcardPort } := by
  simp only [DocV6.ok, Bool.and_eq_true, Bool.not_eq_true', bne_iff_ne, ne_eq, decide_eq_true_eq] at h
  obtain ⟨⟨⟨⟨⟨hs, hnh⟩, hlen⟩, hnb⟩, hp⟩, hdef⟩ := h
  have hnb' : (93 : Nat) ∉ v.lit := by
    intro hm
    have := List.contains_iff_mem.mpr hm
    rw [hnb] at this; cases this
  have hsep : Spec.b "://[" = [58, 47, 47, 91] := by decide
  have hrb : Spec.b "]" = [93] := by decide
  have hrender : v.render = v.scheme ++ (58 :: 47 :: 47 :: (91 :: v.lit ++ 93 :: v.portString)) := by
    unfold DocV6.render
    rw [hsep, hrb]; simp
  have h58 : (58 : Nat) ∈ v.render := by rw [hrender]; simp
  have hns : (v.render == Pat.star || v.render == Pat.null) = false := by
    simp only [Bool.or_eq_false_iff, beq_eq_false_iff_ne, ne_eq]
    constructor
    · intro h0; rw [h0] at h58; revert h58; decide
    · intro h0; rw [h0] at h58; revert h58; decide
  unfold parsePattern
  rw [if_neg (by rw [hns]; simp)]
  rw [hrender, parseScheme_doc hs _ (by simp only [List.head?_cons, Option.all_some]; decide)]
  simp only []
  have hnf : (v.scheme == file) = false := by
    unfold docScheme at hs
    cases hsc : v.scheme with
    | nil => rw [hsc] at hs; simp at hs
    | cons c t =>
      rw [hsc] at hs
      simp only [Bool.and_eq_true, bne_iff_ne, ne_eq] at hs
      have : Spec.b "file" = file := by decide
      rw [← this]
      simpa using hs.2
  rw [if_neg (by rw [hnf]; simp)]
  have hcut : Bytes.cutPrefix (58 :: 47 :: 47 :: (91 :: v.lit ++ 93 :: v.portString))
      Facts.origins_schemeHostSep = some (91 :: v.lit ++ 93 :: v.portString) := by
    simp [Facts.origins_schemeHostSep, Bytes.cutPrefix]
  rw [hcut]
  simp only []
  rw [parseHostPattern_v6 ext v.lit info hlen hnb' hmark horacle hz h46 hcanon]
  simp only []
  have hhttps : (v.scheme == Facts.origins_schemeHTTPS) = false := by
    have : Spec.b "https" = Facts.origins_schemeHTTPS := by decide
    rw [← this]; simpa using hnh
  rw [hhttps]
  simp only [Bool.and_false, Bool.false_eq_true, if_false]
  unfold DocV6.isDefaultPort at hdef
  unfold DocV6.portString
  cases hport : v.port with
  | absent => simp
  | any =>
    simp only [List.isEmpty_cons, Bool.false_eq_true, if_false]
    have : Bytes.cutPrefix [58, 42] [Facts.origins_hostPortSep] = some [42] := by decide
    rw [this]
    simp only []
    have : parsePortPattern [42] = some (Facts.origins_wildcardPort, []) := by decide
    rw [this]
    simp only [List.isEmpty_nil, Bool.not_true, Bool.false_eq_true, if_false]
    have : isDefaultPortForScheme v.scheme Facts.origins_wildcardPort = false := by
      simp [isDefaultPortForScheme, Facts.origins_wildcardPort, Facts.origins_portHTTP, Facts.origins_portHTTPS]
    rw [this]
    simp
  | num ds =>
    rw [hport] at hp hdef
    simp only [List.isEmpty_cons, Bool.false_eq_true, if_false]
    have : Bytes.cutPrefix (58 :: ds) [Facts.origins_hostPortSep] = some ds := by
      simp [Bytes.cutPrefix, Facts.origins_hostPortSep]
    rw [this]
    simp only []
    have hpp : parsePortPattern ds = some (portValue ds, []) := by
      unfold parsePortPattern
      have hd0 : ∃ c t, ds = c :: t ∧ c ≠ 42 := by
        unfold docPortOK at hp
        cases ds with
        | nil => simp at hp
        | cons c t =>
          refine ⟨c, t, rfl, ?_⟩
          simp only [Bool.and_eq_true, decide_eq_true_eq] at hp
          omega
      obtain ⟨c, t, rfl, hc'⟩ := hd0
      have : Bytes.cutPrefix (c :: t) Facts.origins_portWildcard = none := by
        simp [Bytes.cutPrefix, Facts.origins_portWildcard, hc']
      rw [this]
      exact parsePort_doc _ hp
    rw [hpp]
    simp only [List.isEmpty_nil, Bool.not_true, Bool.false_eq_true, if_false]
    have hndef : isDefaultPortForScheme v.scheme (portValue ds) = false := by
      have e1 : Spec.b "http" = Facts.origins_schemeHTTP := by decide
      simp only [e1] at hdef
      unfold isDefaultPortForScheme
      simp only [Facts.origins_portHTTP, Facts.origins_portHTTPS, hhttps, Bool.and_false, Bool.or_false]
      rw [Bool.and_comm]
      exact hdef
    rw [hndef]
    simp

/-- Non-vacuity: `http://[::1]:9090` with the oracle answering as netip does for `::1`. -/
example : ({ scheme := Spec.b "http", lit := Spec.b "::1", port := .num (Spec.b "9090") } : Spec.DocV6).ok = true := by decide
example : firstIPMark (Spec.b "::1") = some 58 := by decide

/-! ### Documented non-forms are rejected -/

open RoundTrip in
/-- **C13 (the form of every accepted pattern).** An accepted pattern that contains no `[` is
literally `scheme://host` followed by nothing, `:*`, or `:` and the canonical decimal of a port in
1..65535; every byte of the host is `*`, `.`, a digit or a label byte (a-z, 0-9, `-`, `_` by
`C13_alphabets`).  Hence every string with an upper-case or non-ASCII host byte, userinfo, a path,
query or fragment, whitespace, or an empty / zero / over-range / over-long / leading-zero port is
rejected. -/
theorem C13_accepted_form (ext : Ext) (s : Bytes) (p : Pattern) (h : parsePattern ext s = .ok p) (hnb : (91 : Nat) ∉ s) :
    ∃ portStr, s = p.scheme ++ Facts.origins_schemeHostSep ++ p.value ++ portStr ∧
      (∀ c ∈ p.value, c = 42 ∨ c = Facts.origins_labelSep ∨ Lex.isDigit c = true ∨ Lex.isASCIILabelByte c = true) ∧
      (portStr = [] ∨ portStr = [58, 42] ∨ ∃ n, 1 ≤ n ∧ n ≤ 65535 ∧ portStr = 58 :: Bytes.itoa n) := by
  have inv := parsePattern_inv h
  obtain ⟨rest, hps, rest2, hcp, rest3, hhp, hport⟩ := inv.scheme
  have hs1 := (parseScheme_append hps).1
  have hs2 := cutPrefix_some hcp
  rcases parseHostPattern_split hhp with ⟨hstr, _, hcl⟩ | ⟨_, hstr⟩
  · refine ⟨rest3, by rw [hs1, hs2, hstr]; simp, hcl, ?_⟩
    rcases hport with ⟨h3, _⟩ | ⟨rest4, hc4, hpp⟩
    · exact Or.inl h3
    · have h4 := cutPrefix_some hc4
      rcases parsePortPattern_inv hpp with ⟨hr, _⟩ | ⟨hr, hp1, hp2⟩
      · right; left; rw [h4, hr]; rfl
      · right; right; exact ⟨p.port, hp1, hp2, by rw [h4, hr]; rfl⟩
  · exfalso
    apply hnb
    rw [hs1, hs2, hstr]
    simp

/-- An accepted pattern of IP kind went through the IP verdict. -/
theorem ip_kind_verdict {ext : Ext} {str value rest : Bytes} {kind : Kind}
    (h : parseHostPattern ext str = .ok (value, kind, rest)) (hk : kind = .loopbackIP ∨ kind = .nonLoopbackIP) :
    ∃ lb, ipVerdict ext value = .ok lb := by
  have hns : kind ≠ .subdomains := by rcases hk with rfl | rfl <;> decide
  obtain ⟨host, hf, hval⟩ := parseHostPattern_nonwild h hns
  rcases hval with ⟨hip, hv⟩ | ⟨_, _, hkd⟩
  · unfold parseHostPattern at h
    simp only [] at h
    cases hpk : peekKind str with
    | domain =>
      simp only [hpk] at h
      have hho : hostOnly str Kind.domain = str := by simp [hostOnly]
      rw [hho, hf] at h
      simp only [show (Kind.domain == Kind.subdomains) = false from rfl, Bool.false_and, Bool.false_eq_true, if_false, hip, if_true] at h
      cases hvd : ipVerdict ext host.value with
      | bad => simp [hvd] at h
      | prohibited => simp [hvd] at h
      | ok lb => exact ⟨lb, by rw [hv]; exact hvd⟩
    | subdomains =>
      exfalso
      simp only [hpk] at h
      cases hf2 : Lex.fastParseHost (hostOnly str Kind.subdomains) with
      | none => simp [hf2] at h
      | some hr =>
        obtain ⟨host2, r2⟩ := hr
        simp only [hf2] at h
        split at h
        · cases h
        · split at h
          · cases h
          · rename_i hnip
            have hip2 : host2.assumeIP = false := by simpa using hnip
            simp only [hip2, Bool.false_eq_true, if_false] at h
            split at h
            · cases h
            · simp only [Except.ok.injEq, Prod.mk.injEq] at h
              exact hns h.2.1.symm
    | nonLoopbackIP => simp [peekKind] at hpk; split at hpk <;> cases hpk
    | loopbackIP => simp [peekKind] at hpk; split at hpk <;> cases hpk
  · rcases hk with rfl | rfl <;> cases hkd

/-- **C13 (IP-literal defects, relative to the address library).** Every accepted pattern whose
host is an IPv6 literal is one that `netip.ParseAddr` reads as a zone-free address that is not
IPv4-mapped and whose canonical text is the literal itself: zoned, IPv4-mapped and non-canonical
literals are rejected. -/
theorem C13_reject_ipv6_defects (ext : Ext) (s : Bytes) (p : Pattern) (h : parsePattern ext s = .ok p)
    (hk : p.kind = .loopbackIP ∨ p.kind = .nonLoopbackIP) (h6 : firstIPMark p.value = some 58) :
    ∃ info, ext.ip6 p.value = some info ∧ info.zone = false ∧ info.is4in6 = false ∧ info.canon = p.value := by
  obtain ⟨rest, _, rest2, _, rest3, hhp, _⟩ := (parsePattern_inv h).scheme
  obtain ⟨lb, hv⟩ := ip_kind_verdict hhp hk
  unfold ipVerdict at hv
  rw [h6] at hv
  simp only [] at hv
  cases ho : ext.ip6 p.value with
  | none => rw [ho] at hv; cases hv
  | some info =>
    rw [ho] at hv
    simp only [] at hv
    refine ⟨info, rfl, ?_⟩
    cases hz : info.zone with
    | true => simp [hz] at hv
    | false =>
      simp only [hz, Bool.false_eq_true, if_false] at hv
      cases h4 : info.is4in6 with
      | true => simp [h4] at hv
      | false =>
        simp only [h4, Bool.false_eq_true, if_false] at hv
        by_cases hc : info.canon = p.value
        · exact ⟨rfl, rfl, hc⟩
        · have : (info.canon != p.value) = true := by simpa using hc
          simp [this] at hv

/-- A byte that can occur in no accepted bracket-free pattern after the scheme: upper-case
letters, `@`, `/` (beyond `://`), `?`, `#`, space, tab, and every byte above 127. -/
def badHostByte (c : Nat) : Bool :=
  (65 ≤ c && c ≤ 90) || c == 64 || c == 47 || c == 63 || c == 35 || c == 32 || c == 9 || 128 ≤ c

theorem badHostByte_not_class : ∀ c, c < 128 → badHostByte c = true →
    ¬ (c = 42 ∨ c = Facts.origins_labelSep ∨ Lex.isDigit c = true ∨ Lex.isASCIILabelByte c = true) := by decide

open RoundTrip in
/-- **C13 (rejection).** A bracket-free string whose host part contains an upper-case letter, a
userinfo `@`, a `/`, `?`, `#`, whitespace or a non-ASCII byte is not accepted. -/
theorem C13_reject_bad_host_byte (ext : Ext) (s : Bytes) (p : Pattern) (h : parsePattern ext s = .ok p) (hnb : (91 : Nat) ∉ s) :
    ∀ c ∈ p.value, badHostByte c = false := by
  obtain ⟨_, _, hcl, _⟩ := C13_accepted_form ext s p h hnb
  intro c hc
  cases hb : badHostByte c with
  | false => rfl
  | true =>
    exfalso
    by_cases hlt : c < 128
    · exact badHostByte_not_class c hlt hb (hcl c hc)
    · -- no class contains a byte above 127
      rcases hcl c hc with h0 | h0 | h0 | h0
      · omega
      · simp only [Facts.origins_labelSep] at h0; omega
      · have := isDigit_lt h0; omega
      · have : c < 128 := by
          simp only [Lex.isASCIILabelByte, asciiContains, Facts.origins_asciiLabelBytes, List.contains_iff_mem, List.mem_cons,
            List.mem_nil_iff, or_false] at h0
          omega
        omega

/-- Non-vacuity of `C13_accept`: documented patterns at work, including one with every part. -/
def exDoc : Spec.DocPattern where
  scheme := Spec.b "chrome-extension+v1.0"
  wildcard := true
  labels := [Spec.b "api-2", Spec.b "example", Spec.b "co", Spec.b "uk"]
  trailingDot := true
  port := .num (Spec.b "65535")
example : exDoc.ok = true := by decide
example : exDoc.render = Spec.b "chrome-extension+v1.0://*.api-2.example.co.uk.:65535" := by decide
example : ({ scheme := Spec.b "https", wildcard := false, labels := [Spec.b "example", Spec.b "com"], trailingDot := false,
             port := .num (Spec.b "443") } : Spec.DocPattern).ok = false := by decide   -- default port: not of the documented form

/-- Non-vacuity: a concrete accepted pattern and its self-match (no oracle is consulted). -/
def ext0 : Ext := { idnaXn := fun _ => false, isETLD := fun _ => false, ip6 := fun _ => none }
example : (parsePattern ext0 (Spec.b "https://example.com:8080")).toOption.map (·.port) = some 8080 := by decide
example : (Lex.parse (Spec.b "https://example.com:8080")).map (·.port) = some 8080 := by decide

open Accept in
/-- **Only serialisations are read as origins** (the converse direction): whatever string the request-side
lexer accepts is `scheme://host[:port]` of the origin it returns, with the host verbatim or in brackets
and the port the decimal numeral of a number 1-65535. A string that is not a serialised origin is therefore
never treated like one (this is the predicate the `parse` judge of the checks applies to the real lexer). -/
theorem C13_parse_sound {s : Bytes} {o : Origin} (h : Lex.parse s = some o) :
    ∃ hostStr portS, s = o.scheme ++ [58, 47, 47] ++ hostStr ++ portS ∧
      (hostStr = o.host.value ∨ hostStr = 91 :: o.host.value ++ [93]) ∧
      ((portS = [] ∧ o.port = 0) ∨ (portS = 58 :: Bytes.itoa o.port ∧ 1 ≤ o.port ∧ o.port ≤ 65535)) :=
  parse_serialised h


/-- The port a documented port part stands for (`0` = absent, `wildcardPort` = `:*`). -/
def docPortValue : Spec.DocPort → Nat
  | .absent => 0
  | .num ds => Spec.portValue ds
  | .any => Facts.origins_wildcardPort

open Spec Accept in
/-- **C13 (acceptance, IPv6 hosts, no oracle).** Take any IPv6 address that is not IPv4-mapped — eight
16-bit fields `gs` — and write it in its canonical text `Net.render6 gs` (RFC 5952: lower-case hex, no
leading zeros, the first longest run of two or more zero fields compressed to `::`). The pattern
`scheme://[text][:port]` with a documented scheme other than `https` and a documented port is accepted
(IDNA and public-suffix answers play no role), with the text as host value, as a loopback pattern exactly
for `::1`. The address library is the model of `net/netip` (Model/Net.lean) that the driver uses and
cross-checks; `Net.fields_render` (parsing the canonical text gives the address back) is what makes the
statement unconditional. -/
theorem C13_accept_ipv6_canonical (idna etld : Bytes → Bool) (scheme : Bytes) (port : DocPort) (gs : List Nat)
    (hlen : gs.length = 8) (hlt : ∀ g ∈ gs, g < 65536) (h4 : Net.is4in6 gs = false)
    (hs : docScheme scheme = true) (hnh : scheme ≠ Spec.b "https") (hp : docPortOK port = true)
    (hdef : ({ scheme := scheme, lit := Net.render6 gs, port := port } : DocV6).isDefaultPort = false) :
    parsePattern (Net.std idna etld) ({ scheme := scheme, lit := Net.render6 gs, port := port } : DocV6).render = .ok
      { scheme := scheme, value := Net.render6 gs,
        kind := if gs == [0, 0, 0, 0, 0, 0, 0, 1] then Kind.loopbackIP else Kind.nonLoopbackIP,
        port := docPortValue port } := by
  have htext := Net.render6_text gs hlt hlen
  have hno93 : (Net.render6 gs).contains 93 = false := by
    cases hc : (Net.render6 gs).contains 93 with
    | false => rfl
    | true => exact absurd rfl (Net.textByte_ne (htext 93 (List.contains_iff_mem.mp hc))).2.2.1
  have hok : ({ scheme := scheme, lit := Net.render6 gs, port := port } : DocV6).ok = true := by
    simp only [DocV6.ok, hs, hp, hdef, hno93, Bool.true_and, Bool.and_true, Bool.not_false, bne_iff_ne, ne_eq,
      Bool.and_eq_true, decide_eq_true_eq]
    exact ⟨hnh, Net.render6_len gs hlen hlt⟩
  have hmark : firstIPMark (Net.render6 gs) = some 58 :=
    Net.firstIPMark_colon _ (fun b hb => ⟨(Net.textByte_ne (htext b hb)).2.1, (Net.textByte_ne (htext b hb)).1⟩)
      (Net.render6_has_colon gs hlen hlt)
  have := C13_accept_ipv6 (Net.std idna etld) { scheme := scheme, lit := Net.render6 gs, port := port } hok
    { canon := Net.render6 gs, zone := false, is4in6 := false, loopback := gs == [0, 0, 0, 0, 0, 0, 0, 1] }
    hmark (Net.ip6_render gs hlen hlt h4) rfl rfl rfl
  rw [this]
  cases port <;> rfl

/-- Non-vacuity: `2001:db8::1` is the canonical text of an address that is not IPv4-mapped. -/
example : Net.render6 [0x2001, 0xdb8, 0, 0, 0, 0, 0, 1] = Spec.b "2001:db8::1" ∧ Net.is4in6 [0x2001, 0xdb8, 0, 0, 0, 0, 0, 1] = false := by decide

/-- **C13 (accepted IPv6 hosts are canonical texts, no oracle).** The converse of
`C13_accept_ipv6_canonical`: whenever a pattern with an IPv6 host is accepted (address library = the model of
`net/netip`), the host is the canonical text `Net.render6 gs` of the address `gs` it parses to, and that
address is not IPv4-mapped (zoned literals do not even reach this point). Together: the accepted IPv6 hosts
are exactly the canonical texts of the addresses that are not IPv4-mapped. -/
theorem C13_accepted_ipv6_form (idna etld : Bytes → Bool) (s : Bytes) (p : Pattern)
    (h : parsePattern (Net.std idna etld) s = .ok p)
    (hk : p.kind = .loopbackIP ∨ p.kind = .nonLoopbackIP) (h6 : firstIPMark p.value = some 58) :
    ∃ gs, Net.fields p.value = some gs ∧ Net.is4in6 gs = false ∧ p.value = Net.render6 gs := by
  obtain ⟨info, hi, hz, h4, hc⟩ := C13_reject_ipv6_defects (Net.std idna etld) s p h hk h6
  have hi' : Net.ip6 p.value = some info := hi
  unfold Net.ip6 at hi'
  cases hcut : Bytes.cutAt 37 p.value with
  | some r =>
    obtain ⟨before, after⟩ := r
    simp only [hcut] at hi'
    split at hi'
    · cases hi'
    · cases hf : Net.fields before with
      | none => simp [hf] at hi'
      | some gs =>
        simp only [hf, Option.some.injEq] at hi'
        rw [← hi'] at hz
        simp at hz
  | none =>
    simp only [hcut] at hi'
    cases hf : Net.fields p.value with
    | none => simp [hf] at hi'
    | some gs =>
      simp only [hf] at hi'
      have hne : ((none : Option Bytes) == some []) = false := by decide
      simp only [hne, Bool.false_eq_true, if_false, Option.some.injEq] at hi'
      refine ⟨gs, rfl, ?_, ?_⟩
      · rw [← hi'] at h4; exact h4
      · rw [← hi'] at hc h4
        simp only [] at hc h4
        rw [h4] at hc
        simp only [Bool.false_eq_true, if_false] at hc
        exact hc.symm

/-- **The IPv6 hypothesis of the tree theorems, discharged.** `C01_config`, `C06_roundtrip`, `C15_full` … assume that
the IPv6 oracle accepts no text starting with `*`. The driver answers IPv6 questions with the model of
`net/netip` (`Net.ip6`, Model/Net.lean, cross-checked against the library on every host the harness reports),
and for that model the hypothesis is a theorem. -/
theorem C13_netip_hext (ext : Ext) (he : ext.ip6 = Net.ip6) :
    ∀ h info, ext.ip6 h = some info → h.head? ≠ some 42 := by
  intro h info hi
  rw [he] at hi
  exact Net.ip6_no_star h info hi

/-- Tests of the `net/netip` model (evaluated, not theorems): canonical forms, zone, IPv4-mapped, loopback. -/
example : (Net.ip6 (Spec.b "2001:db8:0:0:1:0:0:1")).map (·.canon) = some (Spec.b "2001:db8::1:0:0:1") := by decide
example : (Net.ip6 (Spec.b "::1")).map (·.loopback) = some true := by decide
example : (Net.ip6 (Spec.b "::ffff:1.2.3.4")).map (·.is4in6) = some true := by decide
example : (Net.ip6 (Spec.b "fe80::1%eth0")).map (·.zone) = some true := by decide
example : Net.ip6 (Spec.b "1:2:3:4:5:6:7:8:9") = none := by decide
example : Net.ip6 (Spec.b "1::2::3") = none := by decide

#print axioms C13_accept
#print axioms C13_accept_self
#print axioms C13_accept_idna
#print axioms C13_accept_ipv4
#print axioms C13_accept_ipv6
#print axioms C13_accepted_form
#print axioms C13_reject_ipv6_defects
#print axioms C13_reject_bad_host_byte
#print axioms C13_constants
#print axioms C13_alphabets
#print axioms C13_self
#print axioms C13_accepted_shape
#print axioms C13_reject_null
#print axioms C13_reject_star
#print axioms C13_reject_file
#print axioms C13_reject_no_sep
#print axioms C13_reject_bad_first_byte
#print axioms C13_parse_sound
#print axioms C13_netip_hext
#print axioms C13_accept_ipv6_canonical
#print axioms C13_accepted_ipv6_form


/-- **C13 (translated origin loop).** One iteration of the `for _, raw := range patterns` loop of `validateOrigins` — the `*`
incompatibilities, `origins.ParsePattern` and its error, the insecure-origin and public-suffix guards with their tolerance
switches (each reported, in the code's order, none skipping another), `tree.Insert` — is translated from /repo's config.go on
every run and equals `Validate.originStep` for every loop state and element (whatever the IDNA / public-suffix oracles
answer); hence the fold over any list of patterns is the model's. -/
theorem C13_originLoop_translated (ext : Ext) (credentialed pnaAny tolInsecure tolPSL : Bool) (patterns : List Bytes) :
    patterns.foldl (Gen.GoSrc.originStep ext credentialed pnaAny tolInsecure tolPSL) {} =
      patterns.foldl (Validate.originStep ext credentialed pnaAny tolInsecure tolPSL) {} :=
  Translated.originLoop_eq ext credentialed pnaAny tolInsecure tolPSL patterns

#print axioms C13_originLoop_translated

end Cors
