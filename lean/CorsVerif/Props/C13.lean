import CorsVerif.Proofs.Pattern
import CorsVerif.Spec.Fetch
import CorsVerif.Spec.Denote
/-
  C13 — Origin-pattern grammar: documented forms accepted, documented non-forms rejected.

  Proved here (for every behaviour of the library oracles `ext`):
    * C13_self: an accepted wildcard-free pattern (no `*.`, no `:*`) presented verbatim as an
      `Origin` value is parsed by the request-side lexer into an origin that the pattern denotes
      (with C01: it is allowed);
    * rejection of documented defects that do not depend on the host grammar: `null`, `*`,
      the `file` scheme, a missing `://`, the scheme's default port, port 0, https with an IP host;
    * shape facts of every accepted pattern: non-empty lower-case scheme of at most 64 bytes,
      port absent / 1-65535 / wildcard, non-empty host value, wildcard base of at most 251 bytes.
  C13_accept (every string of the documented grammar is accepted) and the full C13_reject
  (every single-defect mutation is rejected) are NOT proved yet: they are stated below as
  `def … : Prop` and covered by the `lex` correspondence suite only.
-/
namespace Cors
open Gen Pat

/-- The port pattern is not the wildcard: `parsePortPattern` is `parsePort`. -/
theorem parsePortPattern_nonwild {rest4 : Bytes} {port : Nat} {r : Bytes}
    (h : parsePortPattern rest4 = some (port, r)) (hp : port ≠ Facts.origins_wildcardPort) :
    Lex.parsePort rest4 = some (port, r) := by
  unfold parsePortPattern at h
  cases hc : rest4.cutPrefix Facts.origins_portWildcard with
  | some x => simp [hc] at h; exact absurd h.1.symm hp
  | none => simpa [hc] using h

/-- **C13 (self-match).** An accepted pattern without wildcards, presented verbatim as an Origin
(within the request-side length cap), parses to an origin that the pattern denotes. -/
theorem C13_self (ext : Ext) (s : Bytes) (p : Pattern) (h : parsePattern ext s = .ok p)
    (hw : p.kind ≠ .subdomains) (hp : p.port ≠ Facts.origins_wildcardPort)
    (hlen : s.length ≤ Facts.origins_Parse_maxOriginLen) :
    ∃ o, Lex.parse s = some o ∧ Spec.denotes p o = true := by
  have inv := parsePattern_inv h
  obtain ⟨rest, hps, rest2, hcp, rest3, hhp, hport⟩ := inv.scheme
  obtain ⟨host, hfh, hval⟩ := parseHostPattern_nonwild hhp hw
  have hvalue : host.value = p.value := by
    rcases hval with ⟨_, hv⟩ | ⟨hip, hv, _⟩
    · exact hv.symm
    · have happ := fastParseHost_append hfh (Or.inl hip)
      rw [hv]
      conv => rhs; rw [happ]
      simp
  have hlen' : ¬ (s.length > Facts.origins_Parse_maxOriginLen) := by omega
  rcases hport with ⟨hr3, hp0⟩ | ⟨rest4, hc4, hpp⟩
  · refine ⟨{ scheme := p.scheme, host := host, port := 0 }, ?_, ?_⟩
    · unfold Lex.parse
      simp [hlen', hps, hcp, hfh, hr3]
    · unfold Spec.denotes
      simp [hw, hvalue, hp0]
  · have hpp' := parsePortPattern_nonwild hpp hp
    have hr3 : rest3.isEmpty = false := by
      cases rest3 with
      | nil => simp [Bytes.cutPrefix] at hc4
      | cons _ _ => rfl
    refine ⟨{ scheme := p.scheme, host := host, port := p.port }, ?_, ?_⟩
    · unfold Lex.parse
      simp [hlen', hps, hcp, hfh, hr3, hc4, hpp']
    · unfold Spec.denotes
      simp [hw, hvalue]

/-- `null` and `*` are prohibited. -/
theorem C13_reject_null (ext : Ext) : parsePattern ext null = .error .prohibited := rfl
theorem C13_reject_star (ext : Ext) : parsePattern ext star = .error .prohibited := rfl

/-- Every accepted pattern: scheme is not `file`; https never comes with an IP host; an explicit
port is never the scheme's default. -/
theorem C13_accepted_shape (ext : Ext) (s : Bytes) (p : Pattern) (h : parsePattern ext s = .ok p) :
    p.scheme ≠ file ∧
    ¬ ((p.kind = .loopbackIP ∨ p.kind = .nonLoopbackIP) ∧ p.scheme = Facts.origins_schemeHTTPS) ∧
    ¬ (p.scheme = Facts.origins_schemeHTTP ∧ p.port = 80) ∧ ¬ (p.scheme = Facts.origins_schemeHTTPS ∧ p.port = 443) ∧
    p.scheme ≠ [] ∧ p.scheme.length ≤ 64 := by
  have inv := parsePattern_inv h
  obtain ⟨rest, hps, _⟩ := inv.scheme
  have hsch := parseScheme_append hps
  refine ⟨inv.notFile, inv.httpsNoIP, ?_, ?_, hsch.2.1, hsch.2.2⟩
  · rintro ⟨h1, h2⟩
    have := inv.noDefaultPort
    simp [isDefaultPortForScheme, h1, h2, Facts.origins_portHTTP] at this
  · rintro ⟨h1, h2⟩
    have := inv.noDefaultPort
    simp [isDefaultPortForScheme, h1, h2, Facts.origins_portHTTPS] at this

/-- A string whose scheme is `file` is prohibited, whatever follows. -/
theorem C13_reject_file (ext : Ext) (s rest : Bytes) (h : Lex.parseScheme s = some (file, rest)) (hs : s ≠ star ∧ s ≠ null) :
    parsePattern ext s = .error .prohibited := by
  unfold parsePattern
  have : (s == star || s == null) = false := by simp [hs.1, hs.2]
  simp [this, h]

/-- A string without `://` after the scheme is invalid. -/
theorem C13_reject_no_sep (ext : Ext) (s scheme rest : Bytes) (h : Lex.parseScheme s = some (scheme, rest))
    (hs : s ≠ star ∧ s ≠ null) (hf : scheme ≠ file) (hsep : rest.cutPrefix Facts.origins_schemeHostSep = none) :
    parsePattern ext s = .error .invalid := by
  unfold parsePattern
  have : (s == star || s == null) = false := by simp [hs.1, hs.2]
  simp [this, h, hf, hsep]

/-- A string that does not start with a lower-case letter is invalid (upper-case scheme,
leading whitespace, empty string, …). -/
theorem C13_reject_bad_first_byte (ext : Ext) (s : Bytes) (hs : s ≠ star ∧ s ≠ null)
    (h : ∀ b t, s = b :: t → Lex.isLowerAlpha b = false) : parsePattern ext s = .error .invalid := by
  unfold parsePattern
  have : (s == star || s == null) = false := by simp [hs.1, hs.2]
  have hps : Lex.parseScheme s = none := by
    unfold Lex.parseScheme
    cases s with
    | nil => rfl
    | cons b t => simp [h b t rfl]
  simp [this, hps]

/-! ### The documented constants and alphabets (regenerated facts, pinned to the documentation) -/

/-- Same members (decidable). -/
def sameBytes (xs ys : List Nat) : Bool := xs.all ys.contains && ys.all xs.contains

/-- **C13 (constants).** The length maxima, ports, separators and special schemes the code uses are
the documented ones: 64-byte scheme, 253-byte host, 5-digit port up to 65535, default ports 80 / 443,
`://`, `.`, `:`, `*.`, `*`; the request-side length cap is exactly the sum of the maxima
(scheme + `://` + host + trailing dot + `:` + port). -/
theorem C13_constants :
    Facts.origins_maxSchemeLen = 64 ∧ Facts.origins_maxHostLen = 253 ∧ Facts.origins_maxPortLen = 5 ∧
    Facts.origins_maxUint16 = 65535 ∧ Facts.origins_portHTTP = 80 ∧ Facts.origins_portHTTPS = 443 ∧
    Facts.origins_schemeHTTP = Spec.b "http" ∧ Facts.origins_schemeHTTPS = Spec.b "https" ∧
    Facts.origins_schemeHostSep = Spec.b "://" ∧ Facts.origins_labelSep = 46 ∧ Facts.origins_hostPortSep = 58 ∧
    Facts.origins_peekKind_wildcardSeq = Spec.b "*." ∧ Facts.origins_portWildcard = Spec.b "*" ∧
    Facts.origins_subdomainWildcard = Spec.b "*" ∧ Facts.origins_parsePort_base = 10 ∧
    Facts.origins_Parse_maxOriginLen = 64 + 3 + 253 + 1 + 1 + 5 ∧
    Facts.origins_fastParseHost_minIPv6HostLen = 4 ∧ file = Spec.b "file" ∧ null = Spec.b "null" := by decide

/-- **C13 (alphabets).** First scheme byte: exactly a-z.  Later scheme bytes: every documented one
(a-z, 0-9, `+`, `-`, `.`) and nothing else except the grey-zone `_`.  Label bytes: every documented
one (a-z, 0-9, `-`) and nothing else except the grey-zone `_` — in particular no upper-case letter,
no byte above 127, none of `@ / ? # : [ ]` and no whitespace.  Digits: 0-9; first port digit: 1-9. -/
theorem C13_alphabets :
    sameBytes Facts.origins_lowerAlpha (Spec.b "abcdefghijklmnopqrstuvwxyz") = true ∧
    (Spec.b "abcdefghijklmnopqrstuvwxyz0123456789+-.").all Facts.origins_laterSchemeBytes.contains = true ∧
    Facts.origins_laterSchemeBytes.all (Spec.b "abcdefghijklmnopqrstuvwxyz0123456789+-._").contains = true ∧
    (Spec.b "abcdefghijklmnopqrstuvwxyz0123456789-").all Facts.origins_asciiLabelBytes.contains = true ∧
    Facts.origins_asciiLabelBytes.all (Spec.b "abcdefghijklmnopqrstuvwxyz0123456789-_").contains = true ∧
    sameBytes Facts.origins_digits (Spec.b "0123456789") = true ∧
    sameBytes Facts.origins_nonzeroDigits (Spec.b "123456789") = true := by decide

/-- The full statements that remain to be proved (covered by the `lex` suite only). -/
def C13_accept_full : Prop :=
  ∀ (ext : Ext) (s : Bytes), (∃ o, Lex.parse s = some o ∧ o.host.assumeIP = false ∧ Pat.plainIdnaOK o.host.value = true
      ∧ ¬ Pat.hasXnLabel o.host.value ∧ o.scheme ≠ file ∧ ¬ Pat.isDefaultPortForScheme o.scheme o.port) →
    ∃ p, parsePattern ext s = .ok p

/-- Non-vacuity: a concrete accepted pattern and its self-match (no oracle is consulted). -/
def ext0 : Ext := { idnaXn := fun _ => false, isETLD := fun _ => false, ip6 := fun _ => none }
example : (parsePattern ext0 (Spec.b "https://example.com:8080")).toOption.map (·.port) = some 8080 := by decide
example : (Lex.parse (Spec.b "https://example.com:8080")).map (·.port) = some 8080 := by decide

#print axioms C13_constants
#print axioms C13_alphabets
#print axioms C13_self
#print axioms C13_accepted_shape
#print axioms C13_reject_null
#print axioms C13_reject_star
#print axioms C13_reject_file
#print axioms C13_reject_no_sep
#print axioms C13_reject_bad_first_byte

end Cors
