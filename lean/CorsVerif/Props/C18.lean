import CorsVerif.Spec.Fetch
import CorsVerif.Spec.Basic
/-
  C18 — Per-request allocations do not grow with attacker-controlled sizes.  (PARTIAL)

  Whether Go code allocates is decided by the compiler's escape analysis and the runtime; no
  executable model can exhibit that.  What the model can carry is a *cost semantics*: the number
  of allocating header primitives (`Header.Add`, `Header.Set`, `append` to the Vary slice) the
  handler executes.  In the model every scanner (origin lexer, tree lookup, ACRH check, `First`)
  returns sub-views of its input and is cost-free by construction, so the count cannot depend on
  any size.  Two obligations are regenerated from the source on every run:
    * no allocating construct (append / make / new / string concatenation / []byte or string
      conversion / composite or function literal) occurs lexically inside a `for` loop of any
      function on the request path;
    * every call inside such a loop is to a function of a fixed allow-list of non-allocating
      helpers (each of which is itself in the scanned set, or a slice/strings primitive).
  The decisive tie is measurement (`allocs` suite: testing.AllocsPerRun per family of requests at
  sizes 1 B … 1 MiB / 1 … 100 000 elements; the count must not grow and must stay ≤ 8).
-/
namespace Cors
open Gen Serve Spec

namespace Cost

/-- Allocating primitives executed by `handleNonCORS`. -/
def handleNonCORS (icfg : ICfg) (isOPTIONS : Bool) : Nat :=
  (if isOPTIONS then 1 else 0) +
  (if icfg.pnaNoCors then 0
   else if !icfg.tree.isEmpty then (if !isOPTIONS then 1 else 0)
   else 1 + (if !icfg.aceh.isEmpty then 1 else 0))

/-- Allocating primitives executed by `handleCORSActual`. -/
def handleCORSActual (dec : Dec) (icfg : ICfg) (origin : Bytes) (isOPTIONS : Bool) : Nat :=
  if icfg.pnaNoCors then (if isOPTIONS then 1 else 0)
  else
    (if isOPTIONS then 1 else if !icfg.tree.isEmpty then 1 else 0) +
    (if !icfg.credentialed && icfg.tree.isEmpty then 1 + (if !icfg.aceh.isEmpty then 1 else 0)
     else if !dec.allowed origin then 0
     else (if icfg.credentialed then 1 else 0) + (if !icfg.aceh.isEmpty then 1 else 0))

/-- Allocating primitives executed by `handleCORSPreflight`: at most the `append` on the slow
Vary path; every other install is a pre-built singleton, a request slice or a configuration slice. -/
def handleCORSPreflight (pre : HdrMap) : Nat := match pre Facts.headers_Vary with
  | none => 0
  | some _ => 1

/-- The cost of one request. -/
def serve (dec : Dec) (icfg : ICfg) (r : Req) (pre : HdrMap) : Nat :=
  let isOPTIONS := r.method == OPTIONS
  match r.hdrs.first Facts.headers_Origin with
  | none => handleNonCORS icfg isOPTIONS
  | some origin =>
    match r.hdrs.first Facts.headers_ACRM with
    | some _ => if isOPTIONS then handleCORSPreflight pre else handleCORSActual dec icfg origin isOPTIONS
    | none => handleCORSActual dec icfg origin isOPTIONS

def K : Nat := 4

end Cost

/-- **C18 (cost model).** Whatever the configuration and the request — any lengths, any number of
field lines or list elements — the handler executes at most `K = 4` allocating primitives. -/
theorem C18_bound (dec : Dec) (icfg : ICfg) (r : Req) (pre : HdrMap) : Cost.serve dec icfg r pre ≤ Cost.K := by
  unfold Cost.serve Cost.K
  simp only []
  cases r.hdrs.first Facts.headers_Origin with
  | none =>
    simp only [Cost.handleNonCORS]
    cases (r.method == OPTIONS) <;> cases icfg.pnaNoCors <;> cases icfg.tree.isEmpty <;> cases icfg.aceh.isEmpty <;> simp
  | some o =>
    have hA : ∀ b, Cost.handleCORSActual dec icfg o b ≤ 4 := by
      intro b
      simp only [Cost.handleCORSActual]
      cases b <;> cases icfg.pnaNoCors <;> cases icfg.tree.isEmpty <;> cases icfg.aceh.isEmpty <;>
        cases icfg.credentialed <;> cases dec.allowed o <;> simp
    have hP : Cost.handleCORSPreflight pre ≤ 4 := by
      unfold Cost.handleCORSPreflight; cases pre Facts.headers_Vary <;> simp
    cases r.hdrs.first Facts.headers_ACRM with
    | none => exact hA _
    | some a =>
      simp only []
      split
      · exact hP
      · exact hA _

/-- Callees allowed inside loops on the request path: the scanners themselves and slice/string
primitives, none of which allocates. -/
def loopCalleeAllowlist : List Bytes :=
  [b "TrimOWS", b "cutAtComma", b "set.IndexAfter", b "isOWS", b "len", b "lastByte", b "n.contains",
   b "slices.BinarySearch", b "splitAtCommonSuffix", b "isASCIILabelByte", b "isDigit", b "intFromDigit",
   b "isSubsequentSchemeByte", b "min", b "strings.IndexByte"]

/-- **C18 (loops, regenerated).** No allocating construct inside a loop of the request path … -/
theorem C18_no_alloc_in_loops :
    Facts.cors_requestPathLoops.all (fun row => row[1]? != some (b "alloc")) = true := by decide

/-- … and every call inside such a loop goes to the allow-list. -/
theorem C18_loop_callees :
    Facts.cors_requestPathLoops.all (fun row => row[1]? != some (b "call") ||
      (match row[2]? with | some c => loopCalleeAllowlist.contains c | none => false)) = true := by decide

/-- The installs of the preflight path are sub-views or pre-built values (no per-request slice is
built from the configured lists): regenerated fact. -/
theorem C18_preflight_installs :
    Facts.cors_installs.all (fun row => match row with
      | [fn, _, op, cls] =>
        if fn == b "handleCORSPreflight" || fn == b "processOriginForPreflight" || fn == b "processACRPN"
            || fn == b "processACRM" || fn == b "processACRH" then
          op == b "copy" || (op == b "assign" && (cls == b "singleton" || cls == b "request" || cls == b "response"
            || cls.hasPrefix (b "config:")))
        else true
      | _ => false) = true := by decide

#print axioms C18_bound
#print axioms C18_no_alloc_in_loops
#print axioms C18_loop_callees
#print axioms C18_preflight_installs

end Cors
