import CorsVerif.Model.Conc
import CorsVerif.Gen.Facts
/-
  C07 — Reconfiguration is atomic and race-free under concurrent traffic.  (PARTIAL w.r.t. the Go runtime)

  Over the lock-level model (`Model/Conc.lean`): any number of threads running well-locked
  programs, any schedule, any number of steps:
    * C07_drf      no data race: when a thread is about to write a guarded field, no other
                   thread is about to read or write any guarded field;
    * C07_atomic   at the instant a reader leaves its critical section, everything it has read
                   in that section equals the shared state at that instant, and no writer is
                   inside a critical section then — so the (configuration, debug) pair a request
                   works with is one single state that was current during the call;
    * C07_facts    the programs regenerated from middleware.go on every run (Wrap's handler,
                   Reconfigure, SetDebug, Config, NewMiddleware) are well-locked, open one
                   critical section each, and are the only functions touching the guarded
                   fields; the request path never writes through the configuration.
  What the theorems cannot carry: that sync.RWMutex implements this lock semantics, that Go's
  memory model makes lock-ordered accesses race-free, that the extracted instruction lists are
  what the compiled code does.  Tie: history suite + deterministic schedule-point harness
  (reconfiguration from inside Header()/WriteHeader()/the wrapped handler) + `-race` stress (thorough).
-/
namespace Cors
open Gen Conc

theorem upd_same {α : Type} (f : Nat → α) (i : Nat) (a : α) : upd f i a i = a := by simp [upd]
theorem upd_other {α : Type} (f : Nat → α) (i j : Nat) (a : α) (h : j ≠ i) : upd f i a j = f j := by simp [upd, h]

theorem inv_init (s : State) (h : Init s) : Inv s where
  wl i := by rw [(h i).1]; exact (h i).2
  excl i j hi _ := by rw [(h i).1] at hi; cases hi
  snap i hi := by rw [(h i).1] at hi; cases hi

/-- Head instruction and mode are compatible with well-lockedness. -/
theorem wl_head_write {m : Mode} {f : Field} {p : List Instr} (h : wellLocked m (.write f :: p) = true) :
    m = .writing ∧ wellLocked .writing p = true := by
  cases m <;> simp [wellLocked] at h ⊢; exact h

theorem wl_head_read {m : Mode} {f : Field} {p : List Instr} (h : wellLocked m (.read f :: p) = true) :
    (m = .reading ∨ m = .writing) ∧ wellLocked m p = true := by
  cases m <;> simp [wellLocked] at h ⊢ <;> exact h

theorem wl_head_out_access {i : Instr} {p : List Instr} (h : wellLocked .out (i :: p) = true) :
    (∀ f, i ≠ .read f) ∧ (∀ f, i ≠ .write f) := by
  cases i <;> simp [wellLocked] at h ⊢

/-- The invariant is preserved by every step. -/
theorem inv_step {s t : State} (hs : Inv s) (h : Step s t) : Inv t := by
  cases h with
  | rlock i p hp hen =>
    have hwl := hs.wl i
    rw [hp] at hwl
    have hm : (s.ts i).mode = .out := by
      cases hmode : (s.ts i).mode <;> rw [hmode] at hwl <;> simp [wellLocked] at hwl ⊢
    refine ⟨fun j => ?_, fun a b ha hb => ?_, fun j hj f v hv => ?_⟩ <;> dsimp only at *
    · by_cases hji : j = i
      · subst hji; rw [upd_same]; rw [hm] at hwl; simpa [wellLocked] using hwl
      · rw [upd_other _ _ _ _ hji]; exact hs.wl j
    · by_cases hai : a = i
      · subst hai; rw [upd_same] at ha; cases ha
      · rw [upd_other _ _ _ _ hai] at ha; exact absurd ha (hen a)
    · by_cases hji : j = i
      · subst hji; rw [upd_same] at hv; cases hv
      · rw [upd_other _ _ _ _ hji] at hj hv; exact hs.snap j hj f v hv
  | runlock i p hp =>
    have hwl := hs.wl i
    rw [hp] at hwl
    have hm : (s.ts i).mode = .reading := by
      cases hmode : (s.ts i).mode <;> rw [hmode] at hwl <;> simp [wellLocked] at hwl ⊢
    refine ⟨fun j => ?_, fun a b ha hb => ?_, fun j hj f v hv => ?_⟩ <;> dsimp only at *
    · by_cases hji : j = i
      · subst hji; rw [upd_same]; rw [hm] at hwl; simpa [wellLocked] using hwl
      · rw [upd_other _ _ _ _ hji]; exact hs.wl j
    · by_cases hai : a = i
      · subst hai; rw [upd_same] at ha; cases ha
      · rw [upd_other _ _ _ _ hai] at ha
        by_cases hbi : b = i
        · subst hbi; rw [upd_same]
        · rw [upd_other _ _ _ _ hbi]; exact hs.excl a b ha hb
    · by_cases hji : j = i
      · subst hji; rw [upd_same] at hj; cases hj
      · rw [upd_other _ _ _ _ hji] at hj hv; exact hs.snap j hj f v hv
  | lock i p hp hen =>
    have hwl := hs.wl i
    rw [hp, hen i] at hwl
    refine ⟨fun j => ?_, fun a b ha hb => ?_, fun j hj f v hv => ?_⟩ <;> dsimp only at *
    · by_cases hji : j = i
      · subst hji; rw [upd_same]; simpa [wellLocked] using hwl
      · rw [upd_other _ _ _ _ hji]; exact hs.wl j
    · by_cases hai : a = i
      · subst hai; rw [upd_other _ _ _ _ hb]; exact hen b
      · rw [upd_other _ _ _ _ hai, hen a] at ha; cases ha
    · by_cases hji : j = i
      · subst hji; rw [upd_same] at hj; cases hj
      · rw [upd_other _ _ _ _ hji, hen j] at hj; cases hj
  | unlock i p hp =>
    have hwl := hs.wl i
    rw [hp] at hwl
    have hm : (s.ts i).mode = .writing := by
      cases hmode : (s.ts i).mode <;> rw [hmode] at hwl <;> simp [wellLocked] at hwl ⊢
    refine ⟨fun j => ?_, fun a b ha hb => ?_, fun j hj f v hv => ?_⟩ <;> dsimp only at *
    · by_cases hji : j = i
      · subst hji; rw [upd_same]; rw [hm] at hwl; simpa [wellLocked] using hwl
      · rw [upd_other _ _ _ _ hji]; exact hs.wl j
    · by_cases hai : a = i
      · subst hai; rw [upd_same] at ha; cases ha
      · rw [upd_other _ _ _ _ hai] at ha
        by_cases hbi : b = i
        · subst hbi; rw [upd_same]
        · rw [upd_other _ _ _ _ hbi]; exact hs.excl a b ha hb
    · by_cases hji : j = i
      · subst hji; rw [upd_same] at hj; cases hj
      · rw [upd_other _ _ _ _ hji] at hj hv; exact hs.snap j hj f v hv
  | read i f p hp =>
    have hwl := hs.wl i
    rw [hp] at hwl
    obtain ⟨_, hwl'⟩ := wl_head_read hwl
    refine ⟨fun j => ?_, fun a b ha hb => ?_, fun j hj g v hv => ?_⟩ <;> dsimp only at *
    · by_cases hji : j = i
      · subst hji; rw [upd_same]; exact hwl'
      · rw [upd_other _ _ _ _ hji]; exact hs.wl j
    · by_cases hai : a = i
      · subst hai; rw [upd_same] at ha
        rw [upd_other _ _ _ _ hb]; exact hs.excl a b ha hb
      · rw [upd_other _ _ _ _ hai] at ha
        by_cases hbi : b = i
        · subst hbi; rw [upd_same]; exact hs.excl a _ ha hb
        · rw [upd_other _ _ _ _ hbi]; exact hs.excl a b ha hb
    · by_cases hji : j = i
      · subst hji
        rw [upd_same] at hj hv
        simp only [updS] at hv
        by_cases hgf : g = f
        · subst hgf; simp at hv; exact hv.symm
        · simp only [hgf, if_false] at hv; exact hs.snap j hj g v hv
      · rw [upd_other _ _ _ _ hji] at hj hv; exact hs.snap j hj g v hv
  | write i f v p hp =>
    have hwl := hs.wl i
    rw [hp] at hwl
    obtain ⟨hm, hwl'⟩ := wl_head_write hwl
    refine ⟨fun j => ?_, fun a b ha hb => ?_, fun j hj g w hw => ?_⟩ <;> dsimp only at *
    · by_cases hji : j = i
      · subst hji; rw [upd_same]; simp only []; rw [hm]; exact hwl'
      · rw [upd_other _ _ _ _ hji]; exact hs.wl j
    · by_cases hai : a = i
      · subst hai; rw [upd_same] at ha
        rw [upd_other _ _ _ _ hb]; exact hs.excl a b ha hb
      · rw [upd_other _ _ _ _ hai] at ha
        by_cases hbi : b = i
        · subst hbi; rw [upd_same]; exact hs.excl a _ ha hb
        · rw [upd_other _ _ _ _ hbi]; exact hs.excl a b ha hb
    · -- nobody else is inside a region while `i` writes
      by_cases hji : j = i
      · subst hji; rw [upd_same] at hj; simp only [] at hj; rw [hm] at hj; cases hj
      · rw [upd_other _ _ _ _ hji] at hj
        have := hs.excl i j hm hji
        rw [this] at hj; cases hj
  | skip i p hp =>
    have hwl := hs.wl i
    rw [hp] at hwl
    have hwl' : wellLocked (s.ts i).mode p = true := by
      cases hmode : (s.ts i).mode <;> rw [hmode] at hwl <;> simpa [wellLocked] using hwl
    refine ⟨fun j => ?_, fun a b ha hb => ?_, fun j hj g v hv => ?_⟩ <;> dsimp only at *
    · by_cases hji : j = i
      · subst hji; rw [upd_same]; exact hwl'
      · rw [upd_other _ _ _ _ hji]; exact hs.wl j
    · by_cases hai : a = i
      · subst hai; rw [upd_same] at ha
        rw [upd_other _ _ _ _ hb]; exact hs.excl a b ha hb
      · rw [upd_other _ _ _ _ hai] at ha
        by_cases hbi : b = i
        · subst hbi; rw [upd_same]; exact hs.excl a _ ha hb
        · rw [upd_other _ _ _ _ hbi]; exact hs.excl a b ha hb
    · by_cases hji : j = i
      · subst hji; rw [upd_same] at hj hv; exact hs.snap j hj g v hv
      · rw [upd_other _ _ _ _ hji] at hj hv; exact hs.snap j hj g v hv

/-- Every state reachable from an initial state, by any schedule, satisfies the invariant. -/
theorem inv_reachable {s t : State} (hi : Init s) (h : Steps s t) : Inv t := by
  induction h with
  | refl => exact inv_init _ hi
  | tail _ hstep ih => exact inv_step ih hstep

/-- **C07 (data-race freedom).** In every reachable state, if some thread's next instruction
writes a guarded field, no other thread's next instruction reads or writes a guarded field. -/
theorem C07_drf {s t : State} (hi : Init s) (h : Steps s t) (i j : Nat) (hij : j ≠ i)
    (f : Field) (p : List Instr) (hw : (t.ts i).prog = .write f :: p) :
    ∀ g q, (t.ts j).prog ≠ .read g :: q ∧ (t.ts j).prog ≠ .write g :: q := by
  have hinv := inv_reachable hi h
  have hwl := hinv.wl i
  rw [hw] at hwl
  obtain ⟨hm, _⟩ := wl_head_write hwl
  have hj := hinv.excl i j hm hij
  have hwlj := hinv.wl j
  rw [hj] at hwlj
  intro g q
  constructor
  · intro hr; rw [hr] at hwlj; exact (wl_head_out_access hwlj).1 g rfl
  · intro hr; rw [hr] at hwlj; exact (wl_head_out_access hwlj).2 g rfl

/-- **C07 (atomic snapshot).** In every reachable state, a thread that is about to leave its read
region has, for every field it read in that region, exactly the current shared value; and at that
instant no thread is inside a write region. -/
theorem C07_atomic {s t : State} (hi : Init s) (h : Steps s t) (i : Nat) (p : List Instr)
    (hr : (t.ts i).prog = .runlock :: p) :
    (∀ f v, (t.ts i).seen f = some v → v = t.val f) ∧ (∀ j, (t.ts j).mode ≠ .writing) := by
  have hinv := inv_reachable hi h
  have hwl := hinv.wl i
  rw [hr] at hwl
  have hm : (t.ts i).mode = .reading := by
    cases hmode : (t.ts i).mode <;> rw [hmode] at hwl <;> simp [wellLocked] at hwl ⊢
  refine ⟨hinv.snap i hm, fun j hj => ?_⟩
  by_cases hji : i = j
  · subst hji; rw [hm] at hj; cases hj
  · have := hinv.excl j i hj hji
    rw [hm] at this; cases this

/-- The regenerated programs. -/
def progs : List (List Bytes) :=
  [Facts.cors_prog_Wrap, Facts.cors_prog_Reconfigure, Facts.cors_prog_SetDebug, Facts.cors_prog_Config, Facts.cors_prog_NewMiddleware]

/-- **C07 (facts, regenerated on every run).** Every program decodes, is well-locked from outside
any region, and opens at most one critical section. -/
theorem C07_facts :
    progs.all (fun p => match decodeProg p with
      | some is => wellLocked .out is && decide (regions is ≤ 1)
      | none => false) = true := by decide

/-- The handler returned by `Wrap` reads both guarded fields, inside its single read region. -/
theorem C07_wrap_snapshot :
    (match decodeProg Facts.cors_prog_Wrap with
      | some is => is.contains (.read .icfg) && is.contains (.read .debug) && is.contains .rlock && !is.contains .lock
      | none => false) = true := by decide

/-- No other function touches the mutex or the fields it guards. -/
theorem C07_only_these :
    Facts.cors_sharedStateFunctions =
      [Spec.b "Config", Spec.b "NewMiddleware", Spec.b "Reconfigure", Spec.b "SetDebug", Spec.b "Wrap"] := by decide

/-- Published configurations are never written on the request path. -/
theorem C07_immutable : Facts.cors_requestPathWrites = [] := by decide

/-- The functions that run before an internal configuration is published (`newInternalConfig` and
the validators it calls on the value under construction). -/
def constructionFunctions : List Bytes :=
  [Spec.b "newInternalConfig", Spec.b "validateOrigins", Spec.b "validateMethods", Spec.b "validateRequestHeaders",
   Spec.b "validateMaxAge", Spec.b "validateResponseHeaders", Spec.b "validatePreflightStatus"]

/-- **C07 (never mutated after publication).** Every statement of the package that writes into an
`internalConfig` value — an assignment to one of its fields (also through a selector or index
chain) or a mutating call on one of them — sits in a construction function; in particular neither
`Config()`/`newConfig` nor anything on the request path writes into a published configuration
(regenerated list `function|field|kind`). -/
theorem C07_published_immutable :
    Facts.cors_icfgWrites.all (fun row => constructionFunctions.contains ((Bytes.splitOn 124 row).headD [])) = true := by decide

/-- Non-vacuity: a two-thread initial state (a reader running Wrap's program, a writer running
Reconfigure's) satisfies `Init`. -/
example : ∀ pw pr, decodeProg Facts.cors_prog_Wrap = some pw → decodeProg Facts.cors_prog_Reconfigure = some pr →
    Init { val := fun _ => 0, ts := fun i => { mode := .out, prog := if i = 0 then pw else if i = 1 then pr else [], seen := fun _ => none } } := by
  intro pw pr h1 h2 i
  have e1 : decodeProg Facts.cors_prog_Wrap = some [.rlock, .read .icfg, .read .debug, .runlock, .skip] := by decide
  have e2 : decodeProg Facts.cors_prog_Reconfigure = some [.skip, .lock, .write .icfg, .read .debug, .write .debug, .unlock, .skip] := by decide
  rw [e1] at h1; rw [e2] at h2
  cases h1; cases h2
  refine ⟨rfl, ?_⟩
  by_cases h0 : i = 0
  · simp [h0]; decide
  · by_cases h1 : i = 1
    · simp [h1]; decide
    · simp [h0, h1, wellLocked]

#print axioms C07_drf
#print axioms C07_atomic
#print axioms C07_facts
#print axioms C07_wrap_snapshot
#print axioms C07_only_these
#print axioms C07_immutable
#print axioms C07_published_immutable


/-! ### Who writes through a receiver -/

/-- The methods of the library that write through their receiver (regenerated on every run: an assignment rooted at the
receiver or at a local pointer into it, or a call of such a method on something rooted at the receiver).  Audit:

  * `(*Middleware).Reconfigure`, `(*Middleware).SetDebug` — the two writers of the lock model (`C07_facts`);
  * `(*internalConfig).validate*` — run by `newInternalConfig` on a fresh value, before publication (`C07_published_immutable`);
  * `origins.(*Tree).Insert`, `origins.(*node).add`, `origins.(*node).upsertEdge`, `util.(*SortedSet).Add` — reached only from
    those validators (`cors_icfgWrites` lists the calls by field and kind).

Every other method of `origins.Tree`, `origins.node`, `util.SortedSet`, `util.Set` — `Contains`, `Elems`, `IsEmpty`, `IndexAfter`,
`ToSlice`, … — is read-only on its receiver, which is why `Config()` and the request path, which call them on the *published*
configuration outside the lock, race with nothing.  A method that starts to write (a memo filled by `Elems`, a cache in
`Contains`) changes this fact. -/
def auditedMutators : List Bytes := [
  Spec.b "cors.(*Middleware).Reconfigure",
  Spec.b "cors.(*Middleware).SetDebug",
  Spec.b "cors.(*internalConfig).validateMaxAge",
  Spec.b "cors.(*internalConfig).validateMethods",
  Spec.b "cors.(*internalConfig).validateOrigins",
  Spec.b "cors.(*internalConfig).validatePreflightStatus",
  Spec.b "cors.(*internalConfig).validateRequestHeaders",
  Spec.b "cors.(*internalConfig).validateResponseHeaders",
  Spec.b "origins.(*Tree).Insert",
  Spec.b "origins.(*node).add",
  Spec.b "origins.(*node).upsertEdge",
  Spec.b "util.(*SortedSet).Add"
]

/-- **C07 (mutators).** -/
theorem C07_mutators : Facts.cors_receiverMutators = auditedMutators := by decide +kernel

#print axioms C07_mutators

end Cors
