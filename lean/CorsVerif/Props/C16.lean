import CorsVerif.Proofs.Serve
import CorsVerif.Proofs.Translated
import CorsVerif.Proofs.Accepted
/-
  C16 — With debug off, preflight responses disclose nothing beyond what was asked.

  Intrinsic form (DESIGN.md 3d), for every decision oracle, every internal configuration, every
  preflight request and every set of response headers already present, debug off:
    * the status is the (single, regenerated) failure status or the configured success status;
    * with the failure status, no header other than Vary differs from what was there before
      (in particular the middleware adds no Access-Control-* header);
    * in every case, a header other than Vary that the middleware set carries a value list of
      admissible provenance: `*`, `true`, the configured max-age, `*,authorization` (only when the configuration
      allows all request headers and lists Authorization, without credentialed access), or a slice
      of the request itself (first Origin value, first ACRM value, the ACRH lines) — never the
      configured allow-lists.
-/
namespace Cors
open Gen Serve

/-- The value lists a debug-off preflight response may carry. -/
def admissible (icfg : ICfg) (r : Req) : List (List Bytes) :=
  [Facts.headers_WildcardSgl, Facts.headers_TrueSgl, icfg.acma]
  -- `*,authorization` only in the documented case: all request headers allowed, Authorization listed too, anonymous access
  ++ (if icfg.asteriskReqHdrs && !icfg.credentialed && icfg.allowAuthorization then [Facts.headers_WildcardAuthSgl] else [])
  ++ ((r.hdrs.first Facts.headers_Origin).map fun o => [o]).toList
  ++ ((r.hdrs.first Facts.headers_ACRM).map fun m => [m]).toList
  ++ (r.hdrs Facts.headers_ACRH).toList

/-- Every entry of the buffer has admissible provenance. -/
def BufOK (icfg : ICfg) (r : Req) (b : Buf) : Prop := ∀ k v, b k = some v → v ∈ admissible icfg r

theorem BufOK_nil (icfg : ICfg) (r : Req) : BufOK icfg r HdrMap.empty := by intro k v h; cases h

theorem BufOK_put {icfg : ICfg} {r : Req} {b : Buf} (hb : BufOK icfg r b) (k : Bytes) (v : List Bytes)
    (hv : v ∈ admissible icfg r) : BufOK icfg r (b.put k v) := by
  intro k' v' h
  unfold Buf.put at h
  by_cases hk : k' = k
  · rw [hk, assign_same] at h; cases h; exact hv
  · rw [assign_other _ _ _ _ hk] at h; exact hb k' v' h

theorem origin_step_ok (dec : Dec) (icfg : ICfg) (r : Req) (b b' : Buf) (o : Bytes)
    (ho : r.hdrs.first Facts.headers_Origin = some o) (hb : BufOK icfg r b)
    (h : processOriginForPreflight dec icfg b o = some b') : BufOK icfg r b' := by
  unfold processOriginForPreflight at h
  have hO : [o] ∈ admissible icfg r := by simp [admissible, ho]
  have hW : Facts.headers_WildcardSgl ∈ admissible icfg r := by simp [admissible]
  have hT : Facts.headers_TrueSgl ∈ admissible icfg r := by simp [admissible]
  split at h
  · cases h
  · split at h
    · cases h; exact BufOK_put hb _ _ hW
    · split at h
      · cases h
      · cases h
        split
        · exact BufOK_put (BufOK_put hb _ _ hO) _ _ hT
        · exact BufOK_put hb _ _ hO

theorem acrpn_step_ok (icfg : ICfg) (r : Req) (b b' : Buf) (hb : BufOK icfg r b)
    (h : processACRPN icfg b r.hdrs = some b') : BufOK icfg r b' := by
  unfold processACRPN at h
  have hT : Facts.headers_TrueSgl ∈ admissible icfg r := by simp [admissible]
  split at h
  · cases h; exact hb
  · split at h
    · cases h; exact hb
    · split at h
      · cases h; exact BufOK_put hb _ _ hT
      · cases h

theorem acrm_step_ok (icfg : ICfg) (r : Req) (b b' : Buf) (m : Bytes)
    (hm : r.hdrs.first Facts.headers_ACRM = some m) (hb : BufOK icfg r b)
    (h : processACRM icfg b m = some b') : BufOK icfg r b' := by
  unfold processACRM at h
  have hM : [m] ∈ admissible icfg r := by simp [admissible, hm]
  have hW : Facts.headers_WildcardSgl ∈ admissible icfg r := by simp [admissible]
  split at h
  · cases h; exact hb
  · split at h
    · cases h; exact BufOK_put hb _ _ hW
    · split at h
      · cases h; exact BufOK_put hb _ _ hM
      · cases h

theorem acrh_step_ok (dec : Dec) (icfg : ICfg) (r : Req) (b b' : Buf) (hb : BufOK icfg r b)
    (h : processACRH dec icfg b r.hdrs false = some b') : BufOK icfg r b' := by
  unfold processACRH at h
  have hW : Facts.headers_WildcardSgl ∈ admissible icfg r := by simp [admissible]
  split at h
  · cases h; exact hb
  · rename_i acrh hacrh
    have hA : acrh ∈ admissible icfg r := by simp [admissible, hacrh]
    split at h
    · rename_i hstar
      split at h
      · rename_i hauth
        have hWA : Facts.headers_WildcardAuthSgl ∈ admissible icfg r := by
          simp only [Bool.and_eq_true, Bool.not_eq_true'] at hstar
          simp [admissible, hstar.1, hstar.2, hauth]
        cases h; exact BufOK_put hb _ _ hWA
      · cases h; exact BufOK_put hb _ _ hW
    · split at h
      · cases h; exact BufOK_put hb _ _ hA
      · simp only [Bool.not_false, if_true] at h
        split at h
        · cases h
        · split at h
          · cases h
          · cases h; exact BufOK_put hb _ _ hA

/-- The failure status is not an ok status, so success and failure are distinguishable. -/
theorem C16_distinct (icfg : ICfg) (h : icfg.WF) : okStatus icfg ≠ forbidden := by
  have := h.status_lt
  unfold okStatus forbidden
  simp only [Facts.cors_preflightFailStatuses]
  omega

theorem preflightVary_other (h : HdrMap) (n : Bytes) (hn : n ≠ Facts.headers_Vary) : preflightVary h n = h n := by
  unfold preflightVary; cases h Facts.headers_Vary <;> exact assign_other _ _ _ _ hn

/-- The buffer of a successful debug-off pipeline has admissible provenance. -/
theorem steps_ok (dec : Dec) (icfg : ICfg) (r : Req) (o a : Bytes) (b : Buf)
    (ho : r.hdrs.first Facts.headers_Origin = some o) (ha : r.hdrs.first Facts.headers_ACRM = some a)
    (h : preflightSteps dec icfg r.hdrs o a false = .ok b) : BufOK icfg r b := by
  unfold preflightSteps at h
  cases h1 : processOriginForPreflight dec icfg HdrMap.empty o with
  | none => simp [h1] at h
  | some b1 =>
    have ok1 := origin_step_ok dec icfg r HdrMap.empty b1 o ho (BufOK_nil icfg r) h1
    cases h2 : processACRPN icfg b1 r.hdrs with
    | none => simp [h1, h2] at h
    | some b2 =>
      have ok2 := acrpn_step_ok icfg r b1 b2 ok1 h2
      cases h3 : processACRM icfg b2 a with
      | none => simp [h1, h2, h3] at h
      | some b3 =>
        have ok3 := acrm_step_ok icfg r b2 b3 a ha ok2 h3
        cases h4 : processACRH dec icfg b3 r.hdrs false with
        | none => simp [h1, h2, h3, h4] at h
        | some b4 =>
          have ok4 := acrh_step_ok dec icfg r b3 b4 ok3 h4
          simp only [h1, h2, h3, h4, Steps.ok.injEq] at h
          rw [← h]; exact ok4

/-- **C16.** -/
theorem C16 (dec : Dec) (icfg : ICfg) (r : Req) (pre : HdrMap) (hp : r.isPreflight = true) :
    let resp := serveDec dec icfg false r pre
    (resp.status = some forbidden ∨ resp.status = some (okStatus icfg)) ∧
    (resp.status ≠ some (okStatus icfg) → ∀ n, n ≠ Facts.headers_Vary → resp.hdrs n = pre n) ∧
    (∀ n, n ≠ Facts.headers_Vary → resp.hdrs n = pre n ∨ ∃ v ∈ admissible icfg r, resp.hdrs n = some v) := by
  unfold Req.isPreflight at hp
  simp only [Bool.and_eq_true, beq_iff_eq, Option.isSome_iff_exists] at hp
  obtain ⟨⟨hm, ⟨o, ho⟩⟩, ⟨a, ha⟩⟩ := hp
  simp only [serveDec, ho, ha, hm, beq_self_eq_true, if_true, handleCORSPreflight]
  cases hs : preflightSteps dec icfg r.hdrs o a false with
  | originFail b =>
    refine ⟨by simp, fun _ n hn => ?_, fun n hn => Or.inl ?_⟩ <;>
      simpa using preflightVary_other pre n hn
  | laterFail b =>
    refine ⟨by simp, fun _ n hn => ?_, fun n hn => Or.inl ?_⟩ <;>
      simpa using preflightVary_other pre n hn
  | ok b =>
    have okb := steps_ok dec icfg r o a b ho ha hs
    refine ⟨Or.inr rfl, fun hne => absurd rfl hne, ?_⟩
    intro n hn
    have hcopy : ((preflightVary pre).copy b) n = pre n ∨ ∃ v ∈ admissible icfg r, ((preflightVary pre).copy b) n = some v := by
      rcases copy_lookup b (preflightVary pre) n with hc | ⟨v, hv1, hv2⟩
      · left; rw [hc, preflightVary_other pre n hn]
      · right; exact ⟨v, okb n v hv1, hv2⟩
    simp only []
    split
    · by_cases hk : n = Facts.headers_ACMA
      · right; exact ⟨icfg.acma, by simp [admissible], by rw [hk, assign_same]⟩
      · rw [assign_other _ _ _ _ hk]; exact hcopy
    · exact hcopy

/-- Corollary in the words of the property: a preflight that fails (does not get the success
status) gets the same status whatever the reason, and no `Access-Control-*` header is added. -/
theorem C16_fail (dec : Dec) (icfg : ICfg) (r : Req) (pre : HdrMap) (hp : r.isPreflight = true)
    (hf : (serveDec dec icfg false r pre).status ≠ some (okStatus icfg)) :
    (serveDec dec icfg false r pre).status = some forbidden ∧
    ∀ n, n ≠ Facts.headers_Vary → (serveDec dec icfg false r pre).hdrs n = pre n := by
  have h := C16 dec icfg r pre hp
  simp only [] at h
  exact ⟨h.1.resolve_right hf, h.2.1 hf⟩

#print axioms C16
#print axioms C16_fail
#print axioms C16_distinct

/-- **C16 for every accepted configuration**: the two statuses are distinct, so "fails" is
observable, and the model's own decisions are one instance of `dec`. -/
theorem C16_accepted (ext : Ext) (cfg : Config) (icfg : ICfg) (h : newInternalConfig ext cfg = .ok icfg)
    (r : Req) (pre : HdrMap) (hp : r.isPreflight = true) :
    okStatus icfg ≠ forbidden ∧
    ((serve icfg false r pre).status = some forbidden ∨ (serve icfg false r pre).status = some (okStatus icfg)) ∧
    ((serve icfg false r pre).status = some forbidden → ∀ n, n ≠ Facts.headers_Vary → (serve icfg false r pre).hdrs n = pre n) ∧
    (∀ n, n ≠ Facts.headers_Vary → (serve icfg false r pre).hdrs n = pre n ∨
        ∃ v ∈ admissible icfg r, (serve icfg false r pre).hdrs n = some v) := by
  have hd := C16_distinct icfg (accepted_wf ext cfg icfg h)
  have h16 := C16 (modelDec icfg) icfg r pre hp
  simp only [] at h16
  refine ⟨hd, h16.1, fun hf => h16.2.1 ?_, h16.2.2⟩
  unfold serve at hf
  rw [hf]
  intro hc; exact hd (Option.some.inj hc).symm

#print axioms C16_accepted


/-- **C16 (translated pipeline).** The four decision steps of the preflight pipeline — `processOriginForPreflight`,
`processACRPN`, `processACRM`, `processACRH` — are translated from /repo's middleware.go into Lean on every run
(Gen/Pipeline.lean, by harness/extract/translate.go); for every internal configuration, buffer, request headers and debug
mode each translated function returns the hand-written model's result (with the model's own origin and header-list decisions) —
and, when the step fails, the buffer exactly as it was: a failing step leaves nothing behind for debug mode to copy —,
so the theorems of this file speak about the code as it reads now.  An edit of one of these Go functions that changes its
meaning — or leaves the translated subset — breaks this obligation. -/
theorem C16_pipeline_translated (icfg : ICfg) (buf : Serve.Buf) (reqHdrs : HdrMap) (origin acrm : Bytes) (debug : Bool) :
    Gen.GoSrc.processOriginForPreflight icfg buf origin [origin] = GoRt.result buf (Serve.processOriginForPreflight (Serve.modelDec icfg) icfg buf origin) ∧
    Gen.GoSrc.processACRPN icfg buf reqHdrs = GoRt.result buf (Serve.processACRPN icfg buf reqHdrs) ∧
    Gen.GoSrc.processACRM icfg buf acrm [acrm] = GoRt.result buf (Serve.processACRM icfg buf acrm) ∧
    Gen.GoSrc.processACRH icfg buf reqHdrs debug = GoRt.result buf (Serve.processACRH (Serve.modelDec icfg) icfg buf reqHdrs debug) :=
  Translated.pipeline_eq icfg buf reqHdrs origin acrm debug

#print axioms C16_pipeline_translated


/-- **C16 (translated preflight handler).** `handleCORSPreflight` — the Vary step, the four steps in Fetch order, what is copied
from the buffer and which status is written when a step fails (both debug modes), `maps.Copy`, the max-age header and the success
status — is translated from /repo's middleware.go on every run (Gen/Pipeline.lean, calling the translated steps); for every internal
configuration, response headers already present, request headers, Origin and ACRM values and debug mode it produces the header map and
the status of the hand-written model.  It contains no call of the wrapped handler (the translator has no construct for one). -/
theorem C16_preflight_translated (icfg : ICfg) (h reqHdrs : HdrMap) (origin acrm : Bytes) (debug : Bool) :
    Gen.GoSrc.handleCORSPreflight icfg h reqHdrs origin [origin] acrm [acrm] debug =
      ((Serve.handleCORSPreflight (Serve.modelDec icfg) icfg h reqHdrs origin acrm debug).hdrs,
       (Serve.handleCORSPreflight (Serve.modelDec icfg) icfg h reqHdrs origin acrm debug).status) :=
  Translated.handleCORSPreflight_eq icfg h reqHdrs origin acrm debug

#print axioms C16_preflight_translated


/-- **C16 (translated closure).** The handler closure returned by `Wrap` — from the statement after its passthrough test on:
the dispatch on the first `Origin` value, the method and the first `Access-Control-Request-Method` value, the calls of
`handleNonCORS` / `handleCORSPreflight` / `handleCORSActual` and of the wrapped handler — is translated from /repo's middleware.go
on every run, on top of the translated handlers and steps; as a function of (configuration, debug mode, request, response headers
already present) it *is* `Serve.serve`, the function every theorem about responses in this development speaks about.  So the whole
request path of middleware.go below the snapshot under the read lock is regenerated from the source and proved equal to the model;
what stays hand-modelled there is `net/http.Header`, `maps.Copy`, `headers.First` (index level: `C17_ix_first`) and the
functions the steps call (`origins.Parse`, `Tree.Contains`, `headers.Check`, `methods.IsSafelisted`, `Set.Contains`: C17's refinements). -/
theorem C16_closure_translated (icfg : ICfg) (debug : Bool) (r : Req) (pre : HdrMap) :
    Gen.GoSrc.serveClosure icfg debug r pre = Serve.serve icfg debug r pre :=
  Translated.serveClosure_eq icfg debug r pre

#print axioms C16_closure_translated


/-- **C16 (translated state writers).** `(*Middleware).Reconfigure` and `(*Middleware).SetDebug` — the only writers of the
configuration pointer and of the debug flag (`C07_only_these`) — are translated from /repo's middleware.go on every run (lock
calls skipped: the lock programs are C07's facts) and, as functions on the model's state, are `Mw.reconfigure` and
`Mw.setDebug`, the transitions every theorem about histories in this development speaks about: the error is returned before
anything is written, the pointer is replaced, `debug = cfg != nil && debug`, `debug = b && icfg != nil`. -/
theorem C16_state_translated (ext : Ext) (m : Mw) (cfg : Option Config) (b : Bool) :
    Gen.GoSrc.reconfigure ext m cfg = Mw.reconfigure ext m cfg ∧ Gen.GoSrc.setDebug m b = Mw.setDebug m b :=
  ⟨Translated.reconfigure_eq ext m cfg, Translated.setDebug_eq m b⟩

#print axioms C16_state_translated

end Cors
