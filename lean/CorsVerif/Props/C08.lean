import CorsVerif.Proofs.Accepted
/-
  C08 — A rejected Reconfigure leaves the middleware exactly as it was.

  For every prior state (passthrough or any configuration, debug on or off) and every Config
  that validation rejects (however many violations): Reconfigure returns the error and the state
  — configuration and debug flag — is literally unchanged; hence every request gets the same
  response and Config() returns an equal value.
-/
namespace Cors

/-- **C08.** -/
theorem C08 (ext : Ext) (m : Mw) (cfg : Config) (e : Err) (h : newInternalConfig ext cfg = .error e) :
    m.reconfigure ext (some cfg) = (some e, m) := by
  simp [Mw.reconfigure, h]

/-- A non-nil error is returned exactly when validation fails; validation fails exactly when it
reports at least one error. -/
theorem C08_error_iff (ext : Ext) (m : Mw) (cfg : Config) :
    (m.reconfigure ext (some cfg)).1.isSome = true ↔ Validate.allErrs ext cfg ≠ [] := by
  unfold Mw.reconfigure newInternalConfig
  cases h : (Validate.allErrs ext cfg).isEmpty with
  | true => simp [List.isEmpty_iff.mp h]
  | false =>
    have : Validate.allErrs ext cfg ≠ [] := by
      intro hn; rw [hn] at h; cases h
    simp [this]

/-- **C08 (observations).** Whenever Reconfigure returns a non-nil error, every response, the
debug flag and Config() are as before. -/
theorem C08_obs (ext : Ext) (m : Mw) (cfg : Config) (h : (m.reconfigure ext (some cfg)).1.isSome = true) :
    (∀ r pre, (m.reconfigure ext (some cfg)).2.serve r pre = m.serve r pre) ∧
    (m.reconfigure ext (some cfg)).2.config = m.config ∧
    (m.reconfigure ext (some cfg)).2.debug = m.debug := by
  cases hc : newInternalConfig ext cfg with
  | error e => rw [C08 ext m cfg e hc]; exact ⟨fun _ _ => rfl, rfl, rfl⟩
  | ok icfg => simp [Mw.reconfigure, hc] at h

/-- Non-vacuity: the empty configuration is rejected (no origin pattern). -/
example (ext : Ext) : ∃ e, newInternalConfig ext {} = .error e := ⟨_, rfl⟩

#print axioms C08
#print axioms C08_error_iff
#print axioms C08_obs

end Cors
