import CorsVerif.Proofs.Accepted
import CorsVerif.Proofs.Translated
/-
  C08 — A rejected Reconfigure leaves the middleware exactly as it was.

  For every prior state (passthrough or any configuration, debug on or off) and every Config
  that validation rejects (however many violations): Reconfigure returns the error and the state
  — configuration and debug flag — is literally unchanged; hence every request gets the same
  response and Config() returns an equal value.
-/
namespace Cors

/-- **C08.** -/
theorem C08 (ext : Ext) (m : Mw) (cfg : Config) (e : Err) (h : newInternalConfig ext cfg = .error e) :
    m.reconfigure ext (some cfg) = (some e, m) := by
  simp [Mw.reconfigure, h]

/-- A non-nil error is returned exactly when validation fails; validation fails exactly when it
reports at least one error. -/
theorem C08_error_iff (ext : Ext) (m : Mw) (cfg : Config) :
    (m.reconfigure ext (some cfg)).1.isSome = true ↔ Validate.allErrs ext cfg ≠ [] := by
  unfold Mw.reconfigure newInternalConfig
  cases h : (Validate.allErrs ext cfg).isEmpty with
  | true => simp [List.isEmpty_iff.mp h]
  | false =>
    have : Validate.allErrs ext cfg ≠ [] := by
      intro hn; rw [hn] at h; cases h
    simp [this]

/-- **C08 (observations).** Whenever Reconfigure returns a non-nil error, every response, the
debug flag and Config() are as before. -/
theorem C08_obs (ext : Ext) (m : Mw) (cfg : Config) (h : (m.reconfigure ext (some cfg)).1.isSome = true) :
    (∀ r pre, (m.reconfigure ext (some cfg)).2.serve r pre = m.serve r pre) ∧
    (m.reconfigure ext (some cfg)).2.config = m.config ∧
    (m.reconfigure ext (some cfg)).2.debug = m.debug := by
  cases hc : newInternalConfig ext cfg with
  | error e => rw [C08 ext m cfg e hc]; exact ⟨fun _ _ => rfl, rfl, rfl⟩
  | ok icfg => simp [Mw.reconfigure, hc] at h

/-- Non-vacuity: the empty configuration is rejected (no origin pattern). -/
example (ext : Ext) : ∃ e, newInternalConfig ext {} = .error e := ⟨_, rfl⟩

#print axioms C08
#print axioms C08_error_iff
#print axioms C08_obs


/-- **C08 (translated state writers).** `(*Middleware).Reconfigure` and `(*Middleware).SetDebug` — the only writers of the
configuration pointer and of the debug flag (`C07_only_these`) — are translated from /repo's middleware.go on every run (lock
calls skipped: the lock programs are C07's facts) and, as functions on the model's state, are `Mw.reconfigure` and
`Mw.setDebug`, the transitions every theorem about histories in this development speaks about: the error is returned before
anything is written, the pointer is replaced, `debug = cfg != nil && debug`, `debug = b && icfg != nil`. -/
theorem C08_state_translated (ext : Ext) (m : Mw) (cfg : Option Config) (b : Bool) :
    Gen.GoSrc.reconfigure ext m cfg = Mw.reconfigure ext m cfg ∧ Gen.GoSrc.setDebug m b = Mw.setDebug m b :=
  ⟨Translated.reconfigure_eq ext m cfg, Translated.setDebug_eq m b⟩

#print axioms C08_state_translated


/-- **C08 (translated validators).** `validatePreflightStatus` and `validateMaxAge` — the two loop-free validators, where the
integer subtleties live (range test before the `uint8` conversion, `-1` / `0` / default handling) — are translated from
/repo's config.go on every run (constants evaluated by go/types) and equal the hand-written `Validate.status` /
`Validate.maxAge` for every integer: same acceptance, same error value with its bounds, same stored value. -/
theorem C08_validators_translated (x : Int) :
    Gen.GoSrc.validatePreflightStatus x = (match Validate.status x with | .ok v => (none, v) | .error e => (some e, 0)) ∧
    Gen.GoSrc.validateMaxAge x = (match Validate.maxAge x with | .ok v => (none, v) | .error e => (some e, [])) :=
  ⟨Translated.validatePreflightStatus_eq x, Translated.validateMaxAge_eq x⟩

#print axioms C08_validators_translated


/-- **C08 (translated loop bodies).** One iteration of the `for _, name := range names` loops of `validateMethods`,
`validateRequestHeaders` and `validateResponseHeaders` — the single-pass folds with their mid-loop flags for `*` and
`Authorization`, the validity test *before* normalisation, the forbidden / prohibited / safelisted tests on the normalised
name, the error values, what is stored — is translated from /repo's config.go on every run and equals the hand-written
step function of the model, for every loop state and element; hence the folds over any configured list are the model's.
(The prologue `len(names) == 0` and the epilogue — `errors.Join`, the assignments into `icfg` — stay hand-modelled.) -/
theorem C08_loops_translated (credentialed : Bool) (names : List Bytes) :
    names.foldl Gen.GoSrc.methodStep {} = names.foldl Validate.methodStep {} ∧
    names.foldl (Gen.GoSrc.reqHdrStep credentialed) {} = names.foldl (Validate.reqHdrStep credentialed) {} ∧
    names.foldl (Gen.GoSrc.resHdrStep credentialed) {} = names.foldl (Validate.resHdrStep credentialed) {} :=
  Translated.loops_eq credentialed names

#print axioms C08_loops_translated

end Cors
