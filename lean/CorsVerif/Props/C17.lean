import CorsVerif.Proofs.Pattern
import CorsVerif.Proofs.ACRH
import CorsVerif.Proofs.Accepted
import CorsVerif.Proofs.IxRefine
import CorsVerif.Proofs.IxTreeRefine
import CorsVerif.Proofs.IxPatternRefine
import CorsVerif.Spec.Fetch
/-
  C17 — No input can crash configuration or request handling.  (PARTIAL)

  Every function of the model is total: Lean accepted each definition with structural
  recursion (the tree and the error iterator by mutual structural recursion over nested
  inductives, the scanners on an explicit fuel or on the input list), so the model itself cannot
  diverge or get stuck on any input.  What remains are the places where the *Go* code indexes or
  slices by hand; for each, the precondition it relies on is proved here about the model:

    P1  `Tree.Insert`'s `s[0]` and `hostOnly`'s `Value[2:]`: the host value of every accepted
        pattern is non-empty, and a subdomain pattern is `*.` + a non-empty base;
    P2  `parseHostPattern`'s `pattern.Value[:end]`: the parsed host is a prefix of what was lexed;
    P3  `SortedSet.IndexAfter`'s `elems[start:]` (precondition n < Size): every position returned is
        below the size, so the next start is at most the size;
    P4  `cutAtComma`'s `str[i+1:]`: the comma found lies inside the string;
    P5  `fastParseHost`'s `str[1:end]`: the closing bracket comes after the opening one;
    P6  the `uint8` status arithmetic: the stored offset of an accepted configuration is below 100;
    P7  `parsePort`'s `_ = str[i:end]` hoist: `1 ≤ min(len, maxPortLen)` for a non-empty string.

  `C17_sites` pins the complete list of index and slice expressions of the non-test code
  (regenerated from the source on every run) to the audited list below, each entry with the guard
  or the precondition theorem that keeps it in range; a new or changed index expression breaks the
  obligation.

  What the theorems cannot carry: panics inside library calls and the Go runtime.  The tie runs
  every call of every suite under `recover`; a panic is a disagreement (the model never panics)
  and its input is the replay.
-/
namespace Cors
open Gen Pat

/-- **P1.** Non-empty host value; shape of subdomain patterns. -/
theorem C17_value_nonempty (ext : Ext) (s : Bytes) (p : Pattern) (h : parsePattern ext s = .ok p) :
    p.value ≠ [] ∧ (p.kind = .subdomains → ∃ base, p.value = 42 :: 46 :: base ∧ base ≠ []) := by
  obtain ⟨rest, _, rest2, _, rest3, hhp, _⟩ := (parsePattern_inv h).scheme
  have := parseHostPattern_shape hhp
  exact ⟨this.1, fun hk => by obtain ⟨b', h1, h2, _⟩ := this.2 hk; exact ⟨b', h1, h2⟩⟩

/-- **P1'.** After stripping the `*` the key handed to the tree loop is still non-empty. -/
theorem C17_insert_key_nonempty (ext : Ext) (s : Bytes) (p : Pattern) (h : parsePattern ext s = .ok p) :
    (match p.value with | 42 :: t => t | v => v) ≠ [] := by
  obtain ⟨hne, hsub⟩ := C17_value_nonempty ext s p h
  cases hv : p.value with
  | nil => exact absurd hv hne
  | cons a t =>
    by_cases ha : a = 42
    · subst ha
      simp only []
      -- `*` can only be the first byte of a subdomain pattern, whose second byte is `.`
      intro ht
      subst ht
      obtain ⟨rest, _, rest2, _, rest3, hhp, _⟩ := (parsePattern_inv h).scheme
      by_cases hk : p.kind = .subdomains
      · obtain ⟨b', hb, _⟩ := hsub hk
        rw [hv] at hb
        simp at hb
      · obtain ⟨host, hf, hval⟩ := parseHostPattern_nonwild hhp hk
        rcases hval with ⟨hip, hvv⟩ | ⟨hip, hvv, _⟩
        · -- an IP value `*` does not exist
          unfold parseHostPattern at hhp
          simp only [] at hhp
          have : ipVerdict ext [42] = .bad := by simp [ipVerdict, firstIPMark]
          rw [hv] at hvv
          -- the value equals host.value = [42]; ipVerdict rejects it
          cases hpk : peekKind rest2 with
          | domain =>
            simp only [hpk] at hhp
            have hho : hostOnly rest2 Kind.domain = rest2 := by simp [hostOnly]
            rw [hho, hf] at hhp
            simp only [show (Kind.domain == Kind.subdomains) = false from rfl, Bool.false_and, Bool.false_eq_true, if_false, hip, if_true] at hhp
            rw [← hvv, this] at hhp
            simp at hhp
          | subdomains =>
            exfalso
            have := parseHostPattern_shape hhp
            simp only [hpk] at hhp
            cases hf2 : Lex.fastParseHost (hostOnly rest2 Kind.subdomains) with
            | none => simp [hf2] at hhp
            | some hr =>
              obtain ⟨host2, r2⟩ := hr
              simp only [hf2] at hhp
              split at hhp
              · cases hhp
              · split at hhp
                · cases hhp
                · rename_i hnip
                  have hip2 : host2.assumeIP = false := by simpa using hnip
                  simp only [hip2, Bool.false_eq_true, if_false] at hhp
                  split at hhp
                  · cases hhp
                  · simp only [Except.ok.injEq, Prod.mk.injEq] at hhp
                    exact hk hhp.2.1.symm
          | nonLoopbackIP => simp [peekKind] at hpk; split at hpk <;> cases hpk
          | loopbackIP => simp [peekKind] at hpk; split at hpk <;> cases hpk
        · -- a domain value `*`: `*` is not a label byte, so the lexer would have stopped before it
          have happ := fastParseHost_append hf (Or.inl hip)
          rw [hv] at hvv
          have hlen : host.value.length = 1 := by
            have := congrArg List.length hvv
            simp only [List.length_cons, List.length_nil, List.length_take] at this
            rw [happ] at this
            simp at this
            omega
          have hhv : host.value = [42] := by
            rw [happ] at hvv
            rw [List.take_left' rfl] at hvv
            exact hvv.symm
          -- fastParseHost never puts `*` into a host
          unfold Lex.fastParseHost at hf
          split at hf
          · cases hc : Bytes.cutAt 93 rest2 with
            | none => simp [hc] at hf
            | some pr =>
              obtain ⟨before, after⟩ := pr
              simp only [hc, Option.some.injEq, Prod.mk.injEq] at hf
              rw [← hf.1] at hip
              cases hip
          · cases rest2 with
            | nil => simp at hf
            | cons c t2 =>
              simp only [] at hf
              split at hf
              · cases hf
              · cases hl : Lex.hostLoop (c :: t2) false false true with
                | none => simp [hl] at hf
                | some x =>
                  obtain ⟨hh, r, ip⟩ := x
                  simp only [hl, Option.some.injEq, Prod.mk.injEq] at hf
                  have : hh = [42] := by rw [← hhv, ← hf.1]
                  subst this
                  have hc42 : c = 42 := by
                    have := hostLoop_append hl
                    simp at this
                    exact this.1
                  subst hc42
                  simp [Lex.hostLoop, Lex.isDigit, Lex.isASCIILabelByte, asciiContains, Facts.origins_labelSep,
                    Facts.origins_digits, Facts.origins_asciiLabelBytes] at hl
    · split
      · rename_i t' heq
        simp at heq
        exact absurd heq.1 ha
      · simp

/-- **P3.** Every position `IndexAfter` returns is below the size of the set. -/
theorem C17_indexAfter_lt (set : SortedSet) (start : Nat) (e : Bytes) (i : Nat)
    (h : set.indexAfter start e = some i) : i < set.size := by
  unfold SortedSet.indexAfter at h
  split at h
  · cases h
  · cases hf : SortedSet.findIdx e (set.elems.drop start) with
    | none => simp [hf] at h
    | some j =>
      simp only [hf, Option.map_some, Option.some.injEq] at h
      obtain ⟨pre, post, h1, h2, _⟩ := ACRH.findIdx_some hf
      have hl := congrArg List.length h1
      simp only [List.length_drop, List.length_append, List.length_cons] at hl
      unfold SortedSet.size
      omega

/-- **P4.** When `cutAtComma` finds a comma, it lies inside the string (so `str[i+1:]` is in range). -/
theorem C17_cutAtComma_in_range (str : Bytes) (n : Nat) (before after : Bytes)
    (h : Headers.cutAtComma str n = (before, after, true)) : before.length + 1 ≤ str.length := by
  unfold Headers.cutAtComma at h
  cases hc : Bytes.cutAt Headers.comma (str.take n) with
  | none => simp [hc] at h
  | some p =>
    obtain ⟨b', a'⟩ := p
    simp only [hc, Prod.mk.injEq] at h
    obtain ⟨rfl, _, _⟩ := h
    obtain ⟨h1, _⟩ := ACRH.cutAt_some hc
    have := congrArg List.length h1
    simp only [List.length_take, List.length_append, List.length_cons] at this
    omega

/-- **P5.** In the bracket branch of `fastParseHost` the closing bracket comes after the opening one. -/
theorem C17_bracket_end (str before after : Bytes) (h0 : str.head? = some 91)
    (h : Bytes.cutAt 93 str = some (before, after)) : 1 ≤ before.length := by
  cases str with
  | nil => simp at h0
  | cons a t =>
    simp at h0
    subst h0
    simp only [Bytes.cutAt] at h
    simp at h
    cases hc : Bytes.cutAt 93 t with
    | none => simp [hc] at h
    | some p => simp [hc] at h; rw [← h.1]; simp

/-- **P6.** The success status of an accepted configuration is in 200..299, so the `uint8`
offset arithmetic cannot wrap. -/
theorem C17_status_range (ext : Ext) (cfg : Config) (icfg : ICfg) (h : newInternalConfig ext cfg = .ok icfg) :
    200 ≤ Serve.okStatus icfg ∧ Serve.okStatus icfg ≤ 299 := by
  have := (accepted_wf ext cfg icfg h).status_lt
  unfold Serve.okStatus
  omega

/-- **P7.** `parsePort`'s bounds-check hoist `_ = str[1:min(len(str), maxPortLen)]` is in range. -/
theorem C17_parsePort_hoist (str : Bytes) (h : str ≠ []) : 1 ≤ min str.length Facts.origins_maxPortLen := by
  cases str with
  | nil => exact absurd rfl h
  | cons a t => simp [Facts.origins_maxPortLen]; omega

/-! ### Every index and slice expression of the code, audited -/

/-- The index and slice sites of the non-test code (regenerated on every run), each with the guard or
the proved precondition that keeps it in range:

  * `cors.newConfig|icfg.acma[0]` — guarded by `len(icfg.acma) > 0`
  * `headers.First|v[0]` — guarded by `len(v) == 0` return
  * `headers.First|v[:1]` — guarded by `len(v) == 0` return
  * `headers.cutAtComma|str[:end]` — end = min(len(str), n)
  * `headers.cutAtComma|str[:i]` — i is an index inside str[:end] (P4, C17_cutAtComma_in_range)
  * `headers.cutAtComma|str[i+1:]` — i < end <= len(str) (P4)
  * `headers.trimLeftOWS|s[0]` — loop condition `len(s) > 0`
  * `headers.trimLeftOWS|s[1:]` — loop condition `len(s) > 0`
  * `headers.trimRightOWS|s[:len(s)-1]` — loop condition `len(s) > 0`
  * `headers.trimRightOWS|s[len(s)-1]` — loop condition `len(s) > 0`
  * `origins.Contains|n.children[i]` — i found by BinarySearch in n.edges; len(edges) == len(children) (node invariant, kept by upsertEdge)
  * `origins.Insert|n.children[i]` — same
  * `origins.Insert|s[0]` — P1 (C17_insert_key_nonempty): the key is non-empty after stripping `*`
  * `origins.Insert|s[1:]` — P1
  * `origins.add|n.ports[i]` — i found by BinarySearch in n.schemes; len(schemes) == len(ports) (node invariant, kept by add)
  * `origins.contains|n.ports[i]` — same
  * `origins.deleteSameSign|s[:i]` — i from BinarySearch(s, 0): 0 <= i <= len(s)
  * `origins.deleteSameSign|s[i:]` — same
  * `origins.elems|n.children[i]` — range over n.children
  * `origins.elems|n.schemes[i]` — range over n.ports; len(schemes) == len(ports)
  * `origins.fastParseHost|str[0]` — guarded by `len(str) >= minIPv6HostLen &&` resp. `len(str) == 0 ||` (short-circuit order!)
  * `origins.fastParseHost|str[1:end]` — P5 (C17_bracket_end): str[0] == '[' so IndexByte(']') >= 1
  * `origins.fastParseHost|str[:i]` — loop bound i <= len(str)
  * `origins.fastParseHost|str[end+1:]` — end < len(str)
  * `origins.fastParseHost|str[i:]` — loop bound
  * `origins.fastParseHost|str[i]` — loop condition i < len(str)
  * `origins.hostOnly|hp.Value[len(subdomainWildcard)+1:]` — P1 (C17_value_nonempty): a subdomains value is `*.` + non-empty base
  * `origins.insert|s[i+1:]` — after append: i <= old len < new len
  * `origins.insert|s[i:]` — same
  * `origins.insert|s[i]` — same
  * `origins.lastByte|str[len(str)-1]` — guarded by `len(str) == 0` return
  * `origins.parseHostPattern|pattern.Value[:end]` — P2: the parsed host is a prefix of what was lexed
  * `origins.parsePort|str[0]` — guarded by `len(str) == 0 ||`
  * `origins.parsePort|str[i:]` — i <= end <= len(str)
  * `origins.parsePort|str[i:end]` — P7 (C17_parsePort_hoist)
  * `origins.parsePort|str[i]` — i < end <= len(str)
  * `origins.parseScheme|str[0]` — guarded by `len(str) == 0 ||`
  * `origins.parseScheme|str[:i]` — i <= end <= len(str)
  * `origins.parseScheme|str[i:]` — same
  * `origins.parseScheme|str[i]` — i < end
  * `origins.splitAtCommonSuffix|a[:len(a)-len(s)+i]` — 0 <= i <= len(s) <= len(a)
  * `origins.splitAtCommonSuffix|b[:len(b)-len(s)+i]` — same with b
  * `origins.splitAtCommonSuffix|l[:len(s)]` — l was cut to len(s) bytes
  * `origins.splitAtCommonSuffix|l[i]` — 0 <= i < len(s) = len(l)
  * `origins.splitAtCommonSuffix|l[len(l)-len(s):]` — len(s) <= len(l) after the swap
  * `origins.splitAtCommonSuffix|s[i:]` — 0 <= i <= len(s)
  * `origins.splitAtCommonSuffix|s[i]` — loop condition 0 <= i
  * `origins.upsertEdge|n.children[i]` — i from BinarySearch in n.edges (after insert: i < len)
  * `util.Contains|as[c/32]` — c is a byte: c/32 <= 7, the array has 8 words
  * `util.IndexAfter|set.elems[start:]` — P3 (C17_indexAfter_lt): every returned position is below Size, so start <= Size
  * `util.MakeASCIISet|as[c/32]` — as above
  * `util.MakeASCIISet|chars[i]` — range over len(chars)
-/
def auditedSites : List Bytes := [
  Spec.b "cors.newConfig|icfg.acma[0]|!(icfg == nil) ; len(icfg.acma) > 0",
  Spec.b "headers.First|v[0]|!(!found || len(v) == 0)",
  Spec.b "headers.First|v[:1]|!(!found || len(v) == 0)",
  Spec.b "headers.cutAtComma|str[:end]|",
  Spec.b "headers.cutAtComma|str[:i]|i >= 0",
  Spec.b "headers.cutAtComma|str[i+1:]|i >= 0",
  Spec.b "headers.trimLeftOWS|s[0]|for len(s) > 0 ; !(i > n)",
  Spec.b "headers.trimLeftOWS|s[1:]|for len(s) > 0 ; !(i > n) ; !(!isOWS(s[0]))",
  Spec.b "headers.trimRightOWS|s[:len(s)-1]|for len(s) > 0 ; !(i > n) ; !(!isOWS(s[len(s)-1]))",
  Spec.b "headers.trimRightOWS|s[len(s)-1]|for len(s) > 0 ; !(i > n)",
  Spec.b "origins.Contains|n.children[i]|!(!ok) ; !(n.contains(o.Scheme, o.Port, true)) ; !(!found)",
  Spec.b "origins.Insert|n.children[i]|!(!ok) ; !(n.contains(p.Scheme, p.Port, true)) ; !(!found)",
  Spec.b "origins.Insert|s[0]|",
  Spec.b "origins.Insert|s[1:]|s[0] == '*'",
  Spec.b "origins.add|n.ports[i]|!(n.contains(scheme, port, wildcardSubs)) ; !(!found)",
  Spec.b "origins.add|n.ports[i]|!(n.contains(scheme, port, wildcardSubs)) ; !(!found)",
  Spec.b "origins.contains|n.ports[i]|!(!found)",
  Spec.b "origins.deleteSameSign|s[:i]|!(v < 0)",
  Spec.b "origins.deleteSameSign|s[i:]|v < 0",
  Spec.b "origins.elems|n.children[i]|i := range n.children",
  Spec.b "origins.elems|n.schemes[i]|i := range n.ports",
  Spec.b "origins.fastParseHost|str[0]|!(len(str) >= minIPv6HostLen && str[0] == '[') ; !(len(str) == 0)",
  Spec.b "origins.fastParseHost|str[0]|len(str) >= minIPv6HostLen",
  Spec.b "origins.fastParseHost|str[1:end]|len(str) >= minIPv6HostLen && str[0] == '[' ; !(end == -1)",
  Spec.b "origins.fastParseHost|str[:i]|!(len(str) >= minIPv6HostLen && str[0] == '[') ; !(len(str) == 0 || str[0] == labelSep)",
  Spec.b "origins.fastParseHost|str[end+1:]|len(str) >= minIPv6HostLen && str[0] == '[' ; !(end == -1)",
  Spec.b "origins.fastParseHost|str[i:]|!(len(str) >= minIPv6HostLen && str[0] == '[') ; !(len(str) == 0 || str[0] == labelSep)",
  Spec.b "origins.fastParseHost|str[i]|!(len(str) >= minIPv6HostLen && str[0] == '[') ; !(len(str) == 0 || str[0] == labelSep) ; for i < len(str)",
  Spec.b "origins.fastParseHost|str[i]|!(len(str) >= minIPv6HostLen && str[0] == '[') ; !(len(str) == 0 || str[0] == labelSep) ; for i < len(str) ; !(str[i] == labelSep)",
  Spec.b "origins.fastParseHost|str[i]|!(len(str) >= minIPv6HostLen && str[0] == '[') ; !(len(str) == 0 || str[0] == labelSep) ; for i < len(str) ; !(str[i] == labelSep) ; !(isDigit(str[i]))",
  Spec.b "origins.hostOnly|hp.Value[len(subdomainWildcard)+1:]|hp.Kind == PatternKindSubdomains",
  Spec.b "origins.insert|s[i+1:]|",
  Spec.b "origins.insert|s[i:]|",
  Spec.b "origins.insert|s[i]|",
  Spec.b "origins.lastByte|str[len(str)-1]|!(len(str) == 0)",
  Spec.b "origins.parseHostPattern|pattern.Value[:end]|!(!ok)",
  Spec.b "origins.parsePort|str[0]|!(len(str) == 0 || !isNonZeroDigit(str[0]))",
  Spec.b "origins.parsePort|str[0]|!(len(str) == 0)",
  Spec.b "origins.parsePort|str[i:]|!(len(str) == 0 || !isNonZeroDigit(str[0])) ; !(port < 0 || maxUint16 < port)",
  Spec.b "origins.parsePort|str[i:end]|!(len(str) == 0 || !isNonZeroDigit(str[0]))",
  Spec.b "origins.parsePort|str[i]|!(len(str) == 0 || !isNonZeroDigit(str[0])) ; for i < end",
  Spec.b "origins.parsePort|str[i]|!(len(str) == 0 || !isNonZeroDigit(str[0])) ; for i < end ; !(!isDigit(str[i]))",
  Spec.b "origins.parseScheme|str[0]|!(len(str) == 0)",
  Spec.b "origins.parseScheme|str[:i]|!(len(str) == 0 || !isLowerAlpha(str[0]))",
  Spec.b "origins.parseScheme|str[i:]|!(len(str) == 0 || !isLowerAlpha(str[0]))",
  Spec.b "origins.parseScheme|str[i]|!(len(str) == 0 || !isLowerAlpha(str[0])) ; for i < end",
  Spec.b "origins.splitAtCommonSuffix|a[:len(a)-len(s)+i]|",
  Spec.b "origins.splitAtCommonSuffix|b[:len(b)-len(s)+i]|",
  Spec.b "origins.splitAtCommonSuffix|l[:len(s)]|",
  Spec.b "origins.splitAtCommonSuffix|l[i]|0 <= i",
  Spec.b "origins.splitAtCommonSuffix|l[len(l)-len(s):]|",
  Spec.b "origins.splitAtCommonSuffix|s[i:]|",
  Spec.b "origins.splitAtCommonSuffix|s[i]|0 <= i",
  Spec.b "origins.upsertEdge|n.children[i]|!(!found)",
  Spec.b "origins.upsertEdge|n.children[i]|!(!found)",
  Spec.b "origins.upsertEdge|n.children[i]|!found",
  Spec.b "util.Contains|as[c/32]|",
  Spec.b "util.IndexAfter|set.elems[start:]|!(set.maxLen < uint(len(e)))",
  Spec.b "util.MakeASCIISet|as[c/32]|i := range len(chars)",
  Spec.b "util.MakeASCIISet|chars[i]|i := range len(chars)"
]

/-- **C17 (sites).** The code indexes and slices exactly at the audited sites, each under exactly the audited
dominating conditions (`pkg.func|expression|guards`: left operands of the `&&`/`||` chains the expression is a right
operand of, enclosing `if`/`for`/`range`/`case` conditions, negations of earlier leave-guards): a new or changed index
expression, and a dropped, weakened or reordered guard, break this obligation. -/
theorem C17_sites : Facts.cors_indexSites = auditedSites := by decide +kernel

/-! ### P8. The hand-indexing functions, at index level

`Model/Ix.lean` transliterates the functions of /repo that index and slice strings by hand, statement by
statement, with `int` counters and Go's *checked* `s[i]`, `s[lo:hi]` (`.error ()` = run-time panic; running out of
loop fuel is an error too).  Each theorem below says, for **every** input: the program returns `.ok` — no index or
slice expression is ever out of range and every loop ends — and what it returns is what the list-level model (the
one the other properties are proved about and the correspondence check runs against the code) returns. -/

/-- **P8 (parseScheme).** -/
theorem C17_ix_parseScheme (str : Bytes) : Ix.parseScheme str = .ok (Lex.parseScheme str) := Ix.parseScheme_refines str
/-- **P8 (parsePort).** Includes the bounds-check hoist `_ = str[i:end]`. -/
theorem C17_ix_parsePort (str : Bytes) : Ix.parsePort str = .ok (Lex.parsePort str) := Ix.parsePort_refines str
/-- **P8 (fastParseHost).** Includes the short-circuit order `len(str) >= minIPv6HostLen && str[0] == '['`. -/
theorem C17_ix_fastParseHost (str : Bytes) : Ix.fastParseHost str = .ok (Lex.fastParseHost str) := Ix.fastParseHost_refines str
/-- **P8 (lastByte).** -/
theorem C17_ix_lastByte (str : Bytes) : Ix.lastByte str = .ok str.getLast? := Ix.lastByte_refines str
/-- **P8 (splitAtCommonSuffix).** The loop runs `i` down to −1; the list-level model works on reversed strings. -/
theorem C17_ix_splitAtCommonSuffix (a b : Bytes) :
    Ix.splitAtCommonSuffix a b = .ok ((Node.splitCommon a.reverse b.reverse).1.reverse,
      (Node.splitCommon a.reverse b.reverse).2.1.reverse, (Node.splitCommon a.reverse b.reverse).2.2.reverse) :=
  Ix.splitAtCommonSuffix_refines a b
/-- **P8 (TrimOWS, trimLeftOWS, trimRightOWS).** -/
theorem C17_ix_trimOWS (s : Bytes) (n : Nat) : Ix.trimOWS s n = .ok (Headers.trimOWS s n) := Ix.trimOWS_refines s n
/-- **P8 (cutAtComma).** -/
theorem C17_ix_cutAtComma (str : Bytes) (n : Nat) : Ix.cutAtComma str n = .ok (Headers.cutAtComma str n) := Ix.cutAtComma_refines str n

/-- **P8 (insert).** The generic slice insertion of radix.go (`append`, overlapping `copy`, `s[i] = v`) with
`0 ≤ i ≤ len(s)` — the range of the position `slices.BinarySearch` returns — stays in range and inserts at `i`. -/
theorem C17_ix_insert {α : Type} [Inhabited α] (s : List α) (i : Nat) (h : i ≤ s.length) (v : α) :
    Ix.insertG s (i : Int) v = .ok (s.take i ++ v :: s.drop i) := Ix.insertG_refines s i h v
/-- **P8 (First).** -/
theorem C17_ix_first (v : Option (List Bytes)) :
    Ix.first v = .ok (match v with | some (x :: _) => some (x, [x]) | _ => none) := Ix.first_refines v
/-- **P8 (ASCIISet).** The `[8]uint32` bit set: `MakeASCIISet(chars)` never indexes the array out of range, and
for every byte `c`, `Contains(c)` neither does nor answers anything but "c occurs in chars" — the list membership
by which the model represents every byte class of the lexers (`Cors.asciiContains` on the regenerated tables). -/
theorem C17_ix_asciiSet (chars : Bytes) (hb : ∀ x ∈ chars, x < 256) :
    ∃ as, Ix.makeASCIISet chars Ix.zero8 = .ok as ∧ ∀ c, c < 256 → Ix.asciiContains as c = .ok (asciiContains chars c) :=
  Ix.asciiSet_refines chars hb

/-- **P8 (Check, IndexAfter).** The whole of `headers.Check` — the function that reads the attacker-controlled
`Access-Control-Request-Headers` lines — at index level: `cutAtComma`, `TrimOWS` and `IndexAfter`'s
`set.elems[start:]` stay in range on every set and every list of lines (`start ≤ Size` is an invariant of the loop,
by P3), every loop ends, and the verdict is the list-level model's (the one C02 and C14 are proved about). -/
theorem C17_ix_check (set : SortedSet) (acrhs : List Bytes) : Ix.check set acrhs = .ok (Headers.check set acrhs) :=
  Ix.check_refines set acrhs

/-- **P8 (Parse).** `origins.Parse` composed of the index-level lexers. -/
theorem C17_ix_parse (str : Bytes) : Ix.parse str = .ok (Lex.parse str) := Ix.parse_refines str
/-- **P8 (Tree.Contains, node.contains).** The look-up loop on the parallel slices of the nodes
(`n.edges`/`n.children`, `n.schemes`/`n.ports`, the position being where `slices.BinarySearch` finds the label resp.
the scheme): `n.children[i]`, `n.ports[i]`, `lastByte`, `splitAtCommonSuffix` stay in range on **every** tree value
of the model (the parallel slices are the two projections of one list of pairs there, so "equal lengths" is built
into the representation; `C17_ix_insert` shows that the code's `insert` on both slices at the same `i` keeps them
so), the loop ends within depth-of-the-tree iterations, and the answer is `Tree.contains`. -/
theorem C17_ix_treeContains (t : Node) (o : Origin) : Ix.treeContains t o = .ok (Tree.contains t o) :=
  Ix.treeContains_refines t o
/-- **P8 (request path).** For every tree and every byte string sent as `Origin`: `Parse` followed by
`Tree.Contains` never indexes out of range, always ends, and decides what the list-level model decides. -/
theorem C17_ix_originAllowed (t : Node) (str : Bytes) :
    Ix.originAllowed t str = .ok (match Lex.parse str with | none => false | some o => Tree.contains t o) :=
  Ix.originAllowed_refines t str


/-! ### P9. The configuration-time half of the radix tree, at index level (Model/IxTree.lean)

A node keeps its five fields as in Go (`Ix.INode`: `suf`, `edges`, `children`, `schemes`, `ports`), so the two
invariants the doc comment of `origins.node` states — `len(edges) == len(children)`, `len(schemes) == len(ports)` —
are statements (`Ix.WFI`) instead of being built into the representation.  `Ix.conc n` is the slice representation
of the list-level tree `n`.  Each theorem says: run on `conc n`, the index-level program returns `.ok` (no index or
slice expression out of range, every loop ends) of the slice representation of the list-level result. -/

/-- **P9 (node.add).** `n.ports[i]`, `n.ports[i] = ports`, both `insert`s and `deleteSameSign`'s `s[i:]` / `s[:i]`. -/
theorem C17_ix_add (S : List (Bytes × List Int)) (scheme : Bytes) (port : Int) (wild : Bool) :
    Ix.addI (S.map Prod.fst) (S.map Prod.snd) scheme port wild =
      .ok ((Node.addPort S scheme port wild).map Prod.fst, (Node.addPort S scheme port wild).map Prod.snd) :=
  Ix.addI_refines S scheme port wild
/-- **P9 (deleteSameSign).** For every slice, sorted or not. -/
theorem C17_ix_deleteSameSign (s : List Int) (v : Int) : Ix.deleteSameSignI s v = .ok (Node.deleteSameSign s v) :=
  Ix.deleteSameSignI_refines s v
/-- **P9 (node.upsertEdge).** Both `insert`s, `n.children[i] = child` and the returned `&n.children[i]`. -/
theorem C17_ix_upsertEdge (K : List (Nat × Node)) (label : Nat) (child : Node) :
    Ix.upsertEdgeI (K.map Prod.fst) (K.map (fun e => Ix.conc e.2)) label (Ix.conc child) =
      .ok ((Node.upsert label child K).map Prod.fst, (Node.upsert label child K).map (fun e => Ix.conc e.2),
        Ix.lowerBound Ix.natLt label (K.map Prod.fst)) :=
  Ix.upsertEdgeI_refines K label child
/-- **P9 (Tree.Insert).** For every tree and every pattern whose host value is not empty (P1): `s[0]`, `s[1:]`,
`n.children[i]`, `lastByte`, `splitAtCommonSuffix`, `add`, `upsertEdge` never go out of range, and the loop ends
after at most depth-of-the-tree iterations. -/
theorem C17_ix_treeInsert (t : Node) (p : Pattern) (h : p.value ≠ []) :
    Ix.treeInsert (Ix.conc t) p = .ok (Ix.conc (Tree.insert t p)) := Ix.treeInsert_refines t p h
/-- **P9 (building the tree of a configuration).** Inserting, from the zero `Tree`, any list of patterns that
`ParsePattern` returned (for any answers of the IDNA / public-suffix oracles) never panics, yields the slice
representation of the list-level tree (the one C01 is proved about), and that tree satisfies both length invariants
at every node. -/
theorem C17_ix_treeBuild (ext : Ext) (ps : List Pattern) (h : ∀ p ∈ ps, ∃ s, parsePattern ext s = .ok p) :
    Ix.buildI ps Ix.INode.zero = .ok (Ix.conc (ps.foldl Tree.insert Node.empty)) ∧
    Ix.WFI (Ix.conc (ps.foldl Tree.insert Node.empty)) := by
  refine ⟨?_, Ix.WFI_conc _⟩
  rw [← Ix.conc_empty]
  apply Ix.buildI_refines
  intro p hp
  obtain ⟨s, hs⟩ := h p hp
  exact (C17_value_nonempty ext s p hs).1
/-- **P9 (the length invariants).** The slice representation of every list-level tree has `len(edges) ==
len(children)` and `len(schemes) == len(ports)` at every node. -/
theorem C17_node_lengths (t : Node) : Ix.WFI (Ix.conc t) := Ix.WFI_conc t
/-- **P9 (node.elems, Tree.Elems).** `n.schemes[i]` for `i` ranging over `n.ports`, `n.children[i]`; the recursion ends. -/
theorem C17_ix_treeElems (t : Node) : Ix.treeElems (Ix.conc t) = .ok (Tree.elems t) := Ix.treeElems_refines t

/-- **P9 (parseHostPattern, hostOnly).** For every input: `hostOnly`'s `hp.Value[len(subdomainWildcard)+1:]` (the two bytes
`peekKind` saw) and the trim `pattern.Value[:end]` (the lexed host is never longer than what was lexed) are in range. -/
theorem C17_ix_parseHostPattern (ext : Ext) (str : Bytes) :
    Ix.parseHostPatternI ext str = .ok (parseHostPattern ext str) := Ix.parseHostPatternI_refines ext str
/-- **P9 (hostOnly on accepted patterns).** `IsDeemedInsecure` and `HostIsEffectiveTLD` call `hostOnly` on patterns that
`ParsePattern` returned: a subdomains pattern is `*.` + a non-empty base (P1), so the slice is in range. -/
theorem C17_ix_hostOnly (ext : Ext) (s : Bytes) (p : Pattern) (h : parsePattern ext s = .ok p) :
    Ix.hostOnlyI p.value p.kind = .ok (hostOnly p.value p.kind) := by
  apply Ix.hostOnlyI_refines
  intro hk
  obtain ⟨base, hv, _⟩ := (C17_value_nonempty ext s p h).2 hk
  rw [hv]; simp
/-- **P9 (newConfig).** `icfg.acma[0]` under `len(icfg.acma) > 0`. -/
theorem C17_ix_acma (acma : List Bytes) : Ix.acmaHead acma = .ok acma.head? := Ix.acmaHead_refines acma

/-- Not vacuous: on slices that violate the invariants the checked programs do report the panic. -/
example : Ix.elemsSchemes [] [] [[0]] 0 = .error () := by rfl
example : Ix.nodeContainsI [[104]] [] [104] 0 false = .error () := by rfl
example : Ix.treeInsert Ix.INode.zero { (default : Pattern) with value := [] } = .error () := by rfl

/-- The checked operations do report what Go would panic on (the theorems above are not vacuous): reading past
the end, an inverted slice, `parseScheme` without its `len(str) == 0 ||` guard, `lastByte` without its guard. -/
example : Ix.idx [1, 2, 3] 3 = .error () := by rfl
example : Ix.slice [1, 2, 3] 2 1 = .error () := by rfl
example : Ix.slice [1, 2, 3] 1 4 = .error () := by rfl
example : (Ix.idx [] 0 >>= fun c => pure (Lex.isLowerAlpha c) : Ix.Chk Bool) = .error () := by rfl
example : Ix.idx [] (Ix.len [] - 1) = .error () := by rfl
example : Ix.insertG [1, 2, 3] 4 (9 : Nat) = .error () := by rfl
example : Ix.asciiContains [0, 0, 0, 0, 0, 0, 0] 255 = .error () := by rfl
example : Ix.indexAfter { elems := [[97]], maxLen := 1 } 1 [97] = .error () := by rfl
example : Ix.parseScheme (Spec.b "https://a") = .ok (some (Spec.b "https", Spec.b "://a")) := by rfl
example : Ix.splitAtCommonSuffix (Spec.b "foo.example.com") (Spec.b "bar.example.com")
    = .ok (Spec.b "foo", Spec.b "bar", Spec.b ".example.com") := by rfl

/-- Fingerprints (SHA-256, first 12 bytes, computed by harness/extract on every run) of the text of the functions
`Model/Ix.lean` transliterates — signature and body, comments dropped, white space normalised.  The texts the
transliteration was written from (Gen/Facts.lean carries today's texts in the comment of `cors_ixBodies`):

  * `origins.parseScheme|func(str string) (string, string, bool) { if len(str) == 0 || !isLowerAlpha(str[0]) { return "", str, false } i := 1 for end := min(maxSchemeLen, len(str)); i < end; i++ { if !isSubsequentSchemeByte(str[i]) { break } } return str[:i], str[i:], true }`
  * `origins.parsePort|func(str string) (int, string, bool) { const base = 10 if len(str) == 0 || !isNonZeroDigit(str[0]) { return 0, str, false } port := intFromDigit(str[0]) i := 1 end := min(len(str), maxPortLen) _ = str[i:end] for ; i < end; i++ { if !isDigit(str[i]) { break } port = base*port + intFromDigit(str[i]) } if port < 0 || maxUint16 < port { return 0, str, false } return port, str[i:], true }`
  * `origins.fastParseHost|func(str string) (Host, string, bool) { const ( minIPv6HostLen = len("[::]") maxIPv6HostLen = len("[1111:1111:1111:1111:1111:1111:1111:1111]") ) if len(str) >= minIPv6HostLen && str[0] == '[' { end := strings.IndexByte(str, ']') if end == -1 { return zeroHost, str, false } host := Host{ Value: str[1:end], AssumeIP: true, } return host, str[end+1:], true } if len(str) == 0 || str[0] == labelSep { return zeroHost, str, false } var ( previousByteWasLabelSep bool assumeIPv4 bool i int ) for ; i < len(str); i++ { if str[i] == labelSep { if previousByteWasLabelSep { return zeroHost, "", false } previousByteWasLabelSep = true } else if isDigit(str[i]) { if previousByteWasLabelSep || i == 0 { assumeIPv4 = true } previousByteWasLabelSep = false } else if isASCIILabelByte(str[i]) { if previousByteWasLabelSep { assumeIPv4 = false } previousByteWasLabelSep = false } else { break } } host := Host{ Value: str[:i], AssumeIP: assumeIPv4, } return host, str[i:], true }`
  * `origins.lastByte|func(str string) (byte, bool) { if len(str) == 0 { return 0, false } return str[len(str)-1], true }`
  * `origins.splitAtCommonSuffix|func(a, b string) (string, string, string) { s, l := a, b if len(l) < len(s) { s, l = l, s } l = l[len(l)-len(s):] _ = l[:len(s)] i := len(s) - 1 for ; 0 <= i && s[i] == l[i]; i-- { } i++ return a[:len(a)-len(s)+i], b[:len(b)-len(s)+i], s[i:] }`
  * `headers.TrimOWS|func(s string, n int) (trimmed string, ok bool) { if s == "" { return s, true } trimmed, ok = trimRightOWS(s, n) if !ok { return s, false } trimmed, ok = trimLeftOWS(trimmed, n) if !ok { return s, false } return trimmed, true }`
  * `headers.trimLeftOWS|func(s string, n int) (string, bool) { sCopy := s var i int for len(s) > 0 { if i > n { return sCopy, false } if !isOWS(s[0]) { break } s = s[1:] i++ } return s, true }`
  * `headers.trimRightOWS|func(s string, n int) (string, bool) { sCopy := s var i int for len(s) > 0 { if i > n { return sCopy, false } if !isOWS(s[len(s)-1]) { break } s = s[:len(s)-1] i++ } return s, true }`
  * `headers.cutAtComma|func(str string, n uint) (before, after string, found bool) { end := int(min(uint(len(str)), n)) if i := strings.IndexByte(str[:end], ','); i >= 0 { after = str[i+1:] return str[:i], after, true } return str, "", false }`
  * `headers.First|func(hdrs http.Header, k string) (string, []string, bool) { v, found := hdrs[k] if !found || len(v) == 0 { return "", nil, false } return v[0], v[:1], true }`
  * `origins.insert|func[T any](s []T, i int, v T) []T { var dummy T s = append(s, dummy) copy(s[i+1:], s[i:]) s[i] = v return s }`
  * `util.MakeASCIISet|func(chars string) ASCIISet { var as ASCIISet for i := range len(chars) { c := chars[i] as[c/32] |= 1 << (c % 32) } return as }`
  * `util.(*ASCIISet).Contains|func(c byte) bool { return (as[c/32] & (1 << (c % 32))) != 0 }`
  * `headers.Check|func(set util.SortedSet, acrhs []string) bool { maxLen := MaxOWSBytes + set.MaxLen() + MaxOWSBytes + 1 var ( posOfLastNameSeen = -1 name string commaFound bool emptyElements int ok bool ) for _, acrh := range acrhs { for { name, acrh, commaFound = cutAtComma(acrh, maxLen) name, ok = TrimOWS(name, MaxOWSBytes) if !ok { return false } if name == "" { emptyElements++ if emptyElements > MaxEmptyElements { return false } if !commaFound { break } continue } i := set.IndexAfter(posOfLastNameSeen, name) if i < 0 { return false } posOfLastNameSeen = i if !commaFound { break } } } return true }`
  * `util.(SortedSet).IndexAfter|func(n int, e string) int { if set.maxLen < uint(len(e)) { return -1 } start := n + 1 i, found := slices.BinarySearch(set.elems[start:], e) if !found { return -1 } return start + i }`
  * `origins.Parse|func(str string) (Origin, bool) { const maxOriginLen = maxSchemeLen + len(schemeHostSep) + maxHostPortLen + 1 if len(str) > maxOriginLen { return zeroOrigin, false } scheme, str, ok := parseScheme(str) if !ok { return zeroOrigin, false } str, ok = strings.CutPrefix(str, schemeHostSep) if !ok { return zeroOrigin, false } host, str, ok := fastParseHost(str) if !ok { return zeroOrigin, false } var port int if len(str) > 0 { str, ok = strings.CutPrefix(str, string(hostPortSep)) if !ok { return zeroOrigin, false } port, str, ok = parsePort(str) if !ok || str != "" { return zeroOrigin, false } } o := Origin{ Scheme: scheme, Host: host, Port: port, } return o, true }`
  * `origins.(*Tree).Contains|func(o *Origin) bool { host := o.Host.Value n := &t.root for { label, ok := lastByte(host) if !ok { return n.contains(o.Scheme, o.Port, false) } if n.contains(o.Scheme, o.Port, true) { return true } i, found := slices.BinarySearch(n.edges, label) if !found { return false } n = &n.children[i] prefixOfHost, _, suf := splitAtCommonSuffix(host, n.suf) if len(suf) != len(n.suf) { return false } host = prefixOfHost } }`
  * `origins.(*node).contains|func(scheme string, port int, wildcardSubs bool) (found bool) { wildcardPort := wildcardPort if wildcardSubs { port -= portOffset wildcardPort -= portOffset } i, found := slices.BinarySearch(n.schemes, scheme) if !found { return } ports := n.ports[i] _, found = slices.BinarySearch(ports, port) if found { return } _, found = slices.BinarySearch(ports, wildcardPort) return }`
  * `origins.(*Tree).Insert|func(p *Pattern) { s := p.HostPattern.Value var wildcardSubs bool if s[0] == '*' { wildcardSubs = true s = s[1:] } n := &t.root for { labelToChild, ok := lastByte(s) if !ok { n.add(p.Scheme, p.Port, wildcardSubs) return } if n.contains(p.Scheme, p.Port, true) { return } i, found := slices.BinarySearch(n.edges, labelToChild) if !found { child := node{suf: s} child.add(p.Scheme, p.Port, wildcardSubs) n.upsertEdge(labelToChild, child) return } child := &n.children[i] prefixOfS, prefixOfChildSuf, suf := splitAtCommonSuffix(s, child.suf) labelToGrandChild1, ok := lastByte(prefixOfChildSuf) if !ok { s = prefixOfS n = child continue } grandChild1 := node{ suf: prefixOfChildSuf, edges: child.edges, children: child.children, schemes: child.schemes, ports: child.ports, } child = n.upsertEdge(labelToChild, node{suf: suf}) child.upsertEdge(labelToGrandChild1, grandChild1) labelToGrandChild2, ok := lastByte(prefixOfS) if !ok { child.add(p.Scheme, p.Port, wildcardSubs) return } grandChild2 := node{suf: prefixOfS} grandChild2.add(p.Scheme, p.Port, wildcardSubs) child.upsertEdge(labelToGrandChild2, grandChild2) return } }`
  * `origins.(*node).add|func(scheme string, port int, wildcardSubs bool) { wildcardPort := wildcardPort if wildcardSubs { port -= portOffset wildcardPort -= portOffset } if n.contains(scheme, port, wildcardSubs) { return } i, found := slices.BinarySearch(n.schemes, scheme) if !found { n.schemes = insert(n.schemes, i, scheme) n.ports = insert(n.ports, i, []int{port}) return } ports := n.ports[i] if port == wildcardPort { ports = deleteSameSign(ports, port) } ports = append(ports, port) slices.Sort(ports) n.ports[i] = ports }`
  * `origins.(*node).upsertEdge|func(label byte, child node) *node { i, found := slices.BinarySearch(n.edges, label) if !found { n.edges = insert(n.edges, i, label) n.children = insert(n.children, i, child) return &n.children[i] } n.children[i] = child return &n.children[i] }`
  * `origins.deleteSameSign|func(s []int, v int) []int { i, _ := slices.BinarySearch(s, 0) if v < 0 { return s[i:] } return s[:i] }`
  * `origins.(*node).elems|func(dst *[]string, suf string) { suf = n.suf + suf host := suf if strings.IndexByte(host, hostPortSep) >= 0 { host = "[" + host + "]" } for i, ports := range n.ports { scheme := n.schemes[i] for _, port := range ports { var maybeWildcard string if port < 0 { maybeWildcard = subdomainWildcard port += portOffset } var s string switch port { case 0: s = scheme + schemeHostSep + maybeWildcard + host case wildcardPort: s = scheme + schemeHostSep + maybeWildcard + host + string(hostPortSep) + portWildcard default: s = scheme + schemeHostSep + maybeWildcard + host + string(hostPortSep) + strconv.Itoa(port) } *dst = append(*dst, s) } } for i := range n.children { n.children[i].elems(dst, suf) } }`
  * `origins.(*Tree).Elems|func() []string { var res []string t.root.elems(&res, "") slices.Sort(res) return res }`
  * `origins.parseHostPattern|func(str, full string) (HostPattern, string, error) { pattern := HostPattern{ Value: str, Kind: peekKind(str), } host, str, ok := fastParseHost(pattern.hostOnly()) if !ok { err := &cfgerrors.UnacceptableOriginPatternError{ Value: full, Reason: "invalid", } return zeroHostPattern, str, err } if pattern.Kind == PatternKindSubdomains { if len(host.Value) > maxHostLen-2 { err := &cfgerrors.UnacceptableOriginPatternError{ Value: full, Reason: "invalid", } return zeroHostPattern, str, err } if host.AssumeIP { err := &cfgerrors.UnacceptableOriginPatternError{ Value: full, Reason: "invalid", } return zeroHostPattern, str, err } } end := len(host.Value) if pattern.Kind == PatternKindSubdomains { end += len(subdomainWildcard) + 1 } pattern.Value = pattern.Value[:end] if host.AssumeIP { ip, err := netip.ParseAddr(host.Value) if err != nil { err := &cfgerrors.UnacceptableOriginPatternError{ Value: full, Reason: "invalid", } return zeroHostPattern, str, err } if ip.Zone() != "" { err := &cfgerrors.UnacceptableOriginPatternError{ Value: full, Reason: "invalid", } return zeroHostPattern, str, err } if ip.Is4In6() { err := &cfgerrors.UnacceptableOriginPatternError{ Value: full, Reason: "prohibited", } return zeroHostPattern, str, err } ipStr := ip.String() if ipStr != host.Value { err := &cfgerrors.UnacceptableOriginPatternError{ Value: full, Reason: "prohibited", } return zeroHostPattern, str, err } if ip.IsLoopback() { pattern.Kind = PatternKindLoopbackIP } else { pattern.Kind = PatternKindNonLoopbackIP } pattern.Value = ipStr return pattern, str, nil } _, err := profile.ToASCII(host.Value) if err != nil { err := &cfgerrors.UnacceptableOriginPatternError{ Value: full, Reason: "prohibited", } return zeroHostPattern, str, err } return pattern, str, nil }`
  * `origins.(*HostPattern).hostOnly|func() string { if hp.Kind == PatternKindSubdomains { return hp.Value[len(subdomainWildcard)+1:] } return hp.Value }`
  * `origins.peekKind|func(str string) PatternKind { const wildcardSeq = subdomainWildcard + string(labelSep) if strings.HasPrefix(str, wildcardSeq) { return PatternKindSubdomains } return PatternKindDomain }`
-/
def auditedBodies : List Bytes := [
  Spec.b "origins.parseScheme|04a7c4ffcf12f0724767ced4",
  Spec.b "origins.parsePort|05f7dd45c90cb08d3d71a57d",
  Spec.b "origins.fastParseHost|4af731bf8856ead2a1cfa7d6",
  Spec.b "origins.lastByte|d3ca513283c93e325e82dc44",
  Spec.b "origins.splitAtCommonSuffix|62e5792622b0cc8e5851d04d",
  Spec.b "headers.TrimOWS|da7dfb15aa3656dbbee9665f",
  Spec.b "headers.trimLeftOWS|7328e23ec641f7df09a1aa2f",
  Spec.b "headers.trimRightOWS|96fe99d0132768759e70ca53",
  Spec.b "headers.cutAtComma|dfcfd5fceca561452ab19331",
  Spec.b "headers.First|42c035fb58f9353926d95d4e",
  Spec.b "origins.insert|fb4213f2b7d6db6f6915e660",
  Spec.b "util.MakeASCIISet|32a0ffb8e82102331e8343b7",
  Spec.b "util.(*ASCIISet).Contains|d91cdec9740b2a4dc9133158",
  Spec.b "headers.Check|bd2865f1784a37ea10b3264f",
  Spec.b "util.(SortedSet).IndexAfter|678117c59beca02b1cce59bc",
  Spec.b "origins.Parse|08f500fa72f0663bc058fa76",
  Spec.b "origins.(*Tree).Contains|77792374ce1547a86a9c22a6",
  Spec.b "origins.(*node).contains|7c33deaa5f428dcb89cf28d9",
  Spec.b "origins.(*Tree).Insert|57f28c26e1a856b8b0878e58",
  Spec.b "origins.(*node).add|f1375b1d624227a291a589d4",
  Spec.b "origins.(*node).upsertEdge|6d2ec1d4f4cd6a7037f60795",
  Spec.b "origins.deleteSameSign|db1637adf0db2548322c8f8c",
  Spec.b "origins.(*node).elems|80a20c88e601c31687bce10e",
  Spec.b "origins.(*Tree).Elems|d5dd04a5b28151afd887304a",
  Spec.b "origins.parseHostPattern|335a7de3caddf4806c2efbd3",
  Spec.b "origins.(*HostPattern).hostOnly|ca60613108eb548d78ef30d1",
  Spec.b "origins.peekKind|46207a9076ebbaa14bcedcc3"
]

/-- **C17 (bodies).** The functions modelled at index level read, today, exactly as they did when the
transliteration was written: an edit of one of them breaks this obligation (and the check then searches for a
failing input). -/
theorem C17_ix_bodies : Facts.cors_ixBodies = auditedBodies := by decide +kernel

#print axioms C17_sites
#print axioms C17_value_nonempty
#print axioms C17_insert_key_nonempty
#print axioms C17_indexAfter_lt
#print axioms C17_cutAtComma_in_range
#print axioms C17_bracket_end
#print axioms C17_status_range
#print axioms C17_parsePort_hoist
#print axioms C17_ix_parseScheme
#print axioms C17_ix_parsePort
#print axioms C17_ix_fastParseHost
#print axioms C17_ix_lastByte
#print axioms C17_ix_splitAtCommonSuffix
#print axioms C17_ix_trimOWS
#print axioms C17_ix_cutAtComma
#print axioms C17_ix_insert
#print axioms C17_ix_first
#print axioms C17_ix_asciiSet
#print axioms C17_ix_check
#print axioms C17_ix_parse
#print axioms C17_ix_treeContains
#print axioms C17_ix_originAllowed
#print axioms C17_ix_bodies
#print axioms C17_ix_add
#print axioms C17_ix_deleteSameSign
#print axioms C17_ix_upsertEdge
#print axioms C17_ix_treeInsert
#print axioms C17_ix_treeBuild
#print axioms C17_node_lengths
#print axioms C17_ix_treeElems
#print axioms C17_ix_parseHostPattern
#print axioms C17_ix_hostOnly
#print axioms C17_ix_acma

end Cors
