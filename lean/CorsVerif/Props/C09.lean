import CorsVerif.Proofs.Accepted
import CorsVerif.Proofs.Translated
import CorsVerif.Proofs.Serve
import CorsVerif.Proofs.Pipeline
import CorsVerif.Proofs.Sound
/-
  C09 — Debug mode follows the documented state machine over any call history; debug mode
  changes nothing but preflight diagnostics.
-/
namespace Cors
open Gen Serve

/-- The documented state machine: is the middleware configured, and its debug mode. -/
structure SM where
  configured : Bool
  debug : Bool
deriving DecidableEq, Repr

/-- Operations on a middleware. -/
inductive Op
  | setDebug (b : Bool)
  | reconfigureNil
  | reconfigure (cfg : Config)

/-- The documentation, clause by clause. -/
def SM.step (ext : Ext) (s : SM) : Op → SM
  | .setDebug b => if s.configured then { s with debug := b } else s       -- no-op on a passthrough middleware
  | .reconfigureNil => { configured := false, debug := false }             -- passthrough: debug invariably off
  | .reconfigure cfg =>
    match newInternalConfig ext cfg with
    | .ok _ => { configured := true, debug := s.debug }                     -- success keeps the debug mode
    | .error _ => s                                                          -- failure changes nothing

/-- The implementation model. -/
def Mw.step (ext : Ext) (m : Mw) : Op → Mw
  | .setDebug b => m.setDebug b
  | .reconfigureNil => (m.reconfigure ext none).2
  | .reconfigure cfg => (m.reconfigure ext (some cfg)).2

/-- The simulation relation; it includes "a passthrough middleware has debug off". -/
def Sim (m : Mw) (s : SM) : Prop :=
  m.icfg.isSome = s.configured ∧ m.debug = s.debug ∧ (s.configured = false → s.debug = false)

theorem sim_step (ext : Ext) (m : Mw) (s : SM) (op : Op) (h : Sim m s) : Sim (Mw.step ext m op) (SM.step ext s op) := by
  obtain ⟨h1, h2, h3⟩ := h
  cases op with
  | setDebug b =>
    simp only [Mw.step, Mw.setDebug, SM.step]
    cases hc : s.configured with
    | true => simp [Sim, h1, hc]
    | false =>
      have : m.icfg.isSome = false := by rw [h1, hc]
      simp [Sim, this, hc, h3 hc]
  | reconfigureNil => simp [Mw.step, Mw.reconfigure, SM.step, Sim]
  | reconfigure cfg =>
    simp only [Mw.step, Mw.reconfigure, SM.step]
    cases newInternalConfig ext cfg with
    | error e => exact ⟨h1, h2, h3⟩
    | ok icfg => simp [Sim, h2]

/-- **C09 (state machine).** Over any sequence of SetDebug / Reconfigure calls, of any length,
starting from the zero value, the model follows the documented state machine. -/
theorem C09_sim_zero (ext : Ext) (ops : List Op) :
    Sim (ops.foldl (Mw.step ext) Mw.zero) (ops.foldl (SM.step ext) { configured := false, debug := false }) := by
  suffices ∀ m s, Sim m s → Sim (ops.foldl (Mw.step ext) m) (ops.foldl (SM.step ext) s) from
    this _ _ ⟨rfl, rfl, fun _ => rfl⟩
  induction ops with
  | nil => intro m s h; exact h
  | cons op ops ih => intro m s h; exact ih _ _ (sim_step ext m s op h)

/-- … and starting from `NewMiddleware(cfg)` (debug off after creation). -/
theorem C09_sim_new (ext : Ext) (cfg : Config) (m : Mw) (hm : Mw.new ext cfg = .ok m) (ops : List Op) :
    Sim (ops.foldl (Mw.step ext) m) (ops.foldl (SM.step ext) { configured := true, debug := false }) := by
  have h0 : Sim m { configured := true, debug := false } := by
    unfold Mw.new at hm
    cases hc : newInternalConfig ext cfg with
    | error e => simp [hc] at hm
    | ok icfg =>
      simp only [hc, Except.ok.injEq] at hm
      subst hm
      exact ⟨rfl, rfl, fun h => by cases h⟩
  suffices ∀ m s, Sim m s → Sim (ops.foldl (Mw.step ext) m) (ops.foldl (SM.step ext) s) from this _ _ h0
  induction ops with
  | nil => intro m s h; exact h
  | cons op ops ih => intro m s h; exact ih _ _ (sim_step ext m s op h)

/-- The configuration in force was accepted: it is the internal form of some `Config` that validation let through. -/
def Mw.Accepted (ext : Ext) (m : Mw) : Prop :=
  ∀ i, m.icfg = some i → ∃ cfg, newInternalConfig ext cfg = .ok i

theorem accepted_step (ext : Ext) (m : Mw) (op : Op) (h : m.Accepted ext) : (Mw.step ext m op).Accepted ext := by
  cases op with
  | setDebug b => intro i hi; exact h i (by simpa [Mw.step, Mw.setDebug] using hi)
  | reconfigureNil => intro i hi; simp [Mw.step, Mw.reconfigure] at hi
  | reconfigure cfg =>
    intro i hi
    simp only [Mw.step, Mw.reconfigure] at hi
    cases hc : newInternalConfig ext cfg with
    | error e => rw [hc] at hi; exact h i hi
    | ok icfg =>
      rw [hc] at hi
      simp only [Option.some.injEq] at hi
      subst hi
      exact ⟨cfg, hc⟩

/-- **Every reachable state holds an accepted configuration.** After any sequence of `SetDebug` and
`Reconfigure` calls (valid, invalid or nil, in any order), starting from the zero value or from
`NewMiddleware`, the middleware is passthrough or holds the internal form of a `Config` that validation
accepted. This is what makes the per-configuration theorems (C01-C03, C10, C11, C14, C16: "for every accepted
configuration …") statements about *every state a middleware can be in*; `C09_reachable_response` spells out
what that means for the handler returned by `Wrap`. -/
theorem C09_reachable_accepted (ext : Ext) (m0 : Mw) (h0 : m0 = Mw.zero ∨ ∃ cfg, Mw.new ext cfg = .ok m0) (ops : List Op) :
    (ops.foldl (Mw.step ext) m0).Accepted ext := by
  have hstart : m0.Accepted ext := by
    rcases h0 with rfl | ⟨cfg, hm⟩
    · intro i hi; simp [Mw.zero] at hi
    · intro i hi
      unfold Mw.new at hm
      cases hc : newInternalConfig ext cfg with
      | error e => simp [hc] at hm
      | ok icfg =>
        simp only [hc, Except.ok.injEq] at hm
        subst hm
        simp only [Option.some.injEq] at hi
        subst hi
        exact ⟨cfg, hc⟩
  suffices ∀ m, m.Accepted ext → (ops.foldl (Mw.step ext) m).Accepted ext from this _ hstart
  induction ops with
  | nil => intro m h; exact h
  | cons op ops ih => intro m h; exact ih _ (accepted_step ext m op h)

/-- **Every response of every reachable middleware** is either the untouched pass-through (no configuration
in force) or `Serve.serve icfg debug` for the internal form `icfg` of an accepted `Config` and the debug mode
the documented state machine prescribes after the same operations. -/
theorem C09_reachable_response (ext : Ext) (ops : List Op) (r : Req) (pre : HdrMap) :
    let m := ops.foldl (Mw.step ext) Mw.zero
    let s := ops.foldl (SM.step ext) { configured := false, debug := false }
    (s.configured = false ∧ m.serve r pre = { hdrs := pre, status := none, next := true }) ∨
    (s.configured = true ∧ ∃ cfg icfg, newInternalConfig ext cfg = .ok icfg ∧ m.serve r pre = Serve.serve icfg s.debug r pre) := by
  simp only []
  have hacc := C09_reachable_accepted ext Mw.zero (Or.inl rfl) ops
  obtain ⟨h1, h2, _⟩ := C09_sim_zero ext ops
  cases hi : (ops.foldl (Mw.step ext) Mw.zero).icfg with
  | none =>
    left
    rw [hi] at h1
    exact ⟨h1.symm, by unfold Mw.serve; rw [hi]⟩
  | some icfg =>
    right
    rw [hi] at h1
    obtain ⟨cfg, hc⟩ := hacc icfg hi
    exact ⟨h1.symm, cfg, icfg, hc, by unfold Mw.serve; rw [hi, h2]⟩

/-- Creation through the zero value + Reconfigure and through NewMiddleware agree. -/
theorem C09_ctor (ext : Ext) (cfg : Config) :
    (match Mw.new ext cfg with | .ok m => (none, m) | .error e => (some e, Mw.zero)) =
      Mw.zero.reconfigure ext (some cfg) := by
  unfold Mw.new Mw.reconfigure
  cases h : newInternalConfig ext cfg <;> simp [h, Mw.zero]

/-- **C09 (debug changes only preflight diagnostics).** On any request that is not a preflight
the response does not depend on the debug flag at all. -/
theorem C09_nonpreflight (dec : Dec) (icfg : ICfg) (r : Req) (pre : HdrMap) (h : r.isPreflight = false) :
    serveDec dec icfg true r pre = serveDec dec icfg false r pre := by
  unfold Req.isPreflight at h
  unfold serveDec
  cases ho : r.hdrs.first Facts.headers_Origin with
  | none => rfl
  | some o =>
    cases ha : r.hdrs.first Facts.headers_ACRM with
    | none => rfl
    | some a =>
      have hm : (r.method == OPTIONS) = false := by simpa [ho, ha] using h
      simp [hm]

/-- In both debug modes a preflight is answered by the middleware alone. -/
theorem C09_preflight_next (dec : Dec) (icfg : ICfg) (dbg : Bool) (r : Req) (pre : HdrMap) (h : r.isPreflight = true) :
    (serveDec dec icfg dbg r pre).next = false := by
  unfold Req.isPreflight at h
  simp only [Bool.and_eq_true, beq_iff_eq, Option.isSome_iff_exists] at h
  obtain ⟨⟨hm, ⟨o, ho⟩⟩, ⟨a, ha⟩⟩ := h
  simp only [serveDec, ho, ha, hm, beq_self_eq_true, if_true, handleCORSPreflight]
  cases preflightSteps dec icfg r.hdrs o a dbg <;> cases dbg <;> rfl

/-! ### What debug mode may change on a preflight -/

open Pipeline

/-- The diagnostic headers: the five the pipeline produces, and Access-Control-Max-Age. -/
def isDiagKey (k : Bytes) : Prop := isPipelineKey k ∨ k = Facts.headers_ACMA

theorem preflight_hdrs_frame (dec : Dec) (icfg : ICfg) (pre reqHdrs : HdrMap) (o m : Bytes) (dbg : Bool)
    (k : Bytes) (hk : ¬ isDiagKey k) :
    (handleCORSPreflight dec icfg pre reqHdrs o m dbg).hdrs k = preflightVary pre k := by
  have hk1 : ¬ isPipelineKey k := fun h => hk (Or.inl h)
  have hk2 : k ≠ Facts.headers_ACMA := fun h => hk (Or.inr h)
  have hf := steps_frame dec icfg reqHdrs o m dbg k hk1
  unfold handleCORSPreflight
  cases hs : preflightSteps dec icfg reqHdrs o m dbg with
  | originFail b =>
    rw [hs] at hf
    cases dbg
    · rfl
    · exact copy_none _ _ _ hf
  | laterFail b =>
    rw [hs] at hf
    cases dbg
    · rfl
    · exact copy_none _ _ _ hf
  | ok b =>
    rw [hs] at hf
    simp only []
    split
    · rw [assign_other _ _ _ _ hk2]; exact copy_none _ _ _ hf
    · exact copy_none _ _ _ hf

/-- **C09 (debug mode touches nothing but the diagnostics).** On a preflight, every response
header other than the six diagnostic ones (Allow-Origin, Allow-Credentials, Allow-Private-Network,
Allow-Methods, Allow-Headers, Max-Age) is the same in both debug modes — in particular Vary, and
whatever was in the header map before. -/
theorem C09_preflight_frame (dec : Dec) (icfg : ICfg) (r : Req) (pre : HdrMap) (h : r.isPreflight = true)
    (k : Bytes) (hk : ¬ isDiagKey k) :
    (serveDec dec icfg true r pre).hdrs k = (serveDec dec icfg false r pre).hdrs k := by
  unfold Req.isPreflight at h
  simp only [Bool.and_eq_true, beq_iff_eq, Option.isSome_iff_exists] at h
  obtain ⟨⟨hm, ⟨o, ho⟩⟩, ⟨a, ha⟩⟩ := h
  simp only [serveDec, ho, ha, hm, beq_self_eq_true, if_true]
  rw [preflight_hdrs_frame _ _ _ _ _ _ true k hk, preflight_hdrs_frame _ _ _ _ _ _ false k hk]

/-- **C09 (a preflight that succeeds without debug mode succeeds with it, identically up to
Allow-Headers).** For an accepted configuration: same status, every header other than
Access-Control-Allow-Headers identical, and Allow-Headers either identical or the full list of
allowed request-header names. -/
theorem C09_preflight_success (dec : Dec) (icfg : ICfg) (hwf : icfg.WF) (hrs : icfg.ReqHdrsSound)
    (r : Req) (pre : HdrMap) (h : r.isPreflight = true)
    (h0 : (serveDec dec icfg false r pre).status = some (okStatus icfg)) :
    (serveDec dec icfg true r pre).status = some (okStatus icfg) ∧
    (∀ k, k ≠ Facts.headers_ACAH → (serveDec dec icfg true r pre).hdrs k = (serveDec dec icfg false r pre).hdrs k) ∧
    ((serveDec dec icfg true r pre).hdrs Facts.headers_ACAH = (serveDec dec icfg false r pre).hdrs Facts.headers_ACAH ∨
     (serveDec dec icfg true r pre).hdrs Facts.headers_ACAH = some icfg.acah) := by
  have hd : okStatus icfg ≠ forbidden := by
    have := hwf.status_lt
    unfold okStatus forbidden
    simp only [Facts.cors_preflightFailStatuses]
    omega
  unfold Req.isPreflight at h
  simp only [Bool.and_eq_true, beq_iff_eq, Option.isSome_iff_exists] at h
  obtain ⟨⟨hm, ⟨o, ho⟩⟩, ⟨a, ha⟩⟩ := h
  simp only [serveDec, ho, ha, hm, beq_self_eq_true, if_true] at h0 ⊢
  -- debug off: the pipeline succeeded
  cases hs0 : preflightSteps dec icfg r.hdrs o a false with
  | originFail b =>
    simp only [handleCORSPreflight, hs0, Bool.false_eq_true, if_false] at h0
    exact absurd (Option.some.inj h0).symm hd
  | laterFail b =>
    simp only [handleCORSPreflight, hs0, Bool.false_eq_true, if_false] at h0
    exact absurd (Option.some.inj h0).symm hd
  | ok b0 =>
    have c0 := (steps_ok_iffD dec icfg r.hdrs o a false).mp ⟨b0, hs0⟩
    simp only [Bool.and_eq_true] at c0
    obtain ⟨⟨⟨c1, c2⟩, c3⟩, c4⟩ := c0
    -- hence it succeeds in debug mode too
    have c4' : headerCondD dec icfg r.hdrs true = true := by
      unfold headerCondD at c4 ⊢
      cases hl : r.hdrs Facts.headers_ACRH with
      | none => rfl
      | some lines =>
        simp only [hl, Bool.false_eq_true, if_false, if_true] at c4 ⊢
        cases hast : icfg.asteriskReqHdrs with
        | true => rfl
        | false =>
          simp only [hast, Bool.false_or, Bool.and_eq_true] at c4 ⊢
          have hne : icfg.allowedReqHdrs.elems ≠ [] := by
            intro h0
            have : icfg.allowedReqHdrs.size = 0 := by unfold SortedSet.size; rw [h0]; rfl
            rw [this] at c4
            simp at c4
          have := hrs.acah hast
          rw [if_neg hne] at this
          rw [this]; rfl
    obtain ⟨b1, hs1⟩ := (steps_ok_iffD dec icfg r.hdrs o a true).mpr (by simp [c1, c2, c3, c4'])
    obtain ⟨v0o, v0c, v0p, v0m, v0h⟩ := steps_ok_view hs0
    obtain ⟨v1o, v1c, v1p, v1m, v1h⟩ := steps_ok_view hs1
    have hsame : ∀ k, k ≠ Facts.headers_ACAH → b1 k = b0 k := by
      intro k hk
      by_cases hp : isPipelineKey k
      · rcases hp with rfl | rfl | rfl | rfl | rfl
        · rw [v0o, v1o]
        · rw [v0c, v1c]
        · rw [v0p, v1p]
        · rw [v0m, v1m]
        · exact absurd rfl hk
      · have f0 := steps_frame dec icfg r.hdrs o a false k hp
        have f1 := steps_frame dec icfg r.hdrs o a true k hp
        rw [hs0] at f0
        rw [hs1] at f1
        exact f1.trans f0.symm
    simp only [handleCORSPreflight, hs0, hs1]
    refine ⟨trivial, ?_, ?_⟩
    · intro k hk
      have hb := hsame k hk
      by_cases hk2 : k = Facts.headers_ACMA
      · subst hk2
        split
        · rw [assign_same, assign_same]
        · simp only [HdrMap.copy, hb]
      · split
        · rw [assign_other _ _ _ _ hk2, assign_other _ _ _ _ hk2]; simp only [HdrMap.copy, hb]
        · simp only [HdrMap.copy, hb]
    · have hA : Facts.headers_ACAH ≠ Facts.headers_ACMA := by decide
      have hlook : ∀ b : Buf, (if (!icfg.acma.isEmpty) = true then ((preflightVary pre).copy b).assign Facts.headers_ACMA icfg.acma
            else (preflightVary pre).copy b) Facts.headers_ACAH = ((preflightVary pre).copy b) Facts.headers_ACAH := by
        intro b; split
        · exact assign_other _ _ _ _ hA
        · rfl
      rw [hlook b1, hlook b0]
      unfold expACAH at v0h v1h
      cases hl : r.hdrs Facts.headers_ACRH with
      | none =>
        rw [hl] at v0h v1h
        left
        simp only [HdrMap.copy, v0h, v1h]
      | some lines =>
        rw [hl] at v0h v1h
        simp only [] at v0h v1h
        by_cases hx : (icfg.asteriskReqHdrs && !icfg.credentialed) = true
        · rw [if_pos hx] at v0h v1h
          left; simp only [HdrMap.copy, v0h, v1h]
        · rw [if_neg hx] at v0h v1h
          by_cases hy : (icfg.asteriskReqHdrs && icfg.credentialed) = true
          · rw [if_pos hy] at v0h v1h
            left; simp only [HdrMap.copy, v0h, v1h]
          · rw [if_neg hy] at v0h v1h
            simp only [Bool.not_true, Bool.false_eq_true, if_false] at v1h
            right
            simp only [HdrMap.copy, v1h]

/-- Non-vacuity of the state machine: zero value, SetDebug(true), Reconfigure(nil) — debug stays off. -/
example (ext : Ext) : ([Op.setDebug true, Op.reconfigureNil].foldl (Mw.step ext) Mw.zero).debug = false := rfl

#print axioms C09_sim_zero
#print axioms C09_sim_new
#print axioms C09_ctor
#print axioms C09_nonpreflight
#print axioms C09_preflight_next
#print axioms C09_preflight_frame
#print axioms C09_preflight_success
#print axioms C09_reachable_accepted
#print axioms C09_reachable_response


/-- **C09 (translated pipeline).** The four decision steps of the preflight pipeline — `processOriginForPreflight`,
`processACRPN`, `processACRM`, `processACRH` — are translated from /repo's middleware.go into Lean on every run
(Gen/Pipeline.lean, by harness/extract/translate.go); for every internal configuration, buffer, request headers and debug
mode each translated function returns the hand-written model's result (with the model's own origin and header-list decisions) —
and, when the step fails, the buffer exactly as it was: a failing step leaves nothing behind for debug mode to copy —,
so the theorems of this file speak about the code as it reads now.  An edit of one of these Go functions that changes its
meaning — or leaves the translated subset — breaks this obligation. -/
theorem C09_pipeline_translated (icfg : ICfg) (buf : Serve.Buf) (reqHdrs : HdrMap) (origin acrm : Bytes) (debug : Bool) :
    Gen.GoSrc.processOriginForPreflight icfg buf origin [origin] = GoRt.result buf (Serve.processOriginForPreflight (Serve.modelDec icfg) icfg buf origin) ∧
    Gen.GoSrc.processACRPN icfg buf reqHdrs = GoRt.result buf (Serve.processACRPN icfg buf reqHdrs) ∧
    Gen.GoSrc.processACRM icfg buf acrm [acrm] = GoRt.result buf (Serve.processACRM icfg buf acrm) ∧
    Gen.GoSrc.processACRH icfg buf reqHdrs debug = GoRt.result buf (Serve.processACRH (Serve.modelDec icfg) icfg buf reqHdrs debug) :=
  Translated.pipeline_eq icfg buf reqHdrs origin acrm debug

#print axioms C09_pipeline_translated


/-- **C09 (translated preflight handler).** `handleCORSPreflight` — the Vary step, the four steps in Fetch order, what is copied
from the buffer and which status is written when a step fails (both debug modes), `maps.Copy`, the max-age header and the success
status — is translated from /repo's middleware.go on every run (Gen/Pipeline.lean, calling the translated steps); for every internal
configuration, response headers already present, request headers, Origin and ACRM values and debug mode it produces the header map and
the status of the hand-written model.  It contains no call of the wrapped handler (the translator has no construct for one). -/
theorem C09_preflight_translated (icfg : ICfg) (h reqHdrs : HdrMap) (origin acrm : Bytes) (debug : Bool) :
    Gen.GoSrc.handleCORSPreflight icfg h reqHdrs origin [origin] acrm [acrm] debug =
      ((Serve.handleCORSPreflight (Serve.modelDec icfg) icfg h reqHdrs origin acrm debug).hdrs,
       (Serve.handleCORSPreflight (Serve.modelDec icfg) icfg h reqHdrs origin acrm debug).status) :=
  Translated.handleCORSPreflight_eq icfg h reqHdrs origin acrm debug

#print axioms C09_preflight_translated


/-- **C09 (translated closure).** The handler closure returned by `Wrap` — from the statement after its passthrough test on:
the dispatch on the first `Origin` value, the method and the first `Access-Control-Request-Method` value, the calls of
`handleNonCORS` / `handleCORSPreflight` / `handleCORSActual` and of the wrapped handler — is translated from /repo's middleware.go
on every run, on top of the translated handlers and steps; as a function of (configuration, debug mode, request, response headers
already present) it *is* `Serve.serve`, the function every theorem about responses in this development speaks about.  So the whole
request path of middleware.go below the snapshot under the read lock is regenerated from the source and proved equal to the model;
what stays hand-modelled there is `net/http.Header`, `maps.Copy`, `headers.First` (index level: `C17_ix_first`) and the
functions the steps call (`origins.Parse`, `Tree.Contains`, `headers.Check`, `methods.IsSafelisted`, `Set.Contains`: C17's refinements). -/
theorem C09_closure_translated (icfg : ICfg) (debug : Bool) (r : Req) (pre : HdrMap) :
    Gen.GoSrc.serveClosure icfg debug r pre = Serve.serve icfg debug r pre :=
  Translated.serveClosure_eq icfg debug r pre

#print axioms C09_closure_translated


/-- **C09 (translated state writers).** `(*Middleware).Reconfigure` and `(*Middleware).SetDebug` — the only writers of the
configuration pointer and of the debug flag (`C07_only_these`) — are translated from /repo's middleware.go on every run (lock
calls skipped: the lock programs are C07's facts) and, as functions on the model's state, are `Mw.reconfigure` and
`Mw.setDebug`, the transitions every theorem about histories in this development speaks about: the error is returned before
anything is written, the pointer is replaced, `debug = cfg != nil && debug`, `debug = b && icfg != nil`. -/
theorem C09_state_translated (ext : Ext) (m : Mw) (cfg : Option Config) (b : Bool) :
    Gen.GoSrc.reconfigure ext m cfg = Mw.reconfigure ext m cfg ∧ Gen.GoSrc.setDebug m b = Mw.setDebug m b :=
  ⟨Translated.reconfigure_eq ext m cfg, Translated.setDebug_eq m b⟩

#print axioms C09_state_translated


/-- **C09 (translated handler, whole).** The whole closure returned by `Wrap`, read on the model's state — the snapshot of
(configuration pointer, debug flag) under the read lock, the passthrough branch (`h.ServeHTTP(w, r); return`), then the
dispatch — translated from /repo's middleware.go on every run, is `Mw.serve`: a passthrough middleware is the identity that
calls the wrapped handler, a configured one answers with `Serve.serve icfg debug`.  (That the two fields are read in one
critical section is `C07_wrap_snapshot`; the translator checks that the prologue consists of exactly those statements.) -/
theorem C09_handler_translated (m : Mw) (r : Req) (pre : HdrMap) : Gen.GoSrc.serveMw m r pre = Mw.serve m r pre :=
  Translated.serveMw_eq m r pre

#print axioms C09_handler_translated

end Cors
