import CorsVerif.Proofs.Accepted
import CorsVerif.Proofs.Serve
/-
  C09 — Debug mode follows the documented state machine over any call history; debug mode
  changes nothing but preflight diagnostics.
-/
namespace Cors
open Gen Serve

/-- The documented state machine: is the middleware configured, and its debug mode. -/
structure SM where
  configured : Bool
  debug : Bool
deriving DecidableEq, Repr

/-- Operations on a middleware. -/
inductive Op
  | setDebug (b : Bool)
  | reconfigureNil
  | reconfigure (cfg : Config)

/-- The documentation, clause by clause. -/
def SM.step (ext : Ext) (s : SM) : Op → SM
  | .setDebug b => if s.configured then { s with debug := b } else s       -- no-op on a passthrough middleware
  | .reconfigureNil => { configured := false, debug := false }             -- passthrough: debug invariably off
  | .reconfigure cfg =>
    match newInternalConfig ext cfg with
    | .ok _ => { configured := true, debug := s.debug }                     -- success keeps the debug mode
    | .error _ => s                                                          -- failure changes nothing

/-- The implementation model. -/
def Mw.step (ext : Ext) (m : Mw) : Op → Mw
  | .setDebug b => m.setDebug b
  | .reconfigureNil => (m.reconfigure ext none).2
  | .reconfigure cfg => (m.reconfigure ext (some cfg)).2

/-- The simulation relation; it includes "a passthrough middleware has debug off". -/
def Sim (m : Mw) (s : SM) : Prop :=
  m.icfg.isSome = s.configured ∧ m.debug = s.debug ∧ (s.configured = false → s.debug = false)

theorem sim_step (ext : Ext) (m : Mw) (s : SM) (op : Op) (h : Sim m s) : Sim (Mw.step ext m op) (SM.step ext s op) := by
  obtain ⟨h1, h2, h3⟩ := h
  cases op with
  | setDebug b =>
    simp only [Mw.step, Mw.setDebug, SM.step]
    cases hc : s.configured with
    | true => simp [Sim, h1, hc]
    | false =>
      have : m.icfg.isSome = false := by rw [h1, hc]
      simp [Sim, this, hc, h3 hc]
  | reconfigureNil => simp [Mw.step, Mw.reconfigure, SM.step, Sim]
  | reconfigure cfg =>
    simp only [Mw.step, Mw.reconfigure, SM.step]
    cases newInternalConfig ext cfg with
    | error e => exact ⟨h1, h2, h3⟩
    | ok icfg => simp [Sim, h2]

/-- **C09 (state machine).** Over any sequence of SetDebug / Reconfigure calls, of any length,
starting from the zero value, the model follows the documented state machine. -/
theorem C09_sim_zero (ext : Ext) (ops : List Op) :
    Sim (ops.foldl (Mw.step ext) Mw.zero) (ops.foldl (SM.step ext) { configured := false, debug := false }) := by
  suffices ∀ m s, Sim m s → Sim (ops.foldl (Mw.step ext) m) (ops.foldl (SM.step ext) s) from
    this _ _ ⟨rfl, rfl, fun _ => rfl⟩
  induction ops with
  | nil => intro m s h; exact h
  | cons op ops ih => intro m s h; exact ih _ _ (sim_step ext m s op h)

/-- … and starting from `NewMiddleware(cfg)` (debug off after creation). -/
theorem C09_sim_new (ext : Ext) (cfg : Config) (m : Mw) (hm : Mw.new ext cfg = .ok m) (ops : List Op) :
    Sim (ops.foldl (Mw.step ext) m) (ops.foldl (SM.step ext) { configured := true, debug := false }) := by
  have h0 : Sim m { configured := true, debug := false } := by
    unfold Mw.new at hm
    cases hc : newInternalConfig ext cfg with
    | error e => simp [hc] at hm
    | ok icfg =>
      simp only [hc, Except.ok.injEq] at hm
      subst hm
      exact ⟨rfl, rfl, fun h => by cases h⟩
  suffices ∀ m s, Sim m s → Sim (ops.foldl (Mw.step ext) m) (ops.foldl (SM.step ext) s) from this _ _ h0
  induction ops with
  | nil => intro m s h; exact h
  | cons op ops ih => intro m s h; exact ih _ _ (sim_step ext m s op h)

/-- Creation through the zero value + Reconfigure and through NewMiddleware agree. -/
theorem C09_ctor (ext : Ext) (cfg : Config) :
    (match Mw.new ext cfg with | .ok m => (none, m) | .error e => (some e, Mw.zero)) =
      Mw.zero.reconfigure ext (some cfg) := by
  unfold Mw.new Mw.reconfigure
  cases h : newInternalConfig ext cfg <;> simp [h, Mw.zero]

/-- **C09 (debug changes only preflight diagnostics).** On any request that is not a preflight
the response does not depend on the debug flag at all. -/
theorem C09_nonpreflight (dec : Dec) (icfg : ICfg) (r : Req) (pre : HdrMap) (h : r.isPreflight = false) :
    serveDec dec icfg true r pre = serveDec dec icfg false r pre := by
  unfold Req.isPreflight at h
  unfold serveDec
  cases ho : r.hdrs.first Facts.headers_Origin with
  | none => rfl
  | some o =>
    cases ha : r.hdrs.first Facts.headers_ACRM with
    | none => rfl
    | some a =>
      have hm : (r.method == OPTIONS) = false := by simpa [ho, ha] using h
      simp [hm]

/-- In both debug modes a preflight is answered by the middleware alone. -/
theorem C09_preflight_next (dec : Dec) (icfg : ICfg) (dbg : Bool) (r : Req) (pre : HdrMap) (h : r.isPreflight = true) :
    (serveDec dec icfg dbg r pre).next = false := by
  unfold Req.isPreflight at h
  simp only [Bool.and_eq_true, beq_iff_eq, Option.isSome_iff_exists] at h
  obtain ⟨⟨hm, ⟨o, ho⟩⟩, ⟨a, ha⟩⟩ := h
  simp only [serveDec, ho, ha, hm, beq_self_eq_true, if_true, handleCORSPreflight]
  cases preflightSteps dec icfg r.hdrs o a dbg <;> cases dbg <;> rfl

/-- Non-vacuity of the state machine: zero value, SetDebug(true), Reconfigure(nil) — debug stays off. -/
example (ext : Ext) : ([Op.setDebug true, Op.reconfigureNil].foldl (Mw.step ext) Mw.zero).debug = false := rfl

#print axioms C09_sim_zero
#print axioms C09_sim_new
#print axioms C09_ctor
#print axioms C09_nonpreflight
#print axioms C09_preflight_next

end Cors
