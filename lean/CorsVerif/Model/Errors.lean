import CorsVerif.Model.Basic
/-
  Model of error values built with `errors.Join` and of `cfgerrors.All`
  (/repo/cfgerrors/cfgerrors.go:185-205).
-/
namespace Cors

/-- An error value: a leaf error or what `errors.Join` returns (a node whose `Unwrap() []error`
yields the list of joined, non-nil errors). -/
inductive ETree (α : Type) where
  | leaf (a : α)
  | join (es : List (ETree α))
deriving Repr, Inhabited

namespace ETree

mutual
/-- The leaves in left-to-right order. -/
def leaves {α : Type} : ETree α → List α
  | .leaf a => [a]
  | .join es => leavesList es
def leavesList {α : Type} : List (ETree α) → List α
  | [] => []
  | e :: es => leaves e ++ leavesList es
end

/-- Observable run of a range-over-func loop over `All(err)`:
what was yielded, whether the consumer has asked to stop, and whether `yield` was called
again after it had returned `false` (Go panics in that case). -/
structure Run (α : Type) where
  yielded : List α := []
  stopped : Bool := false
  afterStop : Bool := false
deriving Repr

/-- A call of the consumer's `yield`. The consumer is an arbitrary function of everything
it has seen so far (including the current item); `true` = keep going. -/
def Run.yield {α : Type} (k : List α → Bool) (r : Run α) (x : α) : Run α × Bool :=
  if r.stopped then ({ r with afterStop := true }, false)
  else
    let ys := r.yielded ++ [x]
    let c := k ys
    ({ yielded := ys, stopped := !c, afterStop := r.afterStop }, c)

mutual
/-- The function returned by `All(err)`, applied to the consumer: returns the run and
`false` iff it returned early because a `yield` returned `false`. -/
def all {α : Type} : ETree α → (List α → Bool) → Run α → Run α × Bool
  | .leaf a, k, r => r.yield k a                    -- `if !yield(err) { return }`
  | .join es, k, r => allList es k r                -- `for _, err := range err.Unwrap()`
/-- The outer `for` over `Unwrap()`; the inner `for err := range All(err)` re-yields every
item and `return`s as soon as the outer `yield` says stop. -/
def allList {α : Type} : List (ETree α) → (List α → Bool) → Run α → Run α × Bool
  | [], _, r => (r, true)
  | e :: es, k, r =>
    match all e k r with
    | (r', false) => (r', false)                    -- `return`
    | (r', true) => allList es k r'
end

/-- Ranging over `All(err)` with consumer `k`. -/
def run {α : Type} (e : ETree α) (k : List α → Bool) : Run α := (all e k {}).1

end ETree
end Cors
