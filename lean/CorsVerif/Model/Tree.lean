import CorsVerif.Model.Origins
/-
  Model of /repo/internal/origins/radix.go.

  Go walks host strings from their last byte.  The model stores every key *reversed*
  (one `reverse` at the boundary), so Go's "common suffix" is the model's common prefix
  and `lastByte s` is `s.head?`.  `edges`/`children` and `schemes`/`ports` (parallel
  slices in Go) are lists of pairs.
-/
namespace Cors
open Gen

/-- `origins.node`. `suf` is stored reversed. `kids` is sorted by label (an invariant that
is proved, not assumed: see `Proofs/Tree`). -/
inductive Node where
  | mk (suf : Bytes) (schemes : List (Bytes × List Int)) (kids : List (Nat × Node))
deriving Repr, Inhabited

namespace Node

def suf : Node → Bytes | .mk s _ _ => s
def schemes : Node → List (Bytes × List Int) | .mk _ s _ => s
def kids : Node → List (Nat × Node) | .mk _ _ k => k

def empty : Node := .mk [] [] []

/-- `Tree.IsEmpty`. -/
def isEmpty (n : Node) : Bool := n.schemes.isEmpty && n.kids.isEmpty

def wildcardPort : Int := Facts.origins_wildcardPort
def portOffset : Int := Facts.origins_portOffset

/-- The first lines of both `node.add` and `node.contains`:
`if wildcardSubs { port -= portOffset; wildcardPort -= portOffset }`. -/
def code (port : Int) (wild : Bool) : Int := if wild then port - portOffset else port
def wildCode (wild : Bool) : Int := if wild then wildcardPort - portOffset else wildcardPort

/-- Look up the port list of `scheme` (Go: `slices.BinarySearch(n.schemes, scheme)`). -/
def lookupScheme (scheme : Bytes) : List (Bytes × List Int) → Option (List Int)
  | [] => none
  | (s, ps) :: rest => if s == scheme then some ps else lookupScheme scheme rest

/-- `node.contains(scheme, port, wildcardSubs)` for an arbitrary `int` port. -/
def containsPort (schemes : List (Bytes × List Int)) (scheme : Bytes) (port : Int) (wild : Bool) : Bool :=
  match lookupScheme scheme schemes with
  | none => false
  | some ports => ports.contains (code port wild) || ports.contains (wildCode wild)

/-- `deleteSameSign`. -/
def deleteSameSign (s : List Int) (v : Int) : List Int :=
  if v < 0 then s.dropWhile (· < 0) else s.takeWhile (· < 0)

/-- The body of `node.add` once `scheme` is known not to contain the port:
insert in scheme order (`insert(n.schemes, i, scheme)`), or update the port list in place. -/
def addScheme (scheme : Bytes) (c : Int) (isWild : Bool) : List (Bytes × List Int) → List (Bytes × List Int)
  | [] => [(scheme, [c])]
  | (s, ps) :: rest =>
    if s == scheme then
      let ps' := if isWild then deleteSameSign ps c else ps
      (s, insertSorted (fun a b => decide (a < b)) c ps') :: rest
    else if Bytes.lt scheme s then (scheme, [c]) :: (s, ps) :: rest
    else (s, ps) :: addScheme scheme c isWild rest

/-- `node.add`. Note that, exactly as in the Go code, the duplicate test calls
`node.contains` with the *already offset* port and the same `wildcardSubs` flag, so for
`wildcardSubs = true` it only detects subsumption by a wildcard port (and duplicates of
wildcard-subdomain entries are stored twice). -/
def addPort (schemes : List (Bytes × List Int)) (scheme : Bytes) (port : Int) (wild : Bool) : List (Bytes × List Int) :=
  if containsPort schemes scheme (code port wild) wild then schemes
  else addScheme scheme (code port wild) (code port wild == wildCode wild) schemes

/-- `splitAtCommonSuffix a b` in the reversed view: (rest of a, rest of b, common prefix). -/
def splitCommon : Bytes → Bytes → Bytes × Bytes × Bytes
  | a :: as, b :: bs =>
    if a == b then
      match splitCommon as bs with
      | (ra, rb, c) => (ra, rb, a :: c)
    else (a :: as, b :: bs, [])
  | as, bs => (as, bs, [])

/-- A fresh leaf `node{suf: s}` followed by `add`. -/
def leaf (s : Bytes) (scheme : Bytes) (port : Int) (wild : Bool) : Node :=
  .mk s (addPort [] scheme port wild) []

/-- `upsertEdge` on a sorted edge list (insert when absent, replace when present). -/
def upsert (label : Nat) (child : Node) : List (Nat × Node) → List (Nat × Node)
  | [] => [(label, child)]
  | (l, c) :: rest =>
    if label < l then (label, child) :: (l, c) :: rest
    else if label == l then (l, child) :: rest
    else (l, c) :: upsert label child rest

mutual
/-- One iteration of the loop of `Tree.Insert` at node `n` with remaining (reversed) key `s`. -/
def insert : Node → Bytes → Bytes → Int → Bool → Node
  | .mk suf schemes kids, s, scheme, port, wild =>
    match s with
    | [] => .mk suf (addPort schemes scheme port wild) kids
    | label :: _ =>
      if containsPort schemes scheme port true then .mk suf schemes kids
      else .mk suf schemes (insertKids kids label s scheme port wild)

/-- Find the edge labelled `label` (Go: binary search over sorted `edges`) and act on it. -/
def insertKids : List (Nat × Node) → Nat → Bytes → Bytes → Int → Bool → List (Nat × Node)
  | [], label, s, scheme, port, wild => [(label, leaf s scheme port wild)]
  | (l, c) :: rest, label, s, scheme, port, wild =>
    if label < l then (label, leaf s scheme port wild) :: (l, c) :: rest
    else if label == l then (l, insertChild c s scheme port wild) :: rest
    else (l, c) :: insertKids rest label s scheme port wild

/-- The edge exists: descend when `child.suf` is consumed, otherwise split the child. -/
def insertChild : Node → Bytes → Bytes → Int → Bool → Node
  | .mk csuf cschemes ckids, s, scheme, port, wild =>
    match splitCommon s csuf with
    | (restS, [], _) => insert (.mk csuf cschemes ckids) restS scheme port wild
    | (restS, l1 :: restC, common) =>
      let grandChild1 : Node := .mk (l1 :: restC) cschemes ckids
      match restS with
      | [] => .mk common (addPort [] scheme port wild) [(l1, grandChild1)]
      | l2 :: _ => .mk common [] (upsert l2 (leaf restS scheme port wild) [(l1, grandChild1)])
end

/-- `stripPrefix p s`: `some rest` when `s = p ++ rest`. -/
def stripPrefix : Bytes → Bytes → Option Bytes
  | [], s => some s
  | _ :: _, [] => none
  | a :: p, b :: s => if a == b then stripPrefix p s else none

mutual
/-- One iteration of the loop of `Tree.Contains` at node `n` with remaining (reversed) host. -/
def contains : Node → Bytes → Bytes → Int → Bool
  | .mk _ schemes kids, host, scheme, port =>
    match host with
    | [] => containsPort schemes scheme port false
    | label :: _ =>
      if containsPort schemes scheme port true then true
      else containsKids kids label host scheme port

def containsKids : List (Nat × Node) → Nat → Bytes → Bytes → Int → Bool
  | [], _, _, _, _ => false
  | (l, c) :: rest, label, host, scheme, port =>
    if label == l then
      match c with
      | .mk csuf cschemes ckids =>
        match stripPrefix csuf host with
        | none => false
        | some host' => contains (.mk csuf cschemes ckids) host' scheme port
    else containsKids rest label host scheme port
end

/-- Rendering of one stored entry by `node.elems`. `host` is the un-reversed accumulated suffix. -/
def renderEntry (scheme host : Bytes) (c : Int) : Bytes :=
  -- only IPv6 hosts contain colons; they are stored without brackets
  let host := if host.contains Facts.origins_hostPortSep then [91] ++ host ++ [93] else host
  let wild := c < 0
  let port := if wild then c + portOffset else c
  let base := scheme ++ Facts.origins_schemeHostSep ++ (if wild then Facts.origins_subdomainWildcard else []) ++ host
  if port == 0 then base
  else if port == wildcardPort then base ++ [Facts.origins_hostPortSep] ++ Facts.origins_portWildcard
  else base ++ [Facts.origins_hostPortSep] ++ Bytes.itoa port.toNat

mutual
/-- `node.elems`: `acc` is the (un-reversed) suffix accumulated from the ancestors. -/
def elems : Node → Bytes → List Bytes
  | .mk suf schemes kids, acc =>
    let host := suf.reverse ++ acc
    (schemes.flatMap fun (scheme, ports) => ports.map (renderEntry scheme host)) ++ elemsKids kids host

def elemsKids : List (Nat × Node) → Bytes → List Bytes
  | [], _ => []
  | (_, c) :: rest, host => elems c host ++ elemsKids rest host
end

end Node

/-- `origins.Tree`. -/
abbrev Tree := Node

namespace Tree

/-- `Tree.Insert`. -/
def insert (t : Tree) (p : Pattern) : Tree :=
  match p.value with
  | 42 :: s => Node.insert t s.reverse p.scheme p.port true
  | s => Node.insert t s.reverse p.scheme p.port false

/-- `Tree.Contains`. -/
def contains (t : Tree) (o : Origin) : Bool :=
  Node.contains t o.host.value.reverse o.scheme o.port

/-- `Tree.Elems`. -/
def elems (t : Tree) : List Bytes := sortBy Bytes.lt (Node.elems t [])

end Tree
end Cors
