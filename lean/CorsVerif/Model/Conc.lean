import CorsVerif.Spec.Fetch
/-
  Lock-level concurrent semantics of `cors.Middleware` (C07).

  Any number of threads, each running one of the *regenerated* instruction lists (lock
  operations and accesses to the two guarded fields, in source order).  The semantics of
  `sync.RWMutex` is the documented one: a writer excludes everybody, readers exclude writers.
  Accesses themselves are always enabled — that they only happen inside regions is what the
  well-lockedness of the programs gives, not something the semantics assumes.
-/
namespace Cors
namespace Conc

inductive Field | icfg | debug
deriving DecidableEq, Repr

inductive Instr | rlock | runlock | lock | unlock | read (f : Field) | write (f : Field) | skip
deriving DecidableEq, Repr

/-- Decode one regenerated instruction. Accesses to an unpublished local `Middleware`
(`NewMiddleware`) and `return`s are `skip`; anything unknown (defer, go, loop …) is rejected. -/
def decode (s : Bytes) : Option Instr :=
  if s == Spec.b "rlock" then some .rlock
  else if s == Spec.b "runlock" then some .runlock
  else if s == Spec.b "lock" then some .lock
  else if s == Spec.b "unlock" then some .unlock
  else if s == Spec.b "r:icfg" then some (.read .icfg)
  else if s == Spec.b "r:debug" then some (.read .debug)
  else if s == Spec.b "w:icfg" then some (.write .icfg)
  else if s == Spec.b "w:debug" then some (.write .debug)
  else if s == Spec.b "return" then some .skip
  else if s == Spec.b "local-w:icfg" || s == Spec.b "local-r:icfg" || s == Spec.b "local-w:debug" || s == Spec.b "local-r:debug" then some .skip
  else none

def decodeProg : List Bytes → Option (List Instr)
  | [] => some []
  | s :: rest => match decode s, decodeProg rest with
    | some i, some is => some (i :: is)
    | _, _ => none

/-- The lock mode a thread is in. -/
inductive Mode | out | reading | writing
deriving DecidableEq, Repr

/-- A remaining program is well-locked from a mode: reads only inside a read or write region,
writes only inside a write region, regions balanced and closed at the end. -/
def wellLocked : Mode → List Instr → Bool
  | .out, [] => true
  | .reading, [] => false
  | .writing, [] => false
  | .out, .rlock :: p => wellLocked .reading p
  | .out, .lock :: p => wellLocked .writing p
  | .out, .skip :: p => wellLocked .out p
  | .out, _ :: _ => false
  | .reading, .runlock :: p => wellLocked .out p
  | .reading, .read _ :: p => wellLocked .reading p
  | .reading, .skip :: p => wellLocked .reading p
  | .reading, _ :: _ => false
  | .writing, .unlock :: p => wellLocked .out p
  | .writing, .read _ :: p => wellLocked .writing p
  | .writing, .write _ :: p => wellLocked .writing p
  | .writing, .skip :: p => wellLocked .writing p
  | .writing, _ :: _ => false

/-- Number of critical sections a program opens. -/
def regions (p : List Instr) : Nat := (p.filter fun i => i == .rlock || i == .lock).length

structure Thread where
  mode : Mode
  prog : List Instr
  /-- what the thread has read into its locals in the current region -/
  seen : Field → Option Nat

structure State where
  val : Field → Nat
  ts : Nat → Thread

def upd {α : Type} (f : Nat → α) (i : Nat) (a : α) : Nat → α := fun j => if j = i then a else f j

def updF (f : Field → Nat) (x : Field) (v : Nat) : Field → Nat := fun y => if y = x then v else f y
def updS (f : Field → Option Nat) (x : Field) (v : Nat) : Field → Option Nat := fun y => if y = x then some v else f y

/-- One step: some thread `i` executes its next instruction. -/
inductive Step : State → State → Prop
  | rlock (s : State) (i : Nat) (p : List Instr) (hp : (s.ts i).prog = .rlock :: p)
      (hen : ∀ j, (s.ts j).mode ≠ .writing) :
      Step s { s with ts := upd s.ts i { mode := .reading, prog := p, seen := fun _ => none } }
  | runlock (s : State) (i : Nat) (p : List Instr) (hp : (s.ts i).prog = .runlock :: p) :
      Step s { s with ts := upd s.ts i { (s.ts i) with mode := .out, prog := p } }
  | lock (s : State) (i : Nat) (p : List Instr) (hp : (s.ts i).prog = .lock :: p)
      (hen : ∀ j, (s.ts j).mode = .out) :
      Step s { s with ts := upd s.ts i { mode := .writing, prog := p, seen := fun _ => none } }
  | unlock (s : State) (i : Nat) (p : List Instr) (hp : (s.ts i).prog = .unlock :: p) :
      Step s { s with ts := upd s.ts i { (s.ts i) with mode := .out, prog := p } }
  | read (s : State) (i : Nat) (f : Field) (p : List Instr) (hp : (s.ts i).prog = .read f :: p) :
      Step s { s with ts := upd s.ts i { (s.ts i) with prog := p, seen := updS (s.ts i).seen f (s.val f) } }
  | write (s : State) (i : Nat) (f : Field) (v : Nat) (p : List Instr) (hp : (s.ts i).prog = .write f :: p) :
      Step s { val := updF s.val f v, ts := upd s.ts i { (s.ts i) with prog := p } }
  | skip (s : State) (i : Nat) (p : List Instr) (hp : (s.ts i).prog = .skip :: p) :
      Step s { s with ts := upd s.ts i { (s.ts i) with prog := p } }

/-- Reflexive-transitive closure: any schedule, any number of steps. -/
inductive Steps : State → State → Prop
  | refl (s : State) : Steps s s
  | tail {s t u : State} : Steps s t → Step t u → Steps s u

/-- Initial states: every thread is outside any region and runs a well-locked program. -/
def Init (s : State) : Prop := ∀ i, (s.ts i).mode = .out ∧ wellLocked .out (s.ts i).prog = true

/-- The invariant of all reachable states. -/
structure Inv (s : State) : Prop where
  wl : ∀ i, wellLocked (s.ts i).mode (s.ts i).prog = true
  excl : ∀ i j, (s.ts i).mode = .writing → j ≠ i → (s.ts j).mode = .out
  snap : ∀ i, (s.ts i).mode = .reading → ∀ f v, (s.ts i).seen f = some v → v = s.val f

end Conc
end Cors
