import CorsVerif.Model.Util
import CorsVerif.Gen.Facts
/-
  Model of /repo/internal/headers (TrimOWS, cutAtComma, Check, name classes)
  and /repo/internal/methods.
-/
namespace Cors
open Gen

namespace Headers

def comma : Nat := 44

/-- `isOWS`. -/
def isOWS (b : Nat) : Bool := b == 9 || b == 32

/-- `trimLeftOWS s n`, loop counter `i` explicit.  `none` models `(sCopy, false)`. -/
def trimLeftAux (n : Nat) : Bytes → Nat → Option Bytes
  | [], _ => some []
  | b :: s, i =>
    if i > n then none
    else if !isOWS b then some (b :: s)
    else trimLeftAux n s (i + 1)

def trimLeftOWS (s : Bytes) (n : Nat) : Option Bytes := trimLeftAux n s 0

/-- `trimRightOWS s n` is the mirror image: the same loop on the reversed string. -/
def trimRightOWS (s : Bytes) (n : Nat) : Option Bytes :=
  (trimLeftAux n s.reverse 0).map List.reverse

/-- `TrimOWS s n`: `none` models `(s, false)`. -/
def trimOWS (s : Bytes) (n : Nat) : Option Bytes :=
  if s.isEmpty then some s
  else match trimRightOWS s n with
    | none => none
    | some t => trimLeftOWS t n

/-- `cutAtComma str n`: the first comma among the first `n` bytes. Returns (before, after, found). -/
def cutAtComma (str : Bytes) (n : Nat) : Bytes × Bytes × Bool :=
  match Bytes.cutAt comma (str.take n) with
  | some (before, _) => (before, str.drop (before.length + 1), true)
  | none => (str, [], false)

/-- State of `Check` between elements: `start` = posOfLastNameSeen + 1, and the empty-element count. -/
structure CkState where
  start : Nat
  empties : Nat
deriving Repr, DecidableEq

/-- The inner `for` of `Check` over one field line. `fuel` bounds the iterations: every
iteration that continues has consumed a comma. `none` = `return false`. -/
def checkLine (set : SortedSet) (maxLen : Nat) : Nat → Bytes → CkState → Option CkState
  | 0, _, _ => none   -- unreachable with fuel = length + 1
  | fuel + 1, acrh, st =>
    match cutAtComma acrh maxLen with
    | (name, rest, commaFound) =>
    match trimOWS name Facts.headers_MaxOWSBytes with
    | none => none
    | some name =>
      if name.isEmpty then
        let e := st.empties + 1
        if e > Facts.headers_MaxEmptyElements then none
        else if !commaFound then some { st with empties := e }
        else checkLine set maxLen fuel rest { st with empties := e }
      else
        match set.indexAfter st.start name with
        | none => none
        | some i =>
          if !commaFound then some { st with start := i + 1 }
          else checkLine set maxLen fuel rest { st with start := i + 1 }

def checkLines (set : SortedSet) (maxLen : Nat) : List Bytes → CkState → Bool
  | [], _ => true
  | l :: ls, st =>
    match checkLine set maxLen (l.length + 1) l st with
    | none => false
    | some st' => checkLines set maxLen ls st'

/-- `headers.Check`. -/
def check (set : SortedSet) (acrhs : List Bytes) : Bool :=
  let maxLen := Facts.headers_MaxOWSBytes + set.maxLen + Facts.headers_MaxOWSBytes + 1
  checkLines set maxLen acrhs { start := 0, empties := 0 }

/-- `httpguts.ValidHeaderFieldName`: non-empty and all bytes RFC 9110 `tchar`
(modelled library behaviour; tied exhaustively over all 256 bytes by the harness). -/
def isTchar (b : Nat) : Bool :=
  (48 ≤ b && b ≤ 57) || (65 ≤ b && b ≤ 90) || (97 ≤ b && b ≤ 122) ||
  [33, 35, 36, 37, 38, 39, 42, 43, 45, 46, 94, 95, 96, 124, 126].contains b

def isValid (name : Bytes) : Bool := !name.isEmpty && name.all isTchar

def proxyDash : Bytes := [112, 114, 111, 120, 121, 45]
def secDash : Bytes := [115, 101, 99, 45]

def isForbiddenRequestHeaderName (name : Bytes) : Bool :=
  (SortedSet.ofList Facts.headers_discreteForbiddenRequestHeaderNames).contains name
  || name.hasPrefix proxyDash || name.hasPrefix secDash

def isProhibitedRequestHeaderName (name : Bytes) : Bool :=
  (SortedSet.ofList Facts.headers_prohibitedRequestHeaderNames).contains name

def isForbiddenResponseHeaderName (name : Bytes) : Bool :=
  (SortedSet.ofList Facts.headers_forbiddenResponseHeaderNames).contains name

def isProhibitedResponseHeaderName (name : Bytes) : Bool :=
  (SortedSet.ofList Facts.headers_prohibitedResponseHeaderNames).contains name

def isSafelistedResponseHeaderName (name : Bytes) : Bool :=
  (SortedSet.ofList Facts.headers_safelistedResponseHeaderNames).contains name

end Headers

namespace Methods

def isValid (name : Bytes) : Bool := Headers.isValid name

def isForbidden (name : Bytes) : Bool :=
  (SortedSet.ofList Facts.methods_byteUppercasedForbiddenMethods).contains name.upper

def isSafelisted (name : Bytes) : Bool :=
  (SortedSet.ofList Facts.methods_safelistedMethods).contains name

def normalize (method : Bytes) : Bytes :=
  let up := method.upper
  if (SortedSet.ofList Facts.methods_browserNormalizedMethods).contains up then up else method

end Methods
end Cors
