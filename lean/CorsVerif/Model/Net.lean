import CorsVerif.Model.Origins
/-
  Model of `net/netip` on IPv6 text: `ParseAddr` (the `parseIPv6` branch), `Addr.String`,
  `Zone`, `Is4In6`, `IsLoopback`.  This is library code, modelled so that the IPv6 part of the
  pattern grammar needs no oracle; the driver cross-checks it against the real library on every
  host the harness reports (see `withOracle` in Main.lean).
-/
namespace Cors
namespace Net

def hexVal (c : Nat) : Option Nat :=
  if 48 ≤ c ∧ c ≤ 57 then some (c - 48)
  else if 97 ≤ c ∧ c ≤ 102 then some (c - 87)
  else if 65 ≤ c ∧ c ≤ 70 then some (c - 55)
  else none

def isHex (c : Nat) : Bool := (hexVal c).isSome

def hexValue (ds : Bytes) : Nat := ds.foldl (fun acc c => 16 * acc + (hexVal c).getD 0) 0

/-- `parseIPv4Fields` on the whole remaining string: four decimal fields, no leading zero, each ≤ 255. -/
def v4Field (f : Bytes) : Option Nat :=
  if f.isEmpty then none
  else if !f.all Bytes.isDigitB then none
  else if f.length > 1 && f.head? == some 48 then none
  else
    let v := f.foldl (fun acc b => 10 * acc + (b - 48)) 0
    if f.length ≤ 3 && v ≤ 255 then some v else none

def v4Fields (s : Bytes) : Option (Nat × Nat × Nat × Nat) :=
  match Bytes.splitOn 46 s with
  | [a, b, c, d] =>
    match v4Field a, v4Field b, v4Field c, v4Field d with
    | some a, some b, some c, some d => some (a, b, c, d)
    | _, _, _, _ => none
  | _ => none

/-- The loop of `parseIPv6`: `groups` are the 16-bit fields read so far (`i = 2 * groups.length`),
`ell` the position of `::` counted in fields. Returns the fields, the ellipsis and what is left. -/
def loop : Nat → List Nat → Option Nat → Bytes → Option (List Nat × Option Nat × Bytes)
  | 0, groups, ell, s => some (groups, ell, s)
  | fuel + 1, groups, ell, s =>
    if groups.length ≥ 8 then some (groups, ell, s)
    else
      let h := s.takeWhile isHex
      let rest := s.dropWhile isHex
      if h.isEmpty || h.length > 4 then none
      else if rest.head? == some 46 then
        -- an embedded IPv4 address must be the last 32 bits
        if ell.isNone && groups.length != 6 then none
        else if groups.length > 6 then none
        else match v4Fields s with
          | none => none
          | some (a, b, c, d) => some (groups ++ [a * 256 + b, c * 256 + d], ell, [])
      else
        let groups' := groups ++ [hexValue h]
        match rest with
        | [] => some (groups', ell, [])
        | c :: after =>
          if c != 58 then none
          else match after with
            | [] => none
            | c2 :: after2 =>
              if c2 == 58 then
                if ell.isSome then none
                else match after2 with
                  | [] => some (groups', some groups'.length, [])
                  | _ => loop fuel groups' (some groups'.length) after2
              else loop fuel groups' ell after

/-- The eight fields of an IPv6 text (without zone), or `none`. -/
def fields (s : Bytes) : Option (List Nat) :=
  let start : Option (Option Nat × Bytes) :=
    match s with
    | 58 :: 58 :: t => some (some 0, t)
    | _ => some (none, s)
  match start with
  | none => none
  | some (ell, s) =>
    if ell.isSome && s.isEmpty then some (List.replicate 8 0)
    else match loop 9 [] ell s with
      | none => none
      | some (groups, ell, rest) =>
        if !rest.isEmpty then none
        else if groups.length < 8 then
          match ell with
          | none => none
          | some e => some (groups.take e ++ List.replicate (8 - groups.length) 0 ++ groups.drop e)
        else if ell.isSome then none
        else some groups

def hexDigit (n : Nat) : Nat := if n < 10 then 48 + n else 87 + n

/-- `appendHex`: lower-case, no leading zeros. -/
def appendHex (x : Nat) : Bytes :=
  if x ≥ 0x1000 then [hexDigit (x / 0x1000), hexDigit (x / 0x100 % 16), hexDigit (x / 0x10 % 16), hexDigit (x % 16)]
  else if x ≥ 0x100 then [hexDigit (x / 0x100), hexDigit (x / 0x10 % 16), hexDigit (x % 16)]
  else if x ≥ 0x10 then [hexDigit (x / 0x10), hexDigit (x % 16)]
  else [hexDigit x]

/-- Length of the run of zero fields starting at the head. -/
def zeroRun : List Nat → Nat
  | 0 :: t => zeroRun t + 1
  | _ => 0

/-- `(zeroStart, zeroEnd)` of `appendTo6`: the first longest run of at least two zero fields. -/
def bestRun : List Nat → Nat → Nat × Nat → Nat × Nat
  | [], _, best => best
  | g :: t, i, best =>
    let l := zeroRun (g :: t)
    let best' := if l ≥ 2 && l > best.2 - best.1 then (i, i + l) else best
    bestRun t (i + 1) best'

/-- `appendTo6` without the zone. -/
def render6Aux (gs : List Nat) (zs ze : Nat) : Nat → Nat → Bytes
  | 0, _ => []
  | fuel + 1, i =>
    if i ≥ 8 then []
    else if i == zs then
      [58, 58] ++ (if ze ≥ 8 then [] else appendHex (gs.getD ze 0) ++ render6Aux gs zs ze fuel (ze + 1))
    else (if i > 0 then [58] else []) ++ appendHex (gs.getD i 0) ++ render6Aux gs zs ze fuel (i + 1)

def render6 (gs : List Nat) : Bytes :=
  let (zs, ze) := bestRun gs 0 (255, 255)
  render6Aux gs zs ze 9 0

def is4in6 (gs : List Nat) : Bool := gs.take 5 == [0, 0, 0, 0, 0] && gs.getD 5 0 == 0xffff

def render4in6 (gs : List Nat) : Bytes :=
  let hi := gs.getD 6 0
  let lo := gs.getD 7 0
  [58, 58, 102, 102, 102, 102, 58] ++ Bytes.itoa (hi / 256) ++ [46] ++ Bytes.itoa (hi % 256) ++ [46] ++ Bytes.itoa (lo / 256) ++ [46] ++ Bytes.itoa (lo % 256)

/-- `netip.ParseAddr` on a string whose first of `.`, `:`, `%` is `:`, with what the pattern parser asks about the result. -/
def ip6 (host : Bytes) : Option IP6Info :=
  let (s, zone) : Bytes × Option Bytes :=
    match Bytes.cutAt 37 host with
    | none => (host, none)
    | some (before, after) => (before, some after)
  if zone == some [] then none
  else match fields s with
    | none => none
    | some gs =>
      let v4 := is4in6 gs
      let text := if v4 then render4in6 gs else render6 gs
      let canon := match zone with
        | none => text
        | some z => text ++ [37] ++ z
      let loopback := if v4 then gs.getD 6 0 / 256 == 127 else gs == [0, 0, 0, 0, 0, 0, 0, 1]
      some { canon := canon, zone := zone.isSome, is4in6 := v4, loopback := loopback }

/-- The library answers as the driver uses them: IDNA and the public-suffix list from the real libraries
(parameters), IPv6 text from the model above. -/
def std (idna etld : Bytes → Bool) : Ext := { idnaXn := idna, isETLD := etld, ip6 := ip6 }

end Net
end Cors
