/-
  Basic vocabulary of the model: byte strings as lists of naturals.

  Go strings are byte strings.  A byte is modelled as a `Nat`; every definition and
  theorem quantifies over all `List Nat`, a superset of the byte strings.
-/
namespace Cors

abbrev Bytes := List Nat

namespace Bytes

/-- Lexicographic strict order, the order of Go's `<` on strings. -/
def lt : Bytes → Bytes → Bool
  | [], [] => false
  | [], _ :: _ => true
  | _ :: _, [] => false
  | a :: as, b :: bs => if a < b then true else if b < a then false else lt as bs

/-- `a ≤ b` in the lexicographic order. -/
def le (a b : Bytes) : Bool := !lt b a

/-- `strings.HasPrefix s p`. -/
def hasPrefix : Bytes → Bytes → Bool
  | _, [] => true
  | [], _ :: _ => false
  | a :: as, b :: bs => a == b && hasPrefix as bs

/-- `strings.CutPrefix s p`. -/
def cutPrefix : Bytes → Bytes → Option Bytes
  | s, [] => some s
  | [], _ :: _ => none
  | a :: as, b :: bs => if a == b then cutPrefix as bs else none

/-- `strings.IndexByte s c`, as the prefix before the first `c` and the suffix after it. -/
def cutAt (c : Nat) : Bytes → Option (Bytes × Bytes)
  | [] => none
  | a :: as => if a == c then some ([], as) else
      match cutAt c as with
      | none => none
      | some (l, r) => some (a :: l, r)

/-- `strings.Split s sep` for a single-byte separator (never returns `[]`). -/
def splitOn (c : Nat) : Bytes → List Bytes
  | [] => [[]]
  | a :: as =>
    if a == c then [] :: splitOn c as
    else match splitOn c as with
      | [] => [[a]]          -- unreachable: `splitOn` never returns `[]`
      | x :: xs => (a :: x) :: xs

/-- `strings.Join xs sep` for a single-byte separator. -/
def join (c : Nat) : List Bytes → Bytes
  | [] => []
  | [x] => x
  | x :: y :: xs => x ++ c :: join c (y :: xs)

/-- ASCII byte-lowercase (what `strings.ToLower` does on ASCII input). -/
def lowerByte (b : Nat) : Nat := if 65 ≤ b ∧ b ≤ 90 then b + 32 else b
/-- ASCII byte-uppercase (what `strings.ToUpper` does on ASCII input). -/
def upperByte (b : Nat) : Nat := if 97 ≤ b ∧ b ≤ 122 then b - 32 else b
def lower (s : Bytes) : Bytes := s.map lowerByte
def upper (s : Bytes) : Bytes := s.map upperByte

def isDigitB (b : Nat) : Bool := 48 ≤ b && b ≤ 57

/-- `strconv.Itoa` on a natural number. Fuel-free: structural on an explicit bound. -/
def itoaAux : Nat → Nat → Bytes → Bytes
  | 0, _, acc => acc
  | fuel + 1, n, acc =>
    if n < 10 then (48 + n) :: acc else itoaAux fuel (n / 10) ((48 + n % 10) :: acc)

def itoa (n : Nat) : Bytes := itoaAux (n + 1) n []

/-- `strconv.Atoi` restricted to what `newConfig` feeds it: a non-empty string of decimal digits
(result `none` otherwise). -/
def atoi (s : Bytes) : Option Nat :=
  if s.isEmpty then none
  else s.foldl (fun acc b => match acc with
    | none => none
    | some v => if isDigitB b then some (10 * v + (b - 48)) else none) (some 0)

end Bytes

/-- Ordered insertion into a list sorted by `lt`; models `append` followed by `slices.Sort`
when the element is not yet present. -/
def insertSorted {α : Type} (lt : α → α → Bool) (x : α) : List α → List α
  | [] => [x]
  | y :: ys => if lt x y then x :: y :: ys else y :: insertSorted lt x ys

/-- Insertion sort; models `slices.Sort`. -/
def sortBy {α : Type} (lt : α → α → Bool) (xs : List α) : List α :=
  xs.foldr (insertSorted lt) []

end Cors
