import CorsVerif.Model.Config
/-
  Model of the request path of /repo/middleware.go: the handler returned by `Wrap`,
  as a pure function of (configuration, debug flag, request, response headers already present).
-/
namespace Cors
open Gen

/-- `http.Header` viewed through lookups: canonical name ↦ value list (`none` = key absent,
`some []` = key present with zero values). -/
abbrev HdrMap := Bytes → Option (List Bytes)

namespace HdrMap

def empty : HdrMap := fun _ => none

/-- `h[k] = v`. -/
def assign (h : HdrMap) (k : Bytes) (v : List Bytes) : HdrMap := fun k' => if k' == k then some v else h k'

/-- `h.Set(k, v)` for a canonical `k`: a fresh singleton slice. -/
def set (h : HdrMap) (k : Bytes) (v : Bytes) : HdrMap := assign h k [v]

/-- `h.Add(k, v)` for a canonical `k`: append to whatever is there. -/
def add (h : HdrMap) (k : Bytes) (v : Bytes) : HdrMap := assign h k ((h k).getD [] ++ [v])

/-- `maps.Copy(h, buf)`: every key of `buf` overwrites the key of `h`. -/
def copy (h : HdrMap) (buf : HdrMap) : HdrMap := fun k => match buf k with
  | some v => some v
  | none => h k

/-- `headers.First`. -/
def first (h : HdrMap) (k : Bytes) : Option Bytes :=
  match h k with
  | some (v :: _) => some v
  | _ => none

end HdrMap

/-- The parts of `*http.Request` the middleware reads. -/
structure Req where
  method : Bytes
  hdrs : HdrMap

/-- What the middleware did: headers of the writer afterwards, the status it wrote (if any),
and whether it then called the wrapped handler. -/
structure Resp where
  hdrs : HdrMap
  status : Option Nat
  next : Bool

/-- The two decisions that the handler delegates to the tree and to the ACRH scanner (DESIGN §3d). -/
structure Dec where
  /-- `origins.Parse(origin)` succeeds. -/
  parses : Bytes → Bool
  /-- `origins.Parse(origin)` succeeds and `tree.Contains` holds. -/
  allowed : Bytes → Bool
  /-- `headers.Check(allowedReqHdrs, acrh)`. -/
  acrhOK : List Bytes → Bool

namespace Serve

def OPTIONS : Bytes := [79, 80, 84, 73, 79, 78, 83]
/-- The status of failed preflights: the unique constant passed to `WriteHeader` in `handleCORSPreflight`
(regenerated fact; `0` if the source no longer has exactly one). -/
def forbidden : Nat := match Facts.cors_preflightFailStatuses with
  | [s] => s
  | _ => 0

/-- The local accumulation map `buf := make(http.Header, bufSizeHint)`. -/
abbrev Buf := HdrMap

/-- `buf[k] = v`. -/
abbrev Buf.put (b : Buf) (k : Bytes) (v : List Bytes) : Buf := HdrMap.assign b k v

/-- `handleNonCORS`. -/
def handleNonCORS (icfg : ICfg) (h : HdrMap) (isOPTIONS : Bool) : HdrMap :=
  let h := if isOPTIONS then h.add Facts.headers_Vary Facts.headers_ValueVaryOptions else h
  if icfg.pnaNoCors then h
  else if !icfg.tree.isEmpty then
    if !isOPTIONS then h.add Facts.headers_Vary Facts.headers_Origin else h
  else
    let h := h.set Facts.headers_ACAO Facts.headers_ValueWildcard
    if !icfg.aceh.isEmpty then h.set Facts.headers_ACEH icfg.aceh else h

/-- `processOriginForPreflight`. -/
def processOriginForPreflight (dec : Dec) (icfg : ICfg) (buf : Buf) (origin : Bytes) : Option Buf :=
  if !dec.parses origin then none
  else if !icfg.credentialed && icfg.tree.isEmpty then some (buf.put Facts.headers_ACAO Facts.headers_WildcardSgl)
  else if !dec.allowed origin then none
  else
    let buf := buf.put Facts.headers_ACAO [origin]
    some (if icfg.credentialed then buf.put Facts.headers_ACAC Facts.headers_TrueSgl else buf)

/-- `processACRPN`. -/
def processACRPN (icfg : ICfg) (buf : Buf) (reqHdrs : HdrMap) : Option Buf :=
  match reqHdrs.first Facts.headers_ACRPN with
  | none => some buf
  | some acrpn =>
    if acrpn != Facts.headers_ValueTrue then some buf
    else if icfg.pna || icfg.pnaNoCors then some (buf.put Facts.headers_ACAPN Facts.headers_TrueSgl)
    else none

/-- `processACRM`. -/
def processACRM (icfg : ICfg) (buf : Buf) (acrm : Bytes) : Option Buf :=
  if Methods.isSafelisted acrm then some buf
  else if icfg.allowAnyMethod && !icfg.credentialed then some (buf.put Facts.headers_ACAM Facts.headers_WildcardSgl)
  else if icfg.allowAnyMethod || icfg.allowedMethods.contains acrm then some (buf.put Facts.headers_ACAM [acrm])
  else none

/-- `processACRH`. -/
def processACRH (dec : Dec) (icfg : ICfg) (buf : Buf) (reqHdrs : HdrMap) (debug : Bool) : Option Buf :=
  match reqHdrs Facts.headers_ACRH with
  | none => some buf
  | some acrh =>
    if icfg.asteriskReqHdrs && !icfg.credentialed then
      if icfg.allowAuthorization then some (buf.put Facts.headers_ACAH Facts.headers_WildcardAuthSgl)
      else some (buf.put Facts.headers_ACAH Facts.headers_WildcardSgl)
    else if icfg.asteriskReqHdrs && icfg.credentialed then some (buf.put Facts.headers_ACAH acrh)
    else if !debug then
      if icfg.allowedReqHdrs.size == 0 then none
      else if !dec.acrhOK acrh then none
      else some (buf.put Facts.headers_ACAH acrh)
    else if !icfg.acah.isEmpty then some (buf.put Facts.headers_ACAH icfg.acah)
    else none

def okStatus (icfg : ICfg) : Nat := icfg.statusMinus200 + 200

/-- The Vary step of `handleCORSPreflight`: install the singleton when the key is absent (fast
path), otherwise append to whatever is there (slow path). -/
def preflightVary (h : HdrMap) : HdrMap :=
  match h Facts.headers_Vary with
  | none => h.assign Facts.headers_Vary Facts.headers_PreflightVarySgl
  | some vary => h.assign Facts.headers_Vary (vary ++ [Facts.headers_ValueVaryOptions])

/-- Outcome of the four steps of the preflight pipeline, with the buffer accumulated so far. -/
inductive Steps
  | originFail (buf : Buf)
  | laterFail (buf : Buf)
  | ok (buf : Buf)

/-- The four steps in Fetch order: origin, ACRPN, ACRM, ACRH.  (The three "later" failures are
handled by textually identical code in Go.) -/
def preflightSteps (dec : Dec) (icfg : ICfg) (reqHdrs : HdrMap) (origin acrm : Bytes) (debug : Bool) : Steps :=
  match processOriginForPreflight dec icfg HdrMap.empty origin with
  | none => .originFail HdrMap.empty
  | some buf =>
    match processACRPN icfg buf reqHdrs with
    | none => .laterFail buf
    | some buf =>
      match processACRM icfg buf acrm with
      | none => .laterFail buf
      | some buf =>
        match processACRH dec icfg buf reqHdrs debug with
        | none => .laterFail buf
        | some buf => .ok buf

/-- `handleCORSPreflight`. -/
def handleCORSPreflight (dec : Dec) (icfg : ICfg) (h : HdrMap) (reqHdrs : HdrMap)
    (origin acrm : Bytes) (debug : Bool) : Resp :=
  let h := preflightVary h
  match preflightSteps dec icfg reqHdrs origin acrm debug with
  | .originFail buf => { hdrs := if debug then h.copy buf else h, status := some forbidden, next := false }
  | .laterFail buf =>
    if debug then { hdrs := h.copy buf, status := some (okStatus icfg), next := false }
    else { hdrs := h, status := some forbidden, next := false }
  | .ok buf =>
    let h := h.copy buf
    let h := if !icfg.acma.isEmpty then h.assign Facts.headers_ACMA icfg.acma else h
    { hdrs := h, status := some (okStatus icfg), next := false }

/-- `handleCORSActual`. -/
def handleCORSActual (dec : Dec) (icfg : ICfg) (h : HdrMap) (origin : Bytes) (isOPTIONS : Bool) : HdrMap :=
  if icfg.pnaNoCors then
    if isOPTIONS then h.add Facts.headers_Vary Facts.headers_ValueVaryOptions else h
  else
    let h := if isOPTIONS then h.add Facts.headers_Vary Facts.headers_ValueVaryOptions
      else if !icfg.tree.isEmpty then h.add Facts.headers_Vary Facts.headers_Origin else h
    if !icfg.credentialed && icfg.tree.isEmpty then
      let h := h.set Facts.headers_ACAO Facts.headers_ValueWildcard
      if !icfg.aceh.isEmpty then h.set Facts.headers_ACEH icfg.aceh else h
    else if !dec.allowed origin then h
    else
      let h := h.assign Facts.headers_ACAO [origin]
      let h := if icfg.credentialed then h.set Facts.headers_ACAC Facts.headers_ValueTrue else h
      if !icfg.aceh.isEmpty then h.set Facts.headers_ACEH icfg.aceh else h

/-- The closure returned by `Wrap`, for a non-nil configuration, over decision oracles. -/
def serveDec (dec : Dec) (icfg : ICfg) (debug : Bool) (r : Req) (pre : HdrMap) : Resp :=
  let isOPTIONS := r.method == OPTIONS
  match r.hdrs.first Facts.headers_Origin with
  | none => { hdrs := handleNonCORS icfg pre isOPTIONS, status := none, next := true }
  | some origin =>
    match r.hdrs.first Facts.headers_ACRM with
    | some acrm =>
      if isOPTIONS then handleCORSPreflight dec icfg pre r.hdrs origin acrm debug
      else { hdrs := handleCORSActual dec icfg pre origin isOPTIONS, status := none, next := true }
    | none => { hdrs := handleCORSActual dec icfg pre origin isOPTIONS, status := none, next := true }

/-- The model's own decisions: the request-side lexer, the tree and the ACRH scanner. -/
def modelDec (icfg : ICfg) : Dec where
  parses o := (Lex.parse o).isSome
  allowed o := match Lex.parse o with
    | none => false
    | some o => Tree.contains icfg.tree o
  acrhOK lines := Headers.check icfg.allowedReqHdrs lines

/-- The closure returned by `Wrap` for a non-nil configuration. -/
def serve (icfg : ICfg) (debug : Bool) (r : Req) (pre : HdrMap) : Resp :=
  serveDec (modelDec icfg) icfg debug r pre

end Serve

/-- `cors.Middleware` (sequential view): configuration pointer and debug flag. -/
structure Mw where
  icfg : Option ICfg := none
  debug : Bool := false

namespace Mw

def zero : Mw := {}

/-- `NewMiddleware`. -/
def new (ext : Ext) (cfg : Config) : Except Err Mw :=
  match newInternalConfig ext cfg with
  | .error e => .error e
  | .ok icfg => .ok { icfg := some icfg, debug := false }

/-- `Reconfigure`. -/
def reconfigure (ext : Ext) (m : Mw) (cfg : Option Config) : Option Err × Mw :=
  match cfg with
  | none => (none, { icfg := none, debug := false })
  | some cfg =>
    match newInternalConfig ext cfg with
    | .error e => (some e, m)
    | .ok icfg => (none, { icfg := some icfg, debug := m.debug })

/-- `SetDebug`. -/
def setDebug (m : Mw) (b : Bool) : Mw := { m with debug := b && m.icfg.isSome }

/-- `Config`. -/
def config (m : Mw) : Option Config := m.icfg.map newConfig

/-- The handler returned by `Wrap`. -/
def serve (m : Mw) (r : Req) (pre : HdrMap) : Resp :=
  match m.icfg with
  | none => { hdrs := pre, status := none, next := true }
  | some icfg => Serve.serve icfg m.debug r pre

end Mw
end Cors
