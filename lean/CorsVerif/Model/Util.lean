import CorsVerif.Model.Basic
/-
  Model of /repo/internal/util: ASCIISet, SortedSet, Set.
-/
namespace Cors

/-- `util.ASCIISet`: the `[8]uint32` bit set is modelled by the list of bytes given to
`MakeASCIISet` (regenerated into `Gen.Facts`); `Contains c` is membership. -/
def asciiContains (set : List Nat) (c : Nat) : Bool := set.contains c

/-- `util.SortedSet`. -/
structure SortedSet where
  elems : List Bytes := []
  maxLen : Nat := 0
deriving Repr, DecidableEq, Inhabited

namespace SortedSet

def empty : SortedSet := {}

/-- `(*SortedSet).Add`: binary search for `e` (membership, `elems` being sorted), otherwise
append, sort, and update `maxLen`. -/
def add (set : SortedSet) (e : Bytes) : SortedSet :=
  if set.elems.contains e then set
  else { elems := insertSorted Bytes.lt e set.elems, maxLen := max set.maxLen e.length }

def size (set : SortedSet) : Nat := set.elems.length

/-- Position of the first occurrence of `e` in `l`, if any. -/
def findIdx (e : Bytes) : List Bytes → Option Nat
  | [] => none
  | x :: xs => if x == e then some 0 else (findIdx e xs).map (· + 1)

/-- `SortedSet.IndexAfter(n, e)` with `start = n + 1` (so the Go argument `-1` is `start = 0`):
`none` models the result `-1`. -/
def indexAfter (set : SortedSet) (start : Nat) (e : Bytes) : Option Nat :=
  if set.maxLen < e.length then none
  else (findIdx e (set.elems.drop start)).map (· + start)

/-- `Set.Contains`. -/
def contains (set : SortedSet) (e : Bytes) : Bool := (set.indexAfter 0 e).isSome

/-- `util.NewSet`. -/
def ofList (es : List Bytes) : SortedSet := es.foldl add empty

end SortedSet
end Cors
