import CorsVerif.Model.Origins
import CorsVerif.Model.Headers
import CorsVerif.Model.Tree
/-
  Index-level model of the functions of /repo that index and slice strings by hand.

  The list-level model (`Lex.parseScheme`, `Lex.parsePort`, `Lex.fastParseHost`, `Headers.trimOWS`,
  `Headers.cutAtComma`, `Tree.splitCommon`, …) consumes its input by pattern matching and therefore
  *cannot* go out of range: the question "can `str[i]` panic?" does not even arise in it.  This file
  transliterates the same Go functions statement by statement, with `int` counters and with Go's
  checked index and slice expressions (`str[i]`, `str[lo:hi]`) as operations that can fail:
  `.error ()` is a run-time panic ("index out of range", "slice bounds out of range").  Loops carry a
  fuel argument; running out of fuel is reported as a failure too, so a theorem `f x = .ok y` says
  that the loop ends within the fuel *and* that no index expression on the way was out of range.

  Proofs/IxRefine.lean proves, for every input, that each of these programs returns `.ok` of what the
  list-level function returns (a refinement: same results, and no panic).  The index and slice
  expressions that occur here are, site by site, those of `Facts.cors_indexSites` (pinned by
  `C17_sites`).
-/
namespace Cors
open Gen Node
namespace Ix

/-- `.error ()` is a run-time panic. -/
abbrev Chk := Except Unit

/-- Go's `len(s)`. -/
def len (s : Bytes) : Int := s.length

/-- Go's `s[i]`. -/
def idx (s : Bytes) (i : Int) : Chk Nat :=
  if 0 ≤ i ∧ i < len s then .ok (s.getD i.toNat 0) else .error ()

/-- Go's `s[lo:hi]`. -/
def slice (s : Bytes) (lo hi : Int) : Chk Bytes :=
  if 0 ≤ lo ∧ lo ≤ hi ∧ hi ≤ len s then .ok ((s.take hi.toNat).drop lo.toNat) else .error ()

/-- Go's `s[lo:]`. -/
def sliceFrom (s : Bytes) (lo : Int) : Chk Bytes := slice s lo (len s)

/-- Go's `s[:hi]`. -/
def sliceTo (s : Bytes) (hi : Int) : Chk Bytes := slice s 0 hi

/-! ### internal/origins/origins.go -/

/-- The `for` of `parseScheme`: `for ; i < end; i++ { if !isSubsequentSchemeByte(str[i]) { break } }`. -/
def schemeLoop (str : Bytes) (end_ : Int) : Nat → Int → Chk Int
  | 0, _ => .error ()
  | fuel + 1, i =>
    if i < end_ then do
      let c ← idx str i                                     -- str[i]
      if !Lex.isSubsequentSchemeByte c then pure i else schemeLoop str end_ fuel (i + 1)
    else pure i

/-- `parseScheme`; `none` is `("", str, false)`. -/
def parseScheme (str : Bytes) : Chk (Option (Bytes × Bytes)) := do
  if len str == 0 then return none                          -- len(str) == 0 ||
  let c ← idx str 0                                         -- str[0]
  if !Lex.isLowerAlpha c then return none
  let i ← schemeLoop str (min (Facts.origins_maxSchemeLen : Int) (len str)) (str.length + 1) 1
  let a ← sliceTo str i                                     -- str[:i]
  let b ← sliceFrom str i                                   -- str[i:]
  return some (a, b)

/-- The `for` of `parsePort`. -/
def portLoop (str : Bytes) (end_ : Int) : Nat → Int → Nat → Chk (Int × Nat)
  | 0, _, _ => .error ()
  | fuel + 1, i, port =>
    if i < end_ then do
      let c ← idx str i                                     -- str[i]
      if !Lex.isDigit c then pure (i, port)
      else
        let d ← idx str i                                   -- str[i] (second read, in intFromDigit)
        portLoop str end_ fuel (i + 1) (Facts.origins_parsePort_base * port + (d - 48))
    else pure (i, port)

/-- `parsePort`; `none` is `(0, str, false)`.  Ports are below 10^5, so Go's `int` does not wrap and
`port < 0` is never true. -/
def parsePort (str : Bytes) : Chk (Option (Nat × Bytes)) := do
  if len str == 0 then return none
  let c ← idx str 0                                         -- str[0]
  if !Lex.isNonZeroDigit c then return none
  let c0 ← idx str 0                                        -- str[0] (intFromDigit)
  let end_ := min (len str) (Facts.origins_maxPortLen : Int)
  let _ ← slice str 1 end_                                  -- _ = str[i:end]
  let (i, port) ← portLoop str end_ (str.length + 1) 1 (c0 - 48)
  if Facts.origins_maxUint16 < port then return none
  let rest ← sliceFrom str i                                -- str[i:]
  return some (port, rest)

/-- `strings.IndexByte`. -/
def indexByte (c : Nat) : Bytes → Int
  | [] => -1
  | a :: as => if a == c then 0 else
      let r := indexByte c as
      if r == -1 then -1 else r + 1

/-- State of the `for` of `fastParseHost`. -/
structure HostSt where
  prevSep : Bool
  ip : Bool
  i : Int

/-- The `for` of `fastParseHost`; `none` is the `return zeroHost, "", false` inside the loop. -/
def hostLoop (str : Bytes) : Nat → HostSt → Chk (Option HostSt)
  | 0, _ => .error ()
  | fuel + 1, st =>
    if st.i < len str then do
      let c ← idx str st.i                                  -- str[i] (all three reads see the same byte)
      if c == Facts.origins_labelSep then
        if st.prevSep then pure none
        else hostLoop str fuel { st with prevSep := true, i := st.i + 1 }
      else if Lex.isDigit c then
        hostLoop str fuel { prevSep := false, ip := if st.prevSep || st.i == 0 then true else st.ip, i := st.i + 1 }
      else if Lex.isASCIILabelByte c then
        hostLoop str fuel { prevSep := false, ip := if st.prevSep then false else st.ip, i := st.i + 1 }
      else pure (some st)
    else pure (some st)

/-- `fastParseHost` below its bracket branch: IPv4 or domain. -/
def hostPlain (str : Bytes) : Chk (Option (Host × Bytes)) := do
  if len str == 0 then return none                          -- len(str) == 0 ||
  let c ← idx str 0                                         -- str[0]
  if c == Facts.origins_labelSep then return none
  match ← hostLoop str (str.length + 1) { prevSep := false, ip := false, i := 0 } with
  | none => return none
  | some st =>
    let v ← sliceTo str st.i                                -- str[:i]
    let rest ← sliceFrom str st.i                           -- str[i:]
    return some ({ value := v, assumeIP := st.ip }, rest)

/-- `fastParseHost`; `none` is failure. -/
def fastParseHost (str : Bytes) : Chk (Option (Host × Bytes)) := do
  let bracket ← (if len str ≥ Facts.origins_fastParseHost_minIPv6HostLen then do
      let c ← idx str 0                                     -- len(str) >= minIPv6HostLen && str[0] == '['
      pure (c == 91)
    else pure false : Chk Bool)
  if bracket then
    let end_ := indexByte 93 str
    if end_ == -1 then return none
    let v ← slice str 1 end_                                -- str[1:end]
    let rest ← sliceFrom str (end_ + 1)                     -- str[end+1:]
    return some ({ value := v, assumeIP := true }, rest)
  else hostPlain str

/-! ### internal/origins/radix.go -/

/-- `lastByte`. -/
def lastByte (str : Bytes) : Chk (Option Nat) := do
  if len str == 0 then return none
  let c ← idx str (len str - 1)                             -- str[len(str)-1]
  return some c

/-- The `for ; 0 <= i && s[i] == l[i]; i-- {}` of `splitAtCommonSuffix`. -/
def suffixLoop (s l : Bytes) : Nat → Int → Chk Int
  | 0, _ => .error ()
  | fuel + 1, i =>
    if 0 ≤ i then do
      let x ← idx s i                                       -- s[i]
      let y ← idx l i                                       -- l[i]
      if x == y then suffixLoop s l fuel (i - 1) else pure i
    else pure i

/-- `splitAtCommonSuffix`. -/
def splitAtCommonSuffix (a b : Bytes) : Chk (Bytes × Bytes × Bytes) := do
  let (s, l) := if len b < len a then (b, a) else (a, b)
  let l ← sliceFrom l (len l - len s)                       -- l = l[len(l)-len(s):]
  let _ ← sliceTo l (len s)                                 -- _ = l[:len(s)]
  let i ← suffixLoop s l (s.length + 1) (len s - 1)
  let i := i + 1
  let ra ← sliceTo a (len a - len s + i)                    -- a[:len(a)-len(s)+i]
  let rb ← sliceTo b (len b - len s + i)                    -- b[:len(b)-len(s)+i]
  let c ← sliceFrom s i                                     -- s[i:]
  return (ra, rb, c)

/-! ### internal/headers/ows.go, acrh.go -/

/-- `trimLeftOWS`; `none` is `(sCopy, false)`. -/
def trimLeftLoop (n : Int) : Nat → Bytes → Int → Chk (Option Bytes)
  | 0, _, _ => .error ()
  | fuel + 1, s, i =>
    if len s > 0 then
      if i > n then pure none
      else do
        let c ← idx s 0                                     -- s[0]
        if !Headers.isOWS c then pure (some s)
        else do
          let s' ← sliceFrom s 1                            -- s[1:]
          trimLeftLoop n fuel s' (i + 1)
    else pure (some s)

def trimLeftOWS (s : Bytes) (n : Nat) : Chk (Option Bytes) := trimLeftLoop n (s.length + 1) s 0

/-- `trimRightOWS`. -/
def trimRightLoop (n : Int) : Nat → Bytes → Int → Chk (Option Bytes)
  | 0, _, _ => .error ()
  | fuel + 1, s, i =>
    if len s > 0 then
      if i > n then pure none
      else do
        let c ← idx s (len s - 1)                           -- s[len(s)-1]
        if !Headers.isOWS c then pure (some s)
        else do
          let s' ← sliceTo s (len s - 1)                    -- s[:len(s)-1]
          trimRightLoop n fuel s' (i + 1)
    else pure (some s)

def trimRightOWS (s : Bytes) (n : Nat) : Chk (Option Bytes) := trimRightLoop n (s.length + 1) s 0

/-- `TrimOWS`. -/
def trimOWS (s : Bytes) (n : Nat) : Chk (Option Bytes) := do
  if s.isEmpty then return some s
  match ← trimRightOWS s n with
  | none => return none
  | some t => trimLeftOWS t n

/-- `cutAtComma`: `end := min(len(str), n)`, `strings.IndexByte(str[:end], ',')`. -/
def cutAtComma (str : Bytes) (n : Nat) : Chk (Bytes × Bytes × Bool) := do
  let end_ := min (len str) (n : Int)
  let head ← sliceTo str end_                               -- str[:end]
  let i := indexByte Headers.comma head
  if i ≥ 0 then
    let after ← sliceFrom str (i + 1)                       -- str[i+1:]
    let before ← sliceTo str i                              -- str[:i]
    return (before, after, true)
  return (str, [], false)

/-! ### generic slices, `[8]uint32` -/

def lenG {α : Type} (s : List α) : Int := s.length

def idxG {α : Type} [Inhabited α] (s : List α) (i : Int) : Chk α :=
  if 0 ≤ i ∧ i < lenG s then .ok (s.getD i.toNat default) else .error ()

def sliceG {α : Type} (s : List α) (lo hi : Int) : Chk (List α) :=
  if 0 ≤ lo ∧ lo ≤ hi ∧ hi ≤ lenG s then .ok ((s.take hi.toNat).drop lo.toNat) else .error ()

/-- Go's `s[i] = v`. -/
def setG {α : Type} (s : List α) (i : Int) (v : α) : Chk (List α) :=
  if 0 ≤ i ∧ i < lenG s then .ok (s.set i.toNat v) else .error ()

/-- `insert[T]` of radix.go (https://go.dev/wiki/SliceTricks#insert). -/
def insertG {α : Type} [Inhabited α] (s : List α) (i : Int) (v : α) : Chk (List α) := do
  let s := s ++ [default]                                   -- s = append(s, dummy)
  let dst ← sliceG s (i + 1) (lenG s)                       -- s[i+1:]
  let src ← sliceG s i (lenG s)                             -- s[i:]
  let s := s.take (i + 1).toNat ++ src.take dst.length      -- copy(dst, src): min(len(dst), len(src)) = len(dst) elements
  setG s i v                                                -- s[i] = v

/-- `headers.First` after the map look-up `v, found := hdrs[k]` (`none` = not found). -/
def first (v : Option (List Bytes)) : Chk (Option (Bytes × List Bytes)) :=
  match v with
  | none => pure none                                       -- !found ||
  | some v =>
    if lenG v == 0 then pure none                           -- len(v) == 0
    else do
      let x ← idxG v 0                                      -- v[0]
      let y ← sliceG v 0 1                                  -- v[:1]
      pure (some (x, y))

/-- `uint32(x)`. -/
def u32 (x : Nat) : Nat := x % 2 ^ 32

/-- One iteration of `MakeASCIISet`: `as[c/32] |= 1 << (c % 32)` on the `[8]uint32` array. -/
def asciiStep (as : List Nat) (c : Nat) : Chk (List Nat) := do
  let w ← idxG as (c / 32 : Nat)                               -- as[c/32]
  setG as (c / 32 : Nat) (u32 (w ||| u32 (1 <<< (c % 32))))

/-- `MakeASCIISet(chars)`: `chars[i]` for `i := range len(chars)` is the list traversal. -/
def makeASCIISet : Bytes → List Nat → Chk (List Nat)
  | [], as => pure as
  | c :: cs, as => do
    let as' ← asciiStep as c
    makeASCIISet cs as'

/-- `as.Contains(c)`: `(as[c/32] & (1 << (c % 32))) != 0`. -/
def asciiContains (as : List Nat) (c : Nat) : Chk Bool := do
  let w ← idxG as (c / 32 : Nat)
  pure ((w &&& u32 (1 <<< (c % 32))) != 0)

def zero8 : List Nat := [0, 0, 0, 0, 0, 0, 0, 0]


/-! ### internal/headers/acrh.go `Check`, internal/util/sortedset.go `IndexAfter` -/

/-- `SortedSet.IndexAfter(n, e)`; `slices.BinarySearch` on the sorted tail is the position of `e` in it
(`SortedSet.findIdx`); `none` is the result -1. -/
def indexAfter (set : SortedSet) (n : Int) (e : Bytes) : Chk (Option Int) := do
  if set.maxLen < e.length then return none
  let start := n + 1
  let tail ← sliceG set.elems start (lenG set.elems)         -- set.elems[start:]
  match SortedSet.findIdx e tail with
  | none => return none
  | some i => return some (start + i)

/-- The inner `for` of `Check` on one field line; state: `posOfLastNameSeen`, `emptyElements`.
`none` is `return false`. -/
def checkLine (set : SortedSet) (maxLen : Nat) : Nat → Bytes → Int × Nat → Chk (Option (Int × Nat))
  | 0, _, _ => .error ()
  | fuel + 1, acrh, (pos, empties) => do
    let (name, rest, commaFound) ← cutAtComma acrh maxLen
    match ← trimOWS name Facts.headers_MaxOWSBytes with
    | none => return none
    | some name =>
      if name.isEmpty then
        let e := empties + 1
        if e > Facts.headers_MaxEmptyElements then return none
        else if !commaFound then return some (pos, e)
        else checkLine set maxLen fuel rest (pos, e)
      else
        match ← indexAfter set pos name with
        | none => return none
        | some i =>
          if !commaFound then return some (i, empties)
          else checkLine set maxLen fuel rest (i, empties)

def checkLines (set : SortedSet) (maxLen : Nat) : List Bytes → Int × Nat → Chk Bool
  | [], _ => pure true
  | l :: ls, st => do
    match ← checkLine set maxLen (l.length + 1) l st with
    | none => return false
    | some st' => checkLines set maxLen ls st'

/-- `headers.Check`. -/
def check (set : SortedSet) (acrhs : List Bytes) : Chk Bool :=
  let maxLen := Facts.headers_MaxOWSBytes + set.maxLen + Facts.headers_MaxOWSBytes + 1
  checkLines set maxLen acrhs (-1, 0)

/-! ### internal/origins/radix.go `Tree.Contains`, `node.contains` -/

/-- Position of the first `x` in `l`: what `slices.BinarySearch` returns with `found = true` on a sorted,
duplicate-free slice (`none` = not found). -/
def findPos {α : Type} [BEq α] (x : α) : List α → Option Nat
  | [] => none
  | y :: ys => if y == x then some 0 else (findPos x ys).map (· + 1)

/-- `node.contains(scheme, port, wildcardSubs)` on the parallel slices `n.schemes`, `n.ports`. -/
def nodeContains (schemes : List (Bytes × List Int)) (scheme : Bytes) (port : Int) (wild : Bool) : Chk Bool :=
  match findPos scheme (schemes.map Prod.fst) with             -- i, found := slices.BinarySearch(n.schemes, scheme)
  | none => pure false
  | some i => do
    let ports ← idxG (schemes.map Prod.snd) i                  -- ports := n.ports[i]
    pure (ports.contains (Node.code port wild) || ports.contains (Node.wildCode wild))

mutual
def depth : Node → Nat
  | .mk _ _ kids => depthKids kids + 1
def depthKids : List (Nat × Node) → Nat
  | [] => 0
  | (_, c) :: rest => max (depth c) (depthKids rest)
end

/-- The `for` of `Tree.Contains` on the parallel slices `n.edges`, `n.children`; the host is the string itself
(the list-level model works on the reversed host and keeps `suf` reversed). -/
def treeLoop : Nat → Node → Bytes → Bytes → Int → Chk Bool
  | 0, _, _, _, _ => .error ()
  | fuel + 1, n, host, scheme, port => do
    match ← lastByte host with
    | none => nodeContains n.schemes scheme port false
    | some label =>
      if ← nodeContains n.schemes scheme port true then return true
      match findPos label (n.kids.map Prod.fst) with           -- i, found := slices.BinarySearch(n.edges, label)
      | none => return false
      | some i =>
        let c ← idxG (n.kids.map Prod.snd) i                   -- n = &n.children[i]
        let (prefixOfHost, _, suf) ← splitAtCommonSuffix host c.suf.reverse
        if suf.length != c.suf.length then return false
        treeLoop fuel c prefixOfHost scheme port

/-- `Tree.Contains`. -/
def treeContains (t : Node) (o : Origin) : Chk Bool :=
  treeLoop (depth t + 1) t o.host.value o.scheme o.port

/-! ### The request path: `origins.Parse`, then `Tree.Contains` -/

/-- `origins.Parse` over the index-level lexers (`strings.CutPrefix` is library code: `Bytes.cutPrefix`). -/
def parse (str : Bytes) : Chk (Option Origin) := do
  if str.length > Facts.origins_Parse_maxOriginLen then return none
  match ← parseScheme str with
  | none => return none
  | some (scheme, str) =>
    match str.cutPrefix Facts.origins_schemeHostSep with
    | none => return none
    | some str =>
      match ← fastParseHost str with
      | none => return none
      | some (host, str) =>
        if str.isEmpty then return some { scheme := scheme, host := host, port := 0 }
        else match str.cutPrefix [Facts.origins_hostPortSep] with
          | none => return none
          | some str =>
            match ← parsePort str with
            | none => return none
            | some (port, rest) =>
              if !rest.isEmpty then return none
              else return some { scheme := scheme, host := host, port := port }

/-- The decision "is this `Origin` header value allowed by the tree" along the request path. -/
def originAllowed (t : Node) (str : Bytes) : Chk Bool := do
  match ← parse str with
  | none => return false
  | some o => treeContains t o

end Ix
end Cors
