import CorsVerif.Model.Ix
/-
  Index-level model of the configuration-time half of /repo/internal/origins/radix.go:
  `Tree.Insert`, `node.add`, `node.upsertEdge`, `deleteSameSign`, `node.elems`, `Tree.Elems`.

  The list-level model (`Node`, Model/Tree.lean) zips the parallel slices of a Go node
  (`edges`/`children`, `schemes`/`ports`) into lists of pairs, so the invariants
  `len(edges) == len(children)` and `len(schemes) == len(ports)` that the Go code relies on
  (`n.children[i]` at the position found in `n.edges`, `n.schemes[i]` for `i` ranging over `n.ports`)
  cannot even be stated in it.  Here a node keeps its five fields as Go does (`INode`), every index
  expression (`n.children[i]`, `n.ports[i]`, `n.ports[i] = …`, `s[i:]`, `s[:i]`, `s[0]`, `s[1:]`,
  `n.schemes[i]`, and those inside `insert[T]`, `lastByte`, `splitAtCommonSuffix`) is Go's checked
  operation (`Chk`, `.error ()` = run-time panic), loops carry fuel, and strings are *not* reversed.

  Modelled, not verified (library calls, no index expression of /repo inside): `slices.BinarySearch`
  returns, on the sorted slices the tree keeps (sortedness is the proved invariant `Node.Inv`), the
  lower bound and whether the element there is the one sought (`bsearch`); `append(ports, port)`
  followed by `slices.Sort` is sorted insertion; `strconv.Itoa`, `strings.IndexByte`, string
  concatenation.  A write through a pointer obtained from `&n.children[i]` (`n = child`,
  `child.upsertEdge`, `child.add`) is a functional update of position `i` (`List.set`): the index
  expression is the `&n.children[i]` itself and is checked where Go evaluates it.

  Proofs/IxTreeRefine.lean proves that these programs, run on the slice representation `conc n` of any
  list-level tree `n`, return `.ok` of the slice representation of what the list-level functions
  return, hence never panic, always end, and keep the two length invariants (`WFI`).
-/
namespace Cors
open Gen Node
namespace Ix

/-- `origins.node` with its five fields as in Go; `suf` is the string itself (not reversed). -/
inductive INode where
  | mk (suf : Bytes) (edges : List Nat) (children : List INode) (schemes : List Bytes) (ports : List (List Int))
deriving Inhabited

namespace INode
def suf : INode → Bytes | .mk s _ _ _ _ => s
def edges : INode → List Nat | .mk _ e _ _ _ => e
def children : INode → List INode | .mk _ _ c _ _ => c
def schemes : INode → List Bytes | .mk _ _ _ s _ => s
def ports : INode → List (List Int) | .mk _ _ _ _ p => p
/-- The zero value `node{}`. -/
def zero : INode := .mk [] [] [] [] []
end INode

/-- `slices.BinarySearch(l, x)` on a sorted slice: the number of elements smaller than `x` … -/
def lowerBound {α : Type} (lt : α → α → Bool) (x : α) : List α → Nat
  | [] => 0
  | y :: ys => if lt y x then lowerBound lt x ys + 1 else 0

/-- … and whether the element at that position is `x`. -/
def bsearch {α : Type} [BEq α] [Inhabited α] (lt : α → α → Bool) (x : α) (l : List α) : Nat × Bool :=
  let i := lowerBound lt x l
  (i, decide (i < l.length) && l.getD i default == x)

def natLt (a b : Nat) : Bool := decide (a < b)
def intLt (a b : Int) : Bool := decide (a < b)

/-- `node.contains` on the two slices `n.schemes`, `n.ports` (same program as `Ix.nodeContains`,
which reads them off the zipped list). -/
def nodeContainsI (schemes : List Bytes) (ports : List (List Int)) (scheme : Bytes) (port : Int) (wild : Bool) : Chk Bool :=
  match findPos scheme schemes with                             -- i, found := slices.BinarySearch(n.schemes, scheme)
  | none => pure false
  | some i => do
    let ps ← idxG ports i                                       -- ports := n.ports[i]
    pure (ps.contains (Node.code port wild) || ps.contains (Node.wildCode wild))

/-- `deleteSameSign`. -/
def deleteSameSignI (s : List Int) (v : Int) : Chk (List Int) :=
  let i : Int := lowerBound intLt 0 s                           -- i, _ := slices.BinarySearch(s, 0)
  if v < 0 then sliceG s i (lenG s)                             -- s[i:]
  else sliceG s 0 i                                             -- s[:i]

/-- `node.add` on the two slices. -/
def addI (schemes : List Bytes) (ports : List (List Int)) (scheme : Bytes) (port : Int) (wild : Bool) :
    Chk (List Bytes × List (List Int)) := do
  let port := Node.code port wild                               -- if wildcardSubs { port -= portOffset; wildcardPort -= portOffset }
  let wc := Node.wildCode wild
  if ← nodeContainsI schemes ports scheme port wild then return (schemes, ports)
  let (i, found) := bsearch Bytes.lt scheme schemes             -- i, found := slices.BinarySearch(n.schemes, scheme)
  if !found then
    let schemes' ← insertG schemes i scheme                     -- n.schemes = insert(n.schemes, i, scheme)
    let ports' ← insertG ports i [port]                         -- n.ports = insert(n.ports, i, []int{port})
    return (schemes', ports')
  let ps ← idxG ports i                                         -- ports := n.ports[i]
  let ps ← (if port == wc then deleteSameSignI ps port else pure ps)
  let ps := insertSorted intLt port ps                          -- append(ports, port); slices.Sort(ports)
  let ports' ← setG ports i ps                                  -- n.ports[i] = ports
  return (schemes, ports')

/-- `node.upsertEdge`; the third component is the `i` of the returned `&n.children[i]`. -/
def upsertEdgeI (edges : List Nat) (children : List INode) (label : Nat) (child : INode) :
    Chk (List Nat × List INode × Nat) := do
  let (i, found) := bsearch natLt label edges                   -- i, found := slices.BinarySearch(n.edges, label)
  if !found then
    let edges' ← insertG edges i label                          -- n.edges = insert(n.edges, i, label)
    let children' ← insertG children i child                    -- n.children = insert(n.children, i, child)
    let _ ← idxG children' i                                    -- return &n.children[i]
    return (edges', children', i)
  let children' ← setG children i child                         -- n.children[i] = child
  let _ ← idxG children' i                                      -- return &n.children[i]
  return (edges, children', i)

/-- `child := node{suf: s}; child.add(scheme, port, wildcardSubs)`. -/
def leafI (s scheme : Bytes) (port : Int) (wild : Bool) : Chk INode := do
  let (sch, ps) ← addI [] [] scheme port wild
  return .mk s [] [] sch ps

/-- The `for` of `Tree.Insert` from node `n` on, returning the updated node (`n = child; continue`
rewrites `n.children[i]` in place). -/
def insertLoop : Nat → INode → Bytes → Bytes → Int → Bool → Chk INode
  | 0, _, _, _, _, _ => .error ()
  | fuel + 1, .mk nsuf edges children schemes ports, s, scheme, port, wild => do
    match ← lastByte s with
    | none =>                                                   -- s is empty
      let (schemes', ports') ← addI schemes ports scheme port wild
      return .mk nsuf edges children schemes' ports'
    | some labelToChild =>
      if ← nodeContainsI schemes ports scheme port true then return .mk nsuf edges children schemes ports
      let (i, found) := bsearch natLt labelToChild edges        -- i, found := slices.BinarySearch(n.edges, labelToChild)
      if !found then
        let child ← leafI s scheme port wild
        let (edges', children', _) ← upsertEdgeI edges children labelToChild child
        return .mk nsuf edges' children' schemes ports
      let child ← idxG children i                               -- child := &n.children[i]
      let (prefixOfS, prefixOfChildSuf, suf) ← splitAtCommonSuffix s child.suf
      match ← lastByte prefixOfChildSuf with
      | none =>                                                 -- child.suf is a suffix of s: n = child; continue
        let child' ← insertLoop fuel child prefixOfS scheme port wild
        return .mk nsuf edges (children.set i child') schemes ports
      | some labelToGrandChild1 =>
        let grandChild1 : INode := .mk prefixOfChildSuf child.edges child.children child.schemes child.ports
        -- child = n.upsertEdge(labelToChild, node{suf: suf})
        let (edges', children', j) ← upsertEdgeI edges children labelToChild (.mk suf [] [] [] [])
        -- child.upsertEdge(labelToGrandChild1, grandChild1)      (child is the fresh node{suf: suf})
        let (ce, cc, _) ← upsertEdgeI [] [] labelToGrandChild1 grandChild1
        match ← lastByte prefixOfS with
        | none =>
          let (cs, cp) ← addI [] [] scheme port wild            -- child.add(p.Scheme, p.Port, wildcardSubs)
          return .mk nsuf edges' (children'.set j (.mk suf ce cc cs cp)) schemes ports
        | some labelToGrandChild2 =>
          let grandChild2 ← leafI prefixOfS scheme port wild
          let (ce', cc', _) ← upsertEdgeI ce cc labelToGrandChild2 grandChild2
          return .mk nsuf edges' (children'.set j (.mk suf ce' cc' [] [])) schemes ports

mutual
def depthI : INode → Nat
  | .mk _ _ children _ _ => depthIs children + 1
def depthIs : List INode → Nat
  | [] => 0
  | c :: rest => max (depthI c) (depthIs rest)
end

/-- `Tree.Insert`: `s := p.HostPattern.Value; if s[0] == '*' { wildcardSubs = true; s = s[1:] }`, then the loop. -/
def treeInsert (t : INode) (p : Pattern) : Chk INode := do
  let s := p.value
  let c ← idx s 0                                               -- s[0]
  if c == 42 then
    let s ← sliceFrom s 1                                       -- s[1:]
    insertLoop (depthI t + 1) t s p.scheme p.port true
  else insertLoop (depthI t + 1) t s p.scheme p.port false

/-- The inner `for _, port := range ports` of `node.elems`. -/
def renderPorts (scheme host : Bytes) (ports : List Int) : List Bytes := ports.map (Node.renderEntry scheme host)

/-- The outer `for i, ports := range n.ports { scheme := n.schemes[i] … }` from index `i` on. -/
def elemsSchemes (schemes : List Bytes) (host : Bytes) : List (List Int) → Nat → Chk (List Bytes)
  | [], _ => pure []
  | ports :: rest, i => do
    let scheme ← idxG schemes i                                 -- scheme := n.schemes[i]
    let tl ← elemsSchemes schemes host rest (i + 1)
    return renderPorts scheme host ports ++ tl

/-- `for i := range n.children { n.children[i].elems(dst, suf) }` from index `i` on; `f` is `elems` one level down. -/
def elemsChildren (f : INode → Bytes → Chk (List Bytes)) (children : List INode) (host : Bytes) : List INode → Nat → Chk (List Bytes)
  | [], _ => pure []
  | _ :: rest, i => do
    let c ← idxG children i                                     -- n.children[i]
    let a ← f c host
    let b ← elemsChildren f children host rest (i + 1)
    return a ++ b

/-- `node.elems` (`fuel` bounds the recursion depth). -/
def elemsLoop : Nat → INode → Bytes → Chk (List Bytes)
  | 0, _, _ => .error ()
  | fuel + 1, .mk nsuf _ children schemes ports, acc => do
    let host := nsuf ++ acc                                     -- suf = n.suf + suf
    let own ← elemsSchemes schemes host ports 0
    let below ← elemsChildren (elemsLoop fuel) children host children 0
    return own ++ below

/-- `Tree.Elems` (`slices.Sort` is the model's sort). -/
def treeElems (t : INode) : Chk (List Bytes) := do
  let res ← elemsLoop (depthI t + 1) t []
  return sortBy Bytes.lt res

mutual
/-- The slice representation of a list-level node (`suf` un-reversed, the pairs unzipped). -/
def conc : Node → INode
  | .mk suf S K => .mk suf.reverse (K.map Prod.fst) (concKids K) (S.map Prod.fst) (S.map Prod.snd)
def concKids : List (Nat × Node) → List INode
  | [] => []
  | (_, c) :: rest => conc c :: concKids rest
end

mutual
/-- The invariants stated in the doc comment of `origins.node`, at every node of the tree. -/
def WFI : INode → Prop
  | .mk _ edges children schemes ports => edges.length = children.length ∧ schemes.length = ports.length ∧ WFIs children
def WFIs : List INode → Prop
  | [] => True
  | c :: rest => WFI c ∧ WFIs rest
end

end Ix
end Cors

/-! ### internal/origins/pattern.go `hostOnly`, `parseHostPattern`; config.go `newConfig` -/
namespace Cors
open Gen Pat
namespace Ix

/-- `(*HostPattern).hostOnly`: `hp.Value[len(subdomainWildcard)+1:]` for a subdomains pattern. -/
def hostOnlyI (value : Bytes) (kind : Kind) : Chk Bytes :=
  if kind == .subdomains then sliceFrom value ((Facts.origins_subdomainWildcard.length : Int) + 1)
  else pure value

/-- `parseHostPattern` over the index-level `fastParseHost`, with `hostOnly` and the trim `pattern.Value[:end]`
as checked slice expressions (`netip`, `idna` are the list-level model's `ipVerdict`, `idnaOK`). -/
def parseHostPatternI (ext : Ext) (str : Bytes) : Chk (Except OReason (Bytes × Kind × Bytes)) := do
  let kind := peekKind str
  let h ← hostOnlyI str kind                                    -- pattern.hostOnly()
  match ← fastParseHost h with
  | none => return .error .invalid
  | some (host, rest) =>
    if kind == .subdomains && host.value.length > Facts.origins_maxHostLen - 2 then return .error .invalid
    if kind == .subdomains && host.assumeIP then return .error .invalid
    let end_ : Int := len host.value + (if kind == .subdomains then (Facts.origins_subdomainWildcard.length : Int) + 1 else 0)
    let value ← sliceTo str end_                                -- pattern.Value = pattern.Value[:end]
    if host.assumeIP then
      match ipVerdict ext host.value with
      | .bad => return .error .invalid
      | .prohibited => return .error .prohibited
      | .ok lb => return .ok (host.value, if lb then .loopbackIP else .nonLoopbackIP, rest)
    else if !idnaOK ext host.value then return .error .prohibited
    else return .ok (value, kind, rest)

/-- `newConfig`: `if len(icfg.acma) > 0 { maxAge, _ := strconv.Atoi(icfg.acma[0]) … }`; the value read. -/
def acmaHead (acma : List Bytes) : Chk (Option Bytes) :=
  if lenG acma > 0 then do
    let v ← idxG acma 0                                         -- icfg.acma[0]
    return some v
  else pure none

end Ix
end Cors
