import CorsVerif.Model.Util
import CorsVerif.Gen.Facts
/-
  Model of /repo/internal/origins/origins.go (request-side lexer) and pattern.go
  (configuration-side parser).
-/
namespace Cors
open Gen

/-- `origins.Host`. -/
structure Host where
  value : Bytes
  assumeIP : Bool
deriving Repr, DecidableEq, Inhabited

/-- `origins.Origin`; `port = 0` marks the absence of an explicit port. -/
structure Origin where
  scheme : Bytes
  host : Host
  port : Nat
deriving Repr, DecidableEq, Inhabited

namespace Lex

def isLowerAlpha (b : Nat) : Bool := asciiContains Facts.origins_lowerAlpha b
def isSubsequentSchemeByte (b : Nat) : Bool := asciiContains Facts.origins_laterSchemeBytes b
def isASCIILabelByte (b : Nat) : Bool := asciiContains Facts.origins_asciiLabelBytes b
def isDigit (b : Nat) : Bool := asciiContains Facts.origins_digits b
def isNonZeroDigit (b : Nat) : Bool := asciiContains Facts.origins_nonzeroDigits b

/-- Longest prefix of `s`, at most `n` bytes, all of whose bytes satisfy `p`; and the rest. -/
def spanUpTo (p : Nat → Bool) : Nat → Bytes → Bytes × Bytes
  | 0, s => ([], s)
  | _ + 1, [] => ([], [])
  | n + 1, b :: s => if p b then
      match spanUpTo p n s with
      | (l, r) => (b :: l, r)
    else ([], b :: s)

/-- `parseScheme`: returns (scheme, rest). -/
def parseScheme (str : Bytes) : Option (Bytes × Bytes) :=
  match str with
  | [] => none
  | b :: s =>
    if !isLowerAlpha b then none
    else match spanUpTo isSubsequentSchemeByte (Facts.origins_maxSchemeLen - 1) s with
      | (l, r) => some (b :: l, r)

/-- The scanning loop of `fastParseHost` for non-bracketed hosts.
State: previousByteWasLabelSep, assumeIPv4, whether this is the first byte.
Returns `none` for the empty-label failure, else (consumed, rest, assumeIPv4). -/
def hostLoop : Bytes → Bool → Bool → Bool → Option (Bytes × Bytes × Bool)
  | [], _, ip, _ => some ([], [], ip)
  | b :: s, prevSep, ip, first =>
    if b == Facts.origins_labelSep then
      if prevSep then none
      else (hostLoop s true ip false).map fun (h, r, ip') => (b :: h, r, ip')
    else if isDigit b then
      (hostLoop s false (if prevSep || first then true else ip) false).map fun (h, r, ip') => (b :: h, r, ip')
    else if isASCIILabelByte b then
      (hostLoop s false (if prevSep then false else ip) false).map fun (h, r, ip') => (b :: h, r, ip')
    else some ([], b :: s, ip)

/-- `fastParseHost`: returns (host, rest). -/
def fastParseHost (str : Bytes) : Option (Host × Bytes) :=
  if str.length ≥ Facts.origins_fastParseHost_minIPv6HostLen && str.head? == some 91 then
    match Bytes.cutAt 93 str with
    | none => none
    | some (before, after) => some ({ value := before.drop 1, assumeIP := true }, after)
  else match str with
    | [] => none
    | b :: _ =>
      if b == Facts.origins_labelSep then none
      else match hostLoop str false false true with
        | none => none
        | some (h, r, ip) => some ({ value := h, assumeIP := ip }, r)

/-- Numeric value of the digits read by `parsePort`'s loop. -/
def portLoop : Nat → Bytes → Nat → Nat × Bytes
  | 0, s, acc => (acc, s)
  | _ + 1, [], acc => (acc, [])
  | n + 1, b :: s, acc =>
    if isDigit b then portLoop n s (Facts.origins_parsePort_base * acc + (b - 48)) else (acc, b :: s)

/-- `parsePort`: returns (port, rest). -/
def parsePort (str : Bytes) : Option (Nat × Bytes) :=
  match str with
  | [] => none
  | b :: s =>
    if !isNonZeroDigit b then none
    else match portLoop (Facts.origins_maxPortLen - 1) s (b - 48) with
      | (port, rest) => if Facts.origins_maxUint16 < port then none else some (port, rest)

/-- `origins.Parse`. -/
def parse (str : Bytes) : Option Origin :=
  if str.length > Facts.origins_Parse_maxOriginLen then none
  else match parseScheme str with
  | none => none
  | some (scheme, str) =>
    match str.cutPrefix Facts.origins_schemeHostSep with
    | none => none
    | some str =>
      match fastParseHost str with
      | none => none
      | some (host, str) =>
        if str.isEmpty then some { scheme := scheme, host := host, port := 0 }
        else match str.cutPrefix [Facts.origins_hostPortSep] with
          | none => none
          | some str =>
            match parsePort str with
            | none => none
            | some (port, rest) =>
              if !rest.isEmpty then none
              else some { scheme := scheme, host := host, port := port }

end Lex

/-- `origins.PatternKind`. -/
inductive Kind | domain | nonLoopbackIP | loopbackIP | subdomains
deriving Repr, DecidableEq, Inhabited

/-- `origins.Pattern` (with `HostPattern` flattened). `port`: 0 = absent, `wildcardPort` = any. -/
structure Pattern where
  scheme : Bytes
  value : Bytes     -- HostPattern.Value (includes the leading `*.` for Kind.subdomains)
  kind : Kind
  port : Nat
deriving Repr, DecidableEq, Inhabited

/-- Reason of an `UnacceptableOriginPatternError`. -/
inductive OReason | missing | invalid | prohibited
deriving Repr, DecidableEq, Inhabited

/-- What `netip.ParseAddr` says about a string containing `:` (an IPv6 candidate):
canonical text (`Addr.String()`), whether a zone is present, `Is4In6`, `IsLoopback`. -/
structure IP6Info where
  canon : Bytes
  zone : Bool
  is4in6 : Bool
  loopback : Bool
deriving Repr, DecidableEq, Inhabited

/-- Library behaviour that is modelled as an oracle (trusted base, see DESIGN.md §1). -/
structure Ext where
  /-- Does `profile.ToASCII` accept this host (asked only for hosts with an `xn--` label)? -/
  idnaXn : Bytes → Bool
  /-- `publicsuffix.PublicSuffix host == host`. -/
  isETLD : Bytes → Bool
  /-- `netip.ParseAddr` on a string whose first of `.`/`:`/`%` is `:`. -/
  ip6 : Bytes → Option IP6Info

namespace Pat

def hostOnly (value : Bytes) (kind : Kind) : Bytes :=
  if kind == .subdomains then value.drop (Facts.origins_subdomainWildcard.length + 1) else value

def Pattern.hostOnly (p : Pattern) : Bytes := Pat.hostOnly p.value p.kind

def localhost : Bytes := [108, 111, 99, 97, 108, 104, 111, 115, 116]

def isDeemedInsecure (p : Pattern) : Bool :=
  p.scheme != Facts.origins_schemeHTTPS && p.kind != .loopbackIP && hostOnly p.value p.kind != localhost

/-- `strings.TrimSuffix host "."`. -/
def trimDot (host : Bytes) : Bytes :=
  if host.getLast? == some Facts.origins_labelSep then host.dropLast else host

def hostIsEffectiveTLD (ext : Ext) (p : Pattern) : Bool :=
  ext.isETLD (trimDot (hostOnly p.value p.kind))

def peekKind (str : Bytes) : Kind :=
  if str.hasPrefix Facts.origins_peekKind_wildcardSeq then .subdomains else .domain

/-- One IPv4 field as `netip.parseIPv4Fields` reads it: 1+ digits, no leading zero, ≤ 255. -/
def octetOK (f : Bytes) : Bool :=
  !f.isEmpty && f.all Bytes.isDigitB && !(f.length > 1 && f.head? == some 48)
  && f.length ≤ 3 && (f.foldl (fun acc b => 10 * acc + (b - 48)) 0) ≤ 255

/-- `netip.ParseAddr` on a string whose first of `.`/`:`/`%` is `.`; since leading zeros are
refused, `String()` of the result is the input. Returns whether it is a loopback address. -/
def parseIPv4 (s : Bytes) : Option Bool :=
  match Bytes.splitOn 46 s with
  | [a, b, c, d] => if octetOK a && octetOK b && octetOK c && octetOK d
      then some (a == [49, 50, 55]) else none
  | _ => none

/-- First of `.`, `:`, `%` in `s`, as `netip.ParseAddr` dispatches. -/
def firstIPMark : Bytes → Option Nat
  | [] => none
  | b :: s => if b == 46 || b == 58 || b == 37 then some b else firstIPMark s

inductive IPVerdict | bad | prohibited | ok (loopback : Bool)
deriving Repr, DecidableEq

/-- The IP branch of `parseHostPattern` (ParseAddr, Zone, Is4In6, String comparison, IsLoopback). -/
def ipVerdict (ext : Ext) (host : Bytes) : IPVerdict :=
  match firstIPMark host with
  | some 46 => match parseIPv4 host with
      | none => .bad
      | some lb => .ok lb
  | some 58 => match ext.ip6 host with
      | none => .bad
      | some info =>
        if info.zone then .bad
        else if info.is4in6 then .prohibited
        else if info.canon != host then .prohibited
        else .ok info.loopback
  | _ => .bad

def xnDash : Bytes := [120, 110, 45, 45]

/-- Check that `profile.ToASCII` performs on one plain-ASCII label without `xn--` prefix
(x/net/idna `validateLabel` with `mapping = normalize`-free profile and `VerifyDNSLength`). -/
def plainLabelOK (l : Bytes) : Bool :=
  !l.isEmpty && l.length ≤ 63
  && l.head? != some 45 && l.getLast? != some 45
  && !(l.length > 4 && (l.drop 2).take 2 == [45, 45])

/-- Model of `profile.ToASCII host` returning `err == nil` for the alphabet `fastParseHost`
lets through, when no label starts with `xn--`: labels non-empty except possibly the last,
per-label checks, total length ≤ 253 not counting a trailing dot. -/
def plainIdnaOK (host : Bytes) : Bool :=
  let labels := Bytes.splitOn 46 host
  let body := if labels.getLast? == some [] then labels.dropLast else labels
  !host.isEmpty && !body.isEmpty && body.all plainLabelOK
  && (trimDot host).length ≤ 253

def hasXnLabel (host : Bytes) : Bool := (Bytes.splitOn 46 host).any (·.hasPrefix xnDash)

def idnaOK (ext : Ext) (host : Bytes) : Bool :=
  if hasXnLabel host then ext.idnaXn host else plainIdnaOK host

/-- `parseHostPattern`: returns (value, kind, rest) or the reason of the error. -/
def parseHostPattern (ext : Ext) (str : Bytes) : Except OReason (Bytes × Kind × Bytes) :=
  let kind := peekKind str
  match Lex.fastParseHost (hostOnly str kind) with
  | none => .error .invalid
  | some (host, rest) =>
    if kind == .subdomains && host.value.length > Facts.origins_maxHostLen - 2 then .error .invalid
    else if kind == .subdomains && host.assumeIP then .error .invalid
    else
      let stop := host.value.length + (if kind == .subdomains then Facts.origins_subdomainWildcard.length + 1 else 0)
      let value := str.take stop
      if host.assumeIP then
        match ipVerdict ext host.value with
        | .bad => .error .invalid
        | .prohibited => .error .prohibited
        | .ok lb => .ok (host.value, if lb then .loopbackIP else .nonLoopbackIP, rest)
      else if !idnaOK ext host.value then .error .prohibited
      else .ok (value, kind, rest)

def parsePortPattern (str : Bytes) : Option (Nat × Bytes) :=
  match str.cutPrefix Facts.origins_portWildcard with
  | some rest => some (Facts.origins_wildcardPort, rest)
  | none => Lex.parsePort str

def isDefaultPortForScheme (scheme : Bytes) (port : Nat) : Bool :=
  (port == Facts.origins_portHTTP && scheme == Facts.origins_schemeHTTP)
  || (port == Facts.origins_portHTTPS && scheme == Facts.origins_schemeHTTPS)

def star : Bytes := [42]
def null : Bytes := [110, 117, 108, 108]
def file : Bytes := [102, 105, 108, 101]

/-- `origins.ParsePattern`; the error is always an `UnacceptableOriginPatternError` whose
`Value` is the full input, so only the reason is returned. -/
def parsePattern (ext : Ext) (str : Bytes) : Except OReason Pattern :=
  if str == star || str == null then .error .prohibited
  else match Lex.parseScheme str with
  | none => .error .invalid
  | some (scheme, rest) =>
    if scheme == file then .error .prohibited
    else match rest.cutPrefix Facts.origins_schemeHostSep with
    | none => .error .invalid
    | some rest =>
      match parseHostPattern ext rest with
      | .error r => .error r
      | .ok (value, kind, rest) =>
        if (kind == .loopbackIP || kind == .nonLoopbackIP) && scheme == Facts.origins_schemeHTTPS then .error .invalid
        else if rest.isEmpty then .ok { scheme := scheme, value := value, kind := kind, port := 0 }
        else match rest.cutPrefix [Facts.origins_hostPortSep] with
          | none => .error .invalid
          | some rest =>
            match parsePortPattern rest with
            | none => .error .invalid
            | some (port, rest) =>
              if !rest.isEmpty then .error .invalid
              else if isDefaultPortForScheme scheme port then .error .prohibited
              else .ok { scheme := scheme, value := value, kind := kind, port := port }

end Pat
end Cors
