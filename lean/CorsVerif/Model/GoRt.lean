import CorsVerif.Model.Serve
/-
  Run-time vocabulary of the Go-to-Lean translator (harness/extract/translate.go): the multi-valued Go calls that the
  translated functions use, as functions returning tuples.
-/
namespace Cors
namespace GoRt

/-- A Go construct the translator does not support; no equivalence proof survives it. -/
def unsupported {α : Type} [Inhabited α] (_ : String) : α := default

/-- `headers.First(h, k)`: `(v[0], v[:1], true)` when the key is present with at least one value. -/
def first (h : HdrMap) (k : Bytes) : Bytes × List Bytes × Bool :=
  match h k with
  | some (v :: _) => (v, [v], true)
  | _ => ([], [], false)

/-- `v, found := h[k]`. -/
def lookup (h : HdrMap) (k : Bytes) : List Bytes × Bool :=
  match h k with
  | some v => (v, true)
  | none => ([], false)

/-- `origins.Parse(s)`. -/
def parse (s : Bytes) : Origin × Bool :=
  match Lex.parse s with
  | some o => (o, true)
  | none => (default, false)

/-- What a step of the pipeline returns, in the translator's shape: success with the new buffer, or failure with the
buffer *as it was* (the model's steps write nothing before failing; that the Go code does not either is part of what
the equivalence theorems say). -/
def result (buf : Serve.Buf) (r : Option Serve.Buf) : Bool × Serve.Buf :=
  match r with
  | some b => (true, b)
  | none => (false, buf)

/-- `newInternalConfig(cfg)` for a `*Config` that may be nil: `(nil, nil)` for nil, otherwise the internal configuration or the error. -/
def newInternalConfig (ext : Ext) (cfg : Option Config) : Option ICfg × Option Err :=
  match cfg with
  | none => (none, none)
  | some c =>
    match Cors.newInternalConfig ext c with
    | .ok i => (some i, none)
    | .error e => (none, some e)

/-- `uint8(x)` for an `int` x: the low eight bits. -/
def uint8 (x : Int) : Nat := (x % 256).toNat

/-- `strconv.Itoa`. -/
def itoa (x : Int) : Bytes := if x < 0 then 45 :: Bytes.itoa (-x).toNat else Bytes.itoa x.toNat

/-- A non-negative constant used where the model has a `Nat` (bounds and defaults of the error values). -/
def nat (x : Int) : Nat := x.toNat

end GoRt
end Cors
