import CorsVerif.Model.Headers
import CorsVerif.Model.Tree
import CorsVerif.Model.Errors
/-
  Model of /repo/config.go (newInternalConfig + validate*, newConfig) and of the error
  values of /repo/cfgerrors.
-/
namespace Cors
open Gen

inductive MReason | invalid | forbidden
deriving Repr, DecidableEq, Inhabited
inductive HReason | invalid | prohibited | forbidden
deriving Repr, DecidableEq, Inhabited
inductive IReason | credentialed | pna | psl
deriving Repr, DecidableEq, Inhabited

/-- The exported error types of package cfgerrors, with their fields. -/
inductive CfgErr
  | originPattern (value : Bytes) (reason : OReason)
  | method (value : Bytes) (reason : MReason)
  | headerName (value : Bytes) (isResponse : Bool) (reason : HReason)
  | maxAge (value : Int) (dflt : Nat) (max : Nat) (disable : Int)
  | status (value : Int) (dflt : Nat) (min : Nat) (max : Nat)
  | incompatOrigin (value : Bytes) (reason : IReason)
  | pnaModes
  | wildcardRespHdr
deriving Repr, DecidableEq, Inhabited

/-- An error value as built by `errors.Join` over the cfgerrors leaf types. -/
abbrev Err := ETree CfgErr

/-- `errors.Join(errs...)` for a list of non-nil errors: nil when the list is empty. -/
def Err.joinOpt (es : List Err) : Option Err := if es.isEmpty then none else some (.join es)

/-- `cors.Config` (with `ExtraConfig` flattened). -/
structure Config where
  origins : List Bytes := []
  credentialed : Bool := false
  methods : List Bytes := []
  requestHeaders : List Bytes := []
  maxAge : Int := 0
  responseHeaders : List Bytes := []
  status : Int := 0
  pna : Bool := false
  pnaNoCors : Bool := false
  tolInsecure : Bool := false
  tolPSL : Bool := false
deriving Repr, DecidableEq, Inhabited

/-- `cors.internalConfig`. Nil slices are `[]`. -/
structure ICfg where
  tree : Tree := Node.empty
  allowedMethods : SortedSet := {}
  allowedReqHdrs : SortedSet := {}
  acah : List Bytes := []
  statusMinus200 : Nat := 0
  credentialed : Bool := false
  allowAnyMethod : Bool := false
  asteriskReqHdrs : Bool := false
  allowAuthorization : Bool := false
  pna : Bool := false
  pnaNoCors : Bool := false
  acma : List Bytes := []
  aceh : Bytes := []
  subsOfPublicSuffixes : Bool := false
  insecureOrigins : Bool := false
deriving Repr, Inhabited

namespace Validate

def star : Bytes := Facts.headers_ValueWildcard

/-- `validatePreflightStatus`: error or the `preflightStatusMinus200` byte. -/
def status (s : Int) : Except CfgErr Nat :=
  if s == 0 then .ok (Facts.cors_defaultPreflightStatus - 200)
  else if !((Facts.cors_validatePreflightStatus_lowerBound : Int) ≤ s
            && s ≤ (Facts.cors_validatePreflightStatus_upperBound : Int)) then
    .error (.status s Facts.cors_defaultPreflightStatus Facts.cors_validatePreflightStatus_lowerBound
              Facts.cors_validatePreflightStatus_upperBound)
  else .ok ((s - 200).toNat % 256)

/-- Loop state of `validateOrigins`. -/
structure OState where
  tree : Tree := Node.empty
  errs : List CfgErr := []
  allowAny : Bool := false

/-- One iteration of the loop of `validateOrigins`. -/
def originStep (ext : Ext) (credentialed pnaAny tolInsecure tolPSL : Bool) (st : OState) (raw : Bytes) : OState :=
  if raw == star then
    let errs := st.errs ++ (if credentialed then [.incompatOrigin star .credentialed] else [])
                        ++ (if pnaAny then [.incompatOrigin star .pna] else [])
    { st with errs := errs, allowAny := true }
  else match Pat.parsePattern ext raw with
    | .error r => { st with errs := st.errs ++ [.originPattern raw r] }
    | .ok p =>
      let e1 := if Pat.isDeemedInsecure p && !tolInsecure then
          (if credentialed then [CfgErr.incompatOrigin raw .credentialed] else [])
          ++ (if pnaAny then [CfgErr.incompatOrigin raw .pna] else [])
        else []
      let e2 := if p.kind == .subdomains && !tolPSL && Pat.hostIsEffectiveTLD ext p
        then [CfgErr.incompatOrigin raw .psl] else []
      { st with errs := st.errs ++ e1 ++ e2, tree := Tree.insert st.tree p }

/-- `validateOrigins`: errors (in order) and the resulting tree. -/
def origins (ext : Ext) (credentialed pnaAny tolInsecure tolPSL : Bool) (patterns : List Bytes) : List CfgErr × Tree :=
  if patterns.isEmpty then ([.originPattern [] .missing], Node.empty)
  else
    let st := patterns.foldl (originStep ext credentialed pnaAny tolInsecure tolPSL) {}
    (st.errs, if st.allowAny then Node.empty else st.tree)

structure MState where
  set : SortedSet := {}
  errs : List CfgErr := []
  any : Bool := false

def methodStep (st : MState) (name : Bytes) : MState :=
  if name == star then { st with any := true }
  else if !Methods.isValid name then { st with errs := st.errs ++ [.method name .invalid] }
  else
    let name := Methods.normalize name
    if Methods.isSafelisted name then st
    else if Methods.isForbidden name then { st with errs := st.errs ++ [.method name .forbidden] }
    else { st with set := st.set.add name }

/-- `validateMethods`: errors, allowAnyMethod, allowedMethods. -/
def methods (names : List Bytes) : List CfgErr × Bool × SortedSet :=
  let st := names.foldl methodStep {}
  (st.errs, st.any, if st.any then {} else st.set)

structure RState where
  set : SortedSet := {}
  errs : List CfgErr := []
  asterisk : Bool := false
  allowAuth : Bool := false

def reqHdrStep (credentialed : Bool) (st : RState) (name : Bytes) : RState :=
  if name == star then { st with asterisk := true }
  else if !Headers.isValid name then { st with errs := st.errs ++ [.headerName name false .invalid] }
  else
    let normalized := name.lower
    if normalized == Facts.headers_Authorization then
      if st.allowAuth then st
      else if !st.asterisk || !credentialed then { st with allowAuth := true, set := st.set.add normalized }
      else { st with allowAuth := true }
    else if Headers.isForbiddenRequestHeaderName normalized then
      { st with errs := st.errs ++ [.headerName name false .forbidden] }
    else if Headers.isProhibitedRequestHeaderName normalized then
      { st with errs := st.errs ++ [.headerName name false .prohibited] }
    else { st with set := st.set.add normalized }

/-- `validateRequestHeaders`: errors, asteriskReqHdrs, allowAuthorization, allowedReqHdrs, acah. -/
def requestHeaders (credentialed : Bool) (names : List Bytes) : List CfgErr × Bool × Bool × SortedSet × List Bytes :=
  let st := names.foldl (reqHdrStep credentialed) {}
  if !st.asterisk && st.set.size != 0 then
    (st.errs, st.asterisk, st.allowAuth, st.set, [Bytes.join Headers.comma st.set.elems])
  else (st.errs, st.asterisk, st.allowAuth, {}, [])

/-- `validateMaxAge`: error or `acma`. -/
def maxAge (delta : Int) : Except CfgErr (List Bytes) :=
  if delta < Facts.cors_validateMaxAge_disableCaching || (Facts.cors_validateMaxAge_upperBound : Int) < delta then
    .error (.maxAge delta Facts.cors_validateMaxAge_defaultMaxAge Facts.cors_validateMaxAge_upperBound
              Facts.cors_validateMaxAge_disableCaching)
  else if delta == Facts.cors_validateMaxAge_disableCaching then .ok [[48]]
  else if delta == 0 then .ok []
  else .ok [Bytes.itoa delta.toNat]

structure EState where
  set : SortedSet := {}
  errs : List CfgErr := []
  all : Bool := false

def resHdrStep (credentialed : Bool) (st : EState) (name : Bytes) : EState :=
  if name == star then
    { st with errs := st.errs ++ (if credentialed then [.wildcardRespHdr] else []), all := true }
  else if !Headers.isValid name then { st with errs := st.errs ++ [.headerName name true .invalid] }
  else
    let normalized := name.lower
    if Headers.isForbiddenResponseHeaderName normalized then
      { st with errs := st.errs ++ [.headerName name true .forbidden] }
    else if Headers.isProhibitedResponseHeaderName normalized then
      { st with errs := st.errs ++ [.headerName name true .prohibited] }
    else if Headers.isSafelistedResponseHeaderName normalized then st
    else { st with set := st.set.add normalized }

/-- `validateResponseHeaders`: errors and `aceh`. -/
def responseHeaders (credentialed : Bool) (names : List Bytes) : List CfgErr × Bytes :=
  let st := names.foldl (resHdrStep credentialed) {}
  (st.errs, if st.all then star else if st.set.size > 0 then Bytes.join Headers.comma st.set.elems else [])

/-- What a validator returns: nil, a single error, or a join. -/
def fieldErr (es : List CfgErr) : List Err := if es.isEmpty then [] else [.join (es.map .leaf)]

end Validate

namespace Validate

def pnaAny (cfg : Config) : Bool := cfg.pna || cfg.pnaNoCors

/-- The error (if any) of each step of `newInternalConfig`, in the order the code appends them. -/
def statusErrs (cfg : Config) : List Err := match status cfg.status with
  | .error e => [.leaf e]
  | .ok _ => []
def pnaErrs (cfg : Config) : List Err := if cfg.pna && cfg.pnaNoCors then [.leaf .pnaModes] else []
def originsResult (ext : Ext) (cfg : Config) : List CfgErr × Tree :=
  origins ext cfg.credentialed (pnaAny cfg) cfg.tolInsecure cfg.tolPSL cfg.origins
/-- `validateOrigins` returns a bare leaf for the "missing" case and a join otherwise. -/
def originErrs (ext : Ext) (cfg : Config) : List Err :=
  if cfg.origins.isEmpty then (originsResult ext cfg).1.map .leaf else fieldErr (originsResult ext cfg).1
def methodErrs (cfg : Config) : List Err := fieldErr (methods cfg.methods).1
def reqHdrErrs (cfg : Config) : List Err := fieldErr (requestHeaders cfg.credentialed cfg.requestHeaders).1
def maxAgeErrs (cfg : Config) : List Err := match maxAge cfg.maxAge with
  | .error e => [.leaf e]
  | .ok _ => []
def resHdrErrs (cfg : Config) : List Err := fieldErr (responseHeaders cfg.credentialed cfg.responseHeaders).1

/-- `errs` at the end of `newInternalConfig`. -/
def allErrs (ext : Ext) (cfg : Config) : List Err :=
  statusErrs cfg ++ pnaErrs cfg ++ originErrs ext cfg ++ methodErrs cfg ++ reqHdrErrs cfg ++ maxAgeErrs cfg ++ resHdrErrs cfg

/-- The `internalConfig` built along the way (returned only when there is no error). -/
def build (ext : Ext) (cfg : Config) : ICfg :=
  let r := requestHeaders cfg.credentialed cfg.requestHeaders
  { tree := (originsResult ext cfg).2,
    allowedMethods := (methods cfg.methods).2.2,
    allowedReqHdrs := r.2.2.2.1,
    acah := r.2.2.2.2,
    statusMinus200 := match status cfg.status with | .ok v => v | .error _ => 0,
    credentialed := cfg.credentialed,
    allowAnyMethod := (methods cfg.methods).2.1,
    asteriskReqHdrs := r.2.1,
    allowAuthorization := r.2.2.1,
    pna := cfg.pna, pnaNoCors := cfg.pnaNoCors,
    acma := match maxAge cfg.maxAge with | .ok v => v | .error _ => [],
    aceh := (responseHeaders cfg.credentialed cfg.responseHeaders).2,
    subsOfPublicSuffixes := cfg.tolPSL, insecureOrigins := cfg.tolInsecure }

end Validate

/-- `newInternalConfig` for a non-nil `*Config`: the error tree in exactly the shape
`errors.Join` builds, or the internal configuration. -/
def newInternalConfig (ext : Ext) (cfg : Config) : Except Err ICfg :=
  if (Validate.allErrs ext cfg).isEmpty then .ok (Validate.build ext cfg)
  else .error (.join (Validate.allErrs ext cfg))

/-- `newConfig` for a non-nil `*internalConfig`. -/
def newConfig (icfg : ICfg) : Config :=
  let origins := if icfg.tree.isEmpty then [Validate.star] else Tree.elems icfg.tree
  let methods := if icfg.allowAnyMethod then [Validate.star]
    else if icfg.allowedMethods.size > 0 then icfg.allowedMethods.elems else []
  let reqHdrs :=
    if !icfg.credentialed && icfg.asteriskReqHdrs && icfg.allowAuthorization then [Validate.star, Facts.headers_Authorization]
    else if icfg.asteriskReqHdrs then [Validate.star]
    else if icfg.allowedReqHdrs.size > 0 then icfg.allowedReqHdrs.elems else []
  let maxAge : Int := match icfg.acma with
    | [] => 0
    | v :: _ => match Bytes.atoi v with
      | some n => if n != 0 then n else -1
      | none => -1     -- Atoi error yields 0, hence -1 (unreachable by construction)
  let resHdrs := if icfg.aceh.length > 0 then Bytes.splitOn Headers.comma icfg.aceh else []
  let status : Int :=
    if (icfg.statusMinus200 + 200) % 256 != Facts.cors_defaultPreflightStatus % 256 then (icfg.statusMinus200 : Int) + 200 else 0
  { origins := origins, credentialed := icfg.credentialed, methods := methods, requestHeaders := reqHdrs,
    maxAge := maxAge, responseHeaders := resHdrs, status := status, pna := icfg.pna,
    pnaNoCors := icfg.pnaNoCors, tolInsecure := icfg.insecureOrigins, tolPSL := icfg.subsOfPublicSuffixes }

end Cors
