import CorsVerif.Model.Serve
import CorsVerif.Model.Net
/-
  Line-protocol codec shared by the driver: hex byte strings, lists, maps, configs, oracles.
  Not part of the model or of any theorem.
-/
namespace Cors.Codec

def hexDigit (n : Nat) : Char := if n < 10 then Char.ofNat (48 + n) else Char.ofNat (87 + n)

def encBytes (b : Bytes) : String :=
  if b.isEmpty then "-" else String.ofList (b.flatMap fun x => [hexDigit (x / 16 % 16), hexDigit (x % 16)])

def hexVal (c : Char) : Option Nat :=
  if '0' ≤ c ∧ c ≤ '9' then some (c.toNat - 48)
  else if 'a' ≤ c ∧ c ≤ 'f' then some (c.toNat - 87)
  else none

def decHexAux : List Char → Option Bytes
  | [] => some []
  | a :: b :: rest => do
    let x ← hexVal a
    let y ← hexVal b
    let r ← decHexAux rest
    pure ((16 * x + y) :: r)
  | _ => none

def decBytes (s : String) : Option Bytes :=
  if s == "-" then some [] else decHexAux s.toList

def encList (l : List Bytes) : String :=
  if l.isEmpty then "~" else ",".intercalate (l.map encBytes)

def decList (s : String) : Option (List Bytes) :=
  if s == "~" || s == "~~" then some [] else (s.splitOn ",").mapM decBytes

def encOptList : Option (List Bytes) → String
  | none => "!"
  | some l => encList l

/-- Map as association list, in the order given. -/
def decMap (s : String) : Option (List (Bytes × List Bytes)) :=
  if s == "~" then some [] else
  (s.splitOn ";").mapM fun kv =>
    match kv.splitOn "=" with
    | [k, v] => do
      let k ← decBytes k
      let v ← decList v
      pure (k, v)
    | _ => none

def encMap (m : List (Bytes × List Bytes)) : String :=
  if m.isEmpty then "~" else ";".intercalate (m.map fun (k, v) => encBytes k ++ "=" ++ encList v)

def mapOf (m : List (Bytes × List Bytes)) : HdrMap := fun k => (m.find? (·.1 == k)).map (·.2)

def decBool (s : String) : Option Bool :=
  if s == "1" then some true else if s == "0" then some false else none

def encBool (b : Bool) : String := if b then "1" else "0"

def decInt (s : String) : Option Int := s.toInt?

/-- Config: `origins|cred|methods|reqhdrs|maxage|reshdrs|status|pna|pnanocors|tolInsecure|tolPSL`. -/
def decConfig (s : String) : Option Config :=
  match s.splitOn "|" with
  | [o, c, m, rq, ma, rs, st, p, pn, ti, tp] => do
    let o ← decList o
    let c ← decBool c
    let m ← decList m
    let rq ← decList rq
    let ma ← decInt ma
    let rs ← decList rs
    let st ← decInt st
    let p ← decBool p
    let pn ← decBool pn
    let ti ← decBool ti
    let tp ← decBool tp
    pure { origins := o, credentialed := c, methods := m, requestHeaders := rq, maxAge := ma,
           responseHeaders := rs, status := st, pna := p, pnaNoCors := pn, tolInsecure := ti, tolPSL := tp }
  | _ => none

def encConfig (c : Config) : String :=
  "|".intercalate [encList c.origins, encBool c.credentialed, encList c.methods, encList c.requestHeaders,
    toString c.maxAge, encList c.responseHeaders, toString c.status, encBool c.pna, encBool c.pnaNoCors,
    encBool c.tolInsecure, encBool c.tolPSL]

/-- Oracle table entry: `host:idna:etld:ip6` where ip6 is `n` or `canon.zone.4in6.loopback`. -/
structure OEntry where
  host : Bytes
  idna : Bool
  etld : Bool
  ip6 : Option IP6Info

def decOracle (s : String) : Option (List OEntry) :=
  if s == "~" then some [] else
  (s.splitOn ";").mapM fun e =>
    match e.splitOn ":" with
    | [h, i, t, ip] => do
      let h ← decBytes h
      let i ← decBool i
      let t ← decBool t
      let ip ← if ip == "n" then some none else
        match ip.splitOn "." with
        | [c, z, f, l] => do
          let c ← decBytes c
          let z ← decBool z
          let f ← decBool f
          let l ← decBool l
          pure (some { canon := c, zone := z, is4in6 := f, loopback := l : IP6Info })
        | _ => none
      pure { host := h, idna := i, etld := t, ip6 := ip }
    | _ => none

/-- IDNA and the public-suffix list are answered by the real libraries (the table the harness sends);
IPv6 text is answered by the model of `net/netip` (`Net.ip6`), cross-checked against the table below. -/
def extOf (tbl : List OEntry) : Ext where
  idnaXn h := match tbl.find? (·.host == h) with | some e => e.idna | none => false
  isETLD h := match tbl.find? (fun e => Pat.trimDot e.host == h) with | some e => e.etld | none => false
  ip6 h := Net.ip6 h

/-- Hosts on which the model of `net/netip` and the library disagree (only hosts the pattern parser
would hand to the IPv6 branch of `ParseAddr`: the first of `.`, `:`, `%` is `:`). -/
def ip6Disagreements (tbl : List OEntry) : List Bytes :=
  tbl.filterMap fun e =>
    if Pat.firstIPMark e.host == some 58 && Net.ip6 e.host != e.ip6 then some e.host else none

/-- The key under which the model consults the oracle for an origin-pattern string, if any. -/
def oracleKey (s : Bytes) : Option Bytes :=
  match Lex.parseScheme s with
  | none => none
  | some (_, rest) =>
    match rest.cutPrefix Gen.Facts.origins_schemeHostSep with
    | none => none
    | some rest =>
      match Lex.fastParseHost (Pat.hostOnly rest (Pat.peekKind rest)) with
      | none => none
      | some (h, _) => some h.value

/-- Keys the model would consult that are missing from the table. -/
def oracleMisses (tbl : List OEntry) (origins : List Bytes) : List Bytes :=
  origins.filterMap fun s =>
    match oracleKey s with
    | some k => if tbl.any (·.host == k) then none else some k
    | none => none

def encKind : Kind → String
  | .domain => "0" | .nonLoopbackIP => "1" | .loopbackIP => "2" | .subdomains => "3"

def encOReason : OReason → String
  | .missing => "missing" | .invalid => "invalid" | .prohibited => "prohibited"

def encCfgErr : CfgErr → String
  | .originPattern v r => s!"O:{encBytes v}:{encOReason r}"
  | .method v r => s!"M:{encBytes v}:{match r with | .invalid => "invalid" | .forbidden => "forbidden"}"
  | .headerName v isRes r =>
    s!"H:{encBytes v}:{if isRes then "response" else "request"}:{match r with | .invalid => "invalid" | .prohibited => "prohibited" | .forbidden => "forbidden"}"
  | .maxAge v d m x => s!"A:{v}:{d}:{m}:{x}"
  | .status v d mn mx => s!"S:{v}:{d}:{mn}:{mx}"
  | .incompatOrigin v r => s!"I:{encBytes v}:{match r with | .credentialed => "credentialed" | .pna => "pna" | .psl => "psl"}"
  | .pnaModes => "P"
  | .wildcardRespHdr => "W"

mutual
partial def encErr : Err → String
  | .leaf e => "L(" ++ encCfgErr e ++ ")"
  | .join es => "J(" ++ " ".intercalate (es.map encErr) ++ ")"
end

end Cors.Codec
