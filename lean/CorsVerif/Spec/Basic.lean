import CorsVerif.Model.Serve
/-
  Vocabulary shared by the specifications of the handler-shaped properties.
-/
namespace Cors
open Gen Serve

/-- A CORS-preflight request: method OPTIONS with at least one `Origin` and one
`Access-Control-Request-Method` field line. -/
def Req.isPreflight (r : Req) : Bool :=
  r.method == OPTIONS && (r.hdrs.first Facts.headers_Origin).isSome && (r.hdrs.first Facts.headers_ACRM).isSome

/-- `x` is kept, in order, as a prefix of `y`, where an absent key counts as no values. -/
def keptAsPrefix (x y : Option (List Bytes)) : Prop := (x.getD []) <+: (y.getD [])

/-- Well-formedness of an internal configuration, as far as the request path relies on it:
an empty tree (allow-all) never comes with credentialed access, the success status is an ok status.
Proved to hold for every accepted configuration (`Proofs/Accepted.lean`). -/
structure ICfg.WF (icfg : ICfg) : Prop where
  star_not_cred : icfg.tree.isEmpty = true → icfg.credentialed = false
  status_lt : icfg.statusMinus200 < 100

end Cors
