import CorsVerif.Model.Headers
/-
  Specification of C14: which sequences of Access-Control-Request-Headers field lines are
  approved for a discrete set of allowed names.  Written from the property text; mentions
  neither windows, nor positions in a sorted set, nor fuel.
-/
namespace Cors
namespace Spec

open Headers

/-- Remove one leading OWS byte, if there is one. -/
def dropOneOWS : Bytes → Bytes
  | [] => []
  | b :: t => if isOWS b then t else b :: t

/-- One list element: remove at most one byte of optional whitespace from each side; the element
is tolerated iff no optional whitespace is then left at either end. Returns the name. -/
def elem (e : Bytes) : Option Bytes :=
  let t := dropOneOWS (dropOneOWS e.reverse).reverse
  if t.head?.any isOWS || t.getLast?.any isOWS then none else some t

/-- The names of a list of elements; `none` as soon as one element is not tolerated. -/
def names : List Bytes → Option (List Bytes)
  | [] => some []
  | e :: es =>
    match elem e, names es with
    | some n, some ns => some (n :: ns)
    | _, _ => none

/-- Strictly increasing in the byte-lexicographic order. -/
def strictlyIncreasing : List Bytes → Bool
  | [] => true
  | [_] => true
  | a :: b :: rest => Bytes.lt a b && strictlyIncreasing (b :: rest)

/-- The elements of the field lines, read in order as comma-separated lists
(an empty line is one empty element). -/
def elements (lines : List Bytes) : List Bytes := lines.flatMap (Bytes.splitOn comma)

/-- **The specification.** The field lines are approved iff every element is tolerated, at most
`maxEmpty` elements are empty, and the non-empty ones are allowed names in strictly increasing
lexicographic order. -/
def approved (maxEmpty : Nat) (allowed : List Bytes) (lines : List Bytes) : Bool :=
  match names (elements lines) with
  | none => false
  | some ns =>
    let nonEmpty := ns.filter (fun n => !n.isEmpty)
    decide ((ns.filter (fun n => n.isEmpty)).length ≤ maxEmpty)
    && nonEmpty.all (fun n => allowed.contains n)
    && strictlyIncreasing nonEmpty

end Spec
end Cors
