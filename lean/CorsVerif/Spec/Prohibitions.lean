import CorsVerif.Spec.Fetch
import CorsVerif.Model.Config
/-
  The documented prohibitions of `cors.Config`, field by field, as a list of violations.
  Per-element classification and membership only: no accumulator, no early exit, no order
  dependence between elements.  A violation is described by the documented error type with the
  offending value exactly as supplied and the documented Reason / Type / bounds.
-/
namespace Cors
namespace Spec

/-- RFC 9110 token (Fetch: header name, method). -/
def isToken (name : Bytes) : Bool := Headers.isValid name

/-- `PreflightSuccessStatus`: 0 (default) or an ok status (200-299). -/
def statusViolations (s : Int) : List CfgErr :=
  if s == 0 || (200 ≤ s && s ≤ 299) then [] else [.status s 204 200 299]

/-- `MaxAgeInSeconds`: within [-1, 86400]. -/
def maxAgeViolations (d : Int) : List CfgErr :=
  if -1 ≤ d && d ≤ 86400 then [] else [.maxAge d 5 86400 (-1)]

/-- At most one PNA mode. -/
def pnaViolations (cfg : Config) : List CfgErr := if cfg.pna && cfg.pnaNoCors then [.pnaModes] else []

/-- One entry of `Methods`. -/
def methodViolations (name : Bytes) : List CfgErr :=
  if name == star then []
  else if !isToken name then [.method name .invalid]
  else if forbiddenMethods.contains name.upper then [.method name .forbidden]
  else []

/-- One entry of `RequestHeaders`. -/
def requestHeaderViolations (name : Bytes) : List CfgErr :=
  if name == star then []
  else if !isToken name then [.headerName name false .invalid]
  else if forbiddenRequestHeaderNames.contains name.lower
      || forbiddenRequestHeaderPrefixes.any (fun p => name.lower.hasPrefix p) then [.headerName name false .forbidden]
  else if prohibitedRequestHeaderNames.contains name.lower then [.headerName name false .prohibited]
  else []

/-- One entry of `ResponseHeaders`. -/
def responseHeaderViolations (credentialed : Bool) (name : Bytes) : List CfgErr :=
  if name == star then (if credentialed then [.wildcardRespHdr] else [])
  else if !isToken name then [.headerName name true .invalid]
  else if forbiddenResponseHeaderNames.contains name.lower then [.headerName name true .forbidden]
  else if prohibitedResponseHeaderNames.contains name.lower then [.headerName name true .prohibited]
  else []

/-- One entry of `Origins`. The syntactic verdict on the pattern is C13's business
(`Pat.parsePattern`); here: how each outcome combines with the switches. -/
def originViolations (ext : Ext) (cfg : Config) (raw : Bytes) : List CfgErr :=
  let pnaAny := cfg.pna || cfg.pnaNoCors
  if raw == star then
    (if cfg.credentialed then [.incompatOrigin star .credentialed] else [])
    ++ (if pnaAny then [.incompatOrigin star .pna] else [])
  else match Pat.parsePattern ext raw with
    | .error r => [.originPattern raw r]
    | .ok p =>
      (if Pat.isDeemedInsecure p && !cfg.tolInsecure then
        (if cfg.credentialed then [.incompatOrigin raw .credentialed] else [])
        ++ (if pnaAny then [.incompatOrigin raw .pna] else [])
       else [])
      ++ (if p.kind == .subdomains && !cfg.tolPSL && Pat.hostIsEffectiveTLD ext p then [.incompatOrigin raw .psl] else [])

/-- `Origins`: at least one, and every entry acceptable. -/
def originsViolations (ext : Ext) (cfg : Config) : List CfgErr :=
  if cfg.origins.isEmpty then [.originPattern [] .missing] else cfg.origins.flatMap (originViolations ext cfg)

/-- **All violations of a Config**, in field order. -/
def prohibitions (ext : Ext) (cfg : Config) : List CfgErr :=
  statusViolations cfg.status ++ pnaViolations cfg ++ originsViolations ext cfg
  ++ cfg.methods.flatMap methodViolations ++ cfg.requestHeaders.flatMap requestHeaderViolations
  ++ maxAgeViolations cfg.maxAge ++ cfg.responseHeaders.flatMap (responseHeaderViolations cfg.credentialed)

end Spec
end Cors
