import CorsVerif.Spec.Fetch
/-
  The documented grammar of origin patterns (README / doc.go of jub0bs/cors, property C13), for
  the domain-host case, written generatively: a pattern is *given by its parts* and rendered to a
  string.  Nothing here mentions the parser.

  Deliberately outside (grey zones the property does not judge, or cases left to the library
  oracles): `_` in schemes and labels, hyphens in label positions 3-4 (hence Punycode `xn--`
  labels, whose validity is the IDNA library's verdict), a last label starting with a digit (an
  IPv4 candidate), IP-literal hosts.
-/
namespace Cors
namespace Spec

def isLower (b : Nat) : Bool := 97 ≤ b && b ≤ 122
def isDigit (b : Nat) : Bool := 48 ≤ b && b ≤ 57
/-- letter, digit or hyphen -/
def isLDH (b : Nat) : Bool := isLower b || isDigit b || b == 45
/-- RFC 3986 scheme bytes after the first, lower case: letter, digit, `+`, `-`, `.` -/
def isSchemeByte (b : Nat) : Bool := isLower b || isDigit b || b == 43 || b == 45 || b == 46

/-- A documented scheme: lower-case letter first, at most 64 bytes, not `file`. -/
def docScheme (s : Bytes) : Bool :=
  match s with
  | [] => false
  | c :: t => isLower c && t.all isSchemeByte && s.length ≤ 64 && s != b "file"

/-- A documented label: 1-63 letter-digit-hyphen bytes, no hyphen at either end, no hyphens in
positions 3-4. -/
def docLabel (l : Bytes) : Bool :=
  !l.isEmpty && l.length ≤ 63 && l.all isLDH && l.head? != some 45 && l.getLast? != some 45
  && (l.drop 2).take 2 != [45, 45]

/-- A documented domain, by its labels: at least one label, the last one starting with a letter,
at most 253 bytes when joined by dots. -/
def docDomain (ls : List Bytes) : Bool :=
  !ls.isEmpty && ls.all docLabel
  && (match ls.getLast? with | some l => l.head?.any isLower | none => false)
  && (Bytes.join 46 ls).length ≤ 253

inductive DocPort
  | absent
  /-- an explicit port by its decimal digits -/
  | num (digits : Bytes)
  /-- `:*` -/
  | any

def portValue (ds : Bytes) : Nat := ds.foldl (fun acc c => 10 * acc + (c - 48)) 0

/-- 1-65535 without leading zeros. -/
def docPortOK : DocPort → Bool
  | .num ds => (match ds with
      | [] => false
      | d :: t => (49 ≤ d && d ≤ 57) && t.all isDigit) && ds.length ≤ 5 && portValue ds ≤ 65535
  | _ => true

structure DocPattern where
  scheme : Bytes
  /-- a leading `*.` -/
  wildcard : Bool
  labels : List Bytes
  /-- absolute form: a trailing full stop -/
  trailingDot : Bool
  port : DocPort

namespace DocPattern

def host (d : DocPattern) : Bytes := Bytes.join 46 d.labels ++ (if d.trailingDot then [46] else [])

def hostPattern (d : DocPattern) : Bytes := (if d.wildcard then b "*." else []) ++ d.host

def portString (d : DocPattern) : Bytes :=
  match d.port with
  | .absent => []
  | .num ds => 58 :: ds
  | .any => [58, 42]

/-- The pattern as the user writes it. -/
def render (d : DocPattern) : Bytes := d.scheme ++ b "://" ++ d.hostPattern ++ d.portString

def isDefaultPort (d : DocPattern) : Bool :=
  match d.port with
  | .num ds => (d.scheme == b "http" && portValue ds == 80) || (d.scheme == b "https" && portValue ds == 443)
  | _ => false

/-- The documented form. -/
def ok (d : DocPattern) : Bool :=
  docScheme d.scheme && docDomain d.labels && docPortOK d.port
  && (!d.wildcard || d.host.length ≤ 251) && !d.isDefaultPort

end DocPattern
end Spec
end Cors

namespace Cors
namespace Spec

/-- One field of a dotted-quad IPv4 address: 1-3 digits, no leading zero, at most 255. -/
def docOctet (f : Bytes) : Bool :=
  !f.isEmpty && f.all isDigit && !(f.length > 1 && f.head? == some 48) && f.length ≤ 3 && portValue f ≤ 255

/-- A documented pattern whose host is a dotted-quad IPv4 address (never with `https`, never with
a `*.` prefix). -/
structure DocV4 where
  scheme : Bytes
  a : Bytes
  b : Bytes
  c : Bytes
  d : Bytes
  port : DocPort

namespace DocV4

def host (v : DocV4) : Bytes := Bytes.join 46 [v.a, v.b, v.c, v.d]

def portString (v : DocV4) : Bytes :=
  match v.port with
  | .absent => []
  | .num ds => 58 :: ds
  | .any => [58, 42]

def render (v : DocV4) : Bytes := v.scheme ++ Spec.b "://" ++ v.host ++ v.portString

def isDefaultPort (v : DocV4) : Bool :=
  match v.port with
  | .num ds => v.scheme == Spec.b "http" && portValue ds == 80
  | _ => false

def ok (v : DocV4) : Bool :=
  docScheme v.scheme && v.scheme != Spec.b "https" && docOctet v.a && docOctet v.b && docOctet v.c && docOctet v.d
  && docPortOK v.port && !v.isDefaultPort

end DocV4
end Spec
end Cors

namespace Cors
namespace Spec

/-- A documented pattern whose host is a bracketed IPv6 literal.  Whether `lit` is an RFC 5952
canonical, zone-free, non-IPv4-mapped address is the verdict of `net/netip` (an oracle of the
model); the grammar only fixes the bytes around it. -/
structure DocV6 where
  scheme : Bytes
  lit : Bytes
  port : DocPort

namespace DocV6

def portString (v : DocV6) : Bytes :=
  match v.port with
  | .absent => []
  | .num ds => 58 :: ds
  | .any => [58, 42]

def render (v : DocV6) : Bytes := v.scheme ++ Spec.b "://[" ++ v.lit ++ Spec.b "]" ++ v.portString

def isDefaultPort (v : DocV6) : Bool :=
  match v.port with
  | .num ds => v.scheme == Spec.b "http" && portValue ds == 80
  | _ => false

/-- The lexical side conditions: documented scheme other than `https`, at least two bytes between
the brackets, none of them `]`, `.` or `%` before the first colon, documented port. -/
def ok (v : DocV6) : Bool :=
  docScheme v.scheme && v.scheme != Spec.b "https" && decide (2 ≤ v.lit.length) && !v.lit.contains 93
  && docPortOK v.port && !v.isDefaultPort

end DocV6
end Spec
end Cors
