import CorsVerif.Model.Origins
/-
  What an origin pattern denotes (C01's vocabulary), written from the documentation:
  same scheme; host byte-equal to the pattern's host or, for a `*.` pattern, ending in
  `.`+base with at least one more byte in front; port equal (absent matches only absent)
  or arbitrary for a `:*` pattern.
-/
namespace Cors
namespace Spec
open Gen

/-- The base domain of a `*.base` pattern value. -/
def baseOf (p : Pattern) : Bytes := p.value.drop 2

/-- `p` denotes `o`. Port 0 encodes "absent" on both sides. -/
def denotes (p : Pattern) (o : Origin) : Bool :=
  p.scheme == o.scheme
  && (if p.kind == .subdomains then
        decide (o.host.value.length > (baseOf p).length + 1) && (46 :: baseOf p).isSuffixOf o.host.value
      else o.host.value == p.value)
  && (p.port == Facts.origins_wildcardPort || p.port == o.port)

end Spec
end Cors
