import CorsVerif.Spec.Basic
import CorsVerif.Spec.Fetch
import CorsVerif.Spec.ACRH
/-
  A Fetch-compliant browser, as far as CORS is concerned (trusted reading of the Fetch standard
  and of the Private Network Access draft):

    * which requests need a CORS-preflight, and what the preflight request looks like;
    * CORS-preflight fetch, step 7: the CORS check, the ok status, "extract header list values"
      of Access-Control-Allow-Methods / -Headers, the method test (`*` does not count with
      credentials), the `authorization` rule (never covered by `*`), the unsafe-header-names
      test, Access-Control-Allow-Private-Network;
    * the CORS check on the response to the actual request.

  And what a configuration is documented to permit (`permits`).
-/
namespace Cors
namespace Browser
open Gen Spec

/-- What a page asks the browser to do (cors mode). -/
structure Intent where
  /-- the serialized origin of the page, as the browser emits it -/
  origin : Bytes
  /-- the method as the page wrote it -/
  method : Bytes
  /-- the CORS-unsafe request-header names as the page wrote them -/
  headerNames : List Bytes
  /-- credentials mode is "include" -/
  creds : Bool
  /-- the target is in a more private network (a PNA preflight is required) -/
  pna : Bool

/-- Insert into a sorted list unless already present. -/
def insertUnique (x : Bytes) (l : List Bytes) : List Bytes :=
  if l.contains x then l else insertSorted Bytes.lt x l

/-- Byte-lowercased, sorted, de-duplicated unsafe header names
(https://fetch.spec.whatwg.org/#cors-unsafe-request-header-names).  `unsafeNames_spec`
(Proofs/BrowserLists.lean) shows that this is *the* strictly increasing list whose members are
the byte-lowercased names, whatever the sorting algorithm. -/
def unsafeNames (i : Intent) : List Bytes :=
  (i.headerNames.map Bytes.lower).foldr insertUnique []

def methodN (i : Intent) : Bytes := normalizeMethod i.method

/-- https://fetch.spec.whatwg.org/#cors-safelisted-method -/
def safelisted (m : Bytes) : Bool := safelistedMethods.contains m

/-- Does the browser send a CORS-preflight first? -/
def needsPreflight (i : Intent) : Bool := !safelisted (methodN i) || !(unsafeNames i).isEmpty || i.pna

/-- The header lookups of the CORS-preflight request, given the ACRH field lines as they reach
the server (the browser sends one line; intermediaries may re-shape it, see `Tolerated`). -/
def preflightRequest (i : Intent) (acrhLines : List Bytes) : Req where
  method := Serve.OPTIONS
  hdrs := fun k =>
    if k == Facts.headers_Origin then some [i.origin]
    else if k == Facts.headers_ACRM then some [methodN i]
    else if k == Facts.headers_ACRH then (if (unsafeNames i).isEmpty then none else some acrhLines)
    else if k == Facts.headers_ACRPN then (if i.pna then some [Facts.headers_ValueTrue] else none)
    else none

/-- The header lookups of the actual request that matter to the middleware. -/
def actualRequest (i : Intent) : Req where
  method := methodN i
  hdrs := fun k => if k == Facts.headers_Origin then some [i.origin] else none

/-- "get" a header from a response's header list: the values combined with `, `. -/
def getHeader (h : HdrMap) (name : Bytes) : Option Bytes :=
  match h name with
  | none => none
  | some [] => none
  | some (v :: vs) => some (vs.foldl (fun acc x => acc ++ [44, 32] ++ x) v)

/-- https://fetch.spec.whatwg.org/#concept-cors-check -/
def corsCheck (i : Intent) (h : HdrMap) : Bool :=
  match getHeader h Facts.headers_ACAO with
  | none => false
  | some acao =>
    if !i.creds && acao == star then true
    else if acao != i.origin then false
    else if !i.creds then true
    else getHeader h Facts.headers_ACAC == some Facts.headers_ValueTrue

/-- Strip OWS (SP / HTAB) from both ends. -/
def stripOWS (e : Bytes) : Bytes :=
  ((e.dropWhile Headers.isOWS).reverse.dropWhile Headers.isOWS).reverse

/-- "extract header list values" for a `#token` header: every field line is split at commas,
elements are trimmed, empty elements are ignored (RFC 9110 §5.6.1.2), every other element must be
a token; `none` = failure. -/
def extractList (h : HdrMap) (name : Bytes) : Option (List Bytes) :=
  match h name with
  | none => some []
  | some lines =>
    let elems := (lines.flatMap (Bytes.splitOn 44)).map stripOWS |>.filter (fun e => !e.isEmpty)
    if elems.all Headers.isValid then some elems else none

def okStatus (status : Option Nat) : Bool := match status with
  | some s => 200 ≤ s && s ≤ 299
  | none => false

/-- CORS-preflight fetch, step 7 (https://fetch.spec.whatwg.org/#cors-preflight-fetch-0) plus the
PNA requirement (https://wicg.github.io/private-network-access/#cors-preflight). -/
def preflightPasses (i : Intent) (resp : Resp) : Bool :=
  corsCheck i resp.hdrs && okStatus resp.status &&
  (match extractList resp.hdrs Facts.headers_ACAM, extractList resp.hdrs Facts.headers_ACAH with
   | some methods, some headerNames =>
     let lowered := headerNames.map Bytes.lower
     -- method
     (methods.contains (methodN i) || safelisted (methodN i) || (!i.creds && methods.contains star))
     -- `authorization` is a CORS non-wildcard request-header name
     && (!(unsafeNames i).contains authorization || lowered.contains authorization)
     -- every unsafe name listed, or `*` without credentials
     && (unsafeNames i).all (fun n => lowered.contains n || (!i.creds && headerNames.contains star))
   | _, _ => false)
  && (!i.pna || getHeader resp.hdrs Facts.headers_ACAPN == some Facts.headers_ValueTrue)

/-- The browser's end-to-end verdict, given how the server answers requests. -/
def verdict (server : Req → Resp) (i : Intent) (acrhLines : List Bytes) : Bool :=
  (!needsPreflight i || preflightPasses i (server (preflightRequest i acrhLines)))
  && corsCheck i (server (actualRequest i)).hdrs

/-- **What the configuration permits** (documentation of `cors.Config`), over an internal
configuration and the origin decision: origin allowed; credentials only if credentialed access is
enabled; method safelisted, listed or `*`; every header name listed or covered by `*`, which covers
Authorization only when credentialed or explicitly listed; private-network access only if enabled;
never in no-cors-only PNA mode. -/
def permits (dec : Dec) (icfg : ICfg) (i : Intent) : Bool :=
  ((icfg.tree.isEmpty && !icfg.credentialed) || dec.allowed i.origin)
  && (!i.creds || icfg.credentialed)
  && !icfg.pnaNoCors
  && (safelisted (methodN i) || icfg.allowAnyMethod || icfg.allowedMethods.contains (methodN i))
  && (unsafeNames i).all (fun n =>
        icfg.allowedReqHdrs.contains n
        || (icfg.asteriskReqHdrs && (n != authorization || icfg.credentialed || icfg.allowAuthorization)))
  && (!i.pna || icfg.pna)

end Browser
end Cors
