import CorsVerif.Model.Headers
/-
  Name tables of the Fetch standard (and of the PNA draft / of this library's documentation),
  written by hand as readable strings.  `Proofs/Tables.lean` proves that the regenerated Go
  tables have exactly these members, so an edit of a table in Go breaks a proof and names the entry.
-/
namespace Cors
namespace Spec

/-- A byte string from a string literal (reduces in the kernel). -/
def b (s : String) : Bytes := s.toList.map Char.toNat

/-- https://fetch.spec.whatwg.org/#forbidden-request-header (discrete names; plus the `proxy-` and
`sec-` prefixes) and https://wicg.github.io/private-network-access/#forbidden-header-names -/
def forbiddenRequestHeaderNames : List Bytes :=
  [b "accept-charset", b "accept-encoding", b "access-control-request-headers", b "access-control-request-method",
   b "access-control-request-private-network", b "connection", b "content-length", b "cookie", b "cookie2", b "date",
   b "dnt", b "expect", b "host", b "keep-alive", b "origin", b "referer", b "set-cookie", b "te", b "trailer",
   b "transfer-encoding", b "upgrade", b "via"]

def forbiddenRequestHeaderPrefixes : List Bytes := [b "proxy-", b "sec-"]

/-- Response-header names of the CORS protocol: listing them as *request* headers is prohibited. -/
def prohibitedRequestHeaderNames : List Bytes :=
  [b "access-control-allow-origin", b "access-control-allow-credentials", b "access-control-allow-methods",
   b "access-control-allow-headers", b "access-control-allow-private-network", b "access-control-max-age",
   b "access-control-expose-headers"]

/-- https://fetch.spec.whatwg.org/#forbidden-response-header-name -/
def forbiddenResponseHeaderNames : List Bytes := [b "set-cookie", b "set-cookie2"]

/-- Request-header names of the CORS protocol and response headers that are never exposed via
`Access-Control-Expose-Headers`: listing them as *response* headers is prohibited. -/
def prohibitedResponseHeaderNames : List Bytes :=
  [b "origin", b "access-control-request-method", b "access-control-request-headers",
   b "access-control-request-private-network", b "access-control-allow-methods", b "access-control-allow-headers",
   b "access-control-max-age", b "access-control-allow-private-network"]

/-- https://fetch.spec.whatwg.org/#cors-safelisted-response-header-name -/
def safelistedResponseHeaderNames : List Bytes :=
  [b "cache-control", b "content-language", b "content-length", b "content-type", b "expires", b "last-modified", b "pragma"]

/-- https://fetch.spec.whatwg.org/#forbidden-method (byte-case-insensitive) -/
def forbiddenMethods : List Bytes := [b "CONNECT", b "TRACE", b "TRACK"]

/-- https://fetch.spec.whatwg.org/#cors-safelisted-method -/
def safelistedMethods : List Bytes := [b "GET", b "HEAD", b "POST"]

/-- https://fetch.spec.whatwg.org/#concept-method-normalize -/
def normalizedMethods : List Bytes := [b "DELETE", b "GET", b "HEAD", b "OPTIONS", b "POST", b "PUT"]

/-- Fetch method normalisation. -/
def normalizeMethod (m : Bytes) : Bytes := if normalizedMethods.contains m.upper then m.upper else m

def authorization : Bytes := b "authorization"
def star : Bytes := b "*"

end Spec
end Cors
