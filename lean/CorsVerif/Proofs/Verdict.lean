import CorsVerif.Proofs.Pipeline
import CorsVerif.Proofs.Sound
import CorsVerif.Proofs.Tables
/-
  The browser's side of C02: evaluating CORS-preflight fetch and the CORS check on the
  responses of the model.
-/
namespace Cors
open Gen Headers Serve Pipeline
namespace Browser

/-! ### the preflight test, conjunct by conjunct -/

def methodOK (i : Intent) (h : HdrMap) : Bool :=
  match extractList h Facts.headers_ACAM with
  | some methods => methods.contains (methodN i) || safelisted (methodN i) || (!i.creds && methods.contains Spec.star)
  | none => false

def headersOK (i : Intent) (h : HdrMap) : Bool :=
  match extractList h Facts.headers_ACAH with
  | some headerNames =>
    (!(unsafeNames i).contains Spec.authorization || (headerNames.map Bytes.lower).contains Spec.authorization)
    && (unsafeNames i).all (fun n => (headerNames.map Bytes.lower).contains n || (!i.creds && headerNames.contains Spec.star))
  | none => false

def pnaOK (i : Intent) (h : HdrMap) : Bool :=
  !i.pna || getHeader h Facts.headers_ACAPN == some Facts.headers_ValueTrue

theorem preflightPasses_split (i : Intent) (r : Resp) :
    preflightPasses i r =
      (corsCheck i r.hdrs && okStatus r.status && methodOK i r.hdrs && headersOK i r.hdrs && pnaOK i r.hdrs) := by
  unfold preflightPasses methodOK headersOK pnaOK
  cases extractList r.hdrs Facts.headers_ACAM <;> cases extractList r.hdrs Facts.headers_ACAH <;>
    simp [Bool.and_assoc]

/-! ### what the requests look like to the middleware -/

theorem ne_acrm_origin : Facts.headers_ACRM ≠ Facts.headers_Origin := by decide
theorem ne_acrh_origin : Facts.headers_ACRH ≠ Facts.headers_Origin := by decide
theorem ne_acrh_acrm : Facts.headers_ACRH ≠ Facts.headers_ACRM := by decide
theorem ne_acrpn_origin : Facts.headers_ACRPN ≠ Facts.headers_Origin := by decide
theorem ne_acrpn_acrm : Facts.headers_ACRPN ≠ Facts.headers_ACRM := by decide
theorem ne_acrpn_acrh : Facts.headers_ACRPN ≠ Facts.headers_ACRH := by decide

theorem pre_origin (i : Intent) (lines : List Bytes) :
    (preflightRequest i lines).hdrs.first Facts.headers_Origin = some i.origin := by
  simp [preflightRequest, HdrMap.first]

theorem pre_acrm (i : Intent) (lines : List Bytes) :
    (preflightRequest i lines).hdrs.first Facts.headers_ACRM = some (methodN i) := by
  simp [preflightRequest, HdrMap.first, ne_acrm_origin]

theorem pre_acrh (i : Intent) (lines : List Bytes) :
    (preflightRequest i lines).hdrs Facts.headers_ACRH = if (unsafeNames i).isEmpty then none else some lines := by
  simp [preflightRequest, ne_acrh_origin, ne_acrh_acrm]

theorem pre_acrpn (i : Intent) (lines : List Bytes) :
    (preflightRequest i lines).hdrs.first Facts.headers_ACRPN = if i.pna then some Facts.headers_ValueTrue else none := by
  cases h : i.pna <;> simp [preflightRequest, HdrMap.first, ne_acrpn_origin, ne_acrpn_acrm, ne_acrpn_acrh, h]

theorem act_origin (i : Intent) : (actualRequest i).hdrs.first Facts.headers_Origin = some i.origin := by
  simp [actualRequest, HdrMap.first]

theorem act_acrm (i : Intent) : (actualRequest i).hdrs.first Facts.headers_ACRM = none := by
  simp [actualRequest, HdrMap.first, ne_acrm_origin]

/-! ### statuses -/

theorem forbidden_not_ok : okStatus (some Serve.forbidden) = false := by decide

theorem okStatus_ok (icfg : ICfg) (hwf : icfg.WF) : okStatus (some (Serve.okStatus icfg)) = true := by
  have := hwf.status_lt
  unfold okStatus Serve.okStatus
  simp only [Bool.and_eq_true, decide_eq_true_eq]
  omega

/-! ### the response to a preflight, through the five headers a browser reads -/

theorem copy_vary_lookup (buf : Buf) (k : Bytes) (hk : k ≠ Facts.headers_Vary) :
    ((preflightVary HdrMap.empty).copy buf) k = buf k := by
  unfold HdrMap.copy
  cases buf k with
  | some v => rfl
  | none => simp [preflightVary, HdrMap.empty, HdrMap.assign, hk]

theorem preflight_resp (dec : Dec) (icfg : ICfg) (reqHdrs : HdrMap) (o m : Bytes) (dbg : Bool) :
    match preflightSteps dec icfg reqHdrs o m dbg with
    | .ok buf =>
      (handleCORSPreflight dec icfg HdrMap.empty reqHdrs o m dbg).status = some (Serve.okStatus icfg) ∧
      ∀ k, k ≠ Facts.headers_Vary → k ≠ Facts.headers_ACMA →
        (handleCORSPreflight dec icfg HdrMap.empty reqHdrs o m dbg).hdrs k = buf k
    | .laterFail buf =>
      if dbg then
        (handleCORSPreflight dec icfg HdrMap.empty reqHdrs o m dbg).status = some (Serve.okStatus icfg) ∧
        ∀ k, k ≠ Facts.headers_Vary → k ≠ Facts.headers_ACMA →
          (handleCORSPreflight dec icfg HdrMap.empty reqHdrs o m dbg).hdrs k = buf k
      else (handleCORSPreflight dec icfg HdrMap.empty reqHdrs o m dbg).status = some Serve.forbidden
    | .originFail _ => (handleCORSPreflight dec icfg HdrMap.empty reqHdrs o m dbg).status = some Serve.forbidden := by
  unfold handleCORSPreflight
  cases preflightSteps dec icfg reqHdrs o m dbg with
  | originFail b => rfl
  | laterFail b =>
    cases dbg with
    | false => rfl
    | true =>
      simp only [if_true]
      exact ⟨trivial, fun k hk _ => copy_vary_lookup b k hk⟩
  | ok b =>
    simp only []
    refine ⟨trivial, fun k hk1 hk2 => ?_⟩
    split
    · rw [assign_other _ _ _ _ hk2]; exact copy_vary_lookup b k hk1
    · exact copy_vary_lookup b k hk1

end Browser
end Cors

namespace Cors
open Gen Headers Serve Pipeline
namespace Browser

theorem safelisted_eq (m : Bytes) : safelisted m = Methods.isSafelisted m := by
  unfold safelisted Methods.isSafelisted
  rw [SortedSet.ofList_contains, sameMembers_iff tbl_safelistedMethods]

theorem star_eq : Spec.star = [42] := by decide
theorem auth_eq : Spec.authorization = Facts.headers_Authorization := by decide

theorem getHeader_single (h : HdrMap) (name v : Bytes) (hh : h name = some [v]) : getHeader h name = some v := by
  unfold getHeader; rw [hh]; rfl

theorem getHeader_none (h : HdrMap) (name : Bytes) (hh : h name = none) : getHeader h name = none := by
  unfold getHeader; rw [hh]

/-- The CORS check on a response whose origin step succeeded. -/
theorem corsCheck_pre (icfg : ICfg) (i : Intent) (h : HdrMap)
    (hao : h Facts.headers_ACAO = expACAO icfg i.origin) (hac : h Facts.headers_ACAC = expACAC icfg)
    (hne : i.origin ≠ Spec.star) : corsCheck i h = (!i.creds || icfg.credentialed) := by
  have hne' : (i.origin == [42]) = false := by
    rw [← star_eq]; simpa using hne
  have hne'' : (([42] : Bytes) == i.origin) = false := by rw [BEq.comm]; exact hne'
  unfold corsCheck
  unfold expACAO at hao
  unfold expACAC at hac
  cases hc : icfg.credentialed <;> cases he : icfg.tree.isEmpty <;> cases hi : i.creds <;>
    simp only [hc, he, Bool.not_true, Bool.not_false, Bool.and_self, Bool.and_false, Bool.false_and, Bool.true_and,
      Bool.false_eq_true, if_false, if_true] at hao hac <;>
    simp [getHeader, hao, hac, star_eq, hne', hne'', Facts.headers_WildcardSgl, Facts.headers_TrueSgl, Facts.headers_ValueTrue]

/-- The method test on a response whose method step succeeded. -/
theorem methodOK_pre (icfg : ICfg) (i : Intent) (h : HdrMap)
    (hv : h Facts.headers_ACAM = expACAM icfg (methodN i)) (hM : isValid (methodN i) = true)
    (hcred : (!i.creds || icfg.credentialed) = true) : methodOK i h = true := by
  unfold methodOK
  unfold expACAM at hv
  by_cases hs : Methods.isSafelisted (methodN i) = true
  · rw [if_pos hs] at hv
    rw [extract_none h _ hv, safelisted_eq, hs]
    simp
  · rw [if_neg hs] at hv
    by_cases ha : (icfg.allowAnyMethod && !icfg.credentialed) = true
    · rw [if_pos ha] at hv
      rw [extract_token h _ [42] hv (by decide)]
      have hc : icfg.credentialed = false := by
        simp only [Bool.and_eq_true, Bool.not_eq_true'] at ha; exact ha.2
      rw [hc, Bool.or_false] at hcred
      simp [hcred, star_eq]
    · rw [if_neg ha] at hv
      rw [extract_token h _ _ hv hM]
      simp

end Browser
end Cors

namespace Cors
open Gen Headers Serve Pipeline
namespace Browser

/-- The header-name clause of `permits`. -/
def hdrPermit (icfg : ICfg) (i : Intent) : Bool :=
  (unsafeNames i).all (fun n =>
    icfg.allowedReqHdrs.contains n
    || (icfg.asteriskReqHdrs && (n != Spec.authorization || icfg.credentialed || icfg.allowAuthorization)))

theorem unsafe_lower (i : Intent) : ∀ n ∈ unsafeNames i, n.lower = n := by
  intro n hn
  have := ((unsafeNames_spec i).2 n).mp hn
  simp only [List.mem_map] at this
  obtain ⟨m, _, rfl⟩ := this
  exact lower_idem m

theorem unsafe_valid (i : Intent) (hN : ∀ n ∈ i.headerNames, isValid n = true) : ∀ n ∈ unsafeNames i, isValid n = true := by
  intro n hn
  have := ((unsafeNames_spec i).2 n).mp hn
  simp only [List.mem_map] at this
  obtain ⟨m, hm, rfl⟩ := this
  exact valid_lower (hN m hm)

theorem map_lower_id (l : List Bytes) (h : ∀ n ∈ l, n.lower = n) : l.map Bytes.lower = l := by
  induction l with
  | nil => rfl
  | cons a t ih => simp only [List.map_cons, h a List.mem_cons_self, ih (fun n hn => h n (List.mem_cons_of_mem _ hn))]

theorem all_ne_or (l : List Bytes) (a : Bytes) (c : Bool) : l.all (fun n => n != a || c) = (!l.contains a || c) := by
  induction l with
  | nil => simp
  | cons x t ih =>
    rw [List.all_cons, ih, List.contains_cons, BEq.comm (a := a)]
    simp only [bne]
    cases (x == a) <;> cases t.contains a <;> cases c <;> rfl

theorem all_self_contains (l : List Bytes) : l.all (fun n => l.contains n) = true := by
  simp only [List.all_eq_true, List.contains_iff_mem]
  exact fun _ h => h

theorem all_false_of_ne_nil (l : List Bytes) (h : l ≠ []) : l.all (fun _ => false) = false := by
  cases l with
  | nil => exact absurd rfl h
  | cons _ _ => rfl

theorem extract_wildcardAuth (h : HdrMap) (hv : h Facts.headers_ACAH = some Facts.headers_WildcardAuthSgl) :
    extractList h Facts.headers_ACAH = some [[42], Facts.headers_Authorization] := by
  have := extract_of_names h _ _ [[42], Facts.headers_Authorization] hv (by decide) (by decide)
  rw [this]; rfl

/-- The elements of the set, as `SortedSet.contains` sees them. -/
theorem set_contains (icfg : ICfg) (hrs : icfg.ReqHdrsSound) (n : Bytes) :
    icfg.allowedReqHdrs.contains n = icfg.allowedReqHdrs.elems.contains n :=
  SortedSet.contains_iff _ hrs.exact.wf n

theorem elems_nil_of_acah_empty (icfg : ICfg) (hrs : icfg.ReqHdrsSound) (ha : icfg.asteriskReqHdrs = false)
    (he : icfg.acah.isEmpty = true) : icfg.allowedReqHdrs.elems = [] := by
  have := hrs.acah ha
  by_cases h0 : icfg.allowedReqHdrs.elems = []
  · exact h0
  · rw [if_neg h0] at this
    rw [this] at he
    cases he

/-- The header-name test on a response whose header step succeeded. -/
theorem headersOK_pre (icfg : ICfg) (hrs : icfg.ReqHdrsSound) (i : Intent) (lines : List Bytes) (dbg : Bool) (h : HdrMap)
    (hv : h Facts.headers_ACAH = expACAH icfg dbg (preflightRequest i lines).hdrs)
    (hcond : headerCondD (modelDec icfg) icfg (preflightRequest i lines).hdrs dbg = true)
    (hN : ∀ n ∈ i.headerNames, isValid n = true)
    (hL : unsafeNames i ≠ [] → Tolerated (unsafeNames i) lines)
    (hcred : (!i.creds || icfg.credentialed) = true) : headersOK i h = hdrPermit icfg i := by
  unfold headersOK hdrPermit
  unfold expACAH at hv
  unfold headerCondD at hcond
  rw [pre_acrh] at hv hcond
  cases hu : unsafeNames i with
  | nil =>
    simp only [hu, List.isEmpty_nil, if_true] at hv
    rw [extract_none h _ hv]
    simp
  | cons u0 us =>
    have hne : unsafeNames i ≠ [] := by rw [hu]; simp
    have htol := hL hne
    have hval := unsafe_valid i hN
    have hlow := map_lower_id _ (unsafe_lower i)
    have hsorted := (unsafeNames_spec i).1
    simp only [hu, List.isEmpty_cons, Bool.false_eq_true, if_false] at hv hcond
    rw [← hu]
    cases hast : icfg.asteriskReqHdrs with
    | true =>
      have hel := hrs.asterisk_empty hast
      have hcont : ∀ n, icfg.allowedReqHdrs.contains n = false := by
        intro n; rw [set_contains icfg hrs, hel]; rfl
      cases hc : icfg.credentialed with
      | false =>
        have hic : i.creds = false := by rw [hc] at hcred; simpa using hcred
        simp only [hast, hc, Bool.not_false, Bool.and_self, if_true] at hv
        simp only [hcont, Bool.false_or, Bool.true_and, Bool.false_or, hic, Bool.not_false, Bool.or_false]
        rw [all_ne_or]
        cases hau : icfg.allowAuthorization with
        | true =>
          rw [hau] at hv
          simp only [if_true] at hv
          rw [extract_wildcardAuth h hv]
          simp only []
          have : ([[42], Facts.headers_Authorization].map Bytes.lower).contains Spec.authorization = true := by decide
          rw [this]
          simp [star_eq]
        | false =>
          rw [hau] at hv
          simp only [Bool.false_eq_true, if_false] at hv
          rw [extract_token h _ [42] hv (by decide)]
          simp only []
          have : ([[42]].map Bytes.lower).contains Spec.authorization = false := by decide
          rw [this]
          simp [star_eq]
      | true =>
        simp only [hast, hc, Bool.not_true, Bool.and_false, Bool.false_eq_true, if_false, Bool.and_self, if_true] at hv
        rw [extract_tolerated h _ _ lines hv hval htol]
        simp only []
        rw [hlow]
        simp only [Bool.or_true, Bool.and_true, Bool.true_or]
        have h1 : (unsafeNames i).all (fun _ => true) = true := by simp
        have h2 : (unsafeNames i).all (fun n => (unsafeNames i).contains n || (!i.creds && (unsafeNames i).contains Spec.star)) = true := by
          simp only [List.all_eq_true, Bool.or_eq_true, List.contains_iff_mem]
          exact fun n hn => Or.inl hn
        rw [h1, h2]
        cases (unsafeNames i).contains Spec.authorization <;> rfl
    | false =>
      simp only [hast, Bool.false_and, Bool.false_eq_true, if_false, Bool.false_or, Bool.or_false] at hv hcond ⊢
      cases hd : dbg with
      | false =>
        simp only [hd, Bool.not_false, if_true, Bool.false_eq_true, if_false, Bool.and_eq_true] at hv hcond
        rw [extract_tolerated h _ _ lines hv hval htol]
        simp only []
        rw [hlow]
        have hck : Headers.check icfg.allowedReqHdrs lines = true := hcond.2
        rw [check_tolerated _ hrs.exact.wf _ _ hsorted htol] at hck
        have h2 : (unsafeNames i).all (fun n => (unsafeNames i).contains n || (!i.creds && (unsafeNames i).contains Spec.star)) = true := by
          simp only [List.all_eq_true, Bool.or_eq_true, List.contains_iff_mem]
          exact fun n hn => Or.inl hn
        rw [h2]
        have h3 : (unsafeNames i).all (fun n => icfg.allowedReqHdrs.contains n) = true := by
          rw [← hck]; congr 1; funext n; exact set_contains icfg hrs n
        rw [h3]
        cases (unsafeNames i).contains Spec.authorization <;> rfl
      | true =>
        simp only [hd, Bool.not_true, Bool.false_eq_true, if_false, if_true] at hv hcond
        have hne2 : icfg.allowedReqHdrs.elems ≠ [] := by
          intro h0
          have := hrs.acah hast
          rw [if_pos h0] at this
          rw [this] at hcond
          simp at hcond
        have hacah := hrs.acah hast
        rw [if_neg hne2] at hacah
        rw [hacah] at hv
        rw [extract_join h _ _ hne2 hv (fun n hn => (hrs.tokens n hn).1)]
        simp only []
        rw [map_lower_id _ (fun n hn => (hrs.tokens n hn).2.1)]
        have hns : icfg.allowedReqHdrs.elems.contains Spec.star = false := by
          cases hcs : icfg.allowedReqHdrs.elems.contains Spec.star with
          | false => rfl
          | true =>
            exfalso
            have := List.contains_iff_mem.mp hcs
            exact (hrs.tokens _ this).2.2 (by decide)
        simp only [hns, Bool.and_false, Bool.or_false]
        have hfun : (fun n => icfg.allowedReqHdrs.contains n) = (fun n => icfg.allowedReqHdrs.elems.contains n) := by
          funext n; exact set_contains icfg hrs n
        rw [hfun]
        cases hall : (unsafeNames i).all (fun n => icfg.allowedReqHdrs.elems.contains n) with
        | false => simp
        | true =>
          simp only [Bool.and_true, Bool.or_eq_true, Bool.not_eq_true']
          cases hca : (unsafeNames i).contains Spec.authorization with
          | false => exact Or.inl rfl
          | true =>
            right
            simp only [List.all_eq_true] at hall
            exact hall _ (List.contains_iff_mem.mp hca)

/-- When the header step fails, the configuration does not permit the names. -/
theorem hdrPermit_false (icfg : ICfg) (hrs : icfg.ReqHdrsSound) (i : Intent) (lines : List Bytes) (dbg : Bool)
    (hcond : headerCondD (modelDec icfg) icfg (preflightRequest i lines).hdrs dbg = false)
    (hL : unsafeNames i ≠ [] → Tolerated (unsafeNames i) lines) :
    unsafeNames i ≠ [] ∧ hdrPermit icfg i = false := by
  unfold headerCondD at hcond
  rw [pre_acrh] at hcond
  cases hu : unsafeNames i with
  | nil => simp [hu] at hcond
  | cons u0 us =>
    have hne : unsafeNames i ≠ [] := by rw [hu]; simp
    refine ⟨by simp, ?_⟩
    have htol := hL hne
    have hsorted := (unsafeNames_spec i).1
    simp only [hu, List.isEmpty_cons, Bool.false_eq_true, if_false, Bool.or_eq_false_iff] at hcond
    obtain ⟨hast, hrest⟩ := hcond
    unfold hdrPermit
    simp only [hast, Bool.false_and, Bool.or_false]
    have hfun : (fun n => icfg.allowedReqHdrs.contains n) = (fun n => icfg.allowedReqHdrs.elems.contains n) := by
      funext n; exact set_contains icfg hrs n
    rw [hfun]
    have hnil : icfg.allowedReqHdrs.elems = [] → (unsafeNames i).all (fun n => icfg.allowedReqHdrs.elems.contains n) = false := by
      intro h0
      rw [h0]
      exact all_false_of_ne_nil _ hne
    cases hd : dbg with
    | true =>
      rw [hd] at hrest
      simp only [if_true, Bool.not_eq_false'] at hrest
      exact hnil (elems_nil_of_acah_empty icfg hrs hast hrest)
    | false =>
      rw [hd] at hrest
      simp only [Bool.false_eq_true, if_false, Bool.and_eq_false_iff] at hrest
      rcases hrest with h0 | h0
      · apply hnil
        have : icfg.allowedReqHdrs.size = 0 := by simpa using h0
        unfold SortedSet.size at this
        exact List.eq_nil_of_length_eq_zero this
      · have hck : Headers.check icfg.allowedReqHdrs lines = false := h0
        rw [check_tolerated _ hrs.exact.wf _ _ hsorted htol] at hck
        exact hck

end Browser
end Cors

namespace Cors
open Gen Headers Serve Pipeline
namespace Browser

/-! ### the actual request -/

theorem actual_acao (dec : Dec) (icfg : ICfg) (o : Bytes) (isOPT : Bool) :
    (handleCORSActual dec icfg HdrMap.empty o isOPT) Facts.headers_ACAO =
      if icfg.pnaNoCors then none
      else if !icfg.credentialed && icfg.tree.isEmpty then some [Facts.headers_ValueWildcard]
      else if !dec.allowed o then none else some [o] := by
  unfold handleCORSActual
  cases icfg.pnaNoCors <;> cases isOPT <;> cases icfg.credentialed <;> cases icfg.tree.isEmpty <;>
    cases dec.allowed o <;> cases icfg.aceh.isEmpty <;>
    simp [HdrMap.add, HdrMap.set, HdrMap.assign, HdrMap.empty]

theorem actual_acac (dec : Dec) (icfg : ICfg) (o : Bytes) (isOPT : Bool) :
    (handleCORSActual dec icfg HdrMap.empty o isOPT) Facts.headers_ACAC =
      if icfg.pnaNoCors then none
      else if !icfg.credentialed && icfg.tree.isEmpty then none
      else if !dec.allowed o then none
      else if icfg.credentialed then some [Facts.headers_ValueTrue] else none := by
  unfold handleCORSActual
  cases icfg.pnaNoCors <;> cases isOPT <;> cases icfg.credentialed <;> cases icfg.tree.isEmpty <;>
    cases dec.allowed o <;> cases icfg.aceh.isEmpty <;>
    simp [HdrMap.add, HdrMap.set, HdrMap.assign, HdrMap.empty]

/-- What the configuration says about the origin and the credentials mode. -/
def originPermit (dec : Dec) (icfg : ICfg) (i : Intent) : Bool :=
  ((icfg.tree.isEmpty && !icfg.credentialed) || dec.allowed i.origin) && (!i.creds || icfg.credentialed)

/-- **The CORS check on the response to the actual request.** -/
theorem actual_check (dec : Dec) (icfg : ICfg) (dbg : Bool) (i : Intent) (hne : i.origin ≠ Spec.star) :
    corsCheck i (serveDec dec icfg dbg (actualRequest i) HdrMap.empty).hdrs =
      (originPermit dec icfg i && !icfg.pnaNoCors) := by
  have hne' : (i.origin == [42]) = false := by
    rw [← star_eq]; simpa using hne
  have hne'' : (([42] : Bytes) == i.origin) = false := by rw [BEq.comm]; exact hne'
  have hh : (serveDec dec icfg dbg (actualRequest i) HdrMap.empty).hdrs =
      handleCORSActual dec icfg HdrMap.empty i.origin ((actualRequest i).method == OPTIONS) := by
    unfold serveDec
    simp only [act_origin, act_acrm]
  rw [hh]
  unfold corsCheck getHeader originPermit
  rw [actual_acao, actual_acac]
  cases icfg.pnaNoCors <;> cases icfg.credentialed <;> cases icfg.tree.isEmpty <;> cases dec.allowed i.origin <;>
    cases i.creds <;>
    simp [star_eq, hne', hne'', Facts.headers_ValueWildcard, Facts.headers_ValueTrue]

/-! ### the preflight -/

/-- The method clause of `permits`. -/
def methodPermit (icfg : ICfg) (i : Intent) : Bool :=
  safelisted (methodN i) || icfg.allowAnyMethod || icfg.allowedMethods.contains (methodN i)

theorem methodPermit_eq (icfg : ICfg) (i : Intent) : methodPermit icfg i = methodCond icfg (methodN i) := by
  unfold methodPermit methodCond; rw [safelisted_eq]

theorem pnaCond_pre (icfg : ICfg) (i : Intent) (lines : List Bytes) :
    pnaCond icfg (preflightRequest i lines).hdrs = (!i.pna || icfg.pna || icfg.pnaNoCors) := by
  unfold pnaCond
  rw [pre_acrpn]
  cases i.pna <;> simp

theorem originCond_pre (dec : Dec) (icfg : ICfg) (i : Intent) (hp : dec.parses i.origin = true) :
    originCond dec icfg i.origin = ((icfg.tree.isEmpty && !icfg.credentialed) || dec.allowed i.origin) := by
  unfold originCond
  rw [hp, Bool.true_and, Bool.and_comm]

theorem pnaOK_of (i : Intent) (h : HdrMap) (lines : List Bytes)
    (hv : h Facts.headers_ACAPN = expACAPN (preflightRequest i lines).hdrs) : pnaOK i h = true := by
  unfold pnaOK
  unfold expACAPN at hv
  rw [pre_acrpn] at hv
  cases hp : i.pna with
  | false => rfl
  | true =>
    simp only [hp, if_true, beq_self_eq_true] at hv
    rw [getHeader_single h _ Facts.headers_ValueTrue hv]
    simp

theorem methodOK_absent (i : Intent) (h : HdrMap) (hv : h Facts.headers_ACAM = none)
    (hs : methodCond icfg (methodN i) = false) : methodOK i h = false := by
  unfold methodOK
  rw [extract_none h _ hv]
  have : safelisted (methodN i) = false := by
    rw [safelisted_eq]
    unfold methodCond at hs
    simp only [Bool.or_eq_false_iff] at hs
    exact hs.1.1
  simp [this]

theorem headersOK_absent (i : Intent) (h : HdrMap) (hv : h Facts.headers_ACAH = none)
    (hne : unsafeNames i ≠ []) : headersOK i h = false := by
  unfold headersOK
  rw [extract_none h _ hv]
  simp only [List.map_nil, List.contains_nil, Bool.or_false, Bool.and_false, Bool.false_or]
  rw [all_false_of_ne_nil _ hne, Bool.and_false]

theorem pnaOK_absent (icfg : ICfg) (i : Intent) (h : HdrMap) (lines : List Bytes) (hv : h Facts.headers_ACAPN = none)
    (hs : pnaCond icfg (preflightRequest i lines).hdrs = false) : pnaOK i h = false := by
  unfold pnaOK
  rw [pnaCond_pre] at hs
  rw [getHeader_none h _ hv]
  cases hp : i.pna with
  | false => rw [hp] at hs; simp at hs
  | true => rfl

/-- **CORS-preflight fetch on the response to the preflight.** -/
theorem preflight_check (icfg : ICfg) (hwf : icfg.WF) (hrs : icfg.ReqHdrsSound) (dbg : Bool) (i : Intent)
    (lines : List Bytes)
    (hO : (Lex.parse i.origin).isSome = true) (hne : i.origin ≠ Spec.star)
    (hM : isValid (methodN i) = true)
    (hN : ∀ n ∈ i.headerNames, isValid n = true)
    (hL : unsafeNames i ≠ [] → Tolerated (unsafeNames i) lines) :
    preflightPasses i (serve icfg dbg (preflightRequest i lines) HdrMap.empty) =
      (originPermit (modelDec icfg) icfg i && methodPermit icfg i && hdrPermit icfg i
        && (!i.pna || icfg.pna || icfg.pnaNoCors)) := by
  have hserve : serve icfg dbg (preflightRequest i lines) HdrMap.empty =
      handleCORSPreflight (modelDec icfg) icfg HdrMap.empty (preflightRequest i lines).hdrs i.origin (methodN i) dbg := by
    unfold serve serveDec
    simp only [pre_origin, pre_acrm]
    have : ((preflightRequest i lines).method == OPTIONS) = true := by simp [preflightRequest]
    rw [this]; rfl
  rw [hserve, preflightPasses_split]
  have hparses : (modelDec icfg).parses i.origin = true := hO
  have hoc := originCond_pre (modelDec icfg) icfg i hparses
  have hresp := preflight_resp (modelDec icfg) icfg (preflightRequest i lines).hdrs i.origin (methodN i) dbg
  rw [methodPermit_eq, ← pnaCond_pre icfg i lines]
  unfold originPermit
  rw [← hoc]
  cases hs : preflightSteps (modelDec icfg) icfg (preflightRequest i lines).hdrs i.origin (methodN i) dbg with
  | originFail b =>
    rw [hs] at hresp
    simp only [] at hresp
    rw [hresp, forbidden_not_ok, steps_originFail hs]
    simp
  | laterFail b =>
    rw [hs] at hresp
    simp only [] at hresp
    obtain ⟨vo, vc, hwhich⟩ := steps_later_view hs
    cases hd : dbg with
    | false =>
      rw [hd] at hresp
      simp only [Bool.false_eq_true, if_false] at hresp
      rw [hresp, forbidden_not_ok]
      rcases hwhich with ⟨hc, _⟩ | ⟨hc, _⟩ | ⟨hc, _⟩
      · rw [hc]; simp
      · rw [hc]; simp
      · rw [(hdrPermit_false icfg hrs i lines dbg hc hL).2]; simp
    | true =>
      rw [hd] at hresp
      simp only [if_true] at hresp
      obtain ⟨_, hk⟩ := hresp
      rcases hwhich with ⟨hc, hb⟩ | ⟨hc, hb⟩ | ⟨hc, hb⟩
      · rw [hc, pnaOK_absent icfg i _ lines (by rw [hk _ (by simp) (by simp)]; exact hb) hc]; simp
      · rw [hc, methodOK_absent i _ (by rw [hk _ (by simp) (by simp)]; exact hb) hc]; simp
      · obtain ⟨hne2, hp⟩ := hdrPermit_false icfg hrs i lines dbg hc hL
        rw [hp, headersOK_absent i _ (by rw [hk _ (by simp) (by simp)]; exact hb) hne2]; simp
  | ok b =>
    rw [hs] at hresp
    simp only [] at hresp
    obtain ⟨hst, hk⟩ := hresp
    obtain ⟨vo, vc, vp, vm, vh⟩ := steps_ok_view hs
    have hconds := (steps_ok_iffD (modelDec icfg) icfg (preflightRequest i lines).hdrs i.origin (methodN i) dbg).mp ⟨b, hs⟩
    simp only [Bool.and_eq_true] at hconds
    obtain ⟨⟨⟨c1, c2⟩, c3⟩, c4⟩ := hconds
    rw [hst, okStatus_ok icfg hwf, c1, c2, c3]
    rw [corsCheck_pre icfg i _ (by rw [hk _ (by simp) (by simp)]; exact vo) (by rw [hk _ (by simp) (by simp)]; exact vc) hne]
    rw [pnaOK_of i _ lines (by rw [hk _ (by simp) (by simp)]; exact vp)]
    cases hcred : (!i.creds || icfg.credentialed) with
    | false => simp
    | true =>
      rw [methodOK_pre icfg i _ (by rw [hk _ (by simp) (by simp)]; exact vm) hM hcred]
      rw [headersOK_pre icfg hrs i lines dbg _ (by rw [hk _ (by simp) (by simp)]; exact vh) c4 hN hL hcred]

end Browser
end Cors
