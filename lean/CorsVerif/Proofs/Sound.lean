import CorsVerif.Proofs.Folds
import CorsVerif.Proofs.Accepted
import CorsVerif.Proofs.BrowserLists
/-
  What acceptance guarantees about the request-header part of the internal configuration.
-/
namespace Cors
open Gen Headers Validate Folds

theorem lowerByte_idem (b : Nat) : Bytes.lowerByte (Bytes.lowerByte b) = Bytes.lowerByte b := by
  unfold Bytes.lowerByte
  split <;> (try split) <;> omega

theorem lower_idem (s : Bytes) : s.lower.lower = s.lower := by
  unfold Bytes.lower
  rw [List.map_map]
  apply List.map_congr_left
  intro b _
  exact lowerByte_idem b

theorem tchar_lowerByte {b : Nat} (h : isTchar b = true) : isTchar (Bytes.lowerByte b) = true := by
  unfold Bytes.lowerByte
  split
  · rename_i hb
    unfold isTchar
    simp only [Bool.or_eq_true, Bool.and_eq_true, decide_eq_true_eq]
    exact Or.inl (Or.inr ⟨by omega, by omega⟩)
  · exact h

theorem valid_lower {n : Bytes} (h : isValid n = true) : isValid n.lower = true := by
  simp only [isValid, Bool.and_eq_true, List.all_eq_true, Bool.not_eq_true'] at h ⊢
  constructor
  · cases n with
    | nil => simp at h
    | cons _ _ => rfl
  · intro b hb
    simp only [Bytes.lower, List.mem_map] at hb
    obtain ⟨c, hc, rfl⟩ := hb
    exact tchar_lowerByte (h.2 c hc)

theorem lower_eq_star {n : Bytes} (h : n.lower = Validate.star) : n = Validate.star := by
  cases n with
  | nil => cases h
  | cons b t =>
    cases t with
    | cons _ _ => simp [Bytes.lower, Validate.star, Facts.headers_ValueWildcard] at h
    | nil =>
      simp only [Bytes.lower, List.map_cons, List.map_nil, Validate.star, Facts.headers_ValueWildcard, List.cons.injEq, and_true] at h
      have : b = 42 := by
        unfold Bytes.lowerByte at h
        split at h <;> omega
      subst this
      rfl

/-- What the handler and the browser rely on in the request-header part of an accepted
configuration. -/
structure ICfg.ReqHdrsSound (icfg : ICfg) : Prop where
  exact : icfg.allowedReqHdrs.Exact
  tokens : ∀ n ∈ icfg.allowedReqHdrs.elems, isValid n = true ∧ n.lower = n ∧ n ≠ Validate.star
  asterisk_empty : icfg.asteriskReqHdrs = true → icfg.allowedReqHdrs.elems = []
  acah : icfg.asteriskReqHdrs = false →
    icfg.acah = if icfg.allowedReqHdrs.elems = [] then [] else [Bytes.join comma icfg.allowedReqHdrs.elems]

theorem accepted_reqHdrs (ext : Ext) (cfg : Config) (icfg : ICfg) (h : newInternalConfig ext cfg = .ok icfg) :
    icfg.ReqHdrsSound := by
  obtain ⟨_, rfl⟩ := (accepted_iff ext cfg icfg).mp h
  obtain ⟨e1, a1, b1, m1⟩ := reqHdr_fold cfg.credentialed cfg.requestHeaders {} SortedSet.empty_exact
  have hsz : ∀ s : SortedSet, (s.size != 0) = !(s.elems.isEmpty) := by
    intro s; unfold SortedSet.size; cases s.elems <;> rfl
  cases hast : (cfg.requestHeaders.foldl (reqHdrStep cfg.credentialed) {}).asterisk with
  | true =>
    have hb : Validate.requestHeaders cfg.credentialed cfg.requestHeaders =
        ((cfg.requestHeaders.foldl (reqHdrStep cfg.credentialed) {}).errs, true,
         (cfg.requestHeaders.foldl (reqHdrStep cfg.credentialed) {}).allowAuth, {}, []) := by
      unfold Validate.requestHeaders
      simp only [hast, Bool.not_true, Bool.false_and, Bool.false_eq_true, if_false]
    refine ⟨?_, ?_, ?_, ?_⟩
    · show (Validate.requestHeaders cfg.credentialed cfg.requestHeaders).2.2.2.1.Exact
      rw [hb]; exact SortedSet.empty_exact
    · show ∀ n ∈ (Validate.requestHeaders cfg.credentialed cfg.requestHeaders).2.2.2.1.elems, _
      rw [hb]; intro n hn; cases hn
    · intro _
      show (Validate.requestHeaders cfg.credentialed cfg.requestHeaders).2.2.2.1.elems = []
      rw [hb]
    · intro hf
      have : (Validate.requestHeaders cfg.credentialed cfg.requestHeaders).2.1 = false := hf
      rw [hb] at this
      cases this
  | false =>
    have hns : cfg.requestHeaders.contains Validate.star = false := by
      rw [a1] at hast
      simpa using hast
    have hmem := m1 rfl hns
    have htok : ∀ n ∈ (cfg.requestHeaders.foldl (reqHdrStep cfg.credentialed) {}).set.elems, isValid n = true ∧ n.lower = n ∧ n ≠ Validate.star := by
      intro n hn
      rcases (hmem n).mp hn with h | ⟨m, _, hg, rfl⟩ | ⟨_, _, rfl⟩
      · cases h
      · unfold goodReq at hg
        simp only [Bool.and_eq_true] at hg
        refine ⟨valid_lower hg.1.1.1.2, lower_idem m, fun hs => ?_⟩
        have := lower_eq_star hs
        subst this
        simp at hg
      · exact ⟨by decide, by decide, by decide⟩
    cases hem : (cfg.requestHeaders.foldl (reqHdrStep cfg.credentialed) {}).set.elems with
    | nil =>
      have hb : Validate.requestHeaders cfg.credentialed cfg.requestHeaders =
          ((cfg.requestHeaders.foldl (reqHdrStep cfg.credentialed) {}).errs, false,
           (cfg.requestHeaders.foldl (reqHdrStep cfg.credentialed) {}).allowAuth, {}, []) := by
        unfold Validate.requestHeaders
        simp only [hast, hsz, hem, List.isEmpty_nil, Bool.not_true, Bool.and_false, Bool.false_eq_true, if_false]
      refine ⟨?_, ?_, ?_, ?_⟩
      · show (Validate.requestHeaders cfg.credentialed cfg.requestHeaders).2.2.2.1.Exact
        rw [hb]; exact SortedSet.empty_exact
      · show ∀ n ∈ (Validate.requestHeaders cfg.credentialed cfg.requestHeaders).2.2.2.1.elems, _
        rw [hb]; intro n hn; cases hn
      · intro _
        show (Validate.requestHeaders cfg.credentialed cfg.requestHeaders).2.2.2.1.elems = []
        rw [hb]
      · intro _
        show (Validate.requestHeaders cfg.credentialed cfg.requestHeaders).2.2.2.2 =
          if (Validate.requestHeaders cfg.credentialed cfg.requestHeaders).2.2.2.1.elems = [] then _ else _
        rw [hb]; rfl
    | cons x xs =>
      have hb : Validate.requestHeaders cfg.credentialed cfg.requestHeaders =
          ((cfg.requestHeaders.foldl (reqHdrStep cfg.credentialed) {}).errs, false,
           (cfg.requestHeaders.foldl (reqHdrStep cfg.credentialed) {}).allowAuth,
           (cfg.requestHeaders.foldl (reqHdrStep cfg.credentialed) {}).set,
           [Bytes.join comma (cfg.requestHeaders.foldl (reqHdrStep cfg.credentialed) {}).set.elems]) := by
        unfold Validate.requestHeaders
        simp only [hast, hsz, hem, List.isEmpty_cons, Bool.not_false, Bool.and_self, if_true]
      refine ⟨?_, ?_, ?_, ?_⟩
      · show (Validate.requestHeaders cfg.credentialed cfg.requestHeaders).2.2.2.1.Exact
        rw [hb]; exact e1
      · show ∀ n ∈ (Validate.requestHeaders cfg.credentialed cfg.requestHeaders).2.2.2.1.elems, _
        rw [hb]; exact htok
      · intro hf
        have : (Validate.requestHeaders cfg.credentialed cfg.requestHeaders).2.1 = true := hf
        rw [hb] at this
        cases this
      · intro _
        have h1 : (build ext cfg).acah = (Validate.requestHeaders cfg.credentialed cfg.requestHeaders).2.2.2.2 := rfl
        have h2 : (build ext cfg).allowedReqHdrs = (Validate.requestHeaders cfg.credentialed cfg.requestHeaders).2.2.2.1 := rfl
        rw [h1, h2, hb]
        simp only [hem]
        rw [if_neg (by simp)]

end Cors
