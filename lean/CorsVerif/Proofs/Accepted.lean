import CorsVerif.Spec.Basic
/-
  Inversion of `newInternalConfig`: what acceptance implies.
-/
namespace Cors
open Gen

theorem accepted_iff (ext : Ext) (cfg : Config) (icfg : ICfg) :
    newInternalConfig ext cfg = .ok icfg ↔ Validate.allErrs ext cfg = [] ∧ icfg = Validate.build ext cfg := by
  unfold newInternalConfig
  constructor
  · intro h
    split at h
    · rename_i he
      cases h
      exact ⟨by simpa using he, rfl⟩
    · cases h
  · rintro ⟨he, rfl⟩
    simp [he]

theorem fieldErr_nil {es : List CfgErr} (h : Validate.fieldErr es = []) : es = [] := by
  unfold Validate.fieldErr at h
  cases es with
  | nil => rfl
  | cons e es => simp at h

/-- The pieces of `allErrs ext cfg = []`. -/
theorem allErrs_nil {ext : Ext} {cfg : Config} (h : Validate.allErrs ext cfg = []) :
    Validate.statusErrs cfg = [] ∧ Validate.pnaErrs cfg = [] ∧ Validate.originErrs ext cfg = [] ∧
    Validate.methodErrs cfg = [] ∧ Validate.reqHdrErrs cfg = [] ∧ Validate.maxAgeErrs cfg = [] ∧
    Validate.resHdrErrs cfg = [] := by
  unfold Validate.allErrs at h
  simp only [List.append_eq_nil_iff] at h
  obtain ⟨⟨⟨⟨⟨⟨h0, h1⟩, h2⟩, h3⟩, h4⟩, h5⟩, h6⟩ := h
  exact ⟨h0, h1, h2, h3, h4, h5, h6⟩

/-! ### The tree is never empty after an insertion -/

theorem addScheme_ne_nil (scheme : Bytes) (c : Int) (w : Bool) (l : List (Bytes × List Int)) :
    Node.addScheme scheme c w l ≠ [] := by
  cases l with
  | nil => simp [Node.addScheme]
  | cons x xs =>
    obtain ⟨s, ps⟩ := x
    simp only [Node.addScheme]
    split
    · simp
    · split <;> simp

theorem lookupScheme_some_ne_nil {scheme : Bytes} {l : List (Bytes × List Int)} {ps : List Int}
    (h : Node.lookupScheme scheme l = some ps) : l ≠ [] := by
  cases l with
  | nil => simp [Node.lookupScheme] at h
  | cons x xs => simp

theorem addPort_ne_nil (l : List (Bytes × List Int)) (scheme : Bytes) (port : Int) (w : Bool) :
    Node.addPort l scheme port w ≠ [] := by
  unfold Node.addPort
  split
  · rename_i hc
    unfold Node.containsPort at hc
    split at hc
    · cases hc
    · rename_i ps hl; exact lookupScheme_some_ne_nil hl
  · exact addScheme_ne_nil _ _ _ _

theorem insertKids_ne_nil (kids : List (Nat × Node)) (label : Nat) (s scheme : Bytes) (port : Int) (w : Bool) :
    Node.insertKids kids label s scheme port w ≠ [] := by
  cases kids with
  | nil => simp [Node.insertKids]
  | cons x xs =>
    obtain ⟨l, c⟩ := x
    simp only [Node.insertKids]
    split
    · simp
    · split <;> simp

theorem isEmpty_false_of_schemes {suf : Bytes} {schemes : List (Bytes × List Int)} {kids : List (Nat × Node)}
    (h : schemes ≠ []) : (Node.mk suf schemes kids).isEmpty = false := by
  cases schemes with
  | nil => exact absurd rfl h
  | cons x xs => simp [Node.isEmpty, Node.schemes]

theorem isEmpty_false_of_kids {suf : Bytes} {schemes : List (Bytes × List Int)} {kids : List (Nat × Node)}
    (h : kids ≠ []) : (Node.mk suf schemes kids).isEmpty = false := by
  cases kids with
  | nil => exact absurd rfl h
  | cons x xs => simp [Node.isEmpty, Node.kids]

/-- `Tree.Insert` never leaves the tree empty. -/
theorem node_insert_nonempty (n : Node) (s scheme : Bytes) (port : Int) (w : Bool) :
    (Node.insert n s scheme port w).isEmpty = false := by
  cases n with
  | mk suf schemes kids =>
    cases s with
    | nil => simp only [Node.insert]; exact isEmpty_false_of_schemes (addPort_ne_nil _ _ _ _)
    | cons label rest =>
      simp only [Node.insert]
      split
      · rename_i hc
        unfold Node.containsPort at hc
        split at hc
        · cases hc
        · rename_i ps hl; exact isEmpty_false_of_schemes (lookupScheme_some_ne_nil hl)
      · exact isEmpty_false_of_kids (insertKids_ne_nil _ _ _ _ _ _)

theorem tree_insert_nonempty (t : Tree) (p : Pattern) : (Tree.insert t p).isEmpty = false := by
  unfold Tree.insert
  split <;> exact node_insert_nonempty _ _ _ _ _

/-! ### The loop of `validateOrigins` -/

section
variable (ext : Ext) (cred pnaAny tolI tolP : Bool)

theorem originStep_errs_prefix (st : Validate.OState) (raw : Bytes) :
    ∃ more, (Validate.originStep ext cred pnaAny tolI tolP st raw).errs = st.errs ++ more := by
  unfold Validate.originStep
  split
  · exact ⟨(if cred = true then [CfgErr.incompatOrigin Validate.star IReason.credentialed] else []) ++
      (if pnaAny = true then [CfgErr.incompatOrigin Validate.star IReason.pna] else []), by simp only [List.append_assoc]⟩
  · split
    · exact ⟨_, rfl⟩
    · rename_i p _
      exact ⟨(if (Pat.isDeemedInsecure p && !tolI) = true then
          (if cred = true then [CfgErr.incompatOrigin raw IReason.credentialed] else []) ++
            (if pnaAny = true then [CfgErr.incompatOrigin raw IReason.pna] else [])
        else []) ++
        (if (p.kind == Kind.subdomains && !tolP && Pat.hostIsEffectiveTLD ext p) = true then
          [CfgErr.incompatOrigin raw IReason.psl] else []), by simp only [List.append_assoc]⟩

theorem origins_fold_errs_nil (ps : List Bytes) (st : Validate.OState)
    (h : (ps.foldl (Validate.originStep ext cred pnaAny tolI tolP) st).errs = []) : st.errs = [] := by
  induction ps generalizing st with
  | nil => exact h
  | cons p ps ih =>
    have := ih _ h
    obtain ⟨more, hm⟩ := originStep_errs_prefix ext cred pnaAny tolI tolP st p
    rw [hm] at this
    exact (List.append_eq_nil_iff.mp this).1

theorem originStep_allowAny_mono (st : Validate.OState) (raw : Bytes) (h : st.allowAny = true) :
    (Validate.originStep ext cred pnaAny tolI tolP st raw).allowAny = true := by
  unfold Validate.originStep
  split
  · rfl
  · split <;> exact h

theorem origins_fold_allowAny_mono (ps : List Bytes) (st : Validate.OState) (h : st.allowAny = true) :
    (ps.foldl (Validate.originStep ext cred pnaAny tolI tolP) st).allowAny = true := by
  induction ps generalizing st with
  | nil => exact h
  | cons p ps ih => exact ih _ (originStep_allowAny_mono ext cred pnaAny tolI tolP st p h)

/-- If the loop ends without errors and with `allowAnyOrigin` set, credentialed access is off
(or the flag was already set before). -/
theorem origins_fold_star (ps : List Bytes) (st : Validate.OState)
    (he : (ps.foldl (Validate.originStep ext cred pnaAny tolI tolP) st).errs = [])
    (ha : (ps.foldl (Validate.originStep ext cred pnaAny tolI tolP) st).allowAny = true) :
    st.allowAny = true ∨ cred = false := by
  induction ps generalizing st with
  | nil => exact Or.inl ha
  | cons p ps ih =>
    rcases ih _ he ha with h | h
    · -- the flag was set by this step or before
      have hn := origins_fold_errs_nil ext cred pnaAny tolI tolP ps _ he
      unfold Validate.originStep at h hn
      by_cases hstar : (p == Validate.star) = true
      · -- raw == star: an error is appended when credentialed
        rw [if_pos hstar] at hn
        cases hc : cred with
        | false => exact Or.inr rfl
        | true => simp [hc] at hn
      · rw [if_neg hstar] at h
        split at h
        · exact Or.inl h
        · exact Or.inl h
    · exact Or.inr h

/-- If the loop ends without errors and without `allowAnyOrigin`, the tree is not empty as soon
as one pattern was processed (or the tree was not empty before). -/
theorem origins_fold_tree (ps : List Bytes) (st : Validate.OState)
    (he : (ps.foldl (Validate.originStep ext cred pnaAny tolI tolP) st).errs = [])
    (ha : (ps.foldl (Validate.originStep ext cred pnaAny tolI tolP) st).allowAny = false)
    (hne : ps ≠ [] ∨ st.tree.isEmpty = false) :
    (ps.foldl (Validate.originStep ext cred pnaAny tolI tolP) st).tree.isEmpty = false := by
  induction ps generalizing st with
  | nil =>
    rcases hne with h | h
    · exact absurd rfl h
    · exact h
  | cons p ps ih =>
    apply ih _ he ha
    right
    have hn := origins_fold_errs_nil ext cred pnaAny tolI tolP ps _ he
    unfold Validate.originStep at hn ⊢
    split
    · -- star: the flag would stay set
      rename_i hstar
      exfalso
      have : (ps.foldl (Validate.originStep ext cred pnaAny tolI tolP)
          (Validate.originStep ext cred pnaAny tolI tolP st p)).allowAny = true := by
        apply origins_fold_allowAny_mono
        unfold Validate.originStep
        rw [if_pos hstar]
      rw [List.foldl_cons] at ha
      rw [ha] at this
      cases this
    · rename_i hstar
      rw [if_neg hstar] at hn
      split
      · rename_i r hp
        rw [hp] at hn
        simp at hn
      · exact tree_insert_nonempty _ _

end

theorem status_value_lt (s : Int) : (match Validate.status s with | .ok v => v | .error _ => 0) < 100 := by
  unfold Validate.status
  by_cases h0 : (s == 0) = true
  · simp [h0, Facts.cors_defaultPreflightStatus]
  · by_cases hb : ((Facts.cors_validatePreflightStatus_lowerBound : Int) ≤ s ∧ s ≤ (Facts.cors_validatePreflightStatus_upperBound : Int))
    · have h1 : (!(decide ((Facts.cors_validatePreflightStatus_lowerBound : Int) ≤ s) &&
          decide (s ≤ (Facts.cors_validatePreflightStatus_upperBound : Int)))) = false := by simp [hb.1, hb.2]
      simp only [h0, h1, Bool.false_eq_true, if_false]
      simp only [Facts.cors_validatePreflightStatus_lowerBound, Facts.cors_validatePreflightStatus_upperBound] at hb
      have h2 : (s - 200).toNat < 100 := by omega
      exact Nat.lt_of_le_of_lt (Nat.mod_le _ _) h2
    · have h1 : (!(decide ((Facts.cors_validatePreflightStatus_lowerBound : Int) ≤ s) &&
          decide (s ≤ (Facts.cors_validatePreflightStatus_upperBound : Int)))) = true := by
        simp only [Bool.not_eq_true', Bool.and_eq_false_iff, decide_eq_false_iff_not]
        by_cases hl : (Facts.cors_validatePreflightStatus_lowerBound : Int) ≤ s
        · right; intro hu; exact hb ⟨hl, hu⟩
        · left; exact hl
      simp [h0, h1]

/-- **Accepted configurations are well-formed.** -/
theorem accepted_wf (ext : Ext) (cfg : Config) (icfg : ICfg) (h : newInternalConfig ext cfg = .ok icfg) : icfg.WF := by
  obtain ⟨herrs, rfl⟩ := (accepted_iff ext cfg icfg).mp h
  obtain ⟨h0, _, h2, _, _, _, _⟩ := allErrs_nil herrs
  constructor
  · -- an empty tree (allow-all) excludes credentialed access
    intro hempty
    show cfg.credentialed = false
    unfold Validate.originErrs at h2
    cases hne : cfg.origins.isEmpty with
    | true =>
      -- "missing" error
      rw [hne] at h2
      simp [Validate.originsResult, Validate.origins, hne] at h2
    | false =>
      rw [hne] at h2
      have herr := fieldErr_nil (by simpa using h2)
      simp only [Validate.build, Validate.originsResult, Validate.origins, hne] at hempty herr
      simp only [Bool.false_eq_true, if_false] at hempty herr
      cases hany : (cfg.origins.foldl (Validate.originStep ext cfg.credentialed (Validate.pnaAny cfg) cfg.tolInsecure cfg.tolPSL) {}).allowAny with
      | true =>
        rcases origins_fold_star ext _ _ _ _ cfg.origins {} herr hany with h | h
        · cases h
        · exact h
      | false =>
        rw [hany] at hempty
        simp only [Bool.false_eq_true, if_false] at hempty
        have hps : cfg.origins ≠ [] := by
          intro hnil; rw [hnil] at hne; cases hne
        have := origins_fold_tree ext _ _ _ _ cfg.origins {} herr hany (Or.inl hps)
        rw [this] at hempty
        cases hempty
  · show (match Validate.status cfg.status with | .ok v => v | .error _ => 0) < 100
    exact status_value_lt cfg.status

end Cors
