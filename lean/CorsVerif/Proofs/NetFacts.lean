import CorsVerif.Model.Net
/-
  Facts about the model of `net/netip` that the tree and round-trip theorems need from the IPv6 oracle.
-/
namespace Cors
namespace Net

theorem isHex_star : isHex 42 = false := by decide

theorem fields_star (t : Bytes) : fields (42 :: t) = none := by
  unfold fields
  simp only []
  have : loop 9 [] none (42 :: t) = none := by
    simp [loop, isHex_star]
  simp [this]

/-- The model of `ParseAddr` accepts no text that starts with `*` (the hypothesis `hext` of the tree
theorems, discharged for the modelled library). -/
theorem ip6_no_star (h : Bytes) (info : IP6Info) (hi : ip6 h = some info) : h.head? ≠ some 42 := by
  intro hh
  cases h with
  | nil => simp at hh
  | cons c t =>
    simp only [List.head?_cons, Option.some.injEq] at hh
    subst hh
    unfold ip6 at hi
    -- the part before a `%` still starts with `*`
    have hcut : ∀ r, Bytes.cutAt 37 (42 :: t) = some r → ∃ t', r.1 = 42 :: t' := by
      intro r hr
      simp only [Bytes.cutAt] at hr
      have : ((42 : Nat) == 37) = false := by decide
      simp only [this, Bool.false_eq_true, if_false] at hr
      cases hc : Bytes.cutAt 37 t with
      | none => simp [hc] at hr
      | some p =>
        obtain ⟨l, r'⟩ := p
        simp only [hc, Option.some.injEq] at hr
        subst hr
        exact ⟨l, rfl⟩
    cases hc : Bytes.cutAt 37 (42 :: t) with
    | none =>
      simp only [hc] at hi
      rw [fields_star] at hi
      simp at hi
    | some r =>
      obtain ⟨t', ht'⟩ := hcut r hc
      obtain ⟨before, after⟩ := r
      simp only [] at ht'
      subst ht'
      simp only [hc] at hi
      rw [fields_star] at hi
      split at hi <;> simp at hi

theorem hext_std (idna etld : Bytes → Bool) :
    ∀ h info, (std idna etld).ip6 h = some info → h.head? ≠ some 42 :=
  fun h info hi => ip6_no_star h info hi

end Net
end Cors
