import CorsVerif.Proofs.StoreExact
import CorsVerif.Proofs.TreeRoundTrip
/-
  Stability of `Config().Origins` (C06, last sentence): rendering a tree, rebuilding a tree from
  the rendering and rendering again reaches a fixed point after one round trip.

  The argument, on lists of stored entries (newest first):
    * `absInsert` keeps a list *irredundant* (no older entry drops a newer one, no newer entry
      deletes an older one) and only ever removes entries or adds the new one in front;
    * re-inserting an irredundant list in its original order stores every entry again;
    * `Tree.Elems` sorts, the survivors of an insertion in sorted order are still in sorted order,
      so the second rebuild re-inserts the survivors of the first in their original order.
-/
namespace Cors
open Gen
namespace Node

/-! ### The tree-free part -/

/-- `e` (newer, earlier in the list) and `b` (older) coexist. -/
def Coexist (e b : Entry) : Prop := drops b e = false ∧ deletes e b = false

def Irr (S : List Entry) : Prop := S.Pairwise Coexist

def run (S : List Entry) (L : List Entry) : List Entry := L.foldl absInsert S

theorem absInsert_sublist (S : List Entry) (e : Entry) : (absInsert S e).Sublist (e :: S) := by
  unfold absInsert
  split
  · exact List.sublist_cons_self e S
  · exact List.Sublist.cons_cons e List.filter_sublist

theorem absInsert_irr (S : List Entry) (e : Entry) (h : Irr S) : Irr (absInsert S e) := by
  unfold absInsert
  split
  · exact h
  · rename_i hany
    unfold Irr
    rw [List.pairwise_cons]
    refine ⟨?_, List.Pairwise.sublist List.filter_sublist h⟩
    intro b hb
    rw [List.mem_filter] at hb
    constructor
    · have : S.any (drops · e) = false := by simpa using hany
      rw [List.any_eq_false] at this
      simpa using this b hb.1
    · simpa using hb.2

theorem run_irr (L S : List Entry) (h : Irr S) : Irr (run S L) := by
  induction L generalizing S with
  | nil => exact h
  | cons e L ih => exact ih _ (absInsert_irr S e h)

theorem run_sublist (L S : List Entry) : (run S L).Sublist (L.reverse ++ S) := by
  induction L generalizing S with
  | nil => exact List.Sublist.refl _
  | cons e L ih =>
    have h1 := ih (absInsert S e)
    have h2 : (L.reverse ++ absInsert S e).Sublist (L.reverse ++ (e :: S)) :=
      List.Sublist.append (List.Sublist.refl _) (absInsert_sublist S e)
    have h3 : L.reverse ++ (e :: S) = (e :: L).reverse ++ S := by simp
    rw [← h3]
    exact h1.trans h2

/-- Re-inserting an irredundant store in its original order stores every entry again. -/
theorem rerun (S : List Entry) (h : Irr S) : run [] S.reverse = S := by
  induction S with
  | nil => rfl
  | cons e B ih =>
    unfold Irr at h
    rw [List.pairwise_cons] at h
    unfold run at ih ⊢
    rw [List.reverse_cons, List.foldl_append, ih h.2]
    simp only [List.foldl_cons, List.foldl_nil]
    exact absInsert_apart B e (fun b hb => h.1 b hb)

theorem absInsert_perm {S S' : List Entry} (h : S.Perm S') (e : Entry) : (absInsert S e).Perm (absInsert S' e) := by
  unfold absInsert
  have : S.any (drops · e) = S'.any (drops · e) := by
    rw [Bool.eq_iff_iff, List.any_eq_true, List.any_eq_true]
    constructor
    · rintro ⟨x, hx, hd⟩; exact ⟨x, h.subset hx, hd⟩
    · rintro ⟨x, hx, hd⟩; exact ⟨x, h.symm.subset hx, hd⟩
  rw [this]
  split
  · exact h
  · exact List.Perm.cons e (h.filter _)

theorem run_perm (L : List Entry) {S S' : List Entry} (h : S.Perm S') : (run S L).Perm (run S' L) := by
  induction L generalizing S S' with
  | nil => exact h
  | cons e L ih => exact ih (absInsert_perm h e)

/-! ### Sorting -/

def SortedB (l : List Bytes) : Prop := l.Pairwise (fun a b => Bytes.lt b a = false)

theorem insertSorted_perm_bytes (x : Bytes) (l : List Bytes) : (insertSorted Bytes.lt x l).Perm (x :: l) := by
  induction l with
  | nil => exact List.Perm.refl _
  | cons y ys ih =>
    simp only [insertSorted]
    split
    · exact List.Perm.refl _
    · exact (List.Perm.cons y ih).trans (List.Perm.swap x y ys)

theorem sortBy_perm (l : List Bytes) : (sortBy Bytes.lt l).Perm l := by
  induction l with
  | nil => exact List.Perm.refl _
  | cons x xs ih =>
    show (insertSorted Bytes.lt x (sortBy Bytes.lt xs)).Perm (x :: xs)
    exact (insertSorted_perm_bytes x _).trans (List.Perm.cons x ih)

theorem insertSorted_sortedB (x : Bytes) (l : List Bytes) (h : SortedB l) : SortedB (insertSorted Bytes.lt x l) := by
  induction l with
  | nil => simp [insertSorted, SortedB]
  | cons y ys ih =>
    unfold SortedB at h
    rw [List.pairwise_cons] at h
    simp only [insertSorted]
    split
    · rename_i hlt
      unfold SortedB
      rw [List.pairwise_cons]
      refine ⟨?_, List.pairwise_cons.mpr h⟩
      intro a ha
      rcases List.mem_cons.mp ha with rfl | ha
      · exact Bytes.lt_asymm hlt
      · -- a ≥ y > x
        cases hax : Bytes.lt a x with
        | false => rfl
        | true =>
          have := Bytes.lt_trans hax hlt
          rw [h.1 a ha] at this
          cases this
    · rename_i hnlt
      have hnlt' : Bytes.lt x y = false := by simpa using hnlt
      unfold SortedB
      rw [List.pairwise_cons]
      refine ⟨?_, ih h.2⟩
      intro a ha
      have ha' : a ∈ x :: ys := (insertSorted_perm_bytes x ys).subset ha
      rcases List.mem_cons.mp ha' with rfl | ha'
      · exact hnlt'
      · exact h.1 a ha'

theorem sortBy_sortedB (l : List Bytes) : SortedB (sortBy Bytes.lt l) := by
  induction l with
  | nil => exact List.Pairwise.nil
  | cons x xs ih => exact insertSorted_sortedB x _ ih

/-- Two sorted lists with the same elements (with multiplicity) are the same list. -/
theorem sorted_perm_eq {a b : List Bytes} (ha : SortedB a) (hb : SortedB b) (h : a.Perm b) : a = b := by
  induction a generalizing b with
  | nil => exact (List.Perm.nil_eq h)
  | cons x a' ih =>
    cases b with
    | nil => exact absurd h.symm (by intro h'; have := List.Perm.nil_eq h'; cases this)
    | cons y b' =>
      unfold SortedB at ha hb
      rw [List.pairwise_cons] at ha hb
      have hxy : x = y := by
        have hx : x ∈ y :: b' := h.subset List.mem_cons_self
        have hy : y ∈ x :: a' := h.symm.subset List.mem_cons_self
        rcases List.mem_cons.mp hx with hx | hx
        · exact hx
        · rcases List.mem_cons.mp hy with hy | hy
          · exact hy.symm
          · have h1 := hb.1 x hx   -- ¬ x < y
            have h2 := ha.1 y hy   -- ¬ y < x
            rcases Bytes.lt_trichotomy x y with h3 | h3 | h3
            · rw [h1] at h3; cases h3
            · exact h3
            · rw [h2] at h3; cases h3
      subst hxy
      congr 1
      exact ih ha.2 hb.2 (List.Perm.cons_inv h)

theorem sortBy_eq_of_perm {l1 l2 : List Bytes} (h : l1.Perm l2) : sortBy Bytes.lt l1 = sortBy Bytes.lt l2 :=
  sorted_perm_eq (sortBy_sortedB l1) (sortBy_sortedB l2) ((sortBy_perm l1).trans (h.trans (sortBy_perm l2).symm))

theorem sortBy_of_sorted {l s : List Bytes} (hs : SortedB s) (h : l.Perm s) : sortBy Bytes.lt l = s :=
  sorted_perm_eq (sortBy_sortedB l) hs ((sortBy_perm l).trans h)

end Node
end Cors
