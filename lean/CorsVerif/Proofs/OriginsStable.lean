import CorsVerif.Proofs.Stable
import CorsVerif.Proofs.C06Assembly
/-
  `Config().Origins` reaches a fixed point after one round trip (C06, last sentence).
-/
namespace Cors
open Gen Pat Node RoundTrip Validate
namespace TreeRT

/-- What `Tree.Elems` renders for a stored entry of the root. -/
def renderE (e : Entry) : Bytes := renderEntry e.2.1 e.1.reverse e.2.2

theorem tree_elems_eq (t : Tree) (ht : t.suf = []) : Tree.elems t = sortBy Bytes.lt ((entries t).map renderE) := by
  unfold Tree.elems
  rw [elems_spec t []]
  congr 1
  apply List.map_congr_left
  intro e _
  simp only [ht, List.nil_append, List.append_nil, renderE]

/-- A tree built by insertions stores what `run` computes on the entries of the patterns. -/
theorem fold_entries_perm (ps : List Pattern) (hwf : ∀ p ∈ ps, p.port ≤ 65536) (t : Tree) (ht : Inv t) (S : List Entry)
    (hS : (entries t).Perm S) :
    (entries (ps.foldl Tree.insert t)).Perm (run S (ps.map entryOf)) := by
  induction ps generalizing t S with
  | nil => exact hS
  | cons p ps ih =>
    have hp : p.port ≤ 65536 := hwf p List.mem_cons_self
    have hpr : (0 : Int) ≤ (p.port : Int) ∧ (p.port : Int) ≤ 65536 := ⟨by omega, by omega⟩
    obtain ⟨hinv, _, _⟩ := insert_spec t ht (treeKey p).1 p.scheme p.port (treeKey p).2 hpr
    rw [List.foldl_cons, tree_insert_eq, List.map_cons]
    unfold run
    rw [List.foldl_cons]
    apply ih (fun q hq => hwf q (List.mem_cons_of_mem _ hq)) _ hinv
    exact (insert_exact t ht _ _ _ _ hpr).trans (absInsert_perm hS _)

/-- The pattern a string parses to (only used on strings that do parse). -/
def parseOr (ext : Ext) (x : Bytes) : Pattern :=
  match Pat.parsePattern ext x with
  | .ok p => p
  | .error _ => default

theorem parsed_map (ext : Ext) (L : List Bytes)
    (h : ∀ x ∈ L, x ≠ Validate.star ∧ ∃ p, Pat.parsePattern ext x = .ok p) :
    parsedPatterns ext L = L.map (parseOr ext) := by
  induction L with
  | nil => rfl
  | cons x xs ih =>
    obtain ⟨hs, p, hp⟩ := h x List.mem_cons_self
    have hs' : (x == Validate.star) = false := by simpa using hs
    unfold parsedPatterns at ih ⊢
    rw [List.filterMap_cons]
    simp only [hs', Bool.false_eq_true, if_false, hp, List.map_cons]
    rw [ih (fun y hy => h y (List.mem_cons_of_mem _ hy))]
    congr 1
    unfold parseOr; rw [hp]

/-- The tree built from a list of pattern strings. -/
def build (ext : Ext) (raws : List Bytes) : Tree := (parsedPatterns ext raws).foldl Tree.insert Node.empty

/-- **`Origins` is stable after one round trip.** Start from an acceptable list `raws`; let
`E1 = Elems(build raws)` (what the first `Config()` shows), `E2 = Elems(build E1)` (what `Config()`
shows after `Reconfigure(Config())`), `E3 = Elems(build E2)`.  Then `E3 = E2`: literally the same
list, whatever redundant patterns `raws` contained and in whatever order. -/
theorem origins_stable (ext : Ext) (hext : ∀ h info, ext.ip6 h = some info → h.head? ≠ some 42)
    (raws : List Bytes) :
    Tree.elems (build ext (Tree.elems (build ext (Tree.elems (build ext raws))))) =
      Tree.elems (build ext (Tree.elems (build ext raws))) := by
  -- the first tree and its stored entries
  have hwf0 : ∀ p ∈ parsedPatterns ext raws, p.WF := by
    intro p hp
    obtain ⟨raw, _, _, hpp⟩ := mem_parsed.mp hp
    exact C01_parsed ext hext raw p hpp
  have hsuf0 : (build ext raws).suf = [] := by unfold build; rw [fold_suf]; rfl
  -- every stored entry of the first tree renders to a listed string that parses back to it
  have hback : ∀ e ∈ entries (build ext raws),
      renderE e ≠ Validate.star ∧ ∃ p, Pat.parsePattern ext (renderE e) = .ok p ∧ entryOf p = e := by
    intro e he
    unfold build at he
    rcases fold_entries _ _ e he with h | ⟨p, hp, rfl⟩
    · rw [empty_entries] at h; cases h
    · obtain ⟨raw, hr, hs, hpp⟩ := mem_parsed.mp hp
      have hre : Pat.parsePattern ext (renderOf p) = .ok p := RenderIdem.parse_render ext (hwf0 p hp) hpp
      have hns : renderOf p ≠ Validate.star := by
        intro h0
        rw [h0] at hre
        have : Pat.parsePattern ext Validate.star = .error .prohibited := by
          unfold Pat.parsePattern
          rw [if_pos (by decide)]
        rw [this] at hre
        cases hre
      exact ⟨hns, p, hre, rfl⟩
  let g : Bytes → Entry := fun x => entryOf (parseOr ext x)
  have hg : ∀ e ∈ entries (build ext raws), g (renderE e) = e := by
    intro e he
    obtain ⟨_, p, hp, hpe⟩ := hback e he
    show entryOf (parseOr ext (renderE e)) = e
    unfold parseOr; rw [hp]; exact hpe
  -- a generic step: a list of rendered entries of the first tree, rebuilt
  have step : ∀ Z : List Entry, (∀ e ∈ Z, e ∈ entries (build ext raws)) →
      (build ext (Z.map renderE)).suf = [] ∧
      (entries (build ext (Z.map renderE))).Perm (run [] Z) := by
    intro Z hZ
    have hparse : ∀ x ∈ Z.map renderE, x ≠ Validate.star ∧ ∃ p, Pat.parsePattern ext x = .ok p := by
      intro x hx
      obtain ⟨e, he, rfl⟩ := List.mem_map.mp hx
      obtain ⟨h1, p, hp, _⟩ := hback e (hZ e he)
      exact ⟨h1, p, hp⟩
    have hwf : ∀ p ∈ parsedPatterns ext (Z.map renderE), p.port ≤ 65536 := by
      intro p hp
      obtain ⟨raw, _, _, hpp⟩ := mem_parsed.mp hp
      exact (C01_parsed ext hext raw p hpp).port
    have hents : (parsedPatterns ext (Z.map renderE)).map entryOf = Z := by
      rw [parsed_map ext _ hparse, List.map_map, List.map_map]
      conv => rhs; rw [← List.map_id Z]
      apply List.map_congr_left
      intro e he
      exact hg e (hZ e he)
    constructor
    · unfold build; rw [fold_suf]; rfl
    · have := fold_entries_perm (parsedPatterns ext (Z.map renderE)) hwf Node.empty Inv_empty [] (by rw [empty_entries])
      rw [hents] at this
      exact this
  -- E1
  have hE1 : Tree.elems (build ext raws) = sortBy Bytes.lt ((entries (build ext raws)).map renderE) :=
    tree_elems_eq _ hsuf0
  -- ents1: the entries in the order of E1
  let Z1 : List Entry := (Tree.elems (build ext raws)).map g
  have hZ1perm : Z1.Perm (entries (build ext raws)) := by
    show ((Tree.elems (build ext raws)).map g).Perm _
    rw [hE1]
    have h1 := (sortBy_perm ((entries (build ext raws)).map renderE)).map g
    refine h1.trans ?_
    rw [List.map_map]
    have : List.map (g ∘ renderE) (entries (build ext raws)) = List.map id (entries (build ext raws)) :=
      List.map_congr_left (fun e he => hg e he)
    rw [this, List.map_id]
  have hZ1mem : ∀ e ∈ Z1, e ∈ entries (build ext raws) := fun e he => hZ1perm.subset he
  have hZ1render : Z1.map renderE = Tree.elems (build ext raws) := by
    show ((Tree.elems (build ext raws)).map g).map renderE = _
    rw [List.map_map]
    conv => rhs; rw [← List.map_id (Tree.elems (build ext raws))]
    apply List.map_congr_left
    intro x hx
    rw [hE1] at hx
    have hx' := (sortBy_perm _).subset hx
    obtain ⟨e, he, rfl⟩ := List.mem_map.mp hx'
    show renderE (g (renderE e)) = renderE e
    rw [hg e he]
  have hE1sorted : SortedB (Z1.map renderE) := by rw [hZ1render, hE1]; exact sortBy_sortedB _
  -- the second tree
  obtain ⟨hsuf1, hperm1⟩ := step Z1 hZ1mem
  rw [hZ1render] at hsuf1 hperm1
  -- S1: what the second tree stores
  have hS1irr : Irr (run [] Z1) := run_irr Z1 [] List.Pairwise.nil
  have hS1sub : (run [] Z1).Sublist Z1.reverse := by
    have := run_sublist Z1 []
    rwa [List.append_nil] at this
  have hS1rev : (run [] Z1).reverse.Sublist Z1 := by
    have := hS1sub.reverse
    rwa [List.reverse_reverse] at this
  have hS1mem : ∀ e ∈ (run [] Z1).reverse, e ∈ entries (build ext raws) :=
    fun e he => hZ1mem e (hS1rev.subset he)
  -- E2 is the rendering of the survivors in their original order
  have hE2 : Tree.elems (build ext (Tree.elems (build ext raws))) = (run [] Z1).reverse.map renderE := by
    rw [tree_elems_eq _ hsuf1]
    apply sortBy_of_sorted
    · exact List.Pairwise.sublist (hS1rev.map renderE) hE1sorted
    · exact (hperm1.map renderE).trans ((List.reverse_perm _).symm.map renderE)
  -- the third tree stores the survivors again
  obtain ⟨hsuf2, hperm2⟩ := step (run [] Z1).reverse hS1mem
  rw [rerun _ hS1irr] at hperm2
  rw [hE2, tree_elems_eq _ hsuf2]
  apply sortBy_of_sorted
  · exact List.Pairwise.sublist (hS1rev.map renderE) hE1sorted
  · exact (hperm2.map renderE).trans ((List.reverse_perm _).symm.map renderE)

/-! ### The `Origins` field of `Config()` as a function of the `Origins` field of the input -/

open C06A CfgRT in
/-- What `Config()` shows as `Origins` for a configuration whose `Origins` field is `raws`. -/
def originsOf (ext : Ext) (cred pna tolI tolP : Bool) (raws : List Bytes) : List Bytes :=
  if (Validate.origins ext cred pna tolI tolP raws).2.isEmpty then [Validate.star]
  else Tree.elems (Validate.origins ext cred pna tolI tolP raws).2

/-- An acceptable `Origins` field. -/
structure Acceptable (ext : Ext) (cred pna tolI tolP : Bool) (raws : List Bytes) : Prop where
  ne : raws ≠ []
  clean : ∀ raw ∈ raws, rawErrs ext cred pna tolI tolP raw = []

theorem build_nonempty (ext : Ext) (raws : List Bytes) (p0 : Pattern) (h : p0 ∈ parsedPatterns ext raws) :
    Node.isEmpty (build ext raws) = false := by
  have key : ∀ (ps : List Pattern) (t : Tree), ps ≠ [] → Node.isEmpty (ps.foldl Tree.insert t) = false := by
    intro ps
    induction ps with
    | nil => intro _ h; exact absurd rfl h
    | cons p ps ih =>
      intro t _
      rw [List.foldl_cons]
      cases ps with
      | nil => exact tree_insert_nonempty t p
      | cons q qs => exact ih _ (by simp)
  exact key _ _ (fun hh => by rw [hh] at h; cases h)

open C06A CfgRT in
theorem originsOf_star (ext : Ext) (cred pna tolI tolP : Bool) (raws : List Bytes) (hne : raws ≠ [])
    (hs : raws.contains Validate.star = true) : originsOf ext cred pna tolI tolP raws = [Validate.star] := by
  unfold originsOf
  rw [origins_eq ext cred pna tolI tolP raws hne]
  simp only [hs, if_true]
  rfl

open C06A CfgRT in
/-- Without `*`: `Config()` shows the sorted rendering of the tree, and that list is acceptable again. -/
theorem originsOf_plain (ext : Ext) (hext : ∀ h info, ext.ip6 h = some info → h.head? ≠ some 42)
    (cred pna tolI tolP : Bool) (raws : List Bytes) (h : Acceptable ext cred pna tolI tolP raws)
    (hs : raws.contains Validate.star = false) :
    originsOf ext cred pna tolI tolP raws = Tree.elems (build ext raws) ∧
    Acceptable ext cred pna tolI tolP (Tree.elems (build ext raws)) ∧
    (Tree.elems (build ext raws)).contains Validate.star = false := by
  have hok : OriginsOK ext cred pna tolI tolP raws := ⟨h.ne, hs, h.clean⟩
  obtain ⟨hsub, hne', _⟩ := origins_roundtrip ext hext cred pna tolI tolP raws hok
  obtain ⟨raw0, hraw0⟩ : ∃ raw0, raw0 ∈ raws := by
    cases hr : raws with
    | nil => exact absurd hr h.ne
    | cons a _ => exact ⟨a, List.mem_cons_self⟩
  obtain ⟨hs0, p0, hp0⟩ := ok_parses hok hraw0
  have hnotEmpty := build_nonempty ext raws p0 (mem_parsed.mpr ⟨raw0, hraw0, hs0, hp0⟩)
  refine ⟨?_, ⟨hne', fun raw hr => (hsub raw hr).2.1⟩, ?_⟩
  · unfold originsOf
    rw [origins_eq ext cred pna tolI tolP raws h.ne]
    simp only [hs, Bool.false_eq_true, if_false]
    unfold build at hnotEmpty
    rw [hnotEmpty]
    rfl
  · cases hc : (Tree.elems (build ext raws)).contains Validate.star with
    | false => rfl
    | true => exact absurd rfl (hsub _ (List.contains_iff_mem.mp hc)).1

/-- What `Config()` shows is acceptable again. -/
theorem originsOf_acceptable (ext : Ext) (hext : ∀ h info, ext.ip6 h = some info → h.head? ≠ some 42)
    (cred pna tolI tolP : Bool) (raws : List Bytes) (h : Acceptable ext cred pna tolI tolP raws) :
    Acceptable ext cred pna tolI tolP (originsOf ext cred pna tolI tolP raws) := by
  cases hs : raws.contains Validate.star with
  | true =>
    rw [originsOf_star ext cred pna tolI tolP raws h.ne hs]
    refine ⟨by simp, ?_⟩
    intro raw hr
    have : raw = Validate.star := by simpa using hr
    subst this
    exact h.clean _ (List.contains_iff_mem.mp hs)
  | false =>
    obtain ⟨e1, a1, _⟩ := originsOf_plain ext hext cred pna tolI tolP raws h hs
    rw [e1]; exact a1

/-- **`Config().Origins` no longer changes after one round trip.** -/
theorem originsOf_stable (ext : Ext) (hext : ∀ h info, ext.ip6 h = some info → h.head? ≠ some 42)
    (cred pna tolI tolP : Bool) (raws : List Bytes) (h : Acceptable ext cred pna tolI tolP raws) :
    originsOf ext cred pna tolI tolP (originsOf ext cred pna tolI tolP (originsOf ext cred pna tolI tolP raws)) =
      originsOf ext cred pna tolI tolP (originsOf ext cred pna tolI tolP raws) := by
  cases hs : raws.contains Validate.star with
  | true =>
    rw [originsOf_star ext cred pna tolI tolP raws h.ne hs]
    have h1 : originsOf ext cred pna tolI tolP [Validate.star] = [Validate.star] :=
      originsOf_star ext cred pna tolI tolP _ (by simp) (by simp)
    rw [h1, h1]
  | false =>
    obtain ⟨e1, a1, s1⟩ := originsOf_plain ext hext cred pna tolI tolP raws h hs
    obtain ⟨e2, a2, s2⟩ := originsOf_plain ext hext cred pna tolI tolP _ a1 s1
    obtain ⟨e3, _, _⟩ := originsOf_plain ext hext cred pna tolI tolP _ a2 s2
    rw [e1, e2, e3]
    exact origins_stable ext hext raws

end TreeRT
end Cors
