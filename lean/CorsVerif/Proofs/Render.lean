import CorsVerif.Proofs.Pattern
import CorsVerif.Proofs.Elems
/-
  Rendering is the inverse of parsing: `strconv.Itoa` against the port / max-age digit readers,
  and `node.elems`' rendering of an entry against `ParsePattern`.
-/
namespace Cors
open Gen

namespace Bytes

/-- Value of a string of decimal digits. -/
def digitsValue (ds : Bytes) : Nat := ds.foldl (fun acc c => 10 * acc + (c - 48)) 0

theorem itoaAux_spec (n : Nat) : ∀ fuel, n < fuel → ∀ acc, itoaAux fuel n acc = itoaAux (n + 1) n [] ++ acc := by
  induction n using Nat.strongRecOn with
  | _ n ih =>
    intro fuel hf acc
    cases fuel with
    | zero => omega
    | succ f =>
      by_cases h10 : n < 10
      · simp [itoaAux, h10]
      · simp only [itoaAux, h10, if_false]
        have hlt : n / 10 < n := by omega
        rw [ih (n / 10) hlt f (by omega) _, ih (n / 10) hlt n (by omega) [48 + n % 10]]
        simp

theorem itoa_lt10 {n : Nat} (h : n < 10) : itoa n = [48 + n] := by
  simp [itoa, itoaAux, h]

theorem itoa_ge10 {n : Nat} (h : 10 ≤ n) : itoa n = itoa (n / 10) ++ [48 + n % 10] := by
  have h10 : ¬ n < 10 := by omega
  have e : itoa n = itoaAux n (n / 10) [48 + n % 10] := by
    show itoaAux (n + 1) n [] = _
    simp only [itoaAux, h10, if_false]
  rw [e, itoaAux_spec (n / 10) n (by omega) [48 + n % 10]]
  rfl

theorem digitsValue_snoc (ds : Bytes) (c : Nat) : digitsValue (ds ++ [c]) = 10 * digitsValue ds + (c - 48) := by
  simp [digitsValue, List.foldl_append]

/-- A non-empty digit string without a leading zero is the `Itoa` of its value. -/
theorem itoa_digitsValue_rev (r : Bytes) (hd : r.reverse.all isDigitB = true) (hne : r ≠ [])
    (hnz : r.reverse.head? ≠ some 48) : itoa (digitsValue r.reverse) = r.reverse ∧ 1 ≤ digitsValue r.reverse := by
  induction r with
  | nil => exact absurd rfl hne
  | cons c init ih =>
    simp only [List.reverse_cons] at hd hnz ⊢
    simp only [List.all_append, List.all_cons, List.all_nil, Bool.and_true, Bool.and_eq_true] at hd
    have hc : 48 ≤ c ∧ c ≤ 57 := by
      simpa [isDigitB] using hd.2
    rw [digitsValue_snoc]
    cases hinit : init with
    | nil =>
      rw [hinit] at hnz
      simp only [List.reverse_nil, List.nil_append, List.head?_cons, ne_eq, Option.some.injEq] at hnz
      have : digitsValue [] = 0 := rfl
      simp only [List.reverse_nil, this, Nat.mul_zero, Nat.zero_add, List.nil_append]
      refine ⟨?_, by omega⟩
      rw [itoa_lt10 (by omega)]
      congr 1; omega
    | cons a t =>
      have hne' : init ≠ [] := by rw [hinit]; simp
      have hnz' : init.reverse.head? ≠ some 48 := by
        cases hr : init.reverse with
        | nil => simp
        | cons x xs => rw [hr] at hnz; simpa using hnz
      obtain ⟨ih1, ih2⟩ := ih hd.1 hne' hnz'
      rw [← hinit]
      refine ⟨?_, by omega⟩
      rw [itoa_ge10 (by omega)]
      have h1 : (10 * digitsValue init.reverse + (c - 48)) / 10 = digitsValue init.reverse := by omega
      have h2 : (10 * digitsValue init.reverse + (c - 48)) % 10 = c - 48 := by omega
      rw [h1, h2, ih1]
      congr 2; omega

theorem itoa_digitsValue (ds : Bytes) (hd : ds.all isDigitB = true) (hne : ds ≠ [])
    (hnz : ds.head? ≠ some 48) : itoa (digitsValue ds) = ds ∧ 1 ≤ digitsValue ds := by
  have := itoa_digitsValue_rev ds.reverse (by simpa using hd) (by simpa using hne) (by simpa using hnz)
  simpa using this

/-- `Itoa` yields digits whose value is the number. -/
theorem digitsValue_itoa (n : Nat) : digitsValue (itoa n) = n ∧ (itoa n).all isDigitB = true ∧ itoa n ≠ [] := by
  induction n using Nat.strongRecOn with
  | _ n ih =>
    by_cases h10 : n < 10
    · rw [itoa_lt10 h10]
      refine ⟨by simp [digitsValue], ?_, by simp⟩
      simp [isDigitB]; omega
    · have h : 10 ≤ n := by omega
      rw [itoa_ge10 h]
      obtain ⟨i1, i2, i3⟩ := ih (n / 10) (by omega)
      refine ⟨?_, ?_, by simp⟩
      · rw [digitsValue_snoc, i1]; omega
      · simp only [List.all_append, i2, List.all_cons, List.all_nil, Bool.and_true, Bool.true_and]
        simp [isDigitB]; omega

theorem atoi_itoa (n : Nat) : atoi (itoa n) = some n := by
  obtain ⟨h1, h2, h3⟩ := digitsValue_itoa n
  unfold atoi
  have hemp : (itoa n).isEmpty = false := by
    cases h : itoa n with
    | nil => exact absurd h h3
    | cons _ _ => rfl
  rw [hemp]
  simp only [Bool.false_eq_true, if_false]
  -- the option-valued fold agrees with the plain fold on digit strings
  have key : ∀ (ds : Bytes) (acc : Nat), ds.all isDigitB = true →
      ds.foldl (fun acc c => match acc with
        | none => none
        | some v => if isDigitB c then some (10 * v + (c - 48)) else none) (some acc) =
      some (ds.foldl (fun acc c => 10 * acc + (c - 48)) acc) := by
    intro ds
    induction ds with
    | nil => intro acc _; rfl
    | cons d t ih =>
      intro acc hd
      simp only [List.all_cons, Bool.and_eq_true] at hd
      simp only [List.foldl_cons, hd.1, if_true]
      exact ih _ hd.2
  exact Eq.trans (key (itoa n) 0 h2) (congrArg some h1)

end Bytes
end Cors
