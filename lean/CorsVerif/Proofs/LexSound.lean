import CorsVerif.Proofs.LexOrigins
import CorsVerif.Proofs.RoundTrip
/-
  The converse direction for the request-side lexer: it reads nothing but serialisations.
-/
namespace Cors
open Gen Spec Pat
namespace Accept

open RoundTrip in
/-- **The request-side lexer reads nothing but serialisations.** Whatever `Parse` accepts is
`scheme://host` or `scheme://host:port` (host in brackets or not) of the origin it returns, the port
being the decimal numeral of a number 1-65535. -/
theorem parse_serialised {s : Bytes} {o : Origin} (h : Lex.parse s = some o) :
    ∃ hostStr portS, s = o.scheme ++ [58, 47, 47] ++ hostStr ++ portS ∧
      (hostStr = o.host.value ∨ hostStr = 91 :: o.host.value ++ [93]) ∧
      ((portS = [] ∧ o.port = 0) ∨ (portS = 58 :: Bytes.itoa o.port ∧ 1 ≤ o.port ∧ o.port ≤ 65535)) := by
  unfold Lex.parse at h
  split at h
  · cases h
  · cases hps : Lex.parseScheme s with
    | none => simp [hps] at h
    | some x =>
      obtain ⟨scheme, r1⟩ := x
      simp only [hps] at h
      have hs1 := (parseScheme_append hps).1
      cases hcp : Bytes.cutPrefix r1 Facts.origins_schemeHostSep with
      | none => simp [hcp] at h
      | some r2 =>
        simp only [hcp] at h
        have hs2 := cutPrefix_some hcp
        cases hfp : Lex.fastParseHost r2 with
        | none => simp [hfp] at h
        | some y =>
          obtain ⟨host, r3⟩ := y
          simp only [hfp] at h
          have hhost : ∃ hostStr, r2 = hostStr ++ r3 ∧ (hostStr = host.value ∨ hostStr = 91 :: host.value ++ [93]) := by
            rcases fastParseHost_cases hfp with ⟨h1, _⟩ | ⟨h1, _, _⟩
            · exact ⟨91 :: host.value ++ [93], by rw [h1]; simp, Or.inr rfl⟩
            · exact ⟨host.value, h1, Or.inl rfl⟩
          obtain ⟨hostStr, hr2, hform⟩ := hhost
          have hsep : Facts.origins_schemeHostSep = [58, 47, 47] := rfl
          split at h
          · rename_i hempty
            have hr3 : r3 = [] := by cases r3 with | nil => rfl | cons _ _ => simp at hempty
            simp only [Option.some.injEq] at h
            subst h
            refine ⟨hostStr, [], ?_, hform, Or.inl ⟨rfl, rfl⟩⟩
            rw [hs1, hs2, hr2, hr3, hsep]; simp
          · cases hcp2 : Bytes.cutPrefix r3 [Facts.origins_hostPortSep] with
            | none => simp [hcp2] at h
            | some r4 =>
              simp only [hcp2] at h
              have hs3 := cutPrefix_some hcp2
              cases hpp : Lex.parsePort r4 with
              | none => simp [hpp] at h
              | some z =>
                obtain ⟨port, rest⟩ := z
                simp only [hpp] at h
                split at h
                · cases h
                · rename_i hrest
                  have hrest' : rest = [] := by cases rest with | nil => rfl | cons _ _ => simp at hrest
                  subst hrest'
                  simp only [Option.some.injEq] at h
                  subst h
                  obtain ⟨hds, h1, h2⟩ := parsePort_inv hpp
                  refine ⟨hostStr, 58 :: Bytes.itoa port, ?_, hform, Or.inr ⟨rfl, h1, h2⟩⟩
                  rw [hs1, hs2, hr2, hs3, hds, hsep]
                  simp [Facts.origins_hostPortSep]

end Accept
end Cors
