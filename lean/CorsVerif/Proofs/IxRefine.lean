import CorsVerif.Model.Ix
import CorsVerif.Proofs.Pattern
import CorsVerif.Proofs.Tree
import CorsVerif.Proofs.ACRH
/-
  Refinement: the index-level programs of Model/Ix.lean return `.ok` of what the list-level model
  returns, for every input.  `.ok` means: no index or slice expression was out of range and every
  loop ended within its fuel.
-/
namespace Cors
open Gen Node
namespace Ix

theorem idx_append (pre : Bytes) (c : Nat) (s : Bytes) (i : Int) (h : i = pre.length) : idx (pre ++ c :: s) i = .ok c := by
  subst h
  unfold idx len
  rw [if_pos (by simp only [List.length_append, List.length_cons]; omega)]
  simp

theorem idx_zero (b : Nat) (t : Bytes) : idx (b :: t) 0 = .ok b := idx_append [] b t 0 rfl

theorem slice_mid (a b c : Bytes) (lo hi : Int) (hlo : lo = a.length) (hhi : hi = a.length + b.length) :
    slice (a ++ b ++ c) lo hi = .ok b := by
  subst hlo hhi
  unfold slice len
  rw [if_pos (by simp only [List.length_append]; omega)]
  have : ((a.length : Int) + (b.length : Int)).toNat = a.length + b.length := by omega
  rw [this]
  simp only [Int.toNat_natCast]
  rw [List.take_left' (by simp), List.drop_left]

theorem sliceTo_append (a b : Bytes) (i : Int) (h : i = a.length) : sliceTo (a ++ b) i = .ok a := by
  have := slice_mid [] a b 0 i rfl (by simp [h])
  simpa [sliceTo] using this

theorem sliceFrom_append (a b : Bytes) (i : Int) (h : i = a.length) : sliceFrom (a ++ b) i = .ok b := by
  have := slice_mid a b [] i (len (a ++ b)) h (by simp [len])
  simpa [sliceFrom] using this

theorem schemeLoop_spec (s : Bytes) : ∀ (pre : Bytes) (n fuel : Nat) (i e : Int), n ≤ s.length → s.length < fuel →
    i = pre.length → e = pre.length + n →
    schemeLoop (pre ++ s) e fuel i
      = .ok ((pre.length + (Lex.spanUpTo Lex.isSubsequentSchemeByte n s).1.length : Nat) : Int) := by
  induction s with
  | nil =>
    intro pre n fuel i e hn hf hi he
    cases fuel with
    | zero => omega
    | succ fuel =>
      have : n = 0 := by simpa using hn
      subst this
      simp only [schemeLoop, Lex.spanUpTo]
      rw [if_neg (by omega)]
      simp [hi, pure, Except.pure]
  | cons b t ih =>
    intro pre n fuel i e hn hf hi he
    cases fuel with
    | zero => omega
    | succ fuel =>
      cases n with
      | zero =>
        simp only [schemeLoop, Lex.spanUpTo]
        rw [if_neg (by omega)]
        simp [hi, pure, Except.pure]
      | succ n =>
        simp only [schemeLoop, Lex.spanUpTo]
        rw [if_pos (by omega), idx_append pre b t i hi]
        simp only [bind, Except.bind]
        by_cases hp : Lex.isSubsequentSchemeByte b = true
        · simp only [hp, Bool.not_true, Bool.false_eq_true, if_false, if_true]
          have := ih (pre ++ [b]) n fuel (i + 1) e (by simpa using hn) (by simpa using hf) (by simp [hi]) (by simp [he]; omega)
          rw [List.append_assoc] at this
          simp only [List.singleton_append] at this
          rw [this]
          cases hsp : Lex.spanUpTo Lex.isSubsequentSchemeByte n t with
          | mk l r => simp; omega
        · simp only [hp, Bool.not_false, if_true]
          simp [hi, pure, Except.pure]

theorem spanUpTo_min (p : Nat → Bool) (n : Nat) (s : Bytes) : Lex.spanUpTo p (min n s.length) s = Lex.spanUpTo p n s := by
  induction n generalizing s with
  | zero => simp [Lex.spanUpTo]
  | succ n ih =>
    cases s with
    | nil => simp [Lex.spanUpTo]
    | cons b t =>
      have : min (n + 1) (b :: t).length = min n t.length + 1 := by simp only [List.length_cons]; omega
      rw [this]
      simp only [Lex.spanUpTo, ih t]

/-- **Refinement.** The index-level `parseScheme` never goes out of range and computes what the list-level model computes. -/
theorem parseScheme_refines (str : Bytes) : parseScheme str = .ok (Lex.parseScheme str) := by
  cases str with
  | nil => rfl
  | cons b t =>
    unfold parseScheme Lex.parseScheme
    have hlen : (len (b :: t) == 0) = false := by simp [len]; omega
    simp only [hlen, Bool.false_eq_true, if_false]
    rw [idx_zero]
    simp only [bind, Except.bind]
    by_cases hp : Lex.isLowerAlpha b = true
    · simp only [hp, Bool.not_true, Bool.false_eq_true, if_false]
      have hmin : min (Facts.origins_maxSchemeLen : Int) (len (b :: t)) = (([b] : Bytes).length : Int) + ((min (Facts.origins_maxSchemeLen - 1) t.length : Nat) : Int) := by
        simp [len, Facts.origins_maxSchemeLen]; omega
      have := schemeLoop_spec t [b] (min (Facts.origins_maxSchemeLen - 1) t.length) ((b :: t).length + 1) 1 _ (Nat.min_le_right _ _) (by simp only [List.length_cons]; omega) rfl hmin
      simp only [List.singleton_append] at this
      rw [this]
      rw [spanUpTo_min]
      have happ := spanUpTo_append Lex.isSubsequentSchemeByte (Facts.origins_maxSchemeLen - 1) t
      cases hsp : Lex.spanUpTo Lex.isSubsequentSchemeByte (Facts.origins_maxSchemeLen - 1) t with
      | mk l r =>
        rw [hsp] at happ
        simp only [] at happ
        subst happ
        have e1 : (b :: (l ++ r)) = (b :: l) ++ r := rfl
        rw [e1]
        simp only []
        rw [sliceTo_append (b :: l) r _ (by simp only [List.length_cons, List.length_nil]; omega)]
        simp only []
        rw [sliceFrom_append (b :: l) r _ (by simp only [List.length_cons, List.length_nil]; omega)]
        rfl
    · simp only [hp, Bool.not_false, if_true]
      rfl

theorem portLoop_suffix (n : Nat) (s : Bytes) (acc : Nat) : ∃ l, s = l ++ (Lex.portLoop n s acc).2 := by
  induction n generalizing s acc with
  | zero => exact ⟨[], by simp [Lex.portLoop]⟩
  | succ n ih =>
    cases s with
    | nil => exact ⟨[], by simp [Lex.portLoop]⟩
    | cons b t =>
      simp only [Lex.portLoop]
      split
      · obtain ⟨l, hl⟩ := ih t (Facts.origins_parsePort_base * acc + (b - 48))
        exact ⟨b :: l, by simp only [List.cons_append]; rw [← hl]⟩
      · exact ⟨[], rfl⟩

theorem portLoop_min (n : Nat) (s : Bytes) (acc : Nat) : Lex.portLoop (min n s.length) s acc = Lex.portLoop n s acc := by
  induction n generalizing s acc with
  | zero => simp [Lex.portLoop]
  | succ n ih =>
    cases s with
    | nil => simp [Lex.portLoop]
    | cons b t =>
      have : min (n + 1) (b :: t).length = min n t.length + 1 := by simp only [List.length_cons]; omega
      rw [this]
      simp only [Lex.portLoop, ih t]

theorem portLoop_spec (s : Bytes) : ∀ (pre : Bytes) (n fuel : Nat) (i e : Int) (acc : Nat), n ≤ s.length → s.length < fuel →
    i = pre.length → e = pre.length + n →
    portLoop (pre ++ s) e fuel i acc
      = .ok ((((pre ++ s).length - (Lex.portLoop n s acc).2.length : Nat) : Int), (Lex.portLoop n s acc).1) := by
  induction s with
  | nil =>
    intro pre n fuel i e acc hn hf hi he
    cases fuel with
    | zero => omega
    | succ fuel =>
      have : n = 0 := by simpa using hn
      subst this
      simp only [portLoop, Lex.portLoop]
      rw [if_neg (by omega)]
      simp [hi, pure, Except.pure]
  | cons b t ih =>
    intro pre n fuel i e acc hn hf hi he
    cases fuel with
    | zero => omega
    | succ fuel =>
      cases n with
      | zero =>
        simp only [portLoop, Lex.portLoop]
        rw [if_neg (by omega)]
        simp [hi, pure, Except.pure]
      | succ n =>
        simp only [portLoop, Lex.portLoop]
        rw [if_pos (by omega), idx_append pre b t i hi]
        simp only [bind, Except.bind]
        by_cases hp : Lex.isDigit b = true
        · simp only [hp, Bool.not_true, Bool.false_eq_true, if_false, if_true]
          have := ih (pre ++ [b]) n fuel (i + 1) e (Facts.origins_parsePort_base * acc + (b - 48)) (by simpa using hn) (by simpa using hf) (by simp [hi]) (by simp [he]; omega)
          rw [List.append_assoc] at this
          simp only [List.singleton_append] at this
          rw [this]
        · simp only [hp, Bool.not_false, if_true]
          simp [hi, pure, Except.pure]

/-- **Refinement.** The index-level `parsePort`. -/
theorem parsePort_refines (str : Bytes) : parsePort str = .ok (Lex.parsePort str) := by
  cases str with
  | nil => rfl
  | cons b t =>
    unfold parsePort Lex.parsePort
    have hlen : (len (b :: t) == 0) = false := by simp [len]; omega
    simp only [hlen, Bool.false_eq_true, if_false]
    rw [idx_zero]
    simp only [bind, Except.bind]
    by_cases hp : Lex.isNonZeroDigit b = true
    · simp only [hp, Bool.not_true, Bool.false_eq_true, if_false]
      -- the hoisted bounds check `_ = str[1:end]`
      have hend : min (len (b :: t)) (Facts.origins_maxPortLen : Int) = (([b] : Bytes).length : Int) + ((min (Facts.origins_maxPortLen - 1) t.length : Nat) : Int) := by
        simp [len, Facts.origins_maxPortLen]; omega
      have hhoist : ∃ v, slice (b :: t) 1 (min (len (b :: t)) (Facts.origins_maxPortLen : Int)) = .ok v := by
        unfold slice
        rw [if_pos (by rw [hend]; simp [len]; omega)]
        exact ⟨_, rfl⟩
      obtain ⟨v, hv⟩ := hhoist
      rw [hv]
      simp only []
      have := portLoop_spec t [b] (min (Facts.origins_maxPortLen - 1) t.length) ((b :: t).length + 1) 1 _ (b - 48) (Nat.min_le_right _ _) (by simp only [List.length_cons]; omega) rfl hend
      simp only [List.singleton_append] at this
      rw [this, portLoop_min]
      simp only []
      obtain ⟨l, hl⟩ := portLoop_suffix (Facts.origins_maxPortLen - 1) t (b - 48)
      cases hpl : Lex.portLoop (Facts.origins_maxPortLen - 1) t (b - 48) with
      | mk port rest =>
        rw [hpl] at hl
        simp only [] at hl
        subst hl
        simp only []
        by_cases hmax : Facts.origins_maxUint16 < port
        · simp only [hmax, if_true]; rfl
        · simp only [hmax, if_false]
          have e1 : (b :: (l ++ rest)) = (b :: l) ++ rest := rfl
          rw [e1, sliceFrom_append (b :: l) rest _ (by simp only [List.length_cons, List.length_append]; omega)]
          rfl
    · simp only [hp, Bool.not_false, if_true]
      rfl

theorem indexByte_none {c : Nat} {s : Bytes} (h : Bytes.cutAt c s = none) : indexByte c s = -1 := by
  induction s with
  | nil => rfl
  | cons a t ih =>
    simp only [Bytes.cutAt] at h
    split at h
    · cases h
    · rename_i hac
      cases hc : Bytes.cutAt c t with
      | none =>
        simp only [indexByte, hac, ih hc]
        rfl
      | some p => simp [hc] at h

theorem indexByte_nonneg (c : Nat) (s : Bytes) : indexByte c s = -1 ∨ 0 ≤ indexByte c s := by
  induction s with
  | nil => exact Or.inl rfl
  | cons a t ih =>
    simp only [indexByte]
    split
    · exact Or.inr (by omega)
    · rcases ih with h | h
      · left; simp [h]
      · right
        have : (indexByte c t == -1) = false := by
          rw [beq_eq_false_iff_ne]; omega
        simp only [this]; simp; omega

theorem indexByte_some {c : Nat} {s before after : Bytes} (h : Bytes.cutAt c s = some (before, after)) :
    indexByte c s = before.length ∧ s = before ++ c :: after := by
  induction s generalizing before with
  | nil => simp [Bytes.cutAt] at h
  | cons a t ih =>
    simp only [Bytes.cutAt] at h
    split at h
    · rename_i hac
      simp only [Option.some.injEq, Prod.mk.injEq] at h
      obtain ⟨rfl, rfl⟩ := h
      have : a = c := by simpa using hac
      subst this
      simp [indexByte]
    · rename_i hac
      cases hc : Bytes.cutAt c t with
      | none => simp [hc] at h
      | some p =>
        obtain ⟨l, r⟩ := p
        simp only [hc, Option.some.injEq, Prod.mk.injEq] at h
        obtain ⟨rfl, rfl⟩ := h
        obtain ⟨h1, h2⟩ := ih hc
        refine ⟨?_, by rw [h2]; rfl⟩
        simp only [indexByte, hac, h1]
        have : ((l.length : Int) == -1) = false := by rw [beq_eq_false_iff_ne]; omega
        simp only [this]
        simp

/-- One iteration that consumes the byte `b`: the conclusion for `b :: t` from the conclusion for `t`. -/
theorem hostLoop_step (pre t : Bytes) (b : Nat) (fuel : Nat) (ps2 ip2 : Bool) (i : Int) (hi : i = pre.length)
    (ih : (Lex.hostLoop t ps2 ip2 false = none → hostLoop ((pre ++ [b]) ++ t) fuel { prevSep := ps2, ip := ip2, i := i + 1 } = .ok none) ∧
      (∀ h r ip', Lex.hostLoop t ps2 ip2 false = some (h, r, ip') →
        ∃ ps', hostLoop ((pre ++ [b]) ++ t) fuel { prevSep := ps2, ip := ip2, i := i + 1 } = .ok (some { prevSep := ps', ip := ip', i := (((pre ++ [b]).length + h.length : Nat) : Int) }))) :
    (((Lex.hostLoop t ps2 ip2 false).map fun (h, r, ip') => (b :: h, r, ip')) = none →
        hostLoop ((pre ++ [b]) ++ t) fuel { prevSep := ps2, ip := ip2, i := i + 1 } = .ok none) ∧
    (∀ h r ip', ((Lex.hostLoop t ps2 ip2 false).map fun (h, r, ip') => (b :: h, r, ip')) = some (h, r, ip') →
        ∃ ps', hostLoop ((pre ++ [b]) ++ t) fuel { prevSep := ps2, ip := ip2, i := i + 1 } = .ok (some { prevSep := ps', ip := ip', i := ((pre.length + h.length : Nat) : Int) })) := by
  obtain ⟨ih1, ih2⟩ := ih
  constructor
  · intro hn
    apply ih1
    cases hr : Lex.hostLoop t ps2 ip2 false with
    | none => rfl
    | some x => simp [hr] at hn
  · intro h r ip' hl
    cases hr : Lex.hostLoop t ps2 ip2 false with
    | none => simp [hr] at hl
    | some x =>
      obtain ⟨h2, r2, ip2'⟩ := x
      simp only [hr, Option.map_some, Option.some.injEq, Prod.mk.injEq] at hl
      obtain ⟨rfl, rfl, rfl⟩ := hl
      obtain ⟨ps', hh⟩ := ih2 h2 r2 ip2' hr
      refine ⟨ps', ?_⟩
      rw [hh]
      simp only [List.length_append, List.length_cons, List.length_nil]
      congr 3
      omega

theorem hostLoop_spec (s : Bytes) : ∀ (pre : Bytes) (fuel : Nat) (ps ip first : Bool) (i : Int), s.length < fuel →
    i = pre.length → first = (pre.length == 0) →
    (Lex.hostLoop s ps ip first = none → hostLoop (pre ++ s) fuel { prevSep := ps, ip := ip, i := i } = .ok none) ∧
    (∀ h r ip', Lex.hostLoop s ps ip first = some (h, r, ip') →
      ∃ ps', hostLoop (pre ++ s) fuel { prevSep := ps, ip := ip, i := i } = .ok (some { prevSep := ps', ip := ip', i := ((pre.length + h.length : Nat) : Int) })) := by
  induction s with
  | nil =>
    intro pre fuel ps ip first i hf hi hfirst
    cases fuel with
    | zero => omega
    | succ fuel =>
      refine ⟨by simp [Lex.hostLoop], ?_⟩
      intro h r ip' hl
      simp only [Lex.hostLoop, Option.some.injEq, Prod.mk.injEq] at hl
      obtain ⟨rfl, rfl, rfl⟩ := hl
      refine ⟨ps, ?_⟩
      simp only [hostLoop]
      rw [if_neg (by simp [len, hi])]
      simp [hi, pure, Except.pure]
  | cons b t ih =>
    intro pre fuel ps ip first i hf hi hfirst
    cases fuel with
    | zero => omega
    | succ fuel =>
      have hlt : i < len (pre ++ b :: t) := by simp [len, hi]; omega
      have hcons : pre ++ b :: t = (pre ++ [b]) ++ t := by simp
      have hi0 : (i == 0) = first := by
        rw [hfirst, hi]
        cases pre <;> simp
        omega
      simp only [hostLoop, Lex.hostLoop]
      rw [if_pos hlt, idx_append pre b t i hi]
      simp only [bind, Except.bind]
      by_cases hsep : (b == Facts.origins_labelSep) = true
      · simp only [hsep, if_true]
        by_cases hps : ps = true
        · subst hps
          simp only [if_true]
          exact ⟨fun _ => rfl, by intro h r ip' hl; cases hl⟩
        · have hps' : ps = false := by simpa using hps
          subst hps'
          simp only [Bool.false_eq_true, if_false]
          rw [hcons]
          exact hostLoop_step pre t b fuel true ip i hi (ih (pre ++ [b]) fuel true ip false (i + 1) (by simpa using hf) (by simp [hi]) (by simp))
      · simp only [hsep, Bool.false_eq_true, if_false]
        by_cases hdig : Lex.isDigit b = true
        · simp only [hdig, if_true, hi0]
          rw [hcons]
          exact hostLoop_step pre t b fuel false _ i hi (ih (pre ++ [b]) fuel false _ false (i + 1) (by simpa using hf) (by simp [hi]) (by simp))
        · simp only [hdig, Bool.false_eq_true, if_false]
          by_cases hlab : Lex.isASCIILabelByte b = true
          · simp only [hlab, if_true]
            rw [hcons]
            exact hostLoop_step pre t b fuel false _ i hi (ih (pre ++ [b]) fuel false _ false (i + 1) (by simpa using hf) (by simp [hi]) (by simp))
          · simp only [hlab, Bool.false_eq_true, if_false]
            refine ⟨(by intro h; cases h), ?_⟩
            intro h r ip' hl
            simp only [Option.some.injEq, Prod.mk.injEq] at hl
            obtain ⟨rfl, rfl, rfl⟩ := hl
            exact ⟨ps, by simp [hi, pure, Except.pure]⟩


/-- The non-bracket part of `fastParseHost`. -/
theorem hostPlain_refines (b : Nat) (t : Bytes) :
    hostPlain (b :: t) = .ok (if b == Facts.origins_labelSep then none
      else match Lex.hostLoop (b :: t) false false true with
        | none => none
        | some (h, r, ip) => some ({ value := h, assumeIP := ip }, r)) := by
  unfold hostPlain
  have hlen : (len (b :: t) == 0) = false := by simp [len]; omega
  simp only [hlen, Bool.false_eq_true, if_false]
  rw [idx_zero]
  simp only [bind, Except.bind]
  by_cases hsep : (b == Facts.origins_labelSep) = true
  · simp only [hsep, if_true]; rfl
  · simp only [hsep, Bool.false_eq_true, if_false]
    obtain ⟨h1, h2⟩ := hostLoop_spec (b :: t) [] ((b :: t).length + 1) false false true 0 (by omega) rfl rfl
    simp only [List.nil_append] at h1 h2
    cases hl : Lex.hostLoop (b :: t) false false true with
    | none => rw [h1 hl]; rfl
    | some x =>
      obtain ⟨h, r, ip'⟩ := x
      obtain ⟨ps', hh⟩ := h2 h r ip' hl
      rw [hh]
      simp only []
      have happ := hostLoop_append hl
      rw [happ, sliceTo_append h r _ (by simp), sliceFrom_append h r _ (by simp)]
      rfl


/-- **Refinement.** The index-level `fastParseHost`. -/
theorem fastParseHost_refines (str : Bytes) : fastParseHost str = .ok (Lex.fastParseHost str) := by
  cases str with
  | nil => rfl
  | cons b t =>
    unfold fastParseHost Lex.fastParseHost
    by_cases hlen : (b :: t).length ≥ Facts.origins_fastParseHost_minIPv6HostLen
    · have hlen' : len (b :: t) ≥ (Facts.origins_fastParseHost_minIPv6HostLen : Int) := by unfold len; omega
      rw [if_pos hlen', idx_zero]
      simp only [bind, Except.bind, pure, Except.pure]
      by_cases hb : b = 91
      · subst hb
        have hc : ((91 :: t).length ≥ Facts.origins_fastParseHost_minIPv6HostLen && (91 :: t : Bytes).head? == some 91) = true := by
          simp only [List.head?_cons, beq_self_eq_true, Bool.and_true, decide_eq_true_eq]; exact hlen
        rw [if_pos hc]
        simp only [beq_self_eq_true, if_true]
        cases hcut : Bytes.cutAt 93 (91 :: t) with
        | none =>
          rw [indexByte_none hcut]
          rfl
        | some p =>
          obtain ⟨before, after⟩ := p
          obtain ⟨h1, h2⟩ := indexByte_some hcut
          rw [h1]
          have hne : ((before.length : Int) == -1) = false := by rw [beq_eq_false_iff_ne]; omega
          simp only [hne, Bool.false_eq_true, if_false]
          -- `before` starts with the opening bracket
          cases before with
          | nil => simp at h2
          | cons x v =>
            simp only [List.cons_append, List.cons.injEq] at h2
            obtain ⟨rfl, ht⟩ := h2
            subst ht
            have e1 : (91 :: (v ++ 93 :: after) : Bytes) = [91] ++ v ++ (93 :: after) := by simp
            rw [e1, slice_mid [91] v (93 :: after) 1 _ rfl (by simp only [List.length_cons, List.length_nil]; omega)]
            simp only []
            have e2 : ([91] ++ v ++ 93 :: after : Bytes) = ([91] ++ v ++ [93]) ++ after := by simp
            rw [e2, sliceFrom_append ([91] ++ v ++ [93]) after _ (by simp only [List.length_cons, List.length_append, List.length_nil]; omega)]
            rfl
      · have hc : ((b :: t).length ≥ Facts.origins_fastParseHost_minIPv6HostLen && (b :: t).head? == some 91) = false := by
          simp [hb]
        have hb' : (b == 91) = false := by simpa using hb
        simp only [hb', hc, Bool.false_eq_true, if_false]
        exact hostPlain_refines b t
    · have hlen' : ¬ len (b :: t) ≥ (Facts.origins_fastParseHost_minIPv6HostLen : Int) := by unfold len; omega
      rw [if_neg hlen']
      have hc : ((b :: t).length ≥ Facts.origins_fastParseHost_minIPv6HostLen && (b :: t).head? == some 91) = false := by
        simp only [Bool.and_eq_false_imp, decide_eq_true_eq]; intro h; exact absurd h hlen
      simp only [hc, bind, Except.bind, pure, Except.pure, Bool.false_eq_true, if_false]
      exact hostPlain_refines b t

/-- **Refinement.** `lastByte`. -/
theorem lastByte_refines (str : Bytes) : lastByte str = .ok str.getLast? := by
  rcases List.eq_nil_or_concat str with rfl | ⟨pre, c, rfl⟩
  · rfl
  · rw [List.concat_eq_append]
    unfold lastByte
    have hlen : (len (pre ++ [c]) == 0) = false := by simp [len]; omega
    rw [idx_append pre c [] _ (by simp [len])]
    simp [hlen, bind, Except.bind, pure, Except.pure]

theorem trimLeftLoop_spec (n : Nat) (s : Bytes) : ∀ (fuel i : Nat), s.length < fuel →
    trimLeftLoop n fuel s i = .ok (Headers.trimLeftAux n s i) := by
  induction s with
  | nil =>
    intro fuel i hf
    cases fuel with
    | zero => omega
    | succ fuel => rfl
  | cons b t ih =>
    intro fuel i hf
    cases fuel with
    | zero => omega
    | succ fuel =>
      simp only [trimLeftLoop, Headers.trimLeftAux]
      rw [if_pos (by simp [len] <;> omega)]
      by_cases hin : i > n
      · rw [if_pos (by omega), if_pos hin]; rfl
      · rw [if_neg (by omega), if_neg hin, idx_zero]
        simp only [bind, Except.bind]
        by_cases hows : Headers.isOWS b = true
        · simp only [hows, Bool.not_true, Bool.false_eq_true, if_false]
          have e1 : sliceFrom (b :: t) 1 = .ok t := sliceFrom_append [b] t 1 rfl
          rw [e1]
          exact ih fuel (i + 1) (by simpa using hf)
        · simp only [hows, Bool.not_false, if_true]
          rfl

/-- **Refinement.** `trimLeftOWS`. -/
theorem trimLeftOWS_refines (s : Bytes) (n : Nat) : trimLeftOWS s n = .ok (Headers.trimLeftOWS s n) :=
  trimLeftLoop_spec n s (s.length + 1) 0 (by omega)

theorem trimRightLoop_spec (n : Nat) (rs : Bytes) : ∀ (fuel i : Nat), rs.length < fuel →
    trimRightLoop n fuel rs.reverse i = .ok ((Headers.trimLeftAux n rs i).map List.reverse) := by
  induction rs with
  | nil =>
    intro fuel i hf
    cases fuel with
    | zero => omega
    | succ fuel => rfl
  | cons b t ih =>
    intro fuel i hf
    cases fuel with
    | zero => omega
    | succ fuel =>
      simp only [trimRightLoop, Headers.trimLeftAux, List.reverse_cons]
      rw [if_pos (by simp [len] <;> omega)]
      by_cases hin : i > n
      · rw [if_pos (by omega), if_pos hin]; rfl
      · rw [if_neg (by omega), if_neg hin, idx_append t.reverse b [] _ (by simp [len])]
        simp only [bind, Except.bind]
        by_cases hows : Headers.isOWS b = true
        · simp only [hows, Bool.not_true, Bool.false_eq_true, if_false]
          rw [sliceTo_append t.reverse [b] _ (by simp [len])]
          exact ih fuel (i + 1) (by simpa using hf)
        · simp only [hows, Bool.not_false, if_true]
          simp [pure, Except.pure]

/-- **Refinement.** `trimRightOWS`. -/
theorem trimRightOWS_refines (s : Bytes) (n : Nat) : trimRightOWS s n = .ok (Headers.trimRightOWS s n) := by
  have := trimRightLoop_spec n s.reverse (s.length + 1) 0 (by simp)
  rw [List.reverse_reverse] at this
  exact this

/-- **Refinement.** `TrimOWS`. -/
theorem trimOWS_refines (s : Bytes) (n : Nat) : trimOWS s n = .ok (Headers.trimOWS s n) := by
  unfold trimOWS Headers.trimOWS
  by_cases he : s.isEmpty = true
  · simp only [he, if_true]; rfl
  · simp only [he, Bool.false_eq_true, if_false]
    rw [trimRightOWS_refines]
    simp only [bind, Except.bind]
    cases Headers.trimRightOWS s n with
    | none => rfl
    | some t => exact trimLeftOWS_refines t n

theorem sliceTo_take (s : Bytes) (n : Nat) : sliceTo s (min (len s) (n : Int)) = .ok (s.take n) := by
  have h := sliceTo_append (s.take n) (s.drop n) (min (len s) (n : Int)) (by simp [len]; omega)
  rwa [List.take_append_drop] at h

/-- **Refinement.** `cutAtComma`. -/
theorem cutAtComma_refines (str : Bytes) (n : Nat) : cutAtComma str n = .ok (Headers.cutAtComma str n) := by
  unfold cutAtComma Headers.cutAtComma
  simp only [sliceTo_take, bind, Except.bind]
  cases hc : Bytes.cutAt Headers.comma (str.take n) with
  | none =>
    rw [indexByte_none hc]
    rfl
  | some p =>
    obtain ⟨before, aft⟩ := p
    obtain ⟨h1, h2⟩ := indexByte_some hc
    rw [h1]
    rw [if_pos (by omega)]
    have hstr : str = before ++ Headers.comma :: (aft ++ str.drop n) := by
      conv => lhs; rw [← List.take_append_drop n str, h2]
      simp
    have e1 : sliceFrom str ((before.length : Int) + 1) = .ok (aft ++ str.drop n) := by
      conv => lhs; rw [hstr]
      have : before ++ Headers.comma :: (aft ++ List.drop n str) = (before ++ [Headers.comma]) ++ (aft ++ List.drop n str) := by simp
      rw [this]
      exact sliceFrom_append _ _ _ (by simp)
    have e2 : sliceTo str (before.length : Int) = .ok before := by
      conv => lhs; rw [hstr]
      exact sliceTo_append _ _ _ rfl
    rw [e1, e2]
    simp only []
    have e3 : str.drop (before.length + 1) = aft ++ str.drop n := by
      conv => lhs; rw [hstr]
      have : before ++ Headers.comma :: (aft ++ List.drop n str) = (before ++ [Headers.comma]) ++ (aft ++ List.drop n str) := by simp
      rw [this, List.drop_left' (by simp)]
    rw [e3]
    rfl

theorem suffixLoop_spec (rx : Bytes) : ∀ (ry cs : Bytes) (fuel : Nat) (i : Int), rx.length = ry.length → rx.length < fuel →
    i = (rx.length : Int) - 1 →
    suffixLoop (rx.reverse ++ cs) (ry.reverse ++ cs) fuel i
      = .ok ((rx.length : Int) - 1 - ((splitCommon rx ry).2.2.length : Int)) := by
  induction rx with
  | nil =>
    intro ry cs fuel i hl hf hi
    cases fuel with
    | zero => omega
    | succ fuel =>
      cases ry with
      | cons _ _ => simp at hl
      | nil =>
        simp only [suffixLoop]
        rw [if_neg (by simp [hi])]
        simp [hi, splitCommon, pure, Except.pure]
  | cons x rx' ih =>
    intro ry cs fuel i hl hf hi
    cases fuel with
    | zero => omega
    | succ fuel =>
      cases ry with
      | nil => simp at hl
      | cons y ry' =>
        have hl' : rx'.length = ry'.length := by simpa using hl
        simp only [suffixLoop, List.reverse_cons, List.append_assoc, List.singleton_append]
        rw [if_pos (by simp [hi] <;> omega)]
        rw [idx_append rx'.reverse x cs i (by simp [hi]), idx_append ry'.reverse y cs i (by simp [hi, hl'])]
        simp only [bind, Except.bind, splitCommon]
        by_cases hxy : (x == y) = true
        · have : x = y := by simpa using hxy
          subst this
          simp only [beq_self_eq_true, if_true]
          rw [ih ry' (x :: cs) fuel (i - 1) hl' (by simpa using hf) (by simp [hi])]
          cases hsp : splitCommon rx' ry' with
          | mk ra rest =>
            obtain ⟨rb, c⟩ := rest
            simp only [List.length_cons]
            congr 1
            omega
        · simp only [hxy, Bool.false_eq_true, if_false]
          simp [hi, pure, Except.pure]

theorem splitCommon_append_left (x : Bytes) : ∀ (y z : Bytes), x.length = y.length →
    splitCommon (x ++ z) y = ((splitCommon x y).1 ++ z, (splitCommon x y).2.1, (splitCommon x y).2.2) := by
  induction x with
  | nil =>
    intro y z hl
    cases y with
    | cons _ _ => simp at hl
    | nil => cases z <;> simp [splitCommon]
  | cons a x' ih =>
    intro y z hl
    cases y with
    | nil => simp at hl
    | cons b y' =>
      simp only [List.cons_append, splitCommon]
      by_cases hab : (a == b) = true
      · simp only [hab, if_true]
        rw [ih y' z (by simpa using hl)]
      · simp only [hab, Bool.false_eq_true, if_false, List.cons_append]

theorem splitCommon_append_right (x : Bytes) : ∀ (y z : Bytes), x.length = y.length →
    splitCommon x (y ++ z) = ((splitCommon x y).1, (splitCommon x y).2.1 ++ z, (splitCommon x y).2.2) := by
  induction x with
  | nil =>
    intro y z hl
    cases y with
    | cons _ _ => simp at hl
    | nil => cases z <;> simp [splitCommon]
  | cons a x' ih =>
    intro y z hl
    cases y with
    | nil => simp at hl
    | cons b y' =>
      simp only [List.cons_append, splitCommon]
      by_cases hab : (a == b) = true
      · simp only [hab, if_true]
        rw [ih y' z (by simpa using hl)]
      · simp only [hab, Bool.false_eq_true, if_false, List.cons_append]


theorem splitCommon_swap (x : Bytes) : ∀ (y : Bytes),
    splitCommon y x = ((splitCommon x y).2.1, (splitCommon x y).1, (splitCommon x y).2.2) := by
  induction x with
  | nil => intro y; cases y <;> simp [splitCommon]
  | cons a x' ih =>
    intro y
    cases y with
    | nil => simp [splitCommon]
    | cons b y' =>
      simp only [splitCommon]
      by_cases hab : a = b
      · subst hab
        simp only [beq_self_eq_true, if_true]
        rw [ih y']
      · have h1 : (a == b) = false := by simpa using hab
        have h2 : (b == a) = false := by simpa using (fun h => hab h.symm)
        simp only [h1, h2, Bool.false_eq_true, if_false]

/-- What the loop of `splitAtCommonSuffix` finds on two strings of equal length, in terms of the decomposition
`s = rs ++ c`, `l = rl ++ c` into the longest common suffix and what precedes it. -/
theorem suffixLoop_decomp (s l : Bytes) (h : s.length = l.length) :
    ∃ rs rl c, s = rs ++ c ∧ l = rl ++ c ∧
      splitCommon s.reverse l.reverse = (rs.reverse, rl.reverse, c.reverse) ∧
      suffixLoop s l (s.length + 1) (len s - 1) = .ok ((rs.length : Int) - 1) := by
  have hspec := splitCommon_spec s.reverse l.reverse
  cases hsp : splitCommon s.reverse l.reverse with
  | mk ra rest =>
    obtain ⟨rb, c⟩ := rest
    rw [hsp] at hspec
    simp only [] at hspec
    obtain ⟨h1, h2, _⟩ := hspec
    have hs : s = ra.reverse ++ c.reverse := by
      have := congrArg List.reverse h1
      simpa using this
    have hl : l = rb.reverse ++ c.reverse := by
      have := congrArg List.reverse h2
      simpa using this
    refine ⟨ra.reverse, rb.reverse, c.reverse, hs, hl, by simp, ?_⟩
    have := suffixLoop_spec s.reverse l.reverse [] (s.length + 1) (len s - 1) (by simpa using h) (by simp) (by simp [len])
    simp only [List.reverse_reverse, List.append_nil, hsp] at this
    rw [this]
    have hlen := congrArg List.length hs
    simp only [List.length_append, List.length_reverse] at hlen
    simp only [List.length_reverse]
    congr 1
    omega


/-- **Refinement.** `splitAtCommonSuffix` (the list-level model works on reversed strings). -/
theorem splitAtCommonSuffix_refines (a b : Bytes) :
    splitAtCommonSuffix a b = .ok ((splitCommon a.reverse b.reverse).1.reverse,
      (splitCommon a.reverse b.reverse).2.1.reverse, (splitCommon a.reverse b.reverse).2.2.reverse) := by
  unfold splitAtCommonSuffix
  by_cases hlt : len b < len a
  · simp only [hlt, if_true]
    obtain ⟨a1, a2, ha, ha2⟩ : ∃ a1 a2, a = a1 ++ a2 ∧ a2.length = b.length :=
      ⟨a.take (a.length - b.length), a.drop (a.length - b.length), by simp, by simp [len] at hlt ⊢; omega⟩
    obtain ⟨rs, rl, c, hs, hl, hsc, hloop⟩ := suffixLoop_decomp b a2 ha2.symm
    have hexp : splitCommon a.reverse b.reverse = (rl.reverse ++ a1.reverse, rs.reverse, c.reverse) := by
      rw [ha, List.reverse_append, splitCommon_append_left a2.reverse b.reverse a1.reverse (by simpa using ha2),
        splitCommon_swap b.reverse a2.reverse, hsc]
    rw [hexp]
    subst ha
    rw [sliceFrom_append a1 a2 _ (by simp [len]; omega)]
    simp only [bind, Except.bind]
    have e0 : sliceTo a2 (len b) = .ok a2 := by
      have := sliceTo_append a2 [] (len b) (by simp [len, ha2])
      simpa using this
    rw [e0]
    simp only []
    rw [hloop]
    simp only []
    subst hs hl
    have e1 : sliceTo (a1 ++ (rl ++ c)) (len (a1 ++ (rl ++ c)) - len (rs ++ c) + ((rs.length : Int) - 1 + 1)) = .ok (a1 ++ rl) := by
      have := sliceTo_append (a1 ++ rl) c (len (a1 ++ (rl ++ c)) - len (rs ++ c) + ((rs.length : Int) - 1 + 1))
        (by simp [len] at ha2 ⊢; omega)
      simpa using this
    have e2 : sliceTo (rs ++ c) (len (rs ++ c) - len (rs ++ c) + ((rs.length : Int) - 1 + 1)) = .ok rs :=
      sliceTo_append rs c _ (by omega)
    have e3 : sliceFrom (rs ++ c) ((rs.length : Int) - 1 + 1) = .ok c := sliceFrom_append rs c _ (by omega)
    rw [e1]; simp only []
    rw [e2]; simp only []
    rw [e3]
    simp [pure, Except.pure]
  · simp only [hlt, if_false]
    have hle : a.length ≤ b.length := by simp [len] at hlt; omega
    obtain ⟨b1, b2, hb, hb2⟩ : ∃ b1 b2, b = b1 ++ b2 ∧ b2.length = a.length :=
      ⟨b.take (b.length - a.length), b.drop (b.length - a.length), by simp, by simp; omega⟩
    obtain ⟨rs, rl, c, hs, hl, hsc, hloop⟩ := suffixLoop_decomp a b2 hb2.symm
    have hexp : splitCommon a.reverse b.reverse = (rs.reverse, rl.reverse ++ b1.reverse, c.reverse) := by
      rw [hb, List.reverse_append, splitCommon_append_right a.reverse b2.reverse b1.reverse (by simpa using hb2.symm), hsc]
    rw [hexp]
    subst hb
    rw [sliceFrom_append b1 b2 _ (by simp [len]; omega)]
    simp only [bind, Except.bind]
    have e0 : sliceTo b2 (len a) = .ok b2 := by
      have := sliceTo_append b2 [] (len a) (by simp [len, hb2])
      simpa using this
    rw [e0]
    simp only []
    rw [hloop]
    simp only []
    subst hs hl
    have e1 : sliceTo (rs ++ c) (len (rs ++ c) - len (rs ++ c) + ((rs.length : Int) - 1 + 1)) = .ok rs :=
      sliceTo_append rs c _ (by omega)
    have e2 : sliceTo (b1 ++ (rl ++ c)) (len (b1 ++ (rl ++ c)) - len (rs ++ c) + ((rs.length : Int) - 1 + 1)) = .ok (b1 ++ rl) := by
      have := sliceTo_append (b1 ++ rl) c (len (b1 ++ (rl ++ c)) - len (rs ++ c) + ((rs.length : Int) - 1 + 1))
        (by simp [len] at hb2 ⊢; omega)
      simpa using this
    have e3 : sliceFrom (rs ++ c) ((rs.length : Int) - 1 + 1) = .ok c := sliceFrom_append rs c _ (by omega)
    rw [e1]; simp only []
    rw [e2]; simp only []
    rw [e3]
    simp [pure, Except.pure]

/-- The bit of byte `c` in the array. -/
def bit (as : List Nat) (c : Nat) : Bool := (as.getD (c / 32) 0).testBit (c % 32)

theorem u32_one_shl (k : Nat) (hk : k < 32) : u32 (1 <<< k) = 2 ^ k := by
  unfold u32
  rw [Nat.one_shiftLeft]
  exact Nat.mod_eq_of_lt (Nat.pow_lt_pow_right (by omega) hk)

theorem and_two_pow_ne_zero (w k : Nat) : (w &&& 2 ^ k != 0) = w.testBit k := by
  cases h : w.testBit k
  · have : w &&& 2 ^ k = 0 := by
      apply Nat.eq_of_testBit_eq
      intro i
      rw [Nat.testBit_and, Nat.testBit_two_pow, Nat.zero_testBit]
      by_cases hki : k = i
      · subst hki; simp [h]
      · simp [hki]
    simp [this]
  · have : (w &&& 2 ^ k).testBit k = true := by
      rw [Nat.testBit_and, Nat.testBit_two_pow, h]; simp
    have hne : w &&& 2 ^ k ≠ 0 := by
      intro h0
      rw [h0, Nat.zero_testBit] at this
      cases this
    simp [hne]

theorem idxG_ok {α : Type} [Inhabited α] (s : List α) (i : Nat) (h : i < s.length) : idxG s (i : Int) = .ok (s.getD i default) := by
  unfold idxG lenG
  rw [if_pos (by omega)]
  simp

theorem asciiContains_bit (as : List Nat) (hl : as.length = 8) (c : Nat) (hc : c < 256) :
    asciiContains as c = .ok (bit as c) := by
  unfold asciiContains
  rw [idxG_ok as (c / 32) (by omega)]
  simp only [bind, Except.bind, pure, Except.pure]
  rw [u32_one_shl _ (Nat.mod_lt _ (by omega)), and_two_pow_ne_zero]
  rfl

theorem asciiStep_bit (as : List Nat) (hl : as.length = 8) (d : Nat) (hd : d < 256) :
    ∃ as', asciiStep as d = .ok as' ∧ as'.length = 8 ∧ ∀ c, c < 256 → bit as' c = (bit as c || c == d) := by
  unfold asciiStep
  rw [idxG_ok as (d / 32) (by omega)]
  simp only [bind, Except.bind]
  unfold setG lenG
  rw [if_pos (by omega)]
  refine ⟨_, rfl, by simp [hl], ?_⟩
  intro c hc
  have hdef : (default : Nat) = 0 := rfl
  simp only [Int.toNat_natCast, hdef]
  unfold bit
  rw [u32_one_shl _ (Nat.mod_lt _ (by omega))]
  by_cases hw : c / 32 = d / 32
  · have hget : (as.set (d / 32) (u32 (as.getD (d / 32) 0 ||| 2 ^ (d % 32)))).getD (c / 32) 0 = u32 (as.getD (d / 32) 0 ||| 2 ^ (d % 32)) := by
      rw [hw]
      simp only [List.getD_eq_getElem?_getD, List.getElem?_set]
      rw [if_pos trivial, if_pos (by omega)]
      rfl
    rw [hget, hw]
    unfold u32
    rw [Nat.testBit_mod_two_pow, Nat.testBit_or, Nat.testBit_two_pow]
    have h32 : c % 32 < 32 := Nat.mod_lt _ (by omega)
    have : (c == d) = decide (d % 32 = c % 32) := by
      by_cases hcd : c = d
      · subst hcd; simp
      · have : d % 32 ≠ c % 32 := by omega
        simp [hcd, this]
    rw [this]
    simp [h32]
  · have hget : (as.set (d / 32) (u32 (as.getD (d / 32) 0 ||| 2 ^ (d % 32)))).getD (c / 32) 0 = as.getD (c / 32) 0 := by
      simp only [List.getD_eq_getElem?_getD, List.getElem?_set]
      rw [if_neg (fun h => hw h.symm)]
    rw [hget]
    have : (c == d) = false := by
      rw [beq_eq_false_iff_ne]
      intro h; subst h; exact hw rfl
    rw [this]
    simp

theorem makeASCIISet_bit (chars : Bytes) : ∀ (as : List Nat), as.length = 8 → (∀ x ∈ chars, x < 256) →
    ∃ as', makeASCIISet chars as = .ok as' ∧ as'.length = 8 ∧ ∀ c, c < 256 → bit as' c = (bit as c || chars.contains c) := by
  induction chars with
  | nil => intro as hl _; exact ⟨as, rfl, hl, by simp⟩
  | cons d t ih =>
    intro as hl hb
    obtain ⟨as1, h1, hl1, hb1⟩ := asciiStep_bit as hl d (hb d (by simp))
    obtain ⟨as2, h2, hl2, hb2⟩ := ih as1 hl1 (fun x hx => hb x (by simp [hx]))
    refine ⟨as2, ?_, hl2, ?_⟩
    · simp only [makeASCIISet, h1, bind, Except.bind]
      exact h2
    · intro c hc
      rw [hb2 c hc, hb1 c hc]
      simp only [List.contains_cons]
      cases bit as c <;> cases (c == d) <;> simp

/-- **Refinement.** The `[8]uint32` bit set built by `MakeASCIISet(chars)` answers `Contains(c)`, for every byte
`c`, with "c occurs in chars" — what the list-level model (`Cors.asciiContains`) says — and neither function
indexes the array out of range. -/
theorem asciiSet_refines (chars : Bytes) (hb : ∀ x ∈ chars, x < 256) :
    ∃ as, makeASCIISet chars zero8 = .ok as ∧ ∀ c, c < 256 → asciiContains as c = .ok (Cors.asciiContains chars c) := by
  obtain ⟨as, h1, hl, hbit⟩ := makeASCIISet_bit chars zero8 rfl hb
  refine ⟨as, h1, ?_⟩
  intro c hc
  rw [asciiContains_bit as hl c hc, hbit c hc]
  have : bit zero8 c = false := by
    unfold bit zero8
    have : c / 32 < 8 := by omega
    have h0 : ([0, 0, 0, 0, 0, 0, 0, 0] : List Nat).getD (c / 32) 0 = 0 := by
      generalize c / 32 = k at this
      match k, this with
      | 0, _ | 1, _ | 2, _ | 3, _ | 4, _ | 5, _ | 6, _ | 7, _ => rfl
    rw [h0]
    simp
  rw [this]
  simp [Cors.asciiContains]


theorem insertG_spec {α : Type} [Inhabited α] (a b : List α) (v : α) (i : Int) (hi : i = a.length) :
    insertG (a ++ b) i v = .ok (a ++ v :: b) := by
  subst hi
  unfold insertG sliceG setG lenG
  simp only [bind, Except.bind]
  rw [if_pos (by simp only [List.length_append, List.length_cons, List.length_nil]; omega)]
  simp only []
  rw [if_pos (by simp only [List.length_append, List.length_cons, List.length_nil]; omega)]
  simp only []
  have e1 : ((a.length : Int) + 1).toNat = a.length + 1 := by omega
  have e2 : ((((a ++ b ++ [default]).length : Nat) : Int)).toNat = (a ++ b ++ [default]).length := by omega
  simp only [e1, e2, Int.toNat_natCast, List.take_length]
  have e3 : (a ++ b ++ [default]).drop (a.length + 1) = (b ++ [default]).drop 1 := by
    rw [List.append_assoc, List.drop_append]; simp
  have e4 : (a ++ b ++ [default]).drop a.length = b ++ [default] := by
    rw [List.append_assoc, List.drop_left]
  have e5 : (a ++ b ++ [default]).take (a.length + 1) = a ++ (b ++ [default]).take 1 := by
    rw [List.append_assoc, List.take_append]
    have : a.length + 1 - a.length = 1 := by omega
    rw [this, List.take_of_length_le (by omega)]
  rw [e3, e4, e5]
  have e6 : ((b ++ [default]).drop 1).length = b.length := by simp
  rw [e6, List.take_left' rfl]
  obtain ⟨x, hx⟩ : ∃ x, (b ++ [default]).take 1 = [x] := by
    cases b with
    | nil => exact ⟨default, rfl⟩
    | cons y t => exact ⟨y, rfl⟩
  rw [hx]
  rw [if_pos (by simp only [List.length_append, List.length_cons, List.length_nil]; omega)]
  simp

/-- **Refinement.** `insert(s, i, v)` with `0 ≤ i ≤ len(s)` (what `slices.BinarySearch` returns) stays in range and inserts. -/
theorem insertG_refines {α : Type} [Inhabited α] (s : List α) (i : Nat) (h : i ≤ s.length) (v : α) :
    insertG s (i : Int) v = .ok (s.take i ++ v :: s.drop i) := by
  have := insertG_spec (s.take i) (s.drop i) v (i : Int) (by simp; omega)
  rwa [List.take_append_drop] at this

/-- **Refinement.** `headers.First`. -/
theorem first_refines (v : Option (List Bytes)) :
    first v = .ok (match v with | some (x :: _) => some (x, [x]) | _ => none) := by
  cases v with
  | none => rfl
  | some v =>
    cases v with
    | nil => rfl
    | cons x t =>
      unfold first
      have hl : (lenG (x :: t) == 0) = false := by simp [lenG]; omega
      simp only [hl, Bool.false_eq_true, if_false]
      have h1 : idxG (x :: t) 0 = .ok x := by
        have := idxG_ok (x :: t) 0 (by simp)
        simpa using this
      have h2 : sliceG (x :: t) 0 1 = .ok [x] := by
        unfold sliceG lenG
        rw [if_pos (by simp only [List.length_cons]; omega)]
        rfl
      rw [h1]
      simp only [bind, Except.bind]
      rw [h2]
      rfl

theorem indexAfter_refines (set : SortedSet) (start : Nat) (hs : start ≤ set.size) (e : Bytes) :
    indexAfter set ((start : Int) - 1) e = .ok ((set.indexAfter start e).map (fun (i : Nat) => Int.ofNat i)) := by
  unfold indexAfter SortedSet.indexAfter
  by_cases hm : set.maxLen < e.length
  · simp only [hm, if_true]; rfl
  · simp only [hm, if_false]
    have hsl : sliceG set.elems ((start : Int) - 1 + 1) (lenG set.elems) = .ok (set.elems.drop start) := by
      unfold sliceG lenG
      unfold SortedSet.size at hs
      rw [if_pos (by omega)]
      have : ((start : Int) - 1 + 1).toNat = start := by omega
      simp [this]
    rw [hsl]
    simp only [bind, Except.bind]
    cases SortedSet.findIdx e (set.elems.drop start) with
    | none => rfl
    | some i =>
      simp only [Option.map_some, pure, Except.pure]
      congr 2
      simp; omega


theorem cutAtComma_shrinks (str : Bytes) (n : Nat) (before after : Bytes)
    (h : Headers.cutAtComma str n = (before, after, true)) : after.length < str.length := by
  unfold Headers.cutAtComma at h
  cases hc : Bytes.cutAt Headers.comma (str.take n) with
  | none => simp [hc] at h
  | some p =>
    obtain ⟨b', a'⟩ := p
    simp only [hc, Prod.mk.injEq] at h
    obtain ⟨rfl, rfl, _⟩ := h
    obtain ⟨h1, _⟩ := ACRH.cutAt_some hc
    have := congrArg List.length h1
    simp only [List.length_take, List.length_append, List.length_cons] at this
    simp only [List.length_drop]
    omega

theorem indexAfter_lt (set : SortedSet) (start : Nat) (e : Bytes) (i : Nat)
    (h : set.indexAfter start e = some i) : i < set.size := by
  unfold SortedSet.indexAfter at h
  split at h
  · cases h
  · cases hf : SortedSet.findIdx e (set.elems.drop start) with
    | none => simp [hf] at h
    | some j =>
      simp only [hf, Option.map_some, Option.some.injEq] at h
      obtain ⟨pre, post, h1, h2, _⟩ := ACRH.findIdx_some hf
      have hl := congrArg List.length h1
      simp only [List.length_drop, List.length_append, List.length_cons] at hl
      unfold SortedSet.size
      omega

theorem checkLine_refines (set : SortedSet) (maxLen : Nat) : ∀ (fuel : Nat) (acrh : Bytes) (st : Headers.CkState),
    acrh.length < fuel → st.start ≤ set.size →
    checkLine set maxLen fuel acrh ((st.start : Int) - 1, st.empties)
      = .ok ((Headers.checkLine set maxLen fuel acrh st).map fun s => ((s.start : Int) - 1, s.empties)) ∧
    ∀ s', Headers.checkLine set maxLen fuel acrh st = some s' → s'.start ≤ set.size := by
  intro fuel
  induction fuel with
  | zero => intro acrh st hf; omega
  | succ fuel ih =>
    intro acrh st hf hs
    simp only [checkLine, Headers.checkLine]
    rw [cutAtComma_refines]
    simp only [bind, Except.bind]
    cases hcut : Headers.cutAtComma acrh maxLen with
    | mk name rest2 =>
      obtain ⟨rest, commaFound⟩ := rest2
      simp only []
      rw [trimOWS_refines]
      simp only []
      cases htrim : Headers.trimOWS name Facts.headers_MaxOWSBytes with
      | none => exact ⟨rfl, by intro s' h; cases h⟩
      | some nm =>
        simp only []
        have hrest : commaFound = true → rest.length < fuel := by
          intro hcf
          subst hcf
          have := cutAtComma_shrinks acrh maxLen name rest hcut
          omega
        by_cases hemp : nm.isEmpty = true
        · simp only [hemp, if_true]
          by_cases hmax : st.empties + 1 > Facts.headers_MaxEmptyElements
          · simp only [hmax, if_true]
            exact ⟨rfl, by intro s' h; cases h⟩
          · simp only [hmax, if_false]
            cases commaFound with
            | false =>
              simp only [Bool.not_false, if_true]
              refine ⟨rfl, ?_⟩
              intro s' h
              simp only [Option.some.injEq] at h
              subst h
              exact hs
            | true =>
              simp only [Bool.not_true, Bool.false_eq_true, if_false]
              exact ih rest { st with empties := st.empties + 1 } (hrest rfl) hs
        · simp only [hemp, Bool.false_eq_true, if_false]
          rw [indexAfter_refines set st.start hs nm]
          simp only []
          cases hidx : set.indexAfter st.start nm with
          | none => exact ⟨rfl, by intro s' h; cases h⟩
          | some i =>
            simp only [Option.map_some]
            have hi : i + 1 ≤ set.size := indexAfter_lt set st.start nm i hidx
            have hcast : Int.ofNat i = ((i + 1 : Nat) : Int) - 1 := by simp only [Int.ofNat_eq_natCast]; omega
            cases commaFound with
            | false =>
              simp only [Bool.not_false, if_true]
              refine ⟨?_, ?_⟩
              · simp only [Option.map_some, pure, Except.pure]
                rw [hcast]
              · intro s' h
                simp only [Option.some.injEq] at h
                subst h
                exact hi
            | true =>
              simp only [Bool.not_true, Bool.false_eq_true, if_false]
              have := ih rest { st with start := i + 1 } (hrest rfl) hi
              rw [hcast]
              exact this


theorem checkLines_refines (set : SortedSet) (maxLen : Nat) : ∀ (lines : List Bytes) (st : Headers.CkState),
    st.start ≤ set.size →
    checkLines set maxLen lines ((st.start : Int) - 1, st.empties) = .ok (Headers.checkLines set maxLen lines st) := by
  intro lines
  induction lines with
  | nil => intro st _; rfl
  | cons l ls ih =>
    intro st hs
    obtain ⟨h1, h2⟩ := checkLine_refines set maxLen (l.length + 1) l st (by omega) hs
    simp only [checkLines, Headers.checkLines, h1, bind, Except.bind]
    cases hcl : Headers.checkLine set maxLen (l.length + 1) l st with
    | none => rfl
    | some st' =>
      simp only [Option.map_some]
      exact ih st' (h2 st' hcl)

/-- **Refinement.** `headers.Check` on any sorted set and any list of field lines: `cutAtComma`, `TrimOWS` and
`IndexAfter` (`set.elems[start:]` with `start = posOfLastNameSeen + 1 ≤ Size`, an invariant of the loop) never go
out of range, every loop ends, and the verdict is the list-level model's. -/
theorem check_refines (set : SortedSet) (acrhs : List Bytes) : check set acrhs = .ok (Headers.check set acrhs) := by
  unfold check Headers.check
  have := checkLines_refines set (Facts.headers_MaxOWSBytes + set.maxLen + Facts.headers_MaxOWSBytes + 1) acrhs
    { start := 0, empties := 0 } (Nat.zero_le _)
  simpa using this

theorem findPos_schemes (scheme : Bytes) (schemes : List (Bytes × List Int)) :
    match findPos scheme (schemes.map Prod.fst) with
    | none => lookupScheme scheme schemes = none
    | some i => i < schemes.length ∧ lookupScheme scheme schemes = some ((schemes.map Prod.snd).getD i default) := by
  induction schemes with
  | nil => simp [findPos, lookupScheme]
  | cons x rest ih =>
    obtain ⟨s, ps⟩ := x
    simp only [List.map_cons, findPos, lookupScheme]
    by_cases hs : (s == scheme) = true
    · simp [hs]
    · simp only [hs, Bool.false_eq_true, if_false]
      cases hf : findPos scheme (rest.map Prod.fst) with
      | none => simp only [hf] at ih; simpa using ih
      | some i =>
        simp only [hf] at ih
        simp only [Option.map_some]
        exact ⟨by simp; omega, by rw [ih.2]; simp⟩

theorem nodeContains_refines (schemes : List (Bytes × List Int)) (scheme : Bytes) (port : Int) (wild : Bool) :
    nodeContains schemes scheme port wild = .ok (containsPort schemes scheme port wild) := by
  unfold nodeContains containsPort
  have h := findPos_schemes scheme schemes
  cases hf : findPos scheme (schemes.map Prod.fst) with
  | none => simp only [hf] at h; rw [h]; rfl
  | some i =>
    simp only [hf] at h
    rw [h.2]
    simp only []
    rw [idxG_ok _ i (by simpa using h.1)]
    rfl


theorem stripPrefix_splitCommon (p : Bytes) : ∀ (s : Bytes),
    stripPrefix p s = if (splitCommon s p).2.2.length = p.length then some (splitCommon s p).1 else none := by
  induction p with
  | nil => intro s; cases s <;> simp [stripPrefix, splitCommon]
  | cons a p ih =>
    intro s
    cases s with
    | nil => simp [stripPrefix, splitCommon]
    | cons b s =>
      simp only [stripPrefix, splitCommon]
      by_cases hab : a = b
      · subst hab
        simp only [beq_self_eq_true, if_true]
        rw [ih s]
        cases hsp : splitCommon s p with
        | mk ra rest =>
          obtain ⟨rb, c⟩ := rest
          simp
      · have h1 : (a == b) = false := by simpa using hab
        have h2 : (b == a) = false := by simpa using (fun h => hab h.symm)
        simp [h1, h2]

theorem findPos_kids (label : Nat) (kids : List (Nat × Node)) (host scheme : Bytes) (port : Int) :
    containsKids kids label host scheme port =
      match findPos label (kids.map Prod.fst) with
      | none => false
      | some i => childLookup ((kids.map Prod.snd).getD i default) host scheme port := by
  induction kids with
  | nil => simp [containsKids_nil, findPos]
  | cons x rest ih =>
    obtain ⟨l, c⟩ := x
    simp only [List.map_cons, findPos]
    rw [containsKids_cons]
    by_cases hl : l = label
    · subst hl
      simp
    · have h1 : (label == l) = false := by simpa using (fun h => hl h.symm)
      have h2 : (l == label) = false := by simpa using hl
      simp only [h1, h2, Bool.false_eq_true, if_false]
      rw [ih]
      cases hf : findPos label (rest.map Prod.fst) with
      | none => rfl
      | some i => simp

theorem findPos_lt {α : Type} [BEq α] (x : α) (l : List α) (i : Nat) (h : findPos x l = some i) : i < l.length := by
  induction l generalizing i with
  | nil => simp [findPos] at h
  | cons y ys ih =>
    simp only [findPos] at h
    split at h
    · simp at h; subst h; simp
    · cases hf : findPos x ys with
      | none => simp [hf] at h
      | some j =>
        simp only [hf, Option.map_some, Option.some.injEq] at h
        subst h
        have := ih j hf
        simp; omega

theorem depth_kid (kids : List (Nat × Node)) (i : Nat) (h : i < kids.length) :
    depth ((kids.map Prod.snd).getD i default) ≤ depthKids kids := by
  induction kids generalizing i with
  | nil => simp at h
  | cons x rest ih =>
    obtain ⟨l, c⟩ := x
    rw [depthKids]
    cases i with
    | zero => simp; exact Nat.le_max_left _ _
    | succ j =>
      have := ih j (by simpa using h)
      simp only [List.map_cons, List.getD_cons_succ]
      exact Nat.le_trans this (Nat.le_max_right _ _)


theorem treeLoop_refines : ∀ (fuel : Nat) (n : Node) (host scheme : Bytes) (port : Int), depth n < fuel →
    treeLoop fuel n host scheme port = .ok (Node.contains n host.reverse scheme port) := by
  intro fuel
  induction fuel with
  | zero => intro n host scheme port h; omega
  | succ fuel ih =>
    intro n host scheme port hd
    cases n with
    | mk nsuf S K =>
      simp only [treeLoop, Node.schemes, Node.kids]
      rw [lastByte_refines]
      simp only [bind, Except.bind]
      rcases List.eq_nil_or_concat host with rfl | ⟨pre, label, rfl⟩
      · simp only [List.getLast?_nil, List.reverse_nil]
        rw [contains_nil_host]
        exact nodeContains_refines S scheme port false
      · rw [List.concat_eq_append]
        have hlast : (pre ++ [label]).getLast? = some label := by simp
        have hrev : (pre ++ [label]).reverse = label :: pre.reverse := by simp
        rw [hlast, hrev, contains_cons_host]
        simp only []
        rw [nodeContains_refines S scheme port true]
        simp only []
        cases hcp : containsPort S scheme port true with
        | true => simp [pure, Except.pure]
        | false =>
          simp only [Bool.false_eq_true, if_false, Bool.false_or]
          rw [findPos_kids]
          cases hf : findPos label (K.map Prod.fst) with
          | none => rfl
          | some i =>
            have hi : i < K.length := by
              have := findPos_lt label (K.map Prod.fst) i hf
              simpa using this
            simp only []
            rw [idxG_ok _ i (by simpa using hi)]
            simp only []
            rw [← hrev, splitAtCommonSuffix_refines, List.reverse_reverse]
            simp only []
            unfold childLookup
            rw [stripPrefix_splitCommon]
            cases hsp : splitCommon (pre ++ [label]).reverse ((K.map Prod.snd).getD i default).suf with
            | mk ra rest =>
              obtain ⟨rb, c⟩ := rest
              simp only [List.length_reverse]
              by_cases hlen : c.length = ((K.map Prod.snd).getD i default).suf.length
              · simp only [hlen, bne_self_eq_false, Bool.false_eq_true, if_false, if_true]
                have hdc : depth ((K.map Prod.snd).getD i default) < fuel := by
                  have h1 := depth_kid K i hi
                  rw [depth] at hd
                  omega
                have := ih ((K.map Prod.snd).getD i default) ra.reverse scheme port hdc
                rw [List.reverse_reverse] at this
                exact this
              · have hne : (c.length != ((K.map Prod.snd).getD i default).suf.length) = true := by
                  simpa using hlen
                simp only [hne, if_true, hlen, if_false]
                rfl

/-- **Refinement.** `Tree.Contains` on the parallel slices of the nodes: `n.ports[i]` and `n.children[i]` (with `i`
where `slices.BinarySearch` finds the scheme resp. the label), `lastByte` and `splitAtCommonSuffix` never go out of
range, the loop ends after at most depth-of-the-tree iterations, and the answer is the list-level model's. -/
theorem treeContains_refines (t : Node) (o : Origin) : treeContains t o = .ok (Tree.contains t o) :=
  treeLoop_refines (depth t + 1) t o.host.value o.scheme o.port (by omega)


/-- **Refinement.** `origins.Parse`. -/
theorem parse_refines (str : Bytes) : parse str = .ok (Lex.parse str) := by
  unfold parse Lex.parse
  by_cases hl : str.length > Facts.origins_Parse_maxOriginLen
  · simp only [hl, if_true]; rfl
  · simp only [hl, if_false]
    rw [parseScheme_refines]
    simp only [bind, Except.bind]
    cases Lex.parseScheme str with
    | none => rfl
    | some sr =>
      obtain ⟨scheme, r1⟩ := sr
      simp only []
      cases r1.cutPrefix Facts.origins_schemeHostSep with
      | none => rfl
      | some r2 =>
        simp only []
        rw [fastParseHost_refines]
        simp only []
        cases Lex.fastParseHost r2 with
        | none => rfl
        | some hr =>
          obtain ⟨host, r3⟩ := hr
          simp only []
          by_cases he : r3.isEmpty = true
          · simp only [he, if_true]; rfl
          · simp only [he, Bool.false_eq_true, if_false]
            cases r3.cutPrefix [Facts.origins_hostPortSep] with
            | none => rfl
            | some r4 =>
              simp only []
              rw [parsePort_refines]
              simp only []
              cases Lex.parsePort r4 with
              | none => rfl
              | some pr =>
                obtain ⟨port, rest⟩ := pr
                simp only []
                by_cases hr : rest.isEmpty = true
                · simp only [hr, Bool.not_true, Bool.false_eq_true, if_false]; rfl
                · simp only [hr, Bool.not_false, if_true]; rfl

/-- **Refinement.** For every tree and every byte string in the `Origin` header: parsing it and looking it up
never goes out of range, always ends, and decides what the list-level model decides. -/
theorem originAllowed_refines (t : Node) (str : Bytes) :
    originAllowed t str = .ok (match Lex.parse str with | none => false | some o => Tree.contains t o) := by
  unfold originAllowed
  rw [parse_refines]
  simp only [bind, Except.bind]
  cases Lex.parse str with
  | none => rfl
  | some o => exact treeContains_refines t o

end Ix
end Cors
