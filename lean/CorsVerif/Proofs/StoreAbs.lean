import CorsVerif.Proofs.Elems
/-
  What `Tree.Insert` does to the *multiset of stored entries*, stated without the tree:
  an insertion is a no-op when a stored entry makes it redundant (`drops`), and otherwise stores
  the new entry after removing the ports a wildcard port supersedes (`deletes`).
  This file holds the tree-free part: the definitions and their algebra.
-/
namespace Cors
open Gen
namespace Node

abbrev Entry := Bytes × Bytes × Int

/-- At the node of the new entry itself (`node.add`'s call of `node.contains`): a non-wildcard-subdomains
entry is redundant next to the same port or the wildcard port; a wildcard-subdomains entry only next to
its wildcard port (the Go code passes the already offset port, so exact duplicates go unnoticed). -/
def sameDrop (c' c : Int) : Bool := if c < 0 then c' == -1 else (c' == c || c' == 65536)

/-- At a node passed on the way down (`n.contains(scheme, port, true)`): a wildcard-subdomains entry
with the same port or the wildcard port. -/
def ancDrop (c' c : Int) : Bool := c' == decodePort c - 65537 || c' == -1

/-- The stored entry `e'` makes the insertion of `e` a no-op. -/
def drops (e' e : Entry) : Bool :=
  e'.2.1 == e.2.1 &&
    (if e'.1 = e.1 then sameDrop e'.2.2 e.2.2 else (decide (e'.1 <+: e.1) && ancDrop e'.2.2 e.2.2))

/-- Storing `e` removes the stored entry `e'`: same node, same scheme, `e` has the wildcard port and
`e'` is of the same kind (`deleteSameSign`). -/
def deletes (e e' : Entry) : Bool :=
  decide (e.1 = e'.1) && e.2.1 == e'.2.1 &&
    ((e.2.2 == 65536 && decide (0 ≤ e'.2.2)) || (e.2.2 == -1 && decide (e'.2.2 < 0)))

/-- One insertion, on the list of stored entries (newest first). -/
def absInsert (S : List Entry) (e : Entry) : List Entry :=
  if S.any (drops · e) then S else e :: S.filter (fun e' => !deletes e e')

/-- `x` and the incoming `e` do not interact. -/
def Apart (x e : Entry) : Prop := drops x e = false ∧ deletes e x = false

theorem apart_of_diverge {x e : Entry} (k t1 t2 : Bytes) (a b : Nat) (hx : x.1 = k ++ a :: t1) (he : e.1 = k ++ b :: t2)
    (hab : a ≠ b) : Apart x e := by
  have hne : x.1 ≠ e.1 := by
    rw [hx, he]; intro h
    have := List.append_cancel_left h
    simp only [List.cons.injEq] at this
    exact hab this.1
  have hnp : ¬ x.1 <+: e.1 := by
    rw [hx, he, List.prefix_append_right_inj]
    intro h
    obtain ⟨r, hr⟩ := h
    simp only [List.cons_append, List.cons.injEq] at hr
    exact hab hr.1
  constructor
  · unfold drops
    rw [if_neg hne]
    simp [hnp]
  · unfold deletes
    have : ¬ e.1 = x.1 := fun h => hne h.symm
    simp [this]

theorem apart_of_longer {x e : Entry} (a : Nat) (t : Bytes) (hx : x.1 = e.1 ++ a :: t) : Apart x e := by
  have hne : x.1 ≠ e.1 := by
    rw [hx]; intro h
    have : (e.1 ++ a :: t).length = e.1.length := by rw [h]
    simp at this
  have hnp : ¬ x.1 <+: e.1 := by
    rw [hx]; intro h
    have := h.length_le
    simp at this
    omega
  constructor
  · unfold drops
    rw [if_neg hne]
    simp [hnp]
  · unfold deletes
    have : ¬ e.1 = x.1 := fun h => hne h.symm
    simp [this]

theorem absInsert_apart (S : List Entry) (e : Entry) (h : ∀ x ∈ S, Apart x e) : absInsert S e = e :: S := by
  unfold absInsert
  have h1 : S.any (drops · e) = false := by
    rw [List.any_eq_false]; intro x hx; rw [(h x hx).1]; simp
  rw [h1]
  simp only [Bool.false_eq_true, if_false, List.cons.injEq, true_and]
  rw [List.filter_eq_self]
  intro x hx; rw [(h x hx).2]; rfl

theorem absInsert_append_left (A B : List Entry) (e : Entry) (h : ∀ x ∈ A, Apart x e) :
    (absInsert (A ++ B) e).Perm (A ++ absInsert B e) := by
  unfold absInsert
  have h1 : A.any (drops · e) = false := by
    rw [List.any_eq_false]; intro x hx; rw [(h x hx).1]; simp
  have h2 : A.filter (fun e' => !deletes e e') = A := by
    rw [List.filter_eq_self]; intro x hx; rw [(h x hx).2]; rfl
  rw [List.any_append, h1, Bool.false_or]
  split
  · exact List.Perm.refl _
  · rw [List.filter_append, h2]
    exact List.perm_middle.symm

theorem absInsert_append_right (A B : List Entry) (e : Entry) (h : ∀ x ∈ B, Apart x e) :
    absInsert (A ++ B) e = absInsert A e ++ B := by
  unfold absInsert
  have h1 : B.any (drops · e) = false := by
    rw [List.any_eq_false]; intro x hx; rw [(h x hx).1]; simp
  have h2 : B.filter (fun e' => !deletes e e') = B := by
    rw [List.filter_eq_self]; intro x hx; rw [(h x hx).2]; rfl
  rw [List.any_append, h1, Bool.or_false]
  split
  · rfl
  · rw [List.filter_append, h2]; rfl

/-- Keys relative to a child, seen from its parent. -/
def pre (k : Bytes) (e : Entry) : Entry := (k ++ e.1, e.2.1, e.2.2)

theorem drops_pre (k : Bytes) (x e : Entry) : drops (pre k x) (pre k e) = drops x e := by
  unfold drops pre
  simp only []
  have h1 : (k ++ x.1 = k ++ e.1) ↔ (x.1 = e.1) := List.append_right_inj k
  have h2 : (k ++ x.1 <+: k ++ e.1) ↔ (x.1 <+: e.1) := List.prefix_append_right_inj k
  by_cases h : x.1 = e.1
  · rw [if_pos h, if_pos (h1.mpr h)]
  · rw [if_neg h, if_neg (fun hh => h (h1.mp hh))]
    simp only [h2]

theorem deletes_pre (k : Bytes) (e x : Entry) : deletes (pre k e) (pre k x) = deletes e x := by
  unfold deletes pre
  simp only []
  have h1 : (k ++ e.1 = k ++ x.1) ↔ (e.1 = x.1) := List.append_right_inj k
  simp only [h1]

theorem absInsert_pre (k : Bytes) (S : List Entry) (e : Entry) :
    absInsert (S.map (pre k)) (pre k e) = (absInsert S e).map (pre k) := by
  unfold absInsert
  rw [List.any_map]
  have h1 : ((fun x => drops x (pre k e)) ∘ pre k) = (fun x => drops x e) := by
    funext x; simp only [Function.comp]; exact drops_pre k x e
  rw [h1]
  split
  · rfl
  · rw [List.filter_map, List.map_cons]
    have h2 : ((fun e' => !deletes (pre k e) e') ∘ pre k) = (fun e' => !deletes e e') := by
      funext x; simp only [Function.comp]; rw [deletes_pre]
    rw [h2]

end Node
end Cors
