import CorsVerif.Model.IxTree
import CorsVerif.Proofs.IxRefine
import CorsVerif.Proofs.Pattern
import CorsVerif.Proofs.ACRH
/-
  Refinement of `Pat.parseHostPattern` (list level) by its index-level transliteration: `hostOnly`'s
  `hp.Value[len(subdomainWildcard)+1:]` and the trim `pattern.Value[:end]` are in range for every input.
-/
namespace Cors
namespace Ix
open Gen Pat

/-- What `fastParseHost` returns as host is never longer than its input. -/
theorem fastParseHost_len {str : Bytes} {host : Host} {rest : Bytes}
    (h : Lex.fastParseHost str = some (host, rest)) : host.value.length ≤ str.length := by
  unfold Lex.fastParseHost at h
  split at h
  · cases hc : Bytes.cutAt 93 str with
    | none => simp [hc] at h
    | some p =>
      obtain ⟨before, after⟩ := p
      simp only [hc, Option.some.injEq, Prod.mk.injEq] at h
      obtain ⟨rfl, rfl⟩ := h
      have := (ACRH.cutAt_some hc).1
      have hl := congrArg List.length this
      simp at hl ⊢
      omega
  · cases str with
    | nil => simp at h
    | cons b t =>
      simp only [] at h
      split at h
      · cases h
      · cases hl : Lex.hostLoop (b :: t) false false true with
        | none => simp [hl] at h
        | some x =>
          obtain ⟨hh, r, ip⟩ := x
          simp only [hl, Option.some.injEq, Prod.mk.injEq] at h
          obtain ⟨rfl, rfl⟩ := h
          have := congrArg List.length (hostLoop_append hl)
          simp at this ⊢
          omega

theorem hasPrefix_len : ∀ (s p : Bytes), s.hasPrefix p = true → p.length ≤ s.length
  | _, [], _ => by simp
  | [], _ :: _, h => by simp [Bytes.hasPrefix] at h
  | a :: as, b :: bs, h => by
    simp only [Bytes.hasPrefix, Bool.and_eq_true] at h
    have := hasPrefix_len as bs h.2
    simp; omega

/-- **Refinement.** `hostOnly` on the value `parseHostPattern` gives it: `peekKind` saw the two bytes that are cut off. -/
theorem hostOnlyI_peek (str : Bytes) : hostOnlyI str (peekKind str) = .ok (hostOnly str (peekKind str)) := by
  unfold hostOnlyI hostOnly peekKind
  by_cases hp : str.hasPrefix Facts.origins_peekKind_wildcardSeq = true
  · have hl := hasPrefix_len _ _ hp
    simp only [hp, if_true, beq_self_eq_true]
    have h2 : (2 : Nat) ≤ str.length := hl
    unfold sliceFrom slice len
    rw [if_pos (by simp [Facts.origins_subdomainWildcard]; omega)]
    simp [Facts.origins_subdomainWildcard]
  · simp only [hp, Bool.false_eq_true, if_false]
    rfl

/-- **Refinement.** `hostOnly` on any value of a subdomains pattern of at least two bytes, and on every other value. -/
theorem hostOnlyI_refines (value : Bytes) (kind : Kind) (h : kind = .subdomains → 2 ≤ value.length) :
    hostOnlyI value kind = .ok (hostOnly value kind) := by
  unfold hostOnlyI hostOnly
  by_cases hk : kind = .subdomains
  · subst hk
    have h2 := h rfl
    simp only [beq_self_eq_true, if_true]
    unfold sliceFrom slice len
    rw [if_pos (by simp [Facts.origins_subdomainWildcard]; omega)]
    simp [Facts.origins_subdomainWildcard]
  · have : (kind == Kind.subdomains) = false := by simpa using hk
    simp only [this, Bool.false_eq_true, if_false]
    rfl

/-- **Refinement.** `parseHostPattern`: for every input the two slice expressions are in range and the result is the
list-level model's. -/
theorem parseHostPatternI_refines (ext : Ext) (str : Bytes) :
    parseHostPatternI ext str = .ok (parseHostPattern ext str) := by
  unfold parseHostPatternI parseHostPattern
  simp only [bind, Except.bind]
  rw [hostOnlyI_peek]
  simp only []
  rw [fastParseHost_refines]
  simp only []
  cases hf : Lex.fastParseHost (hostOnly str (peekKind str)) with
  | none => rfl
  | some p =>
    obtain ⟨host, rest⟩ := p
    simp only []
    have hlen := fastParseHost_len hf
    by_cases h1 : (peekKind str == Kind.subdomains && decide (host.value.length > Facts.origins_maxHostLen - 2)) = true
    · simp [h1, pure, Except.pure]
    · simp only [h1, Bool.false_eq_true, if_false]
      by_cases h2 : (peekKind str == Kind.subdomains && host.assumeIP) = true
      · simp [h2, pure, Except.pure]
      · simp only [h2, Bool.false_eq_true, if_false]
        have hstop : host.value.length + (if (peekKind str == Kind.subdomains) = true then Facts.origins_subdomainWildcard.length + 1 else 0) ≤ str.length := by
          unfold hostOnly at hlen
          by_cases hk : (peekKind str == Kind.subdomains) = true
          · simp only [hk, if_true] at hlen ⊢
            have hp : str.hasPrefix Facts.origins_peekKind_wildcardSeq = true := by
              unfold peekKind at hk
              by_cases hp : str.hasPrefix Facts.origins_peekKind_wildcardSeq = true
              · exact hp
              · simp [hp] at hk
            have hl2 : (2 : Nat) ≤ str.length := hasPrefix_len _ _ hp
            simp [Facts.origins_subdomainWildcard] at hlen ⊢
            omega
          · simp only [hk, Bool.false_eq_true, if_false] at hlen ⊢
            simpa using hlen
        have hslice : sliceTo str ((len host.value) + (if (peekKind str == Kind.subdomains) = true then (Facts.origins_subdomainWildcard.length : Int) + 1 else 0)) =
            .ok (str.take (host.value.length + (if (peekKind str == Kind.subdomains) = true then Facts.origins_subdomainWildcard.length + 1 else 0))) := by
          unfold sliceTo slice len
          by_cases hk : (peekKind str == Kind.subdomains) = true
          · simp only [hk, if_true] at hstop ⊢
            rw [if_pos (by omega)]
            have : ((host.value.length : Int) + ((Facts.origins_subdomainWildcard.length : Int) + 1)).toNat = host.value.length + (Facts.origins_subdomainWildcard.length + 1) := by omega
            simp [this]
          · simp only [hk, Bool.false_eq_true, if_false] at hstop ⊢
            rw [if_pos (by omega)]
            simp
        rw [hslice]
        simp only []
        cases hip : host.assumeIP with
        | true =>
          simp only [if_true]
          cases ipVerdict ext host.value <;> rfl
        | false =>
          simp only [Bool.false_eq_true, if_false]
          cases idnaOK ext host.value <;> rfl

/-- **Refinement.** `newConfig`'s `icfg.acma[0]` sits under `len(icfg.acma) > 0`. -/
theorem acmaHead_refines (acma : List Bytes) : acmaHead acma = .ok acma.head? := by
  unfold acmaHead lenG
  cases acma with
  | nil => simp; rfl
  | cons a t =>
    simp only [List.length_cons]
    rw [if_pos (by omega)]
    simp only [bind, Except.bind]
    have := idxG_ok (a :: t) 0 (by simp)
    simp only [Int.natCast_zero] at this
    rw [this]
    rfl

end Ix
end Cors
