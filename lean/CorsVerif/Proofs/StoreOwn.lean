import CorsVerif.Proofs.StoreAbs
/-
  The scheme table of one node: `node.add` realises `absInsert` on the node's own entries.
-/
namespace Cors
open Gen
namespace Node

/-- Own entries as stored entries (key `[]`, relative to the node). -/
def ownE (x : Bytes × Int) : Entry := ([], x.1, x.2)

theorem insertSorted_perm (c : Int) (l : List Int) :
    (insertSorted (fun a b => decide (a < b)) c l).Perm (c :: l) := by
  induction l with
  | nil => exact List.Perm.refl _
  | cons y ys ih =>
    simp only [insertSorted]
    split
    · exact List.Perm.refl _
    · exact (List.Perm.cons y ih).trans (List.Perm.swap c y ys)

theorem dropWhile_neg_eq_filter (l : List Int) (h : SortedInts l) :
    l.dropWhile (· < 0) = l.filter (fun x => !decide (x < 0)) := by
  induction l with
  | nil => rfl
  | cons y ys ih =>
    unfold SortedInts at h
    rw [List.pairwise_cons] at h
    by_cases hy : y < 0
    · rw [List.dropWhile_cons_of_pos (by simpa using hy), ih h.2, List.filter_cons_of_neg (by simpa using hy)]
    · rw [List.dropWhile_cons_of_neg (by simpa using hy), List.filter_cons_of_pos (by simpa using hy)]
      congr 1
      symm
      rw [List.filter_eq_self]
      intro a ha
      have := h.1 a ha
      simp only [Bool.not_eq_eq_eq_not, Bool.not_true, decide_eq_false_iff_not]
      omega

theorem takeWhile_neg_eq_filter (l : List Int) (h : SortedInts l) :
    l.takeWhile (· < 0) = l.filter (fun x => decide (x < 0)) := by
  induction l with
  | nil => rfl
  | cons y ys ih =>
    unfold SortedInts at h
    rw [List.pairwise_cons] at h
    by_cases hy : y < 0
    · rw [List.takeWhile_cons_of_pos (by simpa using hy), ih h.2, List.filter_cons_of_pos (by simpa using hy)]
    · rw [List.takeWhile_cons_of_neg (by simpa using hy), List.filter_cons_of_neg (by simpa using hy)]
      symm
      rw [List.filter_eq_nil_iff]
      intro a ha
      have := h.1 a ha
      simp only [decide_eq_true_eq]
      omega

/-- Whether storing code `c` (a wildcard code when `isW`) keeps the stored code `c'` of the same scheme. -/
def keepCode (c : Int) (isW : Bool) (c' : Int) : Bool :=
  !(isW && (if c < 0 then decide (c' < 0) else decide (0 ≤ c')))

theorem newList_eq (ps : List Int) (hps : SortedInts ps) (c : Int) (isW : Bool) :
    (if isW then deleteSameSign ps c else ps) = ps.filter (keepCode c isW) := by
  cases isW with
  | false =>
    simp only [Bool.false_eq_true, if_false]
    symm; rw [List.filter_eq_self]; intro a _; simp [keepCode]
  | true =>
    simp only [if_true]
    unfold deleteSameSign
    split
    · rename_i hc
      rw [dropWhile_neg_eq_filter ps hps]
      apply List.filter_congr
      intro a _
      simp [keepCode, hc]
    · rename_i hc
      rw [takeWhile_neg_eq_filter ps hps]
      apply List.filter_congr
      intro a _
      simp only [keepCode, hc, if_false, Bool.true_and]
      by_cases ha : a < 0
      · have : ¬ 0 ≤ a := by omega
        simp [ha, this]
      · have : 0 ≤ a := by omega
        simp [ha, this]

/-- What `addScheme` does to the (scheme, code) pairs of the table. -/
theorem own_addScheme_perm (S : List (Bytes × List Int)) (hS : SchemesOK S) (sch : Bytes) (c : Int) (isW : Bool) :
    (own (addScheme sch c isW S)).Perm
      ((sch, c) :: (own S).filter (fun x => !(x.1 == sch) || keepCode c isW x.2)) := by
  induction S with
  | nil => simp [addScheme, own]
  | cons e rest ih =>
    obtain ⟨s, ps⟩ := e
    simp only [addScheme]
    have hrest := SchemesOK_tail hS
    have hkeys := List.pairwise_cons.mp hS.keys
    split
    · -- found
      rename_i heq
      have hs : s = sch := by simpa using heq
      subst hs
      rw [own_cons, own_cons]
      simp only []
      rw [List.filter_append]
      have hother : (own rest).filter (fun x => !(x.1 == s) || keepCode c isW x.2) = own rest := by
        rw [List.filter_eq_self]
        intro x hx
        obtain ⟨xs, xc⟩ := x
        obtain ⟨qs, hm, _⟩ := mem_own.mp hx
        have hlt : Bytes.lt s xs = true := hkeys.1 xs (List.mem_map.mpr ⟨(xs, qs), hm, rfl⟩)
        have : (xs == s) = false := by
          simp only [beq_eq_false_iff_ne, ne_eq]
          intro h; subst h; rw [Bytes.lt_irrefl] at hlt; cases hlt
        simp [this]
      rw [hother]
      have hfirst : (ps.map (fun c' => (s, c'))).filter (fun x => !(x.1 == s) || keepCode c isW x.2) =
          (ps.filter (keepCode c isW)).map (fun c' => (s, c')) := by
        rw [List.filter_map]
        congr 1
        apply List.filter_congr
        intro a _
        simp
      rw [hfirst, newList_eq ps (hS.ports (s, ps) List.mem_cons_self).sorted c isW]
      have := (insertSorted_perm c (ps.filter (keepCode c isW))).map (fun c' => (s, c'))
      rw [List.map_cons] at this
      exact (this.append_right _)
    · split
      · -- insert before
        rename_i hne hlt
        rw [own_cons]
        simp only [List.map_cons, List.map_nil, List.cons_append, List.nil_append]
        apply List.Perm.cons
        have : (own ((s, ps) :: rest)).filter (fun x => !(x.1 == sch) || keepCode c isW x.2) = own ((s, ps) :: rest) := by
          rw [List.filter_eq_self]
          intro x hx
          obtain ⟨xs, xc⟩ := x
          obtain ⟨qs, hm, _⟩ := mem_own.mp hx
          have hlt' : Bytes.lt sch xs = true := by
            rcases List.mem_cons.mp hm with h | h
            · cases h; exact hlt
            · exact Bytes.lt_trans hlt (hkeys.1 xs (List.mem_map.mpr ⟨(xs, qs), h, rfl⟩))
          have : (xs == sch) = false := by
            simp only [beq_eq_false_iff_ne, ne_eq]
            intro h; subst h; rw [Bytes.lt_irrefl] at hlt'; cases hlt'
          simp [this]
        rw [this]
      · -- keep walking
        rename_i hne hnlt
        rw [own_cons, own_cons, List.filter_append]
        have hfirst : (ps.map (fun c' => (s, c'))).filter (fun x => !(x.1 == sch) || keepCode c isW x.2) = ps.map (fun c' => (s, c')) := by
          rw [List.filter_eq_self]
          intro x hx
          simp only [List.mem_map] at hx
          obtain ⟨a, _, rfl⟩ := hx
          have : (s == sch) = false := by simpa using hne
          simp [this]
        simp only [] at hfirst ⊢
        rw [hfirst]
        exact ((ih hrest).append_left _).trans List.perm_middle

/-- `containsPort` with the already offset port, as `node.add` calls it. -/
theorem containsPort_code (S : List (Bytes × List Int)) (hS : SchemesOK S) (sch : Bytes) (p : Int) (w : Bool)
    (hp : 0 ≤ p ∧ p ≤ 65536) :
    containsPort S sch (code p w) w = (own S).any (fun x => x.1 == sch && sameDrop x.2 (code p w)) := by
  rw [containsPort_eq]
  rw [Bool.eq_iff_iff]
  cases hl : lookupScheme sch S with
  | none =>
    simp only [Bool.false_eq_true, false_iff]
    intro h
    obtain ⟨⟨xs, xc⟩, hx, hc⟩ := List.any_eq_true.mp h
    simp only [Bool.and_eq_true, beq_iff_eq] at hc
    obtain ⟨qs, hm, _⟩ := mem_own.mp hx
    rw [hc.1] at hm
    rw [lookup_unique hS hm] at hl
    cases hl
  | some ps =>
    simp only []
    have hmem := lookup_mem hl
    have hrange := (hS.ports _ hmem).range
    rw [covers_iff, List.any_eq_true]
    constructor
    · intro h
      cases w with
      | false =>
        rw [code_false, code_false, wildCode_false] at h
        rcases h with h | h
        · exact ⟨(sch, p), mem_own.mpr ⟨ps, hmem, h⟩, by simp [sameDrop, code_false]; omega⟩
        · exact ⟨(sch, 65536), mem_own.mpr ⟨ps, hmem, h⟩, by simp [sameDrop, code_false]; omega⟩
      | true =>
        rw [code_true, code_true, wildCode_true] at h
        rcases h with h | h
        · have := hrange _ h; omega
        · refine ⟨(sch, -1), mem_own.mpr ⟨ps, hmem, h⟩, ?_⟩
          simp only [beq_self_eq_true, Bool.true_and, sameDrop, code_true]
          rw [if_pos (by omega)]
    · rintro ⟨⟨xs, xc⟩, hx, hc⟩
      simp only [Bool.and_eq_true, beq_iff_eq] at hc
      obtain ⟨qs, hm, hq⟩ := mem_own.mp hx
      rw [hc.1] at hm
      have := lookup_unique hS hm
      rw [hl] at this
      cases this
      have hd := hc.2
      unfold sameDrop at hd
      cases w with
      | false =>
        rw [code_false] at hd ⊢
        rw [code_false, wildCode_false]
        rw [if_neg (by omega)] at hd
        simp only [Bool.or_eq_true, beq_iff_eq] at hd
        rcases hd with hd | hd
        · left; rw [← hd]; exact hq
        · right; rw [← hd]; exact hq
      | true =>
        rw [code_true] at hd
        rw [wildCode_true]
        rw [if_pos (by omega)] at hd
        right
        have : xc = -1 := by simpa using hd
        rw [← this]; exact hq

theorem deletes_ownE (sch xs : Bytes) (xc p : Int) (w : Bool) (hp : 0 ≤ p ∧ p ≤ 65536) :
    (!deletes (([] : Bytes), sch, code p w) (([] : Bytes), xs, xc)) =
      (!(xs == sch) || keepCode (code p w) (code p w == wildCode w) xc) := by
  have hsym : (sch == xs) = (xs == sch) := by
    rw [Bool.eq_iff_iff, beq_iff_eq, beq_iff_eq]; exact eq_comm
  unfold deletes keepCode
  simp only [decide_true, Bool.true_and, hsym]
  cases hx : (xs == sch)
  · simp
  · cases w with
    | false =>
      rw [code_false, wildCode_false]
      have hn : (p == -1) = false := by simp; omega
      have hlt : ¬ p < 0 := by omega
      simp [hn, hlt]
    | true =>
      rw [code_true, wildCode_true]
      have hn : (p - 65537 == 65536) = false := by simp; omega
      have hlt : p - 65537 < 0 := by omega
      simp [hn, hlt]

/-- **`node.add` on the node's own entries is `absInsert`.** -/
theorem own_exact (S : List (Bytes × List Int)) (hS : SchemesOK S) (sch : Bytes) (p : Int) (w : Bool)
    (hp : 0 ≤ p ∧ p ≤ 65536) :
    ((own (addPort S sch p w)).map ownE).Perm (absInsert ((own S).map ownE) ([], sch, code p w)) := by
  unfold addPort absInsert
  rw [containsPort_code S hS sch p w hp, List.any_map]
  have hany : ((fun x => drops x ([], sch, code p w)) ∘ ownE) = (fun x => x.1 == sch && sameDrop x.2 (code p w)) := by
    funext x
    simp [drops, ownE]
  rw [hany]
  split
  · exact List.Perm.refl _
  · have h := (own_addScheme_perm S hS sch (code p w) (code p w == wildCode w)).map ownE
    rw [List.map_cons] at h
    refine h.trans ?_
    apply List.Perm.cons
    rw [List.filter_map]
    have : ((fun e' => !deletes ([], sch, code p w) e') ∘ ownE) =
        (fun x => !(x.1 == sch) || keepCode (code p w) (code p w == wildCode w) x.2) := by
      funext x
      exact deletes_ownE sch x.1 x.2 p w hp
    rw [this]

end Node
end Cors
