import CorsVerif.Spec.Grammar
import CorsVerif.Model.Origins
import CorsVerif.Proofs.ACRH
/-
  Completeness of the lexers on the documented grammar (C13, "documented forms are accepted").
-/
namespace Cors
open Gen Spec

namespace Accept

/-! ### byte classes: documented ⊆ implemented -/

theorem lower_isLowerAlpha : ∀ c, c < 128 → Spec.isLower c = true → Lex.isLowerAlpha c = true := by decide
theorem schemeByte_later : ∀ c, c < 128 → Spec.isSchemeByte c = true → Lex.isSubsequentSchemeByte c = true := by decide
theorem ldh_class : ∀ c, c < 128 → Spec.isLDH c = true →
    c ≠ Facts.origins_labelSep ∧ (Lex.isDigit c = Spec.isDigit c) ∧ (Lex.isDigit c = false → Lex.isASCIILabelByte c = true) := by decide
theorem digit_class : ∀ c, c < 128 → Spec.isDigit c = true → Lex.isDigit c = true := by decide
theorem nonzero_class : ∀ c, c < 128 → (49 ≤ c && c ≤ 57) = true → Lex.isNonZeroDigit c = true := by decide

theorem lower_lt {c : Nat} (h : Spec.isLower c = true) : c < 128 := by
  simp only [Spec.isLower, Bool.and_eq_true, decide_eq_true_eq] at h; omega
theorem digit_lt {c : Nat} (h : Spec.isDigit c = true) : c < 128 := by
  simp only [Spec.isDigit, Bool.and_eq_true, decide_eq_true_eq] at h; omega
theorem ldh_lt {c : Nat} (h : Spec.isLDH c = true) : c < 128 := by
  simp only [Spec.isLDH, Bool.or_eq_true, beq_iff_eq] at h
  rcases h with (h | h) | h
  · exact lower_lt h
  · exact digit_lt h
  · omega
theorem schemeByte_lt {c : Nat} (h : Spec.isSchemeByte c = true) : c < 128 := by
  simp only [Spec.isSchemeByte, Bool.or_eq_true, beq_iff_eq] at h
  rcases h with (((h | h) | h) | h) | h
  · exact lower_lt h
  · exact digit_lt h
  · omega
  · omega
  · omega

/-! ### scheme -/

theorem spanUpTo_exact (p : Nat → Bool) (n : Nat) (l r : Bytes) (hl : l.all p = true) (hn : l.length ≤ n)
    (hr : r.head?.all (fun c => !p c) = true) : Lex.spanUpTo p n (l ++ r) = (l, r) := by
  induction l generalizing n with
  | nil =>
    cases n with
    | zero => rfl
    | succ n =>
      cases r with
      | nil => rfl
      | cons c t =>
        simp only [List.head?_cons, Option.all_some, Bool.not_eq_true'] at hr
        simp [Lex.spanUpTo, hr]
  | cons a t ih =>
    cases n with
    | zero => simp at hn
    | succ n =>
      simp only [List.all_cons, Bool.and_eq_true] at hl
      simp only [List.cons_append, Lex.spanUpTo, hl.1, if_true]
      rw [ih n hl.2 (by simp at hn; omega)]

theorem parseScheme_doc {s : Bytes} (hs : docScheme s = true) (r : Bytes)
    (hr : r.head?.all (fun c => !Lex.isSubsequentSchemeByte c) = true) :
    Lex.parseScheme (s ++ r) = some (s, r) := by
  cases s with
  | nil => simp [docScheme] at hs
  | cons c t =>
    simp only [docScheme, Bool.and_eq_true, decide_eq_true_eq, List.length_cons] at hs
    obtain ⟨⟨⟨h1, h2⟩, h3⟩, _⟩ := hs
    have hc := lower_isLowerAlpha c (lower_lt h1) h1
    simp only [List.cons_append, Lex.parseScheme, hc, Bool.not_true, Bool.false_eq_true, if_false]
    have hall : t.all Lex.isSubsequentSchemeByte = true := by
      simp only [List.all_eq_true] at h2 ⊢
      intro x hx
      exact schemeByte_later x (schemeByte_lt (h2 x hx)) (h2 x hx)
    rw [spanUpTo_exact _ _ t r hall (by simp only [Facts.origins_maxSchemeLen]; omega) hr]

/-! ### host -/

/-- One label: the loop walks through it; only its first byte can change the IPv4 guess. -/
theorem hostLoop_label (l : Bytes) (hl : l.all Spec.isLDH = true) (r : Bytes) (ps ip fst : Bool) (c : Nat) (t : Bytes)
    (hc : l = c :: t) :
    Lex.hostLoop (l ++ r) ps ip fst =
      (Lex.hostLoop r false
        (if Spec.isDigit c then (if ps || fst then true else ip) else (if ps then false else ip)) false).map
        fun (h, r', ip') => (l ++ h, r', ip') := by
  subst hc
  simp only [List.all_cons, Bool.and_eq_true] at hl
  obtain ⟨hc, ht⟩ := hl
  obtain ⟨hne, hd, hlab⟩ := ldh_class c (ldh_lt hc) hc
  -- the remaining bytes of the label leave the guess alone
  have tail : ∀ (t : Bytes), t.all Spec.isLDH = true → ∀ ip0 : Bool,
      Lex.hostLoop (t ++ r) false ip0 false = (Lex.hostLoop r false ip0 false).map fun (h, r', ip') => (t ++ h, r', ip') := by
    intro t
    induction t with
    | nil =>
      intro _ ip0
      simp only [List.nil_append]
      cases Lex.hostLoop r false ip0 false with
      | none => rfl
      | some x => obtain ⟨a, b', c'⟩ := x; rfl
    | cons d t ih =>
      intro hdt ip0
      simp only [List.all_cons, Bool.and_eq_true] at hdt
      obtain ⟨hne', hd', hlab'⟩ := ldh_class d (ldh_lt hdt.1) hdt.1
      simp only [List.cons_append, Lex.hostLoop]
      have h46 : (d == Facts.origins_labelSep) = false := by simpa using hne'
      simp only [h46, Bool.false_eq_true, if_false, Bool.or_self]
      cases hdd : Lex.isDigit d with
      | true =>
        simp only [if_true]
        rw [ih hdt.2 ip0]
        cases Lex.hostLoop r false ip0 false with
        | none => rfl
        | some x => obtain ⟨a, b', c'⟩ := x; rfl
      | false =>
        simp only [Bool.false_eq_true, if_false, hlab' hdd, if_true]
        rw [ih hdt.2 ip0]
        cases Lex.hostLoop r false ip0 false with
        | none => rfl
        | some x => obtain ⟨a, b', c'⟩ := x; rfl
  simp only [List.cons_append, Lex.hostLoop]
  have h46 : (c == Facts.origins_labelSep) = false := by simpa using hne
  simp only [h46, Bool.false_eq_true, if_false]
  cases hdd : Lex.isDigit c with
  | true =>
    have : Spec.isDigit c = true := by rw [← hd]; exact hdd
    simp only [if_true, this]
    rw [tail t ht]
    cases Lex.hostLoop r false (if (ps || fst) = true then true else ip) false with
    | none => rfl
    | some x => obtain ⟨a, b', c'⟩ := x; rfl
  | false =>
    have : Spec.isDigit c = false := by rw [← hd]; exact hdd
    simp only [Bool.false_eq_true, if_false, hlab hdd, if_true, this]
    rw [tail t ht]
    cases Lex.hostLoop r false (if ps = true then false else ip) false with
    | none => rfl
    | some x => obtain ⟨a, b', c'⟩ := x; rfl

end Accept
end Cors

namespace Cors
open Gen Spec
namespace Accept

/-- Where the host loop stops: at the end of the string or at a byte that cannot belong to a host. -/
def Stops (r : Bytes) : Prop :=
  r = [] ∨ ∃ c t, r = c :: t ∧ c ≠ Facts.origins_labelSep ∧ Lex.isDigit c = false ∧ Lex.isASCIILabelByte c = false

theorem hostLoop_stop {r : Bytes} (hr : Stops r) (ps ip fst : Bool) : Lex.hostLoop r ps ip fst = some ([], r, ip) := by
  rcases hr with rfl | ⟨c, t, rfl, h1, h2, h3⟩
  · rfl
  · have : (c == Facts.origins_labelSep) = false := by simpa using h1
    simp [Lex.hostLoop, this, h2, h3]

theorem lower_not_digit {c : Nat} (h : Spec.isLower c = true) : Spec.isDigit c = false := by
  simp only [Spec.isLower, Spec.isDigit, Bool.and_eq_true, decide_eq_true_eq] at h ⊢
  simp only [Bool.and_eq_false_iff, decide_eq_false_iff_not]
  omega

theorem hostLoop_domain (ls : List Bytes) (hls : ∀ l ∈ ls, l ≠ [] ∧ l.all Spec.isLDH = true) (hne : ls ≠ [])
    (hlast : ∃ l, ls.getLast? = some l ∧ l.head?.any Spec.isLower = true) (dot : Bool) (r : Bytes) (hr : Stops r)
    (ps ip fst : Bool) (hip : ip = false ∨ ps = true) :
    Lex.hostLoop (Bytes.join 46 ls ++ (if dot then [46] else []) ++ r) ps ip fst =
      some (Bytes.join 46 ls ++ (if dot then [46] else []), r, false) := by
  induction ls generalizing ps ip fst with
  | nil => exact absurd rfl hne
  | cons l rest ih =>
    obtain ⟨hlne, hlall⟩ := hls l List.mem_cons_self
    cases hl : l with
    | nil => exact absurd hl hlne
    | cons c t =>
      cases rest with
      | nil =>
        -- the last label: starts with a letter
        obtain ⟨l', hl', hlow⟩ := hlast
        simp only [List.getLast?_singleton, Option.some.injEq] at hl'
        subst hl'
        rw [hl] at hlow
        simp only [List.head?_cons, Option.any_some] at hlow
        simp only [Bytes.join]
        rw [← hl, List.append_assoc, hostLoop_label l hlall _ ps ip fst c t hl]
        simp only [lower_not_digit hlow, Bool.false_eq_true, if_false]
        have hg : (if ps = true then false else ip) = false := by
          rcases hip with h | h
          · subst h; cases ps <;> rfl
          · subst h; rfl
        rw [hg]
        cases dot with
        | false =>
          simp only [Bool.false_eq_true, if_false, List.nil_append, List.append_nil]
          rw [hostLoop_stop hr]
          simp
        | true =>
          simp only [if_true, List.singleton_append, Lex.hostLoop]
          have : ((46 : Nat) == Facts.origins_labelSep) = true := by decide
          simp only [this, if_true, Bool.false_eq_true, if_false]
          rw [hostLoop_stop hr]
          simp
      | cons l2 rest2 =>
        have hjoin : Bytes.join 46 (l :: l2 :: rest2) = l ++ 46 :: Bytes.join 46 (l2 :: rest2) := by
          simp [Bytes.join]
        rw [← hl, hjoin]
        have hassoc : l ++ 46 :: Bytes.join 46 (l2 :: rest2) ++ (if dot = true then [46] else []) ++ r =
            l ++ (46 :: (Bytes.join 46 (l2 :: rest2) ++ (if dot = true then [46] else []) ++ r)) := by simp
        rw [hassoc, hostLoop_label l hlall _ ps ip fst c t hl]
        simp only [Lex.hostLoop]
        have : ((46 : Nat) == Facts.origins_labelSep) = true := by decide
        simp only [this, if_true, Bool.false_eq_true, if_false]
        have hlast' : ∃ l, (l2 :: rest2).getLast? = some l ∧ l.head?.any Spec.isLower = true := by
          obtain ⟨l', hl', hlow⟩ := hlast
          exact ⟨l', by simpa [List.getLast?_cons_cons] using hl', hlow⟩
        rw [ih (fun x hx => hls x (List.mem_cons_of_mem _ hx)) (by simp) hlast' true _ false (Or.inr rfl)]
        simp

end Accept
end Cors

namespace Cors
open Gen Spec Pat
namespace Accept

/-! ### splitting a dotted host -/

theorem splitOn_join_gen (c : Nat) (ns : List Bytes) (hnn : ns ≠ []) (hc : ∀ n ∈ ns, c ∉ n) :
    Bytes.splitOn c (Bytes.join c ns) = ns := by
  induction ns with
  | nil => exact absurd rfl hnn
  | cons n rest ih =>
    cases rest with
    | nil => simp [Bytes.join, ACRH.splitOn_no_comma (hc n List.mem_cons_self)]
    | cons r rs =>
      simp only [Bytes.join]
      rw [ACRH.splitOn_append (hc n List.mem_cons_self)]
      rw [ih (by simp) (fun x hx => hc x (List.mem_cons_of_mem _ hx))]

theorem splitOn_ne_nil (c : Nat) (x : Bytes) : Bytes.splitOn c x ≠ [] := by
  induction x with
  | nil => simp [Bytes.splitOn]
  | cons a t ih =>
    simp only [Bytes.splitOn]
    split
    · simp
    · cases h : Bytes.splitOn c t with
      | nil => exact absurd h ih
      | cons y ys => simp

theorem splitOn_snoc (c : Nat) (x : Bytes) : Bytes.splitOn c (x ++ [c]) = Bytes.splitOn c x ++ [[]] := by
  induction x with
  | nil => simp [Bytes.splitOn]
  | cons a t ih =>
    simp only [List.cons_append, Bytes.splitOn]
    split
    · rw [ih]; rfl
    · rw [ih]
      cases h : Bytes.splitOn c t with
      | nil => exact absurd h (splitOn_ne_nil c t)
      | cons y ys => rfl

/-! ### what a documented label gives -/

theorem hasPrefix_xn {l : Bytes} (hp : l.hasPrefix xnDash = true) : (l.drop 2).take 2 = [45, 45] := by
  cases l with
  | nil => simp [xnDash, Bytes.hasPrefix] at hp
  | cons a l =>
    cases l with
    | nil => simp [xnDash, Bytes.hasPrefix] at hp
    | cons b' l =>
      cases l with
      | nil => simp [xnDash, Bytes.hasPrefix] at hp
      | cons c l =>
        cases l with
        | nil => simp [xnDash, Bytes.hasPrefix] at hp
        | cons d t =>
          simp only [xnDash, Bytes.hasPrefix, Bool.and_eq_true, beq_iff_eq] at hp
          obtain ⟨_, _, rfl, rfl, _⟩ := hp
          rfl

theorem docLabel_facts {l : Bytes} (h : docLabel l = true) :
    l ≠ [] ∧ l.all Spec.isLDH = true ∧ (46 : Nat) ∉ l ∧ plainLabelOK l = true ∧ l.hasPrefix xnDash = false ∧
    l.head? ≠ some 45 := by
  simp only [docLabel, Bool.and_eq_true, Bool.not_eq_true', decide_eq_true_eq, bne_iff_ne, ne_eq] at h
  obtain ⟨⟨⟨⟨⟨h1, h2⟩, h3⟩, h4⟩, h5⟩, h6⟩ := h
  have hne : l ≠ [] := by intro h0; subst h0; simp at h1
  have h46 : (46 : Nat) ∉ l := by
    intro hm
    simp only [List.all_eq_true] at h3
    have := h3 46 hm
    revert this; decide
  refine ⟨hne, h3, h46, ?_, ?_, h4⟩
  · unfold plainLabelOK
    simp only [Bool.and_eq_true, Bool.not_eq_true', decide_eq_true_eq, bne_iff_ne, ne_eq, Bool.and_eq_false_iff,
      decide_eq_false_iff_not, beq_eq_false_iff_ne]
    exact ⟨⟨⟨⟨h1, h2⟩, h4⟩, h5⟩, Or.inr h6⟩
  · -- `xn--` has hyphens in positions 3-4
    cases hp : l.hasPrefix xnDash with
    | false => rfl
    | true =>
      exact absurd (hasPrefix_xn hp) h6

/-- The labels of a documented domain. -/
structure Labels (ls : List Bytes) : Prop where
  ne : ls ≠ []
  all : ∀ l ∈ ls, docLabel l = true
  last : ∃ l, ls.getLast? = some l ∧ l.head?.any Spec.isLower = true
  len : (Bytes.join 46 ls).length ≤ 253

theorem labels_of_doc {ls : List Bytes} (h : docDomain ls = true) : Labels ls := by
  simp only [docDomain, Bool.and_eq_true, Bool.not_eq_true', decide_eq_true_eq, List.all_eq_true] at h
  obtain ⟨⟨⟨h1, h2⟩, h3⟩, h4⟩ := h
  refine ⟨by intro h0; subst h0; simp at h1, h2, ?_, h4⟩
  cases hl : ls.getLast? with
  | none => simp [hl] at h3
  | some l => exact ⟨l, rfl, by simpa [hl] using h3⟩

def hostOf (ls : List Bytes) (dot : Bool) : Bytes := Bytes.join 46 ls ++ (if dot then [46] else [])

theorem join_head {ls : List Bytes} {l : Bytes} {rest : List Bytes} (h : ls = l :: rest) (hl : l ≠ []) :
    (Bytes.join 46 ls).head? = l.head? := by
  subst h
  cases l with
  | nil => exact absurd rfl hl
  | cons c t => cases rest <;> simp [Bytes.join]

theorem hostOf_head {ls : List Bytes} (hL : Labels ls) (dot : Bool) (r : Bytes) :
    ∃ c t, hostOf ls dot ++ r = c :: t ∧ Spec.isLDH c = true ∧ c ≠ 45 := by
  cases hls : ls with
  | nil => exact absurd hls hL.ne
  | cons l rest =>
    obtain ⟨hne, hall, _, _, _, hh⟩ := docLabel_facts (hL.all l (by rw [hls]; exact List.mem_cons_self))
    cases hl : l with
    | nil => exact absurd hl hne
    | cons c t =>
      refine ⟨c, t ++ ((match rest with | [] => [] | y :: ys => 46 :: Bytes.join 46 (y :: ys)) ++ (if dot then [46] else []) ++ r), ?_, ?_, ?_⟩
      · unfold hostOf
        cases rest <;> simp [Bytes.join]
      · rw [hl] at hall; simp only [List.all_cons, Bool.and_eq_true] at hall; exact hall.1
      · rw [hl] at hh; simpa using hh

/-- `fastParseHost` reads a documented domain completely and does not take it for an IP address. -/
theorem fastParseHost_doc {ls : List Bytes} (hL : Labels ls) (dot : Bool) (r : Bytes) (hr : Stops r) :
    Lex.fastParseHost (hostOf ls dot ++ r) = some ({ value := hostOf ls dot, assumeIP := false }, r) := by
  obtain ⟨c, t, hct, hldh, _⟩ := hostOf_head hL dot r
  obtain ⟨hne46, _, _⟩ := ldh_class c (ldh_lt hldh) hldh
  have h91 : c ≠ 91 := by intro h; subst h; revert hldh; decide
  unfold Lex.fastParseHost
  rw [hct]
  have hb : ((c :: t).length ≥ Facts.origins_fastParseHost_minIPv6HostLen && (c :: t).head? == some 91) = false := by
    simp [h91]
  rw [if_neg (by rw [hb]; simp)]
  simp only []
  have h46 : (c == Facts.origins_labelSep) = false := by simpa using hne46
  rw [if_neg (by rw [h46]; simp)]
  rw [← hct]
  have hls : ∀ l ∈ ls, l ≠ [] ∧ l.all Spec.isLDH = true := fun l hl => by
    obtain ⟨a, b', _⟩ := docLabel_facts (hL.all l hl); exact ⟨a, b'⟩
  have := hostLoop_domain ls hls hL.ne hL.last dot r hr false false true (Or.inl rfl)
  unfold hostOf
  rw [this]

end Accept
end Cors

namespace Cors
open Gen Spec Pat
namespace Accept

theorem split_host {ls : List Bytes} (hL : Labels ls) (dot : Bool) :
    Bytes.splitOn 46 (hostOf ls dot) = if dot then ls ++ [[]] else ls := by
  have hj := splitOn_join_gen 46 ls hL.ne (fun l hl => (docLabel_facts (hL.all l hl)).2.2.1)
  unfold hostOf
  cases dot with
  | false => simp [hj]
  | true => simp only [if_true]; rw [splitOn_snoc, hj]

theorem join_length_pos {ls : List Bytes} (hL : Labels ls) : 0 < (Bytes.join 46 ls).length := by
  cases hls : ls with
  | nil => exact absurd hls hL.ne
  | cons l rest =>
    have hne := (docLabel_facts (hL.all l (by rw [hls]; exact List.mem_cons_self))).1
    cases l with
    | nil => exact absurd rfl hne
    | cons c t => cases rest <;> simp [Bytes.join]

theorem join_getLast {ls : List Bytes} (hL : Labels ls) : (Bytes.join 46 ls).getLast? ≠ some 46 := by
  obtain ⟨l, hl, _⟩ := hL.last
  have hmem : l ∈ ls := List.mem_of_getLast? hl
  obtain ⟨hne, _, h46, _⟩ := docLabel_facts (hL.all l hmem)
  -- the last byte of the join is the last byte of the last label
  have key : ∀ (ls : List Bytes) (l : Bytes), ls.getLast? = some l → l ≠ [] → (Bytes.join 46 ls).getLast? = l.getLast? := by
    intro ls
    induction ls with
    | nil => intro l h; simp at h
    | cons x rest ih =>
      intro l h hne
      cases rest with
      | nil => simp at h; subst h; simp [Bytes.join]
      | cons y ys =>
        have h' : (y :: ys).getLast? = some l := by simpa [List.getLast?_cons_cons] using h
        have := ih l h' hne
        simp only [Bytes.join]
        rw [List.getLast?_append, List.getLast?_cons]
        have hne2 : Bytes.join 46 (y :: ys) ≠ [] := by
          intro h0
          rw [h0] at this
          cases l with
          | nil => exact hne rfl
          | cons a as =>
            have h2 : (a :: as).getLast? ≠ none := by simp
            exact h2 this.symm
        cases hj : (Bytes.join 46 (y :: ys)).getLast? with
        | none => exfalso; exact hne2 (List.getLast?_eq_none_iff.mp hj)
        | some z =>
          rw [hj] at this
          simp only [hj, Option.some_or]
          exact this
  rw [key ls l hl hne]
  intro h
  exact h46 (List.mem_of_getLast? h)

theorem idna_doc (ext : Ext) {ls : List Bytes} (hL : Labels ls) (dot : Bool) : idnaOK ext (hostOf ls dot) = true := by
  have hsplit := split_host hL dot
  have hxn : hasXnLabel (hostOf ls dot) = false := by
    unfold hasXnLabel
    rw [hsplit]
    have h1 : ls.any (fun x => x.hasPrefix xnDash) = false := by
      simp only [List.any_eq_false]
      intro l hl
      rw [(docLabel_facts (hL.all l hl)).2.2.2.2.1]
      simp
    cases dot with
    | false => simpa using h1
    | true =>
      simp only [if_true, List.any_append, h1, Bool.false_or]
      simp [xnDash, Bytes.hasPrefix]
  unfold idnaOK
  rw [hxn]
  simp only [Bool.false_eq_true, if_false]
  unfold plainIdnaOK
  simp only []
  rw [hsplit]
  have hbody : (if (if dot = true then ls ++ [[]] else ls).getLast? == some [] then (if dot = true then ls ++ [[]] else ls).dropLast
      else (if dot = true then ls ++ [[]] else ls)) = ls := by
    cases dot with
    | true => simp
    | false =>
      simp only [Bool.false_eq_true, if_false]
      obtain ⟨l, hl, _⟩ := hL.last
      have hne := (docLabel_facts (hL.all l (List.mem_of_getLast? hl))).1
      rw [hl]
      have : (some l == some ([] : Bytes)) = false := by
        cases l with
        | nil => exact absurd rfl hne
        | cons _ _ => rfl
      rw [this]; simp
  rw [hbody]
  have hpos := join_length_pos hL
  have h1 : (hostOf ls dot).isEmpty = false := by
    unfold hostOf
    cases hj : Bytes.join 46 ls with
    | nil => rw [hj] at hpos; simp at hpos
    | cons _ _ => rfl
  have h2 : ls.isEmpty = false := by
    cases hls : ls with
    | nil => exact absurd hls hL.ne
    | cons _ _ => rfl
  have h3 : ls.all plainLabelOK = true := by
    simp only [List.all_eq_true]
    intro l hl
    exact (docLabel_facts (hL.all l hl)).2.2.2.1
  have h4 : (trimDot (hostOf ls dot)).length ≤ 253 := by
    unfold trimDot hostOf
    cases dot with
    | true =>
      simp only [if_true]
      have : (Bytes.join 46 ls ++ [46]).getLast? = some Facts.origins_labelSep := by simp [Facts.origins_labelSep]
      rw [this]
      simp only [beq_self_eq_true, if_true, List.dropLast_concat]
      exact hL.len
    | false =>
      simp only [Bool.false_eq_true, if_false, List.append_nil]
      have := join_getLast hL
      have hb : ((Bytes.join 46 ls).getLast? == some Facts.origins_labelSep) = false := by
        simpa [Facts.origins_labelSep] using this
      rw [hb]
      simp only [Bool.false_eq_true, if_false]
      exact hL.len
  simp [h1, h2, h3, h4]

/-! ### ports -/

theorem portLoop_digits (ds : Bytes) (hd : ds.all Spec.isDigit = true) (n : Nat) (hn : ds.length ≤ n) (acc : Nat) :
    Lex.portLoop n ds acc = (ds.foldl (fun a c => 10 * a + (c - 48)) acc, []) := by
  induction ds generalizing n acc with
  | nil => cases n <;> rfl
  | cons d t ih =>
    cases n with
    | zero => simp at hn
    | succ n =>
      simp only [List.all_cons, Bool.and_eq_true] at hd
      have hdd := digit_class d (digit_lt hd.1) hd.1
      simp only [Lex.portLoop, hdd, if_true, List.foldl_cons]
      rw [ih hd.2 n (by simp at hn; omega)]
      rfl

theorem parsePort_doc (ds : Bytes) (h : docPortOK (.num ds) = true) : Lex.parsePort ds = some (portValue ds, []) := by
  unfold docPortOK at h
  cases ds with
  | nil => simp at h
  | cons d t =>
    simp only [Bool.and_eq_true, decide_eq_true_eq, List.length_cons] at h
    obtain ⟨⟨⟨h1, h2⟩, h3⟩, h4⟩ := h
    have hnz := nonzero_class d (by omega) (by simp [h1])
    unfold Lex.parsePort
    simp only [hnz, Bool.not_true, Bool.false_eq_true, if_false]
    rw [portLoop_digits t h2 _ (by simp only [Facts.origins_maxPortLen]; omega)]
    simp only []
    have hv : portValue (d :: t) = t.foldl (fun a c => 10 * a + (c - 48)) (d - 48) := by
      simp [portValue]
    rw [← hv]
    rw [if_neg (by simp only [Facts.origins_maxUint16]; omega)]

end Accept
end Cors

namespace Cors
open Gen Spec Pat
namespace Accept

theorem stops_colon (t : Bytes) : Stops (58 :: t) :=
  Or.inr ⟨58, t, rfl, by decide, by decide, by decide⟩

theorem ldh_not_star {c : Nat} (h : Spec.isLDH c = true) : c ≠ 42 := by
  intro h0; subst h0; revert h; decide

theorem parseHostPattern_doc (ext : Ext) {ls : List Bytes} (hL : Labels ls) (dot wild : Bool)
    (hw : wild = true → (hostOf ls dot).length ≤ 251) (r : Bytes) (hr : Stops r) :
    parseHostPattern ext ((if wild then [42, 46] else []) ++ hostOf ls dot ++ r) =
      .ok ((if wild then [42, 46] else []) ++ hostOf ls dot, if wild then Kind.subdomains else Kind.domain, r) := by
  obtain ⟨c, t, hct, hldh, _⟩ := hostOf_head hL dot r
  have hfp := fastParseHost_doc hL dot r hr
  have hid := idna_doc ext hL dot
  unfold parseHostPattern
  cases wild with
  | true =>
    have hpk : peekKind ([42, 46] ++ hostOf ls dot ++ r) = Kind.subdomains := by
      simp [peekKind, Facts.origins_peekKind_wildcardSeq, Bytes.hasPrefix]
    simp only [if_true, hpk]
    have hho : hostOnly ([42, 46] ++ hostOf ls dot ++ r) Kind.subdomains = hostOf ls dot ++ r := by
      simp [hostOnly, Facts.origins_subdomainWildcard]
    rw [hho, hfp]
    simp only []
    have hlen := hw rfl
    have h1 : (Kind.subdomains == Kind.subdomains && decide ((hostOf ls dot).length > Facts.origins_maxHostLen - 2)) = false := by
      have hn : ¬ ((hostOf ls dot).length > Facts.origins_maxHostLen - 2) := by
        have : Facts.origins_maxHostLen = 253 := rfl
        omega
      rw [decide_eq_false hn, Bool.and_false]
    rw [if_neg (by rw [h1]; simp)]
    rw [if_neg (by simp)]
    rw [if_neg (by simp)]
    rw [hid]
    simp only [Bool.not_true, Bool.false_eq_true, if_false]
    have htake : ([42, 46] ++ hostOf ls dot ++ r).take ((hostOf ls dot).length + (if (Kind.subdomains == Kind.subdomains) = true then Facts.origins_subdomainWildcard.length + 1 else 0)) = [42, 46] ++ hostOf ls dot := by
      have : ([42, 46] ++ hostOf ls dot).length = (hostOf ls dot).length + (if (Kind.subdomains == Kind.subdomains) = true then Facts.origins_subdomainWildcard.length + 1 else 0) := by
        simp [Facts.origins_subdomainWildcard]
      rw [← this]
      exact List.take_left' rfl
    rw [htake]
  | false =>
    have hpk : peekKind ([] ++ hostOf ls dot ++ r) = Kind.domain := by
      rw [List.nil_append, hct]
      have : (c == 42) = false := by simpa using ldh_not_star hldh
      simp [peekKind, Facts.origins_peekKind_wildcardSeq, Bytes.hasPrefix, this]
    simp only [Bool.false_eq_true, if_false, hpk]
    have hho : hostOnly ([] ++ hostOf ls dot ++ r) Kind.domain = hostOf ls dot ++ r := by
      simp [hostOnly]
    rw [hho, hfp]
    simp only []
    rw [if_neg (by simp)]
    rw [if_neg (by simp)]
    rw [if_neg (by simp)]
    rw [hid]
    simp only [Bool.not_true, Bool.false_eq_true, if_false]
    have htake : ([] ++ hostOf ls dot ++ r).take ((hostOf ls dot).length + (if (Kind.domain == Kind.subdomains) = true then Facts.origins_subdomainWildcard.length + 1 else 0)) = [] ++ hostOf ls dot := by
      have : (Kind.domain == Kind.subdomains) = false := rfl
      simp only [this, Bool.false_eq_true, if_false, Nat.add_zero, List.nil_append]
      exact List.take_left' rfl
    rw [htake]

end Accept
end Cors

namespace Cors
open Gen Spec Pat
namespace Accept

/-! ### dotted-quad IPv4 hosts -/

theorem digit_isLDH {c : Nat} (h : Spec.isDigit c = true) : Spec.isLDH c = true := by
  unfold Spec.isLDH; rw [h]; simp

/-- What a documented octet gives. -/
theorem docOctet_facts {f : Bytes} (h : docOctet f = true) :
    f ≠ [] ∧ f.all Spec.isDigit = true ∧ f.all Spec.isLDH = true ∧ (46 : Nat) ∉ f ∧ octetOK f = true := by
  simp only [docOctet, Bool.and_eq_true, Bool.not_eq_true', decide_eq_true_eq] at h
  obtain ⟨⟨⟨⟨h1, h2⟩, h3⟩, h4⟩, h5⟩ := h
  have hne : f ≠ [] := by intro h0; subst h0; simp at h1
  have hldh : f.all Spec.isLDH = true := by
    simp only [List.all_eq_true] at h2 ⊢
    exact fun c hc => digit_isLDH (h2 c hc)
  have h46 : (46 : Nat) ∉ f := by
    intro hm
    simp only [List.all_eq_true] at h2
    have := h2 46 hm
    revert this; decide
  refine ⟨hne, h2, hldh, h46, ?_⟩
  unfold octetOK
  have hB : f.all Bytes.isDigitB = true := by
    simp only [List.all_eq_true] at h2 ⊢
    intro c hc
    have := h2 c hc
    simpa [Spec.isDigit, Bytes.isDigitB] using this
  have hv : f.foldl (fun acc c => 10 * acc + (c - 48)) 0 = portValue f := rfl
  simp only [Bool.and_eq_true, Bool.not_eq_true', decide_eq_true_eq]
  exact ⟨⟨⟨⟨h1, hB⟩, h3⟩, h4⟩, by rw [hv]; exact h5⟩

/-- The host loop over labels whose last one starts with a digit: an IPv4 candidate. -/
theorem hostLoop_v4 (ls : List Bytes) (hls : ∀ l ∈ ls, l ≠ [] ∧ l.all Spec.isLDH = true) (hne : ls ≠ [])
    (hlast : ∃ l, ls.getLast? = some l ∧ l.head?.any Spec.isDigit = true) (r : Bytes) (hr : Stops r)
    (ps ip fst : Bool) (hip : ps = true ∨ fst = true) :
    Lex.hostLoop (Bytes.join 46 ls ++ r) ps ip fst = some (Bytes.join 46 ls, r, true) := by
  induction ls generalizing ps ip fst with
  | nil => exact absurd rfl hne
  | cons l rest ih =>
    obtain ⟨hlne, hlall⟩ := hls l List.mem_cons_self
    cases hl : l with
    | nil => exact absurd hl hlne
    | cons c t =>
      cases rest with
      | nil =>
        obtain ⟨l', hl', hdig⟩ := hlast
        simp only [List.getLast?_singleton, Option.some.injEq] at hl'
        subst hl'
        rw [hl] at hdig
        simp only [List.head?_cons, Option.any_some] at hdig
        simp only [Bytes.join]
        rw [← hl, hostLoop_label l hlall _ ps ip fst c t hl]
        simp only [hdig, if_true]
        have hg : (if (ps || fst) = true then true else ip) = true := by
          rcases hip with h | h <;> subst h <;> simp
        rw [hg, hostLoop_stop hr]
        simp
      | cons l2 rest2 =>
        have hjoin : Bytes.join 46 (l :: l2 :: rest2) = l ++ 46 :: Bytes.join 46 (l2 :: rest2) := by
          simp [Bytes.join]
        rw [← hl, hjoin]
        have hassoc : l ++ 46 :: Bytes.join 46 (l2 :: rest2) ++ r = l ++ (46 :: (Bytes.join 46 (l2 :: rest2) ++ r)) := by simp
        rw [hassoc, hostLoop_label l hlall _ ps ip fst c t hl]
        simp only [Lex.hostLoop]
        have : ((46 : Nat) == Facts.origins_labelSep) = true := by decide
        simp only [this, if_true, Bool.false_eq_true, if_false]
        have hlast' : ∃ l, (l2 :: rest2).getLast? = some l ∧ l.head?.any Spec.isDigit = true := by
          obtain ⟨l', hl', hd⟩ := hlast
          exact ⟨l', by simpa [List.getLast?_cons_cons] using hl', hd⟩
        rw [ih (fun x hx => hls x (List.mem_cons_of_mem _ hx)) (by simp) hlast' true _ false (Or.inl rfl)]
        simp

theorem firstIPMark_digits (ds rest : Bytes) (hd : ds.all Spec.isDigit = true) : firstIPMark (ds ++ 46 :: rest) = some 46 := by
  induction ds with
  | nil => simp [firstIPMark]
  | cons c t ih =>
    simp only [List.all_cons, Bool.and_eq_true] at hd
    have hc : (c == 46 || c == 58 || c == 37) = false := by
      have := hd.1
      simp only [Spec.isDigit, Bool.and_eq_true, decide_eq_true_eq] at this
      simp only [Bool.or_eq_false_iff, beq_eq_false_iff_ne, ne_eq]
      omega
    simp only [List.cons_append, firstIPMark, hc, Bool.false_eq_true, if_false]
    exact ih hd.2

end Accept
end Cors

namespace Cors
open Gen Spec Pat
namespace Accept

theorem parseHostPattern_v4 (ext : Ext) (a b c d : Bytes) (ha : docOctet a = true) (hb : docOctet b = true)
    (hc : docOctet c = true) (hd : docOctet d = true) (r : Bytes) (hr : Stops r) :
    parseHostPattern ext (Bytes.join 46 [a, b, c, d] ++ r) =
      .ok (Bytes.join 46 [a, b, c, d], if a == [49, 50, 55] then Kind.loopbackIP else Kind.nonLoopbackIP, r) := by
  obtain ⟨ane, adig, aldh, a46, aok⟩ := docOctet_facts ha
  obtain ⟨bne, bdig, bldh, b46, bok⟩ := docOctet_facts hb
  obtain ⟨cne, cdig, cldh, c46, cok⟩ := docOctet_facts hc
  obtain ⟨dne, ddig, dldh, d46, dok⟩ := docOctet_facts hd
  -- the first byte is a digit
  obtain ⟨a0, at', haeq⟩ : ∃ a0 at', a = a0 :: at' := by
    cases a with
    | nil => exact absurd rfl ane
    | cons x xs => exact ⟨x, xs, rfl⟩
  have ha0 : Spec.isDigit a0 = true := by
    rw [haeq] at adig; simp only [List.all_cons, Bool.and_eq_true] at adig; exact adig.1
  have hjoin : Bytes.join 46 [a, b, c, d] = a ++ 46 :: (b ++ 46 :: (c ++ 46 :: d)) := by simp [Bytes.join]
  have hhead : ∃ tl, Bytes.join 46 [a, b, c, d] ++ r = a0 :: tl := by
    rw [hjoin, haeq]; exact ⟨_, rfl⟩
  obtain ⟨tl, htl⟩ := hhead
  have hls : ∀ l ∈ [a, b, c, d], l ≠ [] ∧ l.all Spec.isLDH = true := by
    intro l hl
    simp only [List.mem_cons, List.mem_nil_iff, or_false] at hl
    rcases hl with rfl | rfl | rfl | rfl
    · exact ⟨ane, aldh⟩
    · exact ⟨bne, bldh⟩
    · exact ⟨cne, cldh⟩
    · exact ⟨dne, dldh⟩
  have hlast : ∃ l, [a, b, c, d].getLast? = some l ∧ l.head?.any Spec.isDigit = true := by
    refine ⟨d, rfl, ?_⟩
    cases d with
    | nil => exact absurd rfl dne
    | cons x xs => simp only [List.all_cons, Bool.and_eq_true] at ddig; simp [ddig.1]
  have hloop := hostLoop_v4 [a, b, c, d] hls (by simp) hlast r hr false false true (Or.inr rfl)
  have hfp : Lex.fastParseHost (Bytes.join 46 [a, b, c, d] ++ r) =
      some ({ value := Bytes.join 46 [a, b, c, d], assumeIP := true }, r) := by
    unfold Lex.fastParseHost
    have h91 : a0 ≠ 91 := by intro h; subst h; revert ha0; decide
    have h46 : (a0 == Facts.origins_labelSep) = false := by
      have : a0 ≠ 46 := by intro h; subst h; revert ha0; decide
      simpa [Facts.origins_labelSep] using this
    rw [htl]
    have hbk : ((a0 :: tl).length ≥ Facts.origins_fastParseHost_minIPv6HostLen && (a0 :: tl).head? == some 91) = false := by
      simp [h91]
    rw [if_neg (by rw [hbk]; simp)]
    simp only []
    rw [if_neg (by rw [h46]; simp), ← htl, hloop]
  have hpk : peekKind (Bytes.join 46 [a, b, c, d] ++ r) = Kind.domain := by
    rw [htl]
    have : (a0 == 42) = false := by
      have : a0 ≠ 42 := by intro h; subst h; revert ha0; decide
      simpa using this
    simp [peekKind, Facts.origins_peekKind_wildcardSeq, Bytes.hasPrefix, this]
  have hmark : firstIPMark (Bytes.join 46 [a, b, c, d]) = some 46 := by
    rw [hjoin]; exact firstIPMark_digits a _ adig
  have hsplit : Bytes.splitOn 46 (Bytes.join 46 [a, b, c, d]) = [a, b, c, d] :=
    splitOn_join_gen 46 [a, b, c, d] (by simp) (by
      intro l hl
      simp only [List.mem_cons, List.mem_nil_iff, or_false] at hl
      rcases hl with rfl | rfl | rfl | rfl <;> assumption)
  have hv4 : parseIPv4 (Bytes.join 46 [a, b, c, d]) = some (a == [49, 50, 55]) := by
    unfold parseIPv4
    rw [hsplit]
    simp [aok, bok, cok, dok]
  have hverdict : ipVerdict ext (Bytes.join 46 [a, b, c, d]) = .ok (a == [49, 50, 55]) := by
    unfold ipVerdict
    rw [hmark]
    simp only []
    rw [hv4]
  unfold parseHostPattern
  simp only [hpk]
  have hho : hostOnly (Bytes.join 46 [a, b, c, d] ++ r) Kind.domain = Bytes.join 46 [a, b, c, d] ++ r := by simp [hostOnly]
  rw [hho, hfp]
  simp only []
  rw [if_neg (by simp), if_neg (by simp), if_pos trivial, hverdict]

end Accept
end Cors

namespace Cors
open Gen Spec Pat
namespace Accept

theorem cutAt_found (c : Nat) (e rest : Bytes) (h : c ∉ e) : Bytes.cutAt c (e ++ c :: rest) = some (e, rest) :=
  ACRH.cutAt_append h

/-- `parseHostPattern` on a bracketed literal that the IPv6 oracle accepts as canonical. -/
theorem parseHostPattern_v6 (ext : Ext) (lit : Bytes) (info : IP6Info) (hlen : 2 ≤ lit.length) (hnb : (93 : Nat) ∉ lit)
    (hmark : firstIPMark lit = some 58) (horacle : ext.ip6 lit = some info)
    (hz : info.zone = false) (h46 : info.is4in6 = false) (hcanon : info.canon = lit) (r : Bytes) :
    parseHostPattern ext (91 :: lit ++ 93 :: r) =
      .ok (lit, if info.loopback then Kind.loopbackIP else Kind.nonLoopbackIP, r) := by
  have hpk : peekKind (91 :: lit ++ 93 :: r) = Kind.domain := by
    simp [peekKind, Facts.origins_peekKind_wildcardSeq, Bytes.hasPrefix]
  have hfp : Lex.fastParseHost (91 :: lit ++ 93 :: r) = some ({ value := lit, assumeIP := true }, r) := by
    unfold Lex.fastParseHost
    have hb : ((91 :: lit ++ 93 :: r).length ≥ Facts.origins_fastParseHost_minIPv6HostLen && (91 :: lit ++ 93 :: r).head? == some 91) = true := by
      simp only [Facts.origins_fastParseHost_minIPv6HostLen, List.cons_append, List.length_cons, List.length_append, List.head?_cons,
        beq_self_eq_true, Bool.and_true, decide_eq_true_eq]
      omega
    rw [if_pos hb]
    have hcut : Bytes.cutAt 93 (91 :: lit ++ 93 :: r) = some (91 :: lit, r) := by
      have : (93 : Nat) ∉ (91 :: lit) := by
        simp only [List.mem_cons, not_or]; exact ⟨by decide, hnb⟩
      exact cutAt_found 93 (91 :: lit) r this
    rw [hcut]
    simp
  have hverdict : ipVerdict ext lit = .ok info.loopback := by
    unfold ipVerdict
    rw [hmark]
    simp only []
    rw [horacle]
    simp only [hz, h46, hcanon, Bool.false_eq_true, if_false, bne_self_eq_false]
  unfold parseHostPattern
  simp only [hpk]
  have hho : hostOnly (91 :: lit ++ 93 :: r) Kind.domain = 91 :: lit ++ 93 :: r := by simp [hostOnly]
  rw [hho, hfp]
  simp only []
  rw [if_neg (by simp), if_neg (by simp), if_pos trivial, hverdict]

end Accept
end Cors

namespace Cors
open Gen Spec Pat
namespace Accept

/-! ### hosts that are only lexically domains: the IDNA verdict as a hypothesis -/

/-- The lexical shape of a domain: non-empty letter-digit-hyphen labels, the last one starting
with a letter.  (Whether the labels are valid — lengths, hyphen positions, Punycode — is then the
verdict of the IDNA check.) -/
structure LexLabels (ls : List Bytes) : Prop where
  ne : ls ≠ []
  all : ∀ l ∈ ls, l ≠ [] ∧ l.all Spec.isLDH = true
  last : ∃ l, ls.getLast? = some l ∧ l.head?.any Spec.isLower = true

theorem lex_of_labels {ls : List Bytes} (hL : Labels ls) : LexLabels ls :=
  ⟨hL.ne, fun l hl => by obtain ⟨a, b', _⟩ := docLabel_facts (hL.all l hl); exact ⟨a, b'⟩, hL.last⟩

theorem hostOf_head_lex {ls : List Bytes} (hL : LexLabels ls) (dot : Bool) (r : Bytes) :
    ∃ c t, hostOf ls dot ++ r = c :: t ∧ Spec.isLDH c = true := by
  cases hls : ls with
  | nil => exact absurd hls hL.ne
  | cons l rest =>
    obtain ⟨hne, hall⟩ := hL.all l (by rw [hls]; exact List.mem_cons_self)
    cases hl : l with
    | nil => exact absurd hl hne
    | cons c t =>
      refine ⟨c, t ++ ((match rest with | [] => [] | y :: ys => 46 :: Bytes.join 46 (y :: ys)) ++ (if dot then [46] else []) ++ r), ?_, ?_⟩
      · unfold hostOf
        cases rest <;> simp [Bytes.join]
      · rw [hl] at hall; simp only [List.all_cons, Bool.and_eq_true] at hall; exact hall.1

theorem fastParseHost_lex {ls : List Bytes} (hL : LexLabels ls) (dot : Bool) (r : Bytes) (hr : Stops r) :
    Lex.fastParseHost (hostOf ls dot ++ r) = some ({ value := hostOf ls dot, assumeIP := false }, r) := by
  obtain ⟨c, t, hct, hldh⟩ := hostOf_head_lex hL dot r
  obtain ⟨hne46, _, _⟩ := ldh_class c (ldh_lt hldh) hldh
  have h91 : c ≠ 91 := by intro h; subst h; revert hldh; decide
  unfold Lex.fastParseHost
  rw [hct]
  have hb : ((c :: t).length ≥ Facts.origins_fastParseHost_minIPv6HostLen && (c :: t).head? == some 91) = false := by
    simp [h91]
  rw [if_neg (by rw [hb]; simp)]
  simp only []
  have h46 : (c == Facts.origins_labelSep) = false := by simpa using hne46
  rw [if_neg (by rw [h46]; simp)]
  rw [← hct]
  have := hostLoop_domain ls hL.all hL.ne hL.last dot r hr false false true (Or.inl rfl)
  unfold hostOf
  rw [this]

/-- `parseHostPattern` on a lexical domain that passes the IDNA check. -/
theorem parseHostPattern_lex (ext : Ext) {ls : List Bytes} (hL : LexLabels ls) (dot wild : Bool)
    (hid : idnaOK ext (hostOf ls dot) = true)
    (hw : wild = true → (hostOf ls dot).length ≤ 251) (r : Bytes) (hr : Stops r) :
    parseHostPattern ext ((if wild then [42, 46] else []) ++ hostOf ls dot ++ r) =
      .ok ((if wild then [42, 46] else []) ++ hostOf ls dot, if wild then Kind.subdomains else Kind.domain, r) := by
  obtain ⟨c, t, hct, hldh⟩ := hostOf_head_lex hL dot r
  have hfp := fastParseHost_lex hL dot r hr
  unfold parseHostPattern
  cases wild with
  | true =>
    have hpk : peekKind ([42, 46] ++ hostOf ls dot ++ r) = Kind.subdomains := by
      simp [peekKind, Facts.origins_peekKind_wildcardSeq, Bytes.hasPrefix]
    simp only [if_true, hpk]
    have hho : hostOnly ([42, 46] ++ hostOf ls dot ++ r) Kind.subdomains = hostOf ls dot ++ r := by
      simp [hostOnly, Facts.origins_subdomainWildcard]
    rw [hho, hfp]
    simp only []
    have hlen := hw rfl
    have h1 : (Kind.subdomains == Kind.subdomains && decide ((hostOf ls dot).length > Facts.origins_maxHostLen - 2)) = false := by
      have hn : ¬ ((hostOf ls dot).length > Facts.origins_maxHostLen - 2) := by
        have : Facts.origins_maxHostLen = 253 := rfl
        omega
      rw [decide_eq_false hn, Bool.and_false]
    rw [if_neg (by rw [h1]; simp)]
    rw [if_neg (by simp)]
    rw [if_neg (by simp)]
    rw [hid]
    simp only [Bool.not_true, Bool.false_eq_true, if_false]
    have htake : ([42, 46] ++ hostOf ls dot ++ r).take ((hostOf ls dot).length + (if (Kind.subdomains == Kind.subdomains) = true then Facts.origins_subdomainWildcard.length + 1 else 0)) = [42, 46] ++ hostOf ls dot := by
      have : ([42, 46] ++ hostOf ls dot).length = (hostOf ls dot).length + (if (Kind.subdomains == Kind.subdomains) = true then Facts.origins_subdomainWildcard.length + 1 else 0) := by
        simp [Facts.origins_subdomainWildcard]
      rw [← this]
      exact List.take_left' rfl
    rw [htake]
  | false =>
    have hpk : peekKind ([] ++ hostOf ls dot ++ r) = Kind.domain := by
      rw [List.nil_append, hct]
      have : (c == 42) = false := by simpa using ldh_not_star hldh
      simp [peekKind, Facts.origins_peekKind_wildcardSeq, Bytes.hasPrefix, this]
    simp only [Bool.false_eq_true, if_false, hpk]
    have hho : hostOnly ([] ++ hostOf ls dot ++ r) Kind.domain = hostOf ls dot ++ r := by
      simp [hostOnly]
    rw [hho, hfp]
    simp only []
    rw [if_neg (by simp)]
    rw [if_neg (by simp)]
    rw [if_neg (by simp)]
    rw [hid]
    simp only [Bool.not_true, Bool.false_eq_true, if_false]
    have htake : ([] ++ hostOf ls dot ++ r).take ((hostOf ls dot).length + (if (Kind.domain == Kind.subdomains) = true then Facts.origins_subdomainWildcard.length + 1 else 0)) = [] ++ hostOf ls dot := by
      have : (Kind.domain == Kind.subdomains) = false := rfl
      simp only [this, Bool.false_eq_true, if_false, Nat.add_zero, List.nil_append]
      exact List.take_left' rfl
    rw [htake]

end Accept
end Cors
