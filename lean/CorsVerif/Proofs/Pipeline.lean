import CorsVerif.Proofs.Serve
import CorsVerif.Proofs.NamesNe
/-
  The preflight pipeline step by step: which key each step writes, with which value, and that
  it leaves every other key alone.
-/
namespace Cors
open Gen Serve

namespace Pipeline

/-- Value of Access-Control-Allow-Origin after a successful origin step. -/
def expACAO (icfg : ICfg) (o : Bytes) : Option (List Bytes) :=
  if !icfg.credentialed && icfg.tree.isEmpty then some Facts.headers_WildcardSgl else some [o]

/-- Value of Access-Control-Allow-Credentials after a successful origin step. -/
def expACAC (icfg : ICfg) : Option (List Bytes) :=
  if !icfg.credentialed && icfg.tree.isEmpty then none
  else if icfg.credentialed then some Facts.headers_TrueSgl else none

theorem origin_step_val (dec : Dec) (icfg : ICfg) (b b' : Buf) (o : Bytes)
    (hA : b Facts.headers_ACAC = none)
    (h : processOriginForPreflight dec icfg b o = some b') :
    b' Facts.headers_ACAO = expACAO icfg o ∧ b' Facts.headers_ACAC = expACAC icfg ∧
    ∀ k, k ≠ Facts.headers_ACAO → k ≠ Facts.headers_ACAC → b' k = b k := by
  unfold processOriginForPreflight at h
  unfold expACAO expACAC
  cases h1 : dec.parses o <;> cases h2 : icfg.credentialed <;> cases h3 : icfg.tree.isEmpty <;>
    cases h4 : dec.allowed o <;> simp only [h1, h2, h3, h4] at h <;> simp at h <;> subst h <;>
    refine ⟨?_, ?_, ?_⟩ <;> (try intro k hk1 hk2) <;>
    simp [HdrMap.assign, hA, *]

/-- Value of Access-Control-Allow-Private-Network after a successful private-network step. -/
def expACAPN (reqHdrs : HdrMap) : Option (List Bytes) :=
  if reqHdrs.first Facts.headers_ACRPN == some Facts.headers_ValueTrue then some Facts.headers_TrueSgl else none

theorem pna_step_val (icfg : ICfg) (b b' : Buf) (reqHdrs : HdrMap)
    (hA : b Facts.headers_ACAPN = none)
    (h : processACRPN icfg b reqHdrs = some b') :
    b' Facts.headers_ACAPN = expACAPN reqHdrs ∧ ∀ k, k ≠ Facts.headers_ACAPN → b' k = b k := by
  unfold processACRPN at h
  unfold expACAPN
  cases hf : reqHdrs.first Facts.headers_ACRPN with
  | none =>
    simp only [hf, Option.some.injEq] at h
    subst h
    exact ⟨by simp [hA], fun _ _ => rfl⟩
  | some v =>
    simp only [hf] at h
    by_cases hv : v = Facts.headers_ValueTrue
    · subst hv
      simp only [bne_self_eq_false, Bool.false_eq_true, if_false] at h
      split at h
      · simp only [Option.some.injEq] at h
        subst h
        exact ⟨by simp [HdrMap.assign], fun k hk => by simp [HdrMap.assign, hk]⟩
      · cases h
    · have h1 : (v != Facts.headers_ValueTrue) = true := by simpa using hv
      simp only [h1, if_true, Option.some.injEq] at h
      subst h
      have h2 : (some v == some Facts.headers_ValueTrue) = false := by simpa using hv
      exact ⟨by simp [h2, hA], fun _ _ => rfl⟩

/-- Value of Access-Control-Allow-Methods after a successful method step. -/
def expACAM (icfg : ICfg) (m : Bytes) : Option (List Bytes) :=
  if Methods.isSafelisted m then none
  else if icfg.allowAnyMethod && !icfg.credentialed then some Facts.headers_WildcardSgl
  else some [m]

theorem method_step_val (icfg : ICfg) (b b' : Buf) (m : Bytes)
    (hA : b Facts.headers_ACAM = none)
    (h : processACRM icfg b m = some b') :
    b' Facts.headers_ACAM = expACAM icfg m ∧ ∀ k, k ≠ Facts.headers_ACAM → b' k = b k := by
  unfold processACRM at h
  unfold expACAM
  cases h1 : Methods.isSafelisted m <;> cases h2 : icfg.allowAnyMethod <;> cases h3 : icfg.credentialed <;>
    cases h4 : icfg.allowedMethods.contains m <;> simp only [h1, h2, h3, h4] at h <;> simp at h <;> subst h <;>
    refine ⟨?_, ?_⟩ <;> (try intro k hk) <;> simp [HdrMap.assign, hA, *]

/-- Value of Access-Control-Allow-Headers after a successful header step. -/
def expACAH (icfg : ICfg) (debug : Bool) (reqHdrs : HdrMap) : Option (List Bytes) :=
  match reqHdrs Facts.headers_ACRH with
  | none => none
  | some acrh =>
    if icfg.asteriskReqHdrs && !icfg.credentialed then
      (if icfg.allowAuthorization then some Facts.headers_WildcardAuthSgl else some Facts.headers_WildcardSgl)
    else if icfg.asteriskReqHdrs && icfg.credentialed then some acrh
    else if !debug then some acrh
    else some icfg.acah

theorem header_step_val (dec : Dec) (icfg : ICfg) (b b' : Buf) (reqHdrs : HdrMap) (debug : Bool)
    (hA : b Facts.headers_ACAH = none)
    (h : processACRH dec icfg b reqHdrs debug = some b') :
    b' Facts.headers_ACAH = expACAH icfg debug reqHdrs ∧ ∀ k, k ≠ Facts.headers_ACAH → b' k = b k := by
  unfold processACRH at h
  unfold expACAH
  cases hf : reqHdrs Facts.headers_ACRH with
  | none =>
    simp only [hf, Option.some.injEq] at h
    subst h
    exact ⟨hA, fun _ _ => rfl⟩
  | some acrh =>
    simp only [hf] at h ⊢
    cases h1 : icfg.asteriskReqHdrs <;> cases h2 : icfg.credentialed <;> cases h3 : icfg.allowAuthorization <;>
      cases h4 : debug <;> cases h5 : (icfg.allowedReqHdrs.size == 0) <;> cases h6 : dec.acrhOK acrh <;>
      cases h7 : icfg.acah.isEmpty <;>
      simp only [h1, h2, h3, h4, h5, h6, h7] at h <;> simp at h <;> subst h <;>
      refine ⟨?_, ?_⟩ <;> (try intro k hk) <;> simp [HdrMap.assign, *]

/-- The buffer and the outcome of the pipeline. -/
def Steps.buf : Steps → Buf
  | .originFail b => b
  | .laterFail b => b
  | .ok b => b

end Pipeline

/-- The four documented conditions of a preflight, debug off. -/
def originCond (dec : Dec) (icfg : ICfg) (o : Bytes) : Bool :=
  dec.parses o && ((!icfg.credentialed && icfg.tree.isEmpty) || dec.allowed o)

def pnaCond (icfg : ICfg) (reqHdrs : HdrMap) : Bool :=
  !(reqHdrs.first Facts.headers_ACRPN == some Facts.headers_ValueTrue) || icfg.pna || icfg.pnaNoCors

def methodCond (icfg : ICfg) (m : Bytes) : Bool :=
  Methods.isSafelisted m || icfg.allowAnyMethod || icfg.allowedMethods.contains m

def headerCond (dec : Dec) (icfg : ICfg) (reqHdrs : HdrMap) : Bool :=
  match reqHdrs Facts.headers_ACRH with
  | none => true
  | some lines => icfg.asteriskReqHdrs || (icfg.allowedReqHdrs.size != 0 && dec.acrhOK lines)

theorem origin_step_iff (dec : Dec) (icfg : ICfg) (b : Buf) (o : Bytes) :
    (processOriginForPreflight dec icfg b o).isSome = originCond dec icfg o := by
  unfold processOriginForPreflight originCond
  cases dec.parses o <;> cases icfg.credentialed <;> cases icfg.tree.isEmpty <;> cases dec.allowed o <;> simp

theorem pna_step_iff (icfg : ICfg) (b : Buf) (reqHdrs : HdrMap) :
    (processACRPN icfg b reqHdrs).isSome = pnaCond icfg reqHdrs := by
  unfold processACRPN pnaCond
  cases h : reqHdrs.first Facts.headers_ACRPN with
  | none => simp
  | some v =>
    simp only []
    by_cases hv : v = Facts.headers_ValueTrue
    · subst hv; cases icfg.pna <;> cases icfg.pnaNoCors <;> simp
    · have h1 : (v != Facts.headers_ValueTrue) = true := by simpa using hv
      have h2 : (some v == some Facts.headers_ValueTrue) = false := by simpa using hv
      simp [h1, h2]

theorem method_step_iff (icfg : ICfg) (b : Buf) (m : Bytes) :
    (processACRM icfg b m).isSome = methodCond icfg m := by
  unfold processACRM methodCond
  cases Methods.isSafelisted m <;> cases icfg.allowAnyMethod <;> cases icfg.credentialed <;>
    cases icfg.allowedMethods.contains m <;> simp

theorem header_step_iff (dec : Dec) (icfg : ICfg) (b : Buf) (reqHdrs : HdrMap) :
    (processACRH dec icfg b reqHdrs false).isSome = headerCond dec icfg reqHdrs := by
  unfold processACRH headerCond
  cases reqHdrs Facts.headers_ACRH with
  | none => rfl
  | some lines =>
    simp only []
    cases icfg.asteriskReqHdrs <;> cases icfg.credentialed <;> cases icfg.allowAuthorization <;>
      cases h1 : (icfg.allowedReqHdrs.size == 0) <;> cases dec.acrhOK lines <;> simp_all

/-- The pipeline succeeds (debug off) exactly under the four conditions. -/
theorem steps_ok_iff (dec : Dec) (icfg : ICfg) (reqHdrs : HdrMap) (o m : Bytes) :
    (∃ b, preflightSteps dec icfg reqHdrs o m false = .ok b) ↔
      (originCond dec icfg o && pnaCond icfg reqHdrs && methodCond icfg m && headerCond dec icfg reqHdrs) = true := by
  unfold preflightSteps
  rw [← origin_step_iff dec icfg HdrMap.empty o]
  cases h1 : processOriginForPreflight dec icfg HdrMap.empty o with
  | none => simp
  | some b1 =>
    simp only [Option.isSome_some, Bool.true_and]
    rw [← pna_step_iff icfg b1 reqHdrs]
    cases h2 : processACRPN icfg b1 reqHdrs with
    | none => simp
    | some b2 =>
      simp only [Option.isSome_some, Bool.true_and]
      rw [← method_step_iff icfg b2 m]
      cases h3 : processACRM icfg b2 m with
      | none => simp
      | some b3 =>
        simp only [Option.isSome_some, Bool.true_and]
        rw [← header_step_iff dec icfg b3 reqHdrs]
        cases h4 : processACRH dec icfg b3 reqHdrs false with
        | none => simp
        | some b4 => simp


/-- The header step in either debug mode: the scan of the lines is replaced in debug mode by
"a discrete list is configured". -/
def headerCondD (dec : Dec) (icfg : ICfg) (reqHdrs : HdrMap) (debug : Bool) : Bool :=
  match reqHdrs Facts.headers_ACRH with
  | none => true
  | some lines => icfg.asteriskReqHdrs ||
      (if debug then !icfg.acah.isEmpty else (icfg.allowedReqHdrs.size != 0 && dec.acrhOK lines))

theorem header_stepD_iff (dec : Dec) (icfg : ICfg) (b : Buf) (reqHdrs : HdrMap) (debug : Bool) :
    (processACRH dec icfg b reqHdrs debug).isSome = headerCondD dec icfg reqHdrs debug := by
  unfold processACRH headerCondD
  cases reqHdrs Facts.headers_ACRH with
  | none => rfl
  | some lines =>
    simp only []
    cases icfg.asteriskReqHdrs <;> cases icfg.credentialed <;> cases icfg.allowAuthorization <;> cases debug <;>
      cases h1 : (icfg.allowedReqHdrs.size == 0) <;> cases dec.acrhOK lines <;> cases icfg.acah.isEmpty <;> simp_all

namespace Pipeline

theorem empty_none (k : Bytes) : HdrMap.empty k = none := rfl

/-- **The successful pipeline**: the five response headers it produces. -/
theorem steps_ok_view {dec : Dec} {icfg : ICfg} {reqHdrs : HdrMap} {o m : Bytes} {dbg : Bool} {buf : Buf}
    (h : preflightSteps dec icfg reqHdrs o m dbg = .ok buf) :
    buf Facts.headers_ACAO = expACAO icfg o ∧ buf Facts.headers_ACAC = expACAC icfg ∧
    buf Facts.headers_ACAPN = expACAPN reqHdrs ∧ buf Facts.headers_ACAM = expACAM icfg m ∧
    buf Facts.headers_ACAH = expACAH icfg dbg reqHdrs := by
  unfold preflightSteps at h
  cases h1 : processOriginForPreflight dec icfg HdrMap.empty o with
  | none => simp [h1] at h
  | some b1 =>
    simp only [h1] at h
    obtain ⟨v1, v1', f1⟩ := origin_step_val dec icfg _ b1 o (empty_none _) h1
    cases h2 : processACRPN icfg b1 reqHdrs with
    | none => simp [h2] at h
    | some b2 =>
      simp only [h2] at h
      obtain ⟨v2, f2⟩ := pna_step_val icfg b1 b2 reqHdrs (by rw [f1 _ (by simp) (by simp)]; rfl) h2
      cases h3 : processACRM icfg b2 m with
      | none => simp [h3] at h
      | some b3 =>
        simp only [h3] at h
        obtain ⟨v3, f3⟩ := method_step_val icfg b2 b3 m (by rw [f2 _ (by simp), f1 _ (by simp) (by simp)]; rfl) h3
        cases h4 : processACRH dec icfg b3 reqHdrs dbg with
        | none => simp [h4] at h
        | some b4 =>
          simp only [h4, Steps.ok.injEq] at h
          subst h
          obtain ⟨v4, f4⟩ := header_step_val dec icfg b3 b4 reqHdrs dbg
            (by rw [f3 _ (by simp), f2 _ (by simp), f1 _ (by simp) (by simp)]; rfl) h4
          refine ⟨?_, ?_, ?_, ?_, v4⟩
          · rw [f4 _ (by simp), f3 _ (by simp), f2 _ (by simp), v1]
          · rw [f4 _ (by simp), f3 _ (by simp), f2 _ (by simp), v1']
          · rw [f4 _ (by simp), f3 _ (by simp), v2]
          · rw [f4 _ (by simp), v3]

/-- **A pipeline that fails after the origin step**: which condition failed, and that the
response header of the failing step is absent from the buffer. -/
theorem steps_later_view {dec : Dec} {icfg : ICfg} {reqHdrs : HdrMap} {o m : Bytes} {dbg : Bool} {buf : Buf}
    (h : preflightSteps dec icfg reqHdrs o m dbg = .laterFail buf) :
    buf Facts.headers_ACAO = expACAO icfg o ∧ buf Facts.headers_ACAC = expACAC icfg ∧
    ((pnaCond icfg reqHdrs = false ∧ buf Facts.headers_ACAPN = none) ∨
     (methodCond icfg m = false ∧ buf Facts.headers_ACAM = none) ∨
     (headerCondD dec icfg reqHdrs dbg = false ∧ buf Facts.headers_ACAH = none)) := by
  unfold preflightSteps at h
  cases h1 : processOriginForPreflight dec icfg HdrMap.empty o with
  | none => simp [h1] at h
  | some b1 =>
    simp only [h1] at h
    obtain ⟨v1, v1', f1⟩ := origin_step_val dec icfg _ b1 o (empty_none _) h1
    cases h2 : processACRPN icfg b1 reqHdrs with
    | none =>
      simp only [h2, Steps.laterFail.injEq] at h
      subst h
      refine ⟨v1, v1', Or.inl ⟨?_, by rw [f1 _ (by simp) (by simp)]; rfl⟩⟩
      rw [← pna_step_iff icfg b1 reqHdrs, h2]; rfl
    | some b2 =>
      simp only [h2] at h
      obtain ⟨v2, f2⟩ := pna_step_val icfg b1 b2 reqHdrs (by rw [f1 _ (by simp) (by simp)]; rfl) h2
      cases h3 : processACRM icfg b2 m with
      | none =>
        simp only [h3, Steps.laterFail.injEq] at h
        subst h
        refine ⟨by rw [f2 _ (by simp), v1], by rw [f2 _ (by simp), v1'], Or.inr (Or.inl ⟨?_, by rw [f2 _ (by simp), f1 _ (by simp) (by simp)]; rfl⟩)⟩
        rw [← method_step_iff icfg b2 m, h3]; rfl
      | some b3 =>
        simp only [h3] at h
        obtain ⟨v3, f3⟩ := method_step_val icfg b2 b3 m (by rw [f2 _ (by simp), f1 _ (by simp) (by simp)]; rfl) h3
        cases h4 : processACRH dec icfg b3 reqHdrs dbg with
        | none =>
          simp only [h4, Steps.laterFail.injEq] at h
          subst h
          refine ⟨by rw [f3 _ (by simp), f2 _ (by simp), v1], by rw [f3 _ (by simp), f2 _ (by simp), v1'],
            Or.inr (Or.inr ⟨?_, by rw [f3 _ (by simp), f2 _ (by simp), f1 _ (by simp) (by simp)]; rfl⟩)⟩
          rw [← header_stepD_iff dec icfg b3 reqHdrs dbg, h4]; rfl
        | some b4 => simp [h4] at h

/-- The pipeline succeeds exactly under the four conditions, in either debug mode. -/
theorem steps_ok_iffD (dec : Dec) (icfg : ICfg) (reqHdrs : HdrMap) (o m : Bytes) (dbg : Bool) :
    (∃ b, preflightSteps dec icfg reqHdrs o m dbg = .ok b) ↔
      (originCond dec icfg o && pnaCond icfg reqHdrs && methodCond icfg m && headerCondD dec icfg reqHdrs dbg) = true := by
  unfold preflightSteps
  rw [← origin_step_iff dec icfg HdrMap.empty o]
  cases h1 : processOriginForPreflight dec icfg HdrMap.empty o with
  | none => simp
  | some b1 =>
    simp only [Option.isSome_some, Bool.true_and]
    rw [← pna_step_iff icfg b1 reqHdrs]
    cases h2 : processACRPN icfg b1 reqHdrs with
    | none => simp
    | some b2 =>
      simp only [Option.isSome_some, Bool.true_and]
      rw [← method_step_iff icfg b2 m]
      cases h3 : processACRM icfg b2 m with
      | none => simp
      | some b3 =>
        simp only [Option.isSome_some, Bool.true_and]
        rw [← header_stepD_iff dec icfg b3 reqHdrs dbg]
        cases h4 : processACRH dec icfg b3 reqHdrs dbg with
        | none => simp
        | some b4 => simp

theorem steps_originFail {dec : Dec} {icfg : ICfg} {reqHdrs : HdrMap} {o m : Bytes} {dbg : Bool} {buf : Buf}
    (h : preflightSteps dec icfg reqHdrs o m dbg = .originFail buf) : originCond dec icfg o = false := by
  unfold preflightSteps at h
  rw [← origin_step_iff dec icfg HdrMap.empty o]
  cases h1 : processOriginForPreflight dec icfg HdrMap.empty o with
  | none => rfl
  | some b1 =>
    simp only [h1] at h
    cases h2 : processACRPN icfg b1 reqHdrs with
    | none => simp [h2] at h
    | some b2 =>
      simp only [h2] at h
      cases h3 : processACRM icfg b2 m with
      | none => simp [h3] at h
      | some b3 =>
        simp only [h3] at h
        cases h4 : processACRH dec icfg b3 reqHdrs dbg <;> simp [h4] at h

end Pipeline
end Cors

namespace Cors
open Gen Serve
namespace Pipeline

/-- The five headers the pipeline can put into the buffer. -/
def isPipelineKey (k : Bytes) : Prop :=
  k = Facts.headers_ACAO ∨ k = Facts.headers_ACAC ∨ k = Facts.headers_ACAPN ∨ k = Facts.headers_ACAM ∨ k = Facts.headers_ACAH

theorem origin_step_frame {dec : Dec} {icfg : ICfg} {b b' : Buf} {o : Bytes}
    (h : processOriginForPreflight dec icfg b o = some b') (k : Bytes) (hk : ¬ isPipelineKey k) : b' k = b k := by
  have h1 : k ≠ Facts.headers_ACAO := fun e => hk (Or.inl e)
  have h2 : k ≠ Facts.headers_ACAC := fun e => hk (Or.inr (Or.inl e))
  unfold processOriginForPreflight at h
  cases c1 : dec.parses o <;> cases c2 : icfg.credentialed <;> cases c3 : icfg.tree.isEmpty <;> cases c4 : dec.allowed o <;>
    simp only [c1, c2, c3, c4] at h <;> simp at h <;> subst h <;> simp [HdrMap.assign, h1, h2]

theorem pna_step_frame {icfg : ICfg} {b b' : Buf} {reqHdrs : HdrMap}
    (h : processACRPN icfg b reqHdrs = some b') (k : Bytes) (hk : ¬ isPipelineKey k) : b' k = b k := by
  have h1 : k ≠ Facts.headers_ACAPN := fun e => hk (Or.inr (Or.inr (Or.inl e)))
  unfold processACRPN at h
  cases hf : reqHdrs.first Facts.headers_ACRPN with
  | none => simp [hf] at h; subst h; rfl
  | some v =>
    simp only [hf] at h
    split at h
    · simp at h; subst h; rfl
    · split at h
      · simp at h; subst h; simp [HdrMap.assign, h1]
      · cases h

theorem method_step_frame {icfg : ICfg} {b b' : Buf} {m : Bytes}
    (h : processACRM icfg b m = some b') (k : Bytes) (hk : ¬ isPipelineKey k) : b' k = b k := by
  have h1 : k ≠ Facts.headers_ACAM := fun e => hk (Or.inr (Or.inr (Or.inr (Or.inl e))))
  unfold processACRM at h
  cases c1 : Methods.isSafelisted m <;> cases c2 : icfg.allowAnyMethod <;> cases c3 : icfg.credentialed <;>
    cases c4 : icfg.allowedMethods.contains m <;> simp only [c1, c2, c3, c4] at h <;> simp at h <;> subst h <;>
    simp [HdrMap.assign, h1]

theorem header_step_frame {dec : Dec} {icfg : ICfg} {b b' : Buf} {reqHdrs : HdrMap} {debug : Bool}
    (h : processACRH dec icfg b reqHdrs debug = some b') (k : Bytes) (hk : ¬ isPipelineKey k) : b' k = b k := by
  have h1 : k ≠ Facts.headers_ACAH := fun e => hk (Or.inr (Or.inr (Or.inr (Or.inr e))))
  unfold processACRH at h
  cases hf : reqHdrs Facts.headers_ACRH with
  | none => simp [hf] at h; subst h; rfl
  | some acrh =>
    simp only [hf] at h
    cases c1 : icfg.asteriskReqHdrs <;> cases c2 : icfg.credentialed <;> cases c3 : icfg.allowAuthorization <;>
      cases c4 : debug <;> cases c5 : (icfg.allowedReqHdrs.size == 0) <;> cases c6 : dec.acrhOK acrh <;>
      cases c7 : icfg.acah.isEmpty <;> simp only [c1, c2, c3, c4, c5, c6, c7] at h <;> simp at h <;> subst h <;>
      simp [HdrMap.assign, h1]

/-- Whatever the outcome, the buffer holds nothing but the five pipeline headers. -/
theorem steps_frame (dec : Dec) (icfg : ICfg) (reqHdrs : HdrMap) (o m : Bytes) (dbg : Bool) (k : Bytes)
    (hk : ¬ isPipelineKey k) : (Steps.buf (preflightSteps dec icfg reqHdrs o m dbg)) k = none := by
  unfold preflightSteps
  cases h1 : processOriginForPreflight dec icfg HdrMap.empty o with
  | none => rfl
  | some b1 =>
    have f1 : b1 k = none := origin_step_frame h1 k hk
    simp only []
    cases h2 : processACRPN icfg b1 reqHdrs with
    | none => exact f1
    | some b2 =>
      have f2 : b2 k = none := by rw [pna_step_frame h2 k hk]; exact f1
      simp only []
      cases h3 : processACRM icfg b2 m with
      | none => exact f2
      | some b3 =>
        have f3 : b3 k = none := by rw [method_step_frame h3 k hk]; exact f2
        simp only []
        cases h4 : processACRH dec icfg b3 reqHdrs dbg with
        | none => exact f3
        | some b4 => exact (by rw [header_step_frame h4 k hk]; exact f3 : b4 k = none)

end Pipeline
end Cors
