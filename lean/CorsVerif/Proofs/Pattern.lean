import CorsVerif.Model.Origins
/-
  Inversion of `parsePattern` and shape facts of accepted patterns.
-/
namespace Cors
open Gen Pat

/-- Everything `parsePattern ext s = .ok p` implies about the intermediate results. -/
structure ParsedAs (ext : Ext) (s : Bytes) (p : Pattern) : Prop where
  notStar : s ≠ star
  notNull : s ≠ null
  scheme : ∃ rest, Lex.parseScheme s = some (p.scheme, rest) ∧
    ∃ rest2, rest.cutPrefix Facts.origins_schemeHostSep = some rest2 ∧
    ∃ rest3, parseHostPattern ext rest2 = .ok (p.value, p.kind, rest3) ∧
      ((rest3 = [] ∧ p.port = 0) ∨
       (∃ rest4, rest3.cutPrefix [Facts.origins_hostPortSep] = some rest4 ∧ parsePortPattern rest4 = some (p.port, [])))
  notFile : p.scheme ≠ file
  httpsNoIP : ¬ ((p.kind = .loopbackIP ∨ p.kind = .nonLoopbackIP) ∧ p.scheme = Facts.origins_schemeHTTPS)
  noDefaultPort : isDefaultPortForScheme p.scheme p.port = false

theorem parsePattern_inv {ext : Ext} {s : Bytes} {p : Pattern} (h : parsePattern ext s = .ok p) : ParsedAs ext s p := by
  unfold parsePattern at h
  split at h
  · cases h
  · rename_i hsn
    have hs1 : s ≠ star := by intro hh; apply hsn; simp [hh]
    have hs2 : s ≠ null := by intro hh; apply hsn; simp [hh]
    cases hps : Lex.parseScheme s with
    | none => simp [hps] at h
    | some sr =>
      obtain ⟨scheme, rest⟩ := sr
      simp only [hps] at h
      split at h
      · cases h
      · rename_i hnf
        cases hcp : rest.cutPrefix Facts.origins_schemeHostSep with
        | none => simp [hcp] at h
        | some rest2 =>
          simp only [hcp] at h
          cases hhp : parseHostPattern ext rest2 with
          | error r => simp [hhp] at h
          | ok vkr =>
            obtain ⟨value, kind, rest3⟩ := vkr
            simp only [hhp] at h
            split at h
            · cases h
            · rename_i hip
              split at h
              · rename_i hr3
                cases h
                have hr3' : rest3 = [] := List.isEmpty_iff.mp hr3
                refine ⟨hs1, hs2, ⟨rest, hps, rest2, hcp, rest3, hhp, Or.inl ⟨hr3', rfl⟩⟩, by simpa using hnf, ?_, ?_⟩
                · simpa using hip
                · simp [isDefaultPortForScheme, Facts.origins_portHTTP, Facts.origins_portHTTPS]
              · cases hc4 : rest3.cutPrefix [Facts.origins_hostPortSep] with
                | none => simp [hc4] at h
                | some rest4 =>
                  simp only [hc4] at h
                  cases hpp : parsePortPattern rest4 with
                  | none => simp [hpp] at h
                  | some pr =>
                    obtain ⟨port, rest5⟩ := pr
                    simp only [hpp] at h
                    split at h
                    · cases h
                    · rename_i hr5
                      split at h
                      · cases h
                      · rename_i hdp
                        cases h
                        have hr5' : rest5 = [] := by simpa using hr5
                        subst hr5'
                        refine ⟨hs1, hs2, ⟨rest, hps, rest2, hcp, rest3, hhp, Or.inr ⟨rest4, hc4, hpp⟩⟩, by simpa using hnf, ?_, by simpa using hdp⟩
                        simpa using hip

/-! ### The lexers consume a prefix -/

theorem spanUpTo_append (p : Nat → Bool) (n : Nat) (s : Bytes) :
    (Lex.spanUpTo p n s).1 ++ (Lex.spanUpTo p n s).2 = s := by
  induction n generalizing s with
  | zero => simp [Lex.spanUpTo]
  | succ n ih =>
    cases s with
    | nil => simp [Lex.spanUpTo]
    | cons b t =>
      simp only [Lex.spanUpTo]
      split
      · have := ih t
        cases hsp : Lex.spanUpTo p n t with
        | mk l r => rw [hsp] at this; simpa using this
      · simp

theorem spanUpTo_length (p : Nat → Bool) (n : Nat) (s : Bytes) : (Lex.spanUpTo p n s).1.length ≤ n := by
  induction n generalizing s with
  | zero => simp [Lex.spanUpTo]
  | succ n ih =>
    cases s with
    | nil => simp [Lex.spanUpTo]
    | cons b t =>
      simp only [Lex.spanUpTo]
      split
      · have := ih t
        cases hsp : Lex.spanUpTo p n t with
        | mk l r => rw [hsp] at this; simp at this ⊢; omega
      · simp

theorem parseScheme_append {s scheme rest : Bytes} (h : Lex.parseScheme s = some (scheme, rest)) :
    s = scheme ++ rest ∧ scheme ≠ [] ∧ scheme.length ≤ Facts.origins_maxSchemeLen := by
  unfold Lex.parseScheme at h
  cases s with
  | nil => simp at h
  | cons b t =>
    simp only [] at h
    split at h
    · cases h
    · have h1 := spanUpTo_append Lex.isSubsequentSchemeByte (Facts.origins_maxSchemeLen - 1) t
      have h2 := spanUpTo_length Lex.isSubsequentSchemeByte (Facts.origins_maxSchemeLen - 1) t
      cases hsp : Lex.spanUpTo Lex.isSubsequentSchemeByte (Facts.origins_maxSchemeLen - 1) t with
      | mk l r =>
        rw [hsp] at h h1 h2
        simp only [Option.some.injEq, Prod.mk.injEq] at h
        obtain ⟨rfl, rfl⟩ := h
        refine ⟨by simp at h1 ⊢; exact h1.symm, by simp, ?_⟩
        simp only [Facts.origins_maxSchemeLen] at h2 ⊢
        simp at h2 ⊢; omega

theorem hostLoop_append {s : Bytes} {ps ip fst : Bool} {h r : Bytes} {ip' : Bool}
    (hl : Lex.hostLoop s ps ip fst = some (h, r, ip')) : s = h ++ r := by
  induction s generalizing ps ip fst h r ip' with
  | nil => simp [Lex.hostLoop] at hl; obtain ⟨rfl, rfl, _⟩ := hl; rfl
  | cons b t ih =>
    simp only [Lex.hostLoop] at hl
    split at hl
    · split at hl
      · cases hl
      · cases hrec : Lex.hostLoop t true ip false with
        | none => simp [hrec] at hl
        | some x =>
          obtain ⟨h', r', ip''⟩ := x
          simp only [hrec, Option.map_some, Option.some.injEq, Prod.mk.injEq] at hl
          obtain ⟨rfl, rfl, _⟩ := hl
          rw [ih hrec]; rfl
    · split at hl
      · generalize (if ps || fst then true else ip) = ipn at hl
        cases hrec : Lex.hostLoop t false ipn false with
        | none => simp [hrec] at hl
        | some x =>
          obtain ⟨h', r', ip''⟩ := x
          simp only [hrec, Option.map_some, Option.some.injEq, Prod.mk.injEq] at hl
          obtain ⟨rfl, rfl, _⟩ := hl
          rw [ih hrec]; rfl
      · split at hl
        · generalize (if ps then false else ip) = ipn at hl
          cases hrec : Lex.hostLoop t false ipn false with
          | none => simp [hrec] at hl
          | some x =>
            obtain ⟨h', r', ip''⟩ := x
            simp only [hrec, Option.map_some, Option.some.injEq, Prod.mk.injEq] at hl
            obtain ⟨rfl, rfl, _⟩ := hl
            rw [ih hrec]; rfl
        · simp only [Option.some.injEq, Prod.mk.injEq] at hl
          obtain ⟨rfl, rfl, _⟩ := hl
          rfl

/-- For a host that is not bracketed, `fastParseHost` consumes exactly the host. -/
theorem fastParseHost_append {str : Bytes} {host : Host} {rest : Bytes}
    (h : Lex.fastParseHost str = some (host, rest)) (hnb : host.assumeIP = false ∨ str.head? ≠ some 91) :
    str = host.value ++ rest := by
  unfold Lex.fastParseHost at h
  split at h
  · rename_i hb
    cases hc : Bytes.cutAt 93 str with
    | none => simp [hc] at h
    | some p =>
      obtain ⟨before, after⟩ := p
      simp only [hc, Option.some.injEq, Prod.mk.injEq] at h
      obtain ⟨rfl, rfl⟩ := h
      simp only [Bool.and_eq_true, decide_eq_true_eq, beq_iff_eq] at hb
      rcases hnb with h1 | h1
      · cases h1
      · exact absurd hb.2 h1
  · cases str with
    | nil => simp at h
    | cons b t =>
      simp only [] at h
      split at h
      · cases h
      · cases hl : Lex.hostLoop (b :: t) false false true with
        | none => simp [hl] at h
        | some x =>
          obtain ⟨hh, r, ip⟩ := x
          simp only [hl, Option.some.injEq, Prod.mk.injEq] at h
          obtain ⟨rfl, rfl⟩ := h
          exact hostLoop_append hl

/-- Inversion of `parseHostPattern` when the result is not a subdomain pattern. -/
theorem parseHostPattern_nonwild {ext : Ext} {str value rest : Bytes} {kind : Kind}
    (h : parseHostPattern ext str = .ok (value, kind, rest)) (hk : kind ≠ .subdomains) :
    ∃ host, Lex.fastParseHost str = some (host, rest) ∧
      ((host.assumeIP = true ∧ value = host.value) ∨
       (host.assumeIP = false ∧ value = str.take host.value.length ∧ kind = .domain)) := by
  unfold parseHostPattern at h
  simp only [] at h
  cases hpk : peekKind str with
  | subdomains =>
    -- a `*.` prefix yields kind subdomains or an error
    simp only [hpk] at h
    cases hf : Lex.fastParseHost (hostOnly str Kind.subdomains) with
    | none => simp [hf] at h
    | some hr =>
      obtain ⟨host, r⟩ := hr
      simp only [hf] at h
      split at h
      · cases h
      · split at h
        · cases h
        · rename_i hnip
          have hip : host.assumeIP = false := by simpa using hnip
          simp only [hip, Bool.false_eq_true, if_false] at h
          split at h
          · cases h
          · simp only [Except.ok.injEq, Prod.mk.injEq] at h
            exact absurd h.2.1.symm hk
  | domain =>
    simp only [hpk] at h
    have hho : hostOnly str Kind.domain = str := by simp [hostOnly]
    rw [hho] at h
    cases hf : Lex.fastParseHost str with
    | none => simp [hf] at h
    | some hr =>
      obtain ⟨host, r⟩ := hr
      simp only [hf] at h
      simp only [show (Kind.domain == Kind.subdomains) = false from rfl, Bool.false_and, Bool.false_eq_true, if_false,
        Nat.add_zero] at h
      refine ⟨host, ?_⟩
      cases hip : host.assumeIP with
      | true =>
        simp only [hip, if_true] at h
        cases hv : ipVerdict ext host.value with
        | bad => simp [hv] at h
        | prohibited => simp [hv] at h
        | ok lb =>
          simp only [hv, Except.ok.injEq, Prod.mk.injEq] at h
          obtain ⟨rfl, _, rfl⟩ := h
          exact ⟨rfl, Or.inl ⟨rfl, rfl⟩⟩
      | false =>
        simp only [hip, Bool.false_eq_true, if_false] at h
        split at h
        · cases h
        · simp only [Except.ok.injEq, Prod.mk.injEq] at h
          obtain ⟨rfl, rfl, rfl⟩ := h
          exact ⟨rfl, Or.inr ⟨rfl, rfl, rfl⟩⟩
  | nonLoopbackIP => simp [peekKind] at hpk; split at hpk <;> cases hpk
  | loopbackIP => simp [peekKind] at hpk; split at hpk <;> cases hpk

theorem idnaOK_nonempty {ext : Ext} {h : Bytes} (hi : idnaOK ext h = true) : h ≠ [] := by
  intro hn
  subst hn
  simp [idnaOK, hasXnLabel, Bytes.splitOn, Bytes.hasPrefix, xnDash, plainIdnaOK] at hi

theorem ipVerdict_nonempty {ext : Ext} {h : Bytes} {lb : Bool} (hi : ipVerdict ext h = .ok lb) : h ≠ [] := by
  intro hn
  subst hn
  simp [ipVerdict, firstIPMark] at hi

theorem hasPrefix_star_dot {str : Bytes} (h : str.hasPrefix Facts.origins_peekKind_wildcardSeq = true) :
    ∃ tl, str = 42 :: 46 :: tl := by
  cases str with
  | nil => simp [Bytes.hasPrefix, Facts.origins_peekKind_wildcardSeq] at h
  | cons a t =>
    cases t with
    | nil => simp [Bytes.hasPrefix, Facts.origins_peekKind_wildcardSeq] at h
    | cons c tl =>
      simp only [Bytes.hasPrefix, Facts.origins_peekKind_wildcardSeq, Bool.and_true, Bool.and_eq_true, beq_iff_eq] at h
      exact ⟨tl, by rw [h.1, h.2]⟩

/-- Shape of every accepted host pattern: the value is never empty; a subdomain pattern is
`*.` followed by a non-empty base that is not longer than `maxHostLen - 2`. -/
theorem parseHostPattern_shape {ext : Ext} {str value rest : Bytes} {kind : Kind}
    (h : parseHostPattern ext str = .ok (value, kind, rest)) :
    value ≠ [] ∧ (kind = .subdomains → ∃ base, value = 42 :: 46 :: base ∧ base ≠ [] ∧ base.length ≤ Facts.origins_maxHostLen - 2) := by
  by_cases hk : kind = .subdomains
  · subst hk
    unfold parseHostPattern at h
    simp only [] at h
    cases hpk : peekKind str with
    | subdomains =>
      simp only [hpk] at h
      have hpre : str.hasPrefix Facts.origins_peekKind_wildcardSeq = true := by
        unfold peekKind at hpk
        split at hpk
        · assumption
        · cases hpk
      obtain ⟨tl, rfl⟩ := hasPrefix_star_dot hpre
      have hho : hostOnly (42 :: 46 :: tl) Kind.subdomains = tl := by
        simp [hostOnly, Facts.origins_subdomainWildcard]
      rw [hho] at h
      cases hf : Lex.fastParseHost tl with
      | none => simp [hf] at h
      | some hr =>
        obtain ⟨host, r⟩ := hr
        simp only [hf] at h
        split at h
        · cases h
        · rename_i hlen
          split at h
          · cases h
          · rename_i hnip
            have hip : host.assumeIP = false := by simpa using hnip
            simp only [hip, Bool.false_eq_true, if_false] at h
            split at h
            · cases h
            · rename_i hid
              simp only [Except.ok.injEq, Prod.mk.injEq] at h
              obtain ⟨rfl, _, rfl⟩ := h
              have happ := fastParseHost_append hf (Or.inl hip)
              have hne := idnaOK_nonempty (by simpa using hid)
              refine ⟨by simp [Facts.origins_subdomainWildcard], fun _ => ⟨host.value, ?_, hne, ?_⟩⟩
              · simp only [beq_self_eq_true, if_true, Facts.origins_subdomainWildcard, List.length_cons, List.length_nil]
                conv => lhs; rw [happ]
                simp
              · simp only [beq_self_eq_true, Bool.true_and, decide_eq_true_eq] at hlen
                omega
    | domain =>
      simp only [hpk] at h
      have hho : hostOnly str Kind.domain = str := by simp [hostOnly]
      rw [hho] at h
      cases hf : Lex.fastParseHost str with
      | none => simp [hf] at h
      | some hr =>
        obtain ⟨host, r⟩ := hr
        simp only [hf] at h
        simp only [show (Kind.domain == Kind.subdomains) = false from rfl, Bool.false_and, Bool.false_eq_true, if_false] at h
        cases hip : host.assumeIP with
        | true =>
          simp only [hip, if_true] at h
          cases hv : ipVerdict ext host.value with
          | bad => simp [hv] at h
          | prohibited => simp [hv] at h
          | ok lb =>
            simp only [hv, Except.ok.injEq, Prod.mk.injEq] at h
            cases lb <;> simp at h
        | false =>
          simp only [hip, Bool.false_eq_true, if_false] at h
          split at h
          · cases h
          · simp at h
    | nonLoopbackIP => simp [peekKind] at hpk; split at hpk <;> cases hpk
    | loopbackIP => simp [peekKind] at hpk; split at hpk <;> cases hpk
  · refine ⟨?_, fun hh => absurd hh hk⟩
    obtain ⟨host, hf, hval⟩ := parseHostPattern_nonwild h hk
    rcases hval with ⟨hip, hv⟩ | ⟨hip, hv, _⟩
    · -- IP: the value parsed as an address
      unfold parseHostPattern at h
      simp only [] at h
      have hpk : peekKind str = .domain := by
        cases hp : peekKind str with
        | domain => rfl
        | subdomains =>
          exfalso
          simp only [hp] at h
          cases hf2 : Lex.fastParseHost (hostOnly str Kind.subdomains) with
          | none => simp [hf2] at h
          | some hr =>
            obtain ⟨host2, r2⟩ := hr
            simp only [hf2] at h
            split at h
            · cases h
            · split at h
              · cases h
              · rename_i hnip
                have hip2 : host2.assumeIP = false := by simpa using hnip
                simp only [hip2, Bool.false_eq_true, if_false] at h
                split at h
                · cases h
                · simp only [Except.ok.injEq, Prod.mk.injEq] at h
                  exact hk h.2.1.symm
        | nonLoopbackIP => simp [peekKind] at hp; split at hp <;> cases hp
        | loopbackIP => simp [peekKind] at hp; split at hp <;> cases hp
      simp only [hpk] at h
      have hho : hostOnly str Kind.domain = str := by simp [hostOnly]
      rw [hho, hf] at h
      simp only [show (Kind.domain == Kind.subdomains) = false from rfl, Bool.false_and, Bool.false_eq_true, if_false, hip, if_true] at h
      cases hvd : ipVerdict ext host.value with
      | bad => simp [hvd] at h
      | prohibited => simp [hvd] at h
      | ok lb => rw [hv]; exact ipVerdict_nonempty hvd
    · -- domain: idna accepted the host
      unfold parseHostPattern at h
      simp only [] at h
      cases hp : peekKind str with
      | domain =>
        simp only [hp] at h
        have hho : hostOnly str Kind.domain = str := by simp [hostOnly]
        rw [hho, hf] at h
        simp only [show (Kind.domain == Kind.subdomains) = false from rfl, Bool.false_and, Bool.false_eq_true, if_false, hip] at h
        split at h
        · cases h
        · rename_i hid
          have hne := idnaOK_nonempty (by simpa using hid : idnaOK ext host.value = true)
          have happ := fastParseHost_append hf (Or.inl hip)
          rw [hv]
          intro hnil
          apply hne
          have : (str.take host.value.length).length = host.value.length := by
            rw [List.length_take]; rw [happ]; simp
          rw [hnil] at this
          exact List.eq_nil_of_length_eq_zero this.symm
      | subdomains =>
        exfalso
        simp only [hp] at h
        cases hf2 : Lex.fastParseHost (hostOnly str Kind.subdomains) with
        | none => simp [hf2] at h
        | some hr =>
          obtain ⟨host2, r2⟩ := hr
          simp only [hf2] at h
          split at h
          · cases h
          · split at h
            · cases h
            · rename_i hnip
              have hip2 : host2.assumeIP = false := by simpa using hnip
              simp only [hip2, Bool.false_eq_true, if_false] at h
              split at h
              · cases h
              · simp only [Except.ok.injEq, Prod.mk.injEq] at h
                exact hk h.2.1.symm
      | nonLoopbackIP => simp [peekKind] at hp; split at hp <;> cases hp
      | loopbackIP => simp [peekKind] at hp; split at hp <;> cases hp

end Cors
