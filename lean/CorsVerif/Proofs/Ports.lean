import CorsVerif.Model.Tree
import CorsVerif.Proofs.Order
/-
  The signed port coding of the radix tree (`node.add` / `node.contains`):
  what a scheme/port table covers, and how `add` extends the coverage.
-/
namespace Cors
namespace Node
open Gen

def W : Int := 65536          -- wildcardPort
def O : Int := 65537          -- portOffset

theorem wildcardPort_eq : wildcardPort = 65536 := rfl
theorem portOffset_eq : portOffset = 65537 := rfl

/-- Sorted ascending (duplicates allowed, as the Go code produces them for wildcard-subdomain entries). -/
def SortedInts (l : List Int) : Prop := l.Pairwise (· ≤ ·)

/-- Invariant of one port list: sorted, every code in the range of the coding. -/
structure PortsOK (l : List Int) : Prop where
  sorted : SortedInts l
  range : ∀ x ∈ l, -65537 ≤ x ∧ x ≤ 65536

theorem insertSorted_int_mem (c x : Int) (l : List Int) :
    x ∈ insertSorted (fun a b => decide (a < b)) c l ↔ x = c ∨ x ∈ l := by
  induction l with
  | nil => simp [insertSorted]
  | cons y ys ih =>
    simp only [insertSorted]
    split
    · simp
    · simp only [List.mem_cons, ih]
      constructor
      · rintro (h | h | h)
        · exact Or.inr (Or.inl h)
        · exact Or.inl h
        · exact Or.inr (Or.inr h)
      · rintro (h | h | h)
        · exact Or.inr (Or.inl h)
        · exact Or.inl h
        · exact Or.inr (Or.inr h)

theorem insertSorted_int_sorted (c : Int) (l : List Int) (h : SortedInts l) :
    SortedInts (insertSorted (fun a b => decide (a < b)) c l) := by
  induction l with
  | nil => simp [insertSorted, SortedInts]
  | cons y ys ih =>
    unfold SortedInts at h
    rw [List.pairwise_cons] at h
    simp only [insertSorted]
    split
    · rename_i hlt
      have hlt' : c < y := by simpa using hlt
      unfold SortedInts
      rw [List.pairwise_cons]
      refine ⟨?_, List.pairwise_cons.mpr h⟩
      intro a ha
      rcases List.mem_cons.mp ha with rfl | ha
      · omega
      · have := h.1 a ha; omega
    · rename_i hlt
      have hge : y ≤ c := by
        have : ¬ c < y := by simpa using hlt
        omega
      unfold SortedInts
      rw [List.pairwise_cons]
      refine ⟨?_, ih h.2⟩
      intro a ha
      rcases (insertSorted_int_mem c a ys).mp ha with rfl | ha
      · exact hge
      · exact h.1 a ha

/-- On a sorted list, dropping the leading negatives keeps exactly the non-negative members. -/
theorem mem_dropWhile_neg (l : List Int) (h : SortedInts l) (x : Int) :
    x ∈ l.dropWhile (· < 0) ↔ x ∈ l ∧ 0 ≤ x := by
  induction l with
  | nil => simp
  | cons y ys ih =>
    unfold SortedInts at h
    rw [List.pairwise_cons] at h
    simp only [List.dropWhile_cons]
    split
    · rename_i hy
      have hy' : y < 0 := by simpa using hy
      rw [ih h.2]
      constructor
      · rintro ⟨h1, h2⟩; exact ⟨List.mem_cons_of_mem _ h1, h2⟩
      · rintro ⟨h1, h2⟩
        rcases List.mem_cons.mp h1 with rfl | h1
        · omega
        · exact ⟨h1, h2⟩
    · rename_i hy
      have hy' : 0 ≤ y := by
        have : ¬ y < 0 := by simpa using hy
        omega
      constructor
      · intro hx
        refine ⟨hx, ?_⟩
        rcases List.mem_cons.mp hx with rfl | hx
        · exact hy'
        · have := h.1 x hx; omega
      · rintro ⟨h1, _⟩; exact h1

/-- On a sorted list, taking the leading negatives keeps exactly the negative members. -/
theorem mem_takeWhile_neg (l : List Int) (h : SortedInts l) (x : Int) :
    x ∈ l.takeWhile (· < 0) ↔ x ∈ l ∧ x < 0 := by
  induction l with
  | nil => simp
  | cons y ys ih =>
    unfold SortedInts at h
    rw [List.pairwise_cons] at h
    simp only [List.takeWhile_cons]
    split
    · rename_i hy
      have hy' : y < 0 := by simpa using hy
      simp only [List.mem_cons, ih h.2]
      constructor
      · rintro (rfl | ⟨h1, h2⟩)
        · exact ⟨Or.inl rfl, hy'⟩
        · exact ⟨Or.inr h1, h2⟩
      · rintro ⟨rfl | h1, h2⟩
        · exact Or.inl rfl
        · exact Or.inr ⟨h1, h2⟩
    · rename_i hy
      have hy' : 0 ≤ y := by
        have : ¬ y < 0 := by simpa using hy
        omega
      simp only [List.not_mem_nil, false_iff, not_and]
      intro hx
      rcases List.mem_cons.mp hx with rfl | hx
      · omega
      · have := h.1 x hx; omega

theorem sorted_sublist {l l' : List Int} (h : SortedInts l) (hs : l'.Sublist l) : SortedInts l' :=
  List.Pairwise.sublist hs h

theorem deleteSameSign_ok (l : List Int) (v : Int) (h : PortsOK l) : PortsOK (deleteSameSign l v) := by
  unfold deleteSameSign
  split
  · exact ⟨sorted_sublist h.sorted (List.dropWhile_sublist _), fun x hx => h.range x ((List.dropWhile_sublist _).subset hx)⟩
  · exact ⟨sorted_sublist h.sorted (List.takeWhile_sublist _), fun x hx => h.range x ((List.takeWhile_sublist _).subset hx)⟩

theorem mem_deleteSameSign (l : List Int) (v : Int) (h : SortedInts l) (x : Int) :
    x ∈ deleteSameSign l v ↔ x ∈ l ∧ (if v < 0 then 0 ≤ x else x < 0) := by
  unfold deleteSameSign
  split
  · exact mem_dropWhile_neg l h x
  · exact mem_takeWhile_neg l h x

end Node
end Cors

namespace Cors
namespace Node
open Gen

/-- Invariant of a scheme table: scheme keys strictly increasing, every port list fine. -/
structure SchemesOK (S : List (Bytes × List Int)) : Prop where
  keys : (S.map Prod.fst).Pairwise (fun a b => Bytes.lt a b = true)
  ports : ∀ e ∈ S, PortsOK e.2

theorem SchemesOK_nil : SchemesOK [] := ⟨List.Pairwise.nil, fun e he => by cases he⟩

theorem SchemesOK_tail {e : Bytes × List Int} {S : List (Bytes × List Int)} (h : SchemesOK (e :: S)) : SchemesOK S :=
  ⟨(List.pairwise_cons.mp h.keys).2, fun x hx => h.ports x (List.mem_cons_of_mem _ hx)⟩

theorem lookup_none_of_lt {sch : Bytes} {S : List (Bytes × List Int)}
    (h : ∀ k ∈ S.map Prod.fst, Bytes.lt sch k = true) : lookupScheme sch S = none := by
  induction S with
  | nil => rfl
  | cons e rest ih =>
    obtain ⟨s, ps⟩ := e
    simp only [lookupScheme]
    have hs := h s (by simp)
    have : (s == sch) = false := by
      simp only [beq_eq_false_iff_ne, ne_eq]
      intro heq; subst heq; rw [Bytes.lt_irrefl] at hs; cases hs
    rw [this]
    simp only [Bool.false_eq_true, if_false]
    exact ih (fun k hk => h k (by simp at hk ⊢; exact Or.inr hk))

theorem lookup_mem {sch : Bytes} {S : List (Bytes × List Int)} {ps : List Int} (h : lookupScheme sch S = some ps) :
    (sch, ps) ∈ S := by
  induction S with
  | nil => simp [lookupScheme] at h
  | cons e rest ih =>
    obtain ⟨s, qs⟩ := e
    simp only [lookupScheme] at h
    split at h
    · rename_i heq
      have : s = sch := by simpa using heq
      cases h; subst this; exact List.mem_cons_self
    · exact List.mem_cons_of_mem _ (ih h)

/-- The new port list of `scheme` after `addScheme`. -/
def newPorts (S : List (Bytes × List Int)) (sch : Bytes) (c : Int) (w : Bool) : List Int :=
  let ps := (lookupScheme sch S).getD []
  insertSorted (fun a b => decide (a < b)) c (if w then deleteSameSign ps c else ps)

theorem lookup_addScheme_same (S : List (Bytes × List Int)) (hS : SchemesOK S) (sch : Bytes) (c : Int) (w : Bool) :
    lookupScheme sch (addScheme sch c w S) = some (newPorts S sch c w) := by
  induction S with
  | nil =>
    unfold newPorts
    cases w <;> simp [addScheme, lookupScheme, insertSorted, deleteSameSign]
  | cons e rest ih =>
    obtain ⟨s, ps⟩ := e
    simp only [addScheme]
    by_cases hs : (s == sch) = true
    · have : s = sch := by simpa using hs
      subst this
      simp [lookupScheme, newPorts]
    · have hs' : (s == sch) = false := by simpa using hs
      rw [if_neg hs]
      by_cases hlt : Bytes.lt sch s = true
      · rw [if_pos hlt]
        have hnone : lookupScheme sch ((s, ps) :: rest) = none := by
          apply lookup_none_of_lt
          intro k hk
          simp only [List.map_cons, List.mem_cons] at hk
          rcases hk with rfl | hk
          · exact hlt
          · have := (List.pairwise_cons.mp hS.keys).1 k (by simpa using hk)
            exact Bytes.lt_trans hlt this
        have hnp : newPorts ((s, ps) :: rest) sch c w = [c] := by
          unfold newPorts
          rw [hnone]
          cases w <;> simp [insertSorted, deleteSameSign]
        rw [hnp]
        simp [lookupScheme]
      · rw [if_neg hlt]
        simp only [lookupScheme, hs', Bool.false_eq_true, if_false]
        rw [ih (SchemesOK_tail hS)]
        simp [newPorts, lookupScheme, hs']

theorem lookup_addScheme_other (S : List (Bytes × List Int)) (sch sch' : Bytes) (c : Int) (w : Bool) (hne : sch' ≠ sch) :
    lookupScheme sch' (addScheme sch c w S) = lookupScheme sch' S := by
  have hne' : (sch == sch') = false := by simpa using fun h => hne h.symm
  induction S with
  | nil => simp [addScheme, lookupScheme, hne']
  | cons e rest ih =>
    obtain ⟨s, ps⟩ := e
    simp only [addScheme]
    by_cases hs : (s == sch) = true
    · have : s = sch := by simpa using hs
      subst this
      simp [lookupScheme, hne']
    · rw [if_neg hs]
      by_cases hlt : Bytes.lt sch s = true
      · rw [if_pos hlt]; simp [lookupScheme, hne']
      · rw [if_neg hlt]
        simp only [lookupScheme]
        split
        · rfl
        · exact ih

theorem newPorts_ok (S : List (Bytes × List Int)) (hS : SchemesOK S) (sch : Bytes) (c : Int) (w : Bool)
    (hc : -65537 ≤ c ∧ c ≤ 65536) : PortsOK (newPorts S sch c w) := by
  unfold newPorts
  have hps : PortsOK ((lookupScheme sch S).getD []) := by
    cases hl : lookupScheme sch S with
    | none => exact ⟨List.Pairwise.nil, fun x hx => by cases hx⟩
    | some ps => exact hS.ports _ (lookup_mem hl)
  have hps' : PortsOK (if w = true then deleteSameSign ((lookupScheme sch S).getD []) c else (lookupScheme sch S).getD []) := by
    split
    · exact deleteSameSign_ok _ _ hps
    · exact hps
  refine ⟨insertSorted_int_sorted _ _ hps'.sorted, fun x hx => ?_⟩
  rcases (insertSorted_int_mem _ _ _).mp hx with rfl | hx
  · exact hc
  · exact hps'.range x hx

theorem addScheme_ok (S : List (Bytes × List Int)) (hS : SchemesOK S) (sch : Bytes) (c : Int) (w : Bool)
    (hc : -65537 ≤ c ∧ c ≤ 65536) : SchemesOK (addScheme sch c w S) := by
  induction S with
  | nil =>
    simp only [addScheme]
    exact ⟨by simp, fun e he => by
      simp at he; subst he
      exact ⟨by simp [SortedInts], fun x hx => by simp at hx; subst hx; exact hc⟩⟩
  | cons e rest ih =>
    obtain ⟨s, ps⟩ := e
    simp only [addScheme]
    by_cases hs : (s == sch) = true
    · rw [if_pos hs]
      refine ⟨by simpa using hS.keys, fun x hx => ?_⟩
      rcases List.mem_cons.mp hx with rfl | hx
      · have hps := hS.ports (s, ps) List.mem_cons_self
        have hps' : PortsOK (if w = true then deleteSameSign ps c else ps) := by
          split
          · exact deleteSameSign_ok _ _ hps
          · exact hps
        refine ⟨insertSorted_int_sorted _ _ hps'.sorted, fun y hy => ?_⟩
        rcases (insertSorted_int_mem _ _ _).mp hy with rfl | hy
        · exact hc
        · exact hps'.range y hy
      · exact hS.ports x (List.mem_cons_of_mem _ hx)
    · rw [if_neg hs]
      have hne : s ≠ sch := by simpa using hs
      by_cases hlt : Bytes.lt sch s = true
      · rw [if_pos hlt]
        refine ⟨?_, fun x hx => ?_⟩
        · simp only [List.map_cons]
          rw [List.pairwise_cons]
          refine ⟨?_, hS.keys⟩
          intro k hk
          simp only [List.map_cons, List.mem_cons] at hk
          rcases hk with rfl | hk
          · exact hlt
          · exact Bytes.lt_trans hlt ((List.pairwise_cons.mp hS.keys).1 k hk)
        · rcases List.mem_cons.mp hx with rfl | hx
          · exact ⟨by simp [SortedInts], fun y hy => by simp at hy; subst hy; exact hc⟩
          · exact hS.ports x hx
      · rw [if_neg hlt]
        have hgt : Bytes.lt s sch = true := by
          rcases Bytes.lt_trichotomy sch s with h | h | h
          · exact absurd h hlt
          · exact absurd h.symm hne
          · exact h
        have ihr := ih (SchemesOK_tail hS)
        refine ⟨?_, fun x hx => ?_⟩
        · simp only [List.map_cons]
          rw [List.pairwise_cons]
          refine ⟨?_, ihr.keys⟩
          intro k hk
          -- keys of addScheme are sch or old keys
          have : k = sch ∨ k ∈ rest.map Prod.fst := by
            clear ih ihr hS
            induction rest with
            | nil => simp [addScheme] at hk; exact Or.inl hk
            | cons e2 r2 ih2 =>
              obtain ⟨s2, p2⟩ := e2
              simp only [addScheme] at hk
              split at hk
              · simp at hk ⊢; rcases hk with h | h
                · exact Or.inr (Or.inl h)
                · exact Or.inr (Or.inr h)
              · split at hk
                · simp at hk ⊢; rcases hk with h | h | h
                  · exact Or.inl h
                  · exact Or.inr (Or.inl h)
                  · exact Or.inr (Or.inr h)
                · simp only [List.map_cons, List.mem_cons] at hk ⊢
                  rcases hk with h | h
                  · exact Or.inr (Or.inl h)
                  · rcases ih2 h with h | h
                    · exact Or.inl h
                    · exact Or.inr (Or.inr h)
          rcases this with rfl | hk
          · exact hgt
          · exact (List.pairwise_cons.mp hS.keys).1 k hk
        · rcases List.mem_cons.mp hx with rfl | hx
          · exact hS.ports _ List.mem_cons_self
          · exact ihr.ports x hx

end Node
end Cors

namespace Cors
namespace Node
open Gen

theorem code_false (p : Int) : code p false = p := by simp [code]
theorem code_true (p : Int) : code p true = p - 65537 := by simp [code, portOffset_eq]
theorem wildCode_false : wildCode false = 65536 := by simp [wildCode, wildcardPort_eq]
theorem wildCode_true : wildCode true = -1 := by simp [wildCode, wildcardPort_eq, portOffset_eq]

/-- What a port list covers: the exact code or the wildcard code of the kind asked for. -/
def covers (ports : List Int) (p' : Int) (w' : Bool) : Bool :=
  ports.contains (code p' w') || ports.contains (wildCode w')

theorem containsPort_eq (S : List (Bytes × List Int)) (sch : Bytes) (p : Int) (w : Bool) :
    containsPort S sch p w = match lookupScheme sch S with
      | none => false
      | some ports => covers ports p w := rfl

theorem covers_iff (ports : List Int) (p' : Int) (w' : Bool) :
    covers ports p' w' = true ↔ code p' w' ∈ ports ∨ wildCode w' ∈ ports := by
  simp [covers]

theorem prop_nonwild {X Y a b e : Prop} (hA : a ↔ e) (hB : ¬ b) : ((a ∨ X) ∨ (b ∨ Y)) ↔ ((X ∨ Y) ∨ e) := by
  constructor
  · rintro ((h | h) | (h | h))
    · exact Or.inr (hA.mp h)
    · exact Or.inl (Or.inl h)
    · exact absurd h hB
    · exact Or.inl (Or.inr h)
  · rintro ((h | h) | h)
    · exact Or.inl (Or.inr h)
    · exact Or.inr (Or.inr h)
    · exact Or.inl (Or.inl (hA.mpr h))

/-- **The port coding.** Inserting the code of `(p, w)` (with the same-sign clean-up when `p` is the
wildcard port) extends the coverage of a port list by exactly: same kind, and same port or wildcard. -/
theorem covers_newList (ps : List Int) (hps : PortsOK ps) (p : Int) (w : Bool) (hp : 0 ≤ p ∧ p ≤ 65536)
    (p' : Int) (w' : Bool) (hp' : 0 ≤ p' ∧ p' ≤ 65535) :
    covers (insertSorted (fun a b => decide (a < b)) (code p w)
        (if (code p w == wildCode w) = true then deleteSameSign ps (code p w) else ps)) p' w' =
      (covers ps p' w' || (w == w' && (p == p' || p == 65536))) := by
  rw [Bool.eq_iff_iff]
  simp only [covers_iff, Bool.or_eq_true, Bool.and_eq_true, beq_iff_eq, insertSorted_int_mem]
  by_cases hwild : p = 65536
  · -- wildcard port: same-sign entries are dropped; all of them are subsumed
    subst hwild
    have hcw : code 65536 w = wildCode w := by
      cases w <;> simp [code_false, code_true, wildCode_false, wildCode_true]
    rw [if_pos hcw]
    simp only [mem_deleteSameSign _ _ hps.sorted]
    cases w <;> cases w'
    · -- exact entry, exact query: the new wildcard covers it
      simp only [code_false, wildCode_false]
      constructor
      · intro _; exact Or.inr ⟨trivial, Or.inr trivial⟩
      · intro _; exact Or.inr (Or.inl trivial)
    · -- exact entry, wildcard-subdomain query: other sign, untouched
      simp only [code_false, code_true, wildCode_false, wildCode_true]
      constructor
      · rintro ((h | ⟨h, _⟩) | (h | ⟨h, _⟩))
        · omega
        · exact Or.inl (Or.inl h)
        · omega
        · exact Or.inl (Or.inr h)
      · rintro ((h | h) | ⟨h, _⟩)
        · exact Or.inl (Or.inr ⟨h, by simp; omega⟩)
        · exact Or.inr (Or.inr ⟨h, by simp⟩)
        · cases h
    · simp only [code_false, code_true, wildCode_false, wildCode_true]
      constructor
      · rintro ((h | ⟨h, _⟩) | (h | ⟨h, _⟩))
        · omega
        · exact Or.inl (Or.inl h)
        · omega
        · exact Or.inl (Or.inr h)
      · rintro ((h | h) | ⟨h, _⟩)
        · exact Or.inl (Or.inr ⟨h, by simp; omega⟩)
        · exact Or.inr (Or.inr ⟨h, by simp⟩)
        · cases h
    · simp only [code_true, wildCode_true]
      constructor
      · intro _; exact Or.inr ⟨trivial, Or.inr trivial⟩
      · intro _; exact Or.inr (Or.inl (by omega))
  · have hcw : ¬ code p w = wildCode w := by
      cases w <;> simp [code_false, code_true, wildCode_false, wildCode_true] <;> omega
    rw [if_neg hcw]
    cases w <;> cases w' <;> simp only [code_false, code_true, wildCode_false, wildCode_true]
    · refine (prop_nonwild (e := True ∧ (p = p' ∨ p = 65536)) ?_ ?_)
      · constructor
        · intro h; exact ⟨trivial, Or.inl h.symm⟩
        · rintro ⟨_, h | h⟩
          · exact h.symm
          · exact absurd h hwild
      · omega
    · refine (prop_nonwild (e := false = true ∧ (p = p' ∨ p = 65536)) ?_ ?_)
      · constructor
        · intro h; omega
        · rintro ⟨h, _⟩; cases h
      · omega
    · refine (prop_nonwild (e := true = false ∧ (p = p' ∨ p = 65536)) ?_ ?_)
      · constructor
        · intro h; omega
        · rintro ⟨h, _⟩; cases h
      · omega
    · refine (prop_nonwild (e := True ∧ (p = p' ∨ p = 65536)) ?_ ?_)
      · constructor
        · intro h; exact ⟨trivial, Or.inl (by omega)⟩
        · rintro ⟨_, h | h⟩
          · omega
          · exact absurd h hwild
      · omega

end Node
end Cors

namespace Cors
namespace Node
open Gen

theorem code_range (p : Int) (w : Bool) (hp : 0 ≤ p ∧ p ≤ 65536) : -65537 ≤ code p w ∧ code p w ≤ 65536 := by
  cases w
  · rw [code_false]; omega
  · rw [code_true]; omega

theorem addPort_ok (S : List (Bytes × List Int)) (hS : SchemesOK S) (sch : Bytes) (p : Int) (w : Bool)
    (hp : 0 ≤ p ∧ p ≤ 65536) : SchemesOK (addPort S sch p w) := by
  unfold addPort
  split
  · exact hS
  · exact addScheme_ok S hS sch _ _ (code_range p w hp)

/-- If a table covers `(p, w)` then it covers every `(p', w)` that `(p, w)` covers. -/
theorem covers_mono (ps : List Int) (p p' : Int) (w : Bool) (h : covers ps p w = true) (hpp : p = p' ∨ p = 65536) :
    covers ps p' w = true := by
  rcases hpp with rfl | rfl
  · exact h
  · rw [covers_iff] at h ⊢
    cases w
    · rw [code_false, wildCode_false] at h; rw [wildCode_false]; rcases h with h | h <;> exact Or.inr h
    · rw [code_true, wildCode_true] at h; rw [wildCode_true]
      rcases h with h | h
      · exact Or.inr (by simpa using h)
      · exact Or.inr h

/-- **`node.add`.** Adding `(scheme, port, wildcardSubs)` to a scheme table extends what the
table covers by exactly the new entry's coverage — including the Go code's peculiar duplicate
test (`contains` called with the already offset port). -/
theorem addPort_cover (S : List (Bytes × List Int)) (hS : SchemesOK S) (sch : Bytes) (p : Int) (w : Bool)
    (hp : 0 ≤ p ∧ p ≤ 65536) (sch' : Bytes) (p' : Int) (w' : Bool) (hp' : 0 ≤ p' ∧ p' ≤ 65535) :
    containsPort (addPort S sch p w) sch' p' w' =
      (containsPort S sch' p' w' || (sch == sch' && (w == w' && (p == p' || p == 65536)))) := by
  unfold addPort
  by_cases hc : containsPort S sch (code p w) w = true
  · -- already covered (for `w = true` this can only be through the wildcard port)
    rw [if_pos hc]
    by_cases hx : (sch == sch' && (w == w' && (p == p' || p == 65536))) = true
    · simp only [Bool.and_eq_true, beq_iff_eq, Bool.or_eq_true] at hx
      obtain ⟨rfl, rfl, hpp⟩ := hx
      have : containsPort S sch p' w = true := by
        rw [containsPort_eq] at hc ⊢
        cases hl : lookupScheme sch S with
        | none => rw [hl] at hc; cases hc
        | some ports =>
          rw [hl] at hc
          simp only [] at hc ⊢
          have hps := hS.ports _ (lookup_mem hl)
          cases w
          · -- code (code p false) false = p
            rw [code_false] at hc
            exact covers_mono ports p p' false hc hpp
          · -- the doubly offset port is out of range, so the wildcard-port entry is there
            rw [covers_iff, code_true, code_true, wildCode_true] at hc
            rw [covers_iff, wildCode_true]
            rcases hc with hc | hc
            · have := hps.range _ hc; omega
            · exact Or.inr hc
      rw [this]; simp
    · have hx' : (sch == sch' && (w == w' && (p == p' || p == 65536))) = false := by simpa using hx
      rw [hx', Bool.or_false]
  · rw [if_neg hc]
    by_cases hs : sch' = sch
    · subst hs
      rw [containsPort_eq, lookup_addScheme_same S hS, containsPort_eq]
      simp only [beq_self_eq_true, Bool.true_and]
      unfold newPorts
      simp only []
      have hps : PortsOK ((lookupScheme sch' S).getD []) := by
        cases hl : lookupScheme sch' S with
        | none => exact ⟨List.Pairwise.nil, fun x hx => by cases hx⟩
        | some ps => exact hS.ports _ (lookup_mem hl)
      have := covers_newList _ hps p w hp p' w' hp'
      rw [this]
      cases hl : lookupScheme sch' S with
      | none => simp [covers]
      | some ps => simp
    · rw [containsPort_eq, lookup_addScheme_other S sch sch' _ _ hs, ← containsPort_eq]
      have : (sch == sch') = false := by simpa using fun h => hs h.symm
      rw [this]; simp

end Node
end Cors
