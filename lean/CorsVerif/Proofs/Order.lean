import CorsVerif.Model.Util
/-
  The byte-lexicographic order is a strict total order; `SortedSet.add` keeps the set strictly
  sorted and `maxLen` an upper bound of the element lengths.
-/
namespace Cors

namespace Bytes

theorem lt_irrefl (a : Bytes) : lt a a = false := by
  induction a with
  | nil => rfl
  | cons x xs ih => simp [lt, ih]

theorem lt_trans {a b c : Bytes} (h1 : lt a b = true) (h2 : lt b c = true) : lt a c = true := by
  induction a generalizing b c with
  | nil =>
    cases b with
    | nil => simp [lt] at h1
    | cons y ys =>
      cases c with
      | nil => simp [lt] at h2
      | cons z zs => simp [lt]
  | cons x xs ih =>
    cases b with
    | nil => simp [lt] at h1
    | cons y ys =>
      cases c with
      | nil => simp [lt] at h2
      | cons z zs =>
        simp only [lt] at h1 h2 ⊢
        by_cases hxy : x < y
        · by_cases hyz : y < z
          · have : x < z := Nat.lt_trans hxy hyz
            simp [this]
          · by_cases hzy : z < y
            · simp [hyz, hzy] at h2
            · have : y = z := by omega
              subst this; simp [hxy]
        · by_cases hyx : y < x
          · simp [hxy, hyx] at h1
          · have hxy' : x = y := by omega
            subst hxy'
            simp only [hxy, if_false] at h1
            by_cases hyz : x < z
            · simp [hyz]
            · by_cases hzy : z < x
              · simp [hyz, hzy] at h2
              · simp only [hyz, hzy, if_false] at h2 ⊢
                exact ih h1 h2

theorem lt_asymm {a b : Bytes} (h : lt a b = true) : lt b a = false := by
  cases hba : lt b a with
  | false => rfl
  | true =>
    have := lt_trans h hba
    rw [lt_irrefl] at this
    cases this

theorem lt_trichotomy (a b : Bytes) : lt a b = true ∨ a = b ∨ lt b a = true := by
  induction a generalizing b with
  | nil =>
    cases b with
    | nil => right; left; rfl
    | cons y ys => left; rfl
  | cons x xs ih =>
    cases b with
    | nil => right; right; rfl
    | cons y ys =>
      simp only [lt]
      by_cases hxy : x < y
      · left; simp [hxy]
      · by_cases hyx : y < x
        · right; right; simp [hyx]
        · have : x = y := by omega
          subst this
          simp only [hxy, if_false]
          rcases ih ys with h | h | h
          · left; exact h
          · right; left; rw [h]
          · right; right; exact h

theorem lt_ne {a b : Bytes} (h : lt a b = true) : a ≠ b := by
  intro hab; subst hab; rw [lt_irrefl] at h; cases h

end Bytes

/-- Strictly sorted in the byte-lexicographic order. -/
def StrictSorted (l : List Bytes) : Prop := l.Pairwise (fun a b => Bytes.lt a b = true)

theorem insertSorted_mem {x y : Bytes} {l : List Bytes} : y ∈ insertSorted Bytes.lt x l ↔ y = x ∨ y ∈ l := by
  induction l with
  | nil => simp [insertSorted]
  | cons z zs ih =>
    simp only [insertSorted]
    split
    · simp
    · simp only [List.mem_cons, ih]
      constructor
      · rintro (h | h | h)
        · right; left; exact h
        · left; exact h
        · right; right; exact h
      · rintro (h | h | h)
        · right; left; exact h
        · left; exact h
        · right; right; exact h

theorem insertSorted_sorted {x : Bytes} {l : List Bytes} (hl : StrictSorted l) (hx : x ∉ l) :
    StrictSorted (insertSorted Bytes.lt x l) := by
  induction l with
  | nil => simp [insertSorted, StrictSorted]
  | cons z zs ih =>
    unfold StrictSorted at hl
    rw [List.pairwise_cons] at hl
    simp only [insertSorted]
    split
    · rename_i hxz
      unfold StrictSorted
      rw [List.pairwise_cons]
      refine ⟨?_, List.pairwise_cons.mpr hl⟩
      intro a ha
      rcases List.mem_cons.mp ha with rfl | ha
      · exact hxz
      · exact Bytes.lt_trans hxz (hl.1 a ha)
    · rename_i hxz
      have hne : x ≠ z := fun h => hx (by rw [h]; exact List.mem_cons_self)
      have hzx : Bytes.lt z x = true := by
        rcases Bytes.lt_trichotomy x z with h | h | h
        · exact absurd h hxz
        · exact absurd h hne
        · exact h
      unfold StrictSorted
      rw [List.pairwise_cons]
      refine ⟨?_, ih hl.2 (fun h => hx (List.mem_cons_of_mem _ h))⟩
      intro a ha
      rcases insertSorted_mem.mp ha with rfl | ha
      · exact hzx
      · exact hl.1 a ha

/-- Well-formedness of a `SortedSet`: strictly sorted, and `maxLen` bounds every element's length. -/
structure SortedSet.WF (set : SortedSet) : Prop where
  sorted : StrictSorted set.elems
  bound : ∀ x ∈ set.elems, x.length ≤ set.maxLen

theorem SortedSet.empty_wf : SortedSet.WF {} := ⟨List.Pairwise.nil, by intro x hx; cases hx⟩

/-- `Add` maintains the invariant. -/
theorem SortedSet.add_wf (set : SortedSet) (h : set.WF) (e : Bytes) : (set.add e).WF := by
  unfold SortedSet.add
  split
  · exact h
  · rename_i hc
    have hne : e ∉ set.elems := by simpa using hc
    refine ⟨insertSorted_sorted h.sorted hne, ?_⟩
    intro x hx
    rcases insertSorted_mem.mp hx with rfl | hx
    · exact Nat.le_max_right _ _
    · exact Nat.le_trans (h.bound x hx) (Nat.le_max_left _ _)

theorem SortedSet.ofList_wf (es : List Bytes) : (SortedSet.ofList es).WF := by
  unfold SortedSet.ofList
  suffices ∀ (s : SortedSet), s.WF → (es.foldl SortedSet.add s).WF from this _ SortedSet.empty_wf
  induction es with
  | nil => intro s hs; exact hs
  | cons e es ih => intro s hs; exact ih _ (SortedSet.add_wf s hs e)

/-- Membership after `Add`. -/
theorem SortedSet.mem_add (set : SortedSet) (e x : Bytes) : x ∈ (set.add e).elems ↔ x = e ∨ x ∈ set.elems := by
  unfold SortedSet.add
  split
  · rename_i hc
    have : e ∈ set.elems := by simpa using hc
    constructor
    · intro h; exact Or.inr h
    · rintro (rfl | h)
      · exact this
      · exact h
  · exact insertSorted_mem

end Cors
