import CorsVerif.Proofs.Render
import CorsVerif.Props.C01
import CorsVerif.Proofs.ACRH
/-
  `node.elems` renders a stored entry back to the very string it was parsed from
  (C06: the inverse rendering of the internal configuration).
-/
namespace Cors
open Gen Pat

namespace RoundTrip

/-! ### what the host loop lets through -/

theorem hostLoop_bytes {s : Bytes} {ps ip fst : Bool} {h r : Bytes} {ip' : Bool}
    (hl : Lex.hostLoop s ps ip fst = some (h, r, ip')) :
    ∀ b ∈ h, b = Facts.origins_labelSep ∨ Lex.isDigit b = true ∨ Lex.isASCIILabelByte b = true := by
  induction s generalizing ps ip fst h r ip' with
  | nil => simp [Lex.hostLoop] at hl; obtain ⟨rfl, _, _⟩ := hl; intro b hb; cases hb
  | cons c t ih =>
    simp only [Lex.hostLoop] at hl
    split at hl
    · rename_i hsep
      split at hl
      · cases hl
      · cases hrec : Lex.hostLoop t true ip false with
        | none => simp [hrec] at hl
        | some x =>
          obtain ⟨h', r', ip''⟩ := x
          simp only [hrec, Option.map_some, Option.some.injEq, Prod.mk.injEq] at hl
          obtain ⟨rfl, _, _⟩ := hl
          intro b hb
          rcases List.mem_cons.mp hb with rfl | hb
          · exact Or.inl (by simpa using hsep)
          · exact ih hrec b hb
    · split at hl
      · rename_i hdig
        generalize (if ps || fst then true else ip) = ipn at hl
        cases hrec : Lex.hostLoop t false ipn false with
        | none => simp [hrec] at hl
        | some x =>
          obtain ⟨h', r', ip''⟩ := x
          simp only [hrec, Option.map_some, Option.some.injEq, Prod.mk.injEq] at hl
          obtain ⟨rfl, _, _⟩ := hl
          intro b hb
          rcases List.mem_cons.mp hb with rfl | hb
          · exact Or.inr (Or.inl hdig)
          · exact ih hrec b hb
      · split at hl
        · rename_i hlab
          generalize (if ps then false else ip) = ipn at hl
          cases hrec : Lex.hostLoop t false ipn false with
          | none => simp [hrec] at hl
          | some x =>
            obtain ⟨h', r', ip''⟩ := x
            simp only [hrec, Option.map_some, Option.some.injEq, Prod.mk.injEq] at hl
            obtain ⟨rfl, _, _⟩ := hl
            intro b hb
            rcases List.mem_cons.mp hb with rfl | hb
            · exact Or.inr (Or.inr hlab)
            · exact ih hrec b hb
        · simp only [Option.some.injEq, Prod.mk.injEq] at hl
          obtain ⟨rfl, _, _⟩ := hl
          intro b hb; cases hb

theorem hostLoop_no_colon {s : Bytes} {ps ip fst : Bool} {h r : Bytes} {ip' : Bool}
    (hl : Lex.hostLoop s ps ip fst = some (h, r, ip')) : (58 : Nat) ∉ h := by
  intro hm
  rcases hostLoop_bytes hl 58 hm with h1 | h1 | h1
  · revert h1; decide
  · revert h1; decide
  · revert h1; decide

/-- `fastParseHost`: either the bracketed form `[value]`, or the value itself, which then has no colon. -/
theorem fastParseHost_cases {str : Bytes} {host : Host} {rest : Bytes}
    (h : Lex.fastParseHost str = some (host, rest)) :
    (str = 91 :: host.value ++ 93 :: rest ∧ host.assumeIP = true) ∨
    (str = host.value ++ rest ∧ (58 : Nat) ∉ host.value ∧
      ∀ b ∈ host.value, b = Facts.origins_labelSep ∨ Lex.isDigit b = true ∨ Lex.isASCIILabelByte b = true) := by
  unfold Lex.fastParseHost at h
  split at h
  · rename_i hb
    cases hc : Bytes.cutAt 93 str with
    | none => simp [hc] at h
    | some p =>
      obtain ⟨before, after⟩ := p
      simp only [hc, Option.some.injEq, Prod.mk.injEq] at h
      obtain ⟨rfl, rfl⟩ := h
      obtain ⟨hs, _⟩ := Cors.ACRH.cutAt_some hc
      simp only [Bool.and_eq_true, decide_eq_true_eq, beq_iff_eq] at hb
      left
      refine ⟨?_, rfl⟩
      cases before with
      | nil => rw [hs] at hb; simp at hb
      | cons b t =>
        rw [hs] at hb
        simp only [List.cons_append, List.head?_cons, Option.some.injEq] at hb
        rw [hs, hb.2]
        simp
  · cases str with
    | nil => simp at h
    | cons b t =>
      simp only [] at h
      split at h
      · cases h
      · cases hl : Lex.hostLoop (b :: t) false false true with
        | none => simp [hl] at h
        | some x =>
          obtain ⟨hh, r, ip⟩ := x
          simp only [hl, Option.some.injEq, Prod.mk.injEq] at h
          obtain ⟨rfl, rfl⟩ := h
          exact Or.inr ⟨hostLoop_append hl, hostLoop_no_colon hl, hostLoop_bytes hl⟩

/-- How `parseHostPattern` consumes its input: the value itself (no colon in it), or, for an IP
literal, the value in brackets. -/
theorem parseHostPattern_split {ext : Ext} {str value rest : Bytes} {kind : Kind}
    (h : parseHostPattern ext str = .ok (value, kind, rest)) :
    (str = value ++ rest ∧ (58 : Nat) ∉ value ∧
      ∀ b ∈ value, b = 42 ∨ b = Facts.origins_labelSep ∨ Lex.isDigit b = true ∨ Lex.isASCIILabelByte b = true) ∨
    (kind ≠ .subdomains ∧ str = 91 :: value ++ 93 :: rest) := by
  by_cases hk : kind = .subdomains
  · subst hk
    left
    unfold parseHostPattern at h
    simp only [] at h
    cases hpk : peekKind str with
    | subdomains =>
      simp only [hpk] at h
      have hpre : str.hasPrefix Facts.origins_peekKind_wildcardSeq = true := by
        unfold peekKind at hpk
        split at hpk
        · assumption
        · cases hpk
      obtain ⟨tl, rfl⟩ := hasPrefix_star_dot hpre
      have hho : hostOnly (42 :: 46 :: tl) Kind.subdomains = tl := by
        simp [hostOnly, Facts.origins_subdomainWildcard]
      rw [hho] at h
      cases hf : Lex.fastParseHost tl with
      | none => simp [hf] at h
      | some hr =>
        obtain ⟨host, r⟩ := hr
        simp only [hf] at h
        split at h
        · cases h
        · split at h
          · cases h
          · rename_i hnip
            have hip : host.assumeIP = false := by simpa using hnip
            simp only [hip, Bool.false_eq_true, if_false] at h
            split at h
            · cases h
            · simp only [Except.ok.injEq, Prod.mk.injEq] at h
              obtain ⟨rfl, _, rfl⟩ := h
              rcases fastParseHost_cases hf with ⟨_, hip'⟩ | ⟨happ, hnc, hcl⟩
              · rw [hip] at hip'; cases hip'
              · have hv : (42 :: 46 :: tl).take (host.value.length + (if (Kind.subdomains == Kind.subdomains) = true then Facts.origins_subdomainWildcard.length + 1 else 0)) = 42 :: 46 :: host.value := by
                  simp only [beq_self_eq_true, if_true, Facts.origins_subdomainWildcard, List.length_cons, List.length_nil]
                  rw [happ]
                  simp
                rw [hv]
                refine ⟨by rw [happ]; simp, ?_, ?_⟩
                · simp only [List.mem_cons, not_or]
                  exact ⟨by decide, by decide, hnc⟩
                · intro b hb
                  simp only [List.mem_cons] at hb
                  rcases hb with rfl | rfl | hb
                  · exact Or.inl rfl
                  · exact Or.inr (Or.inl rfl)
                  · exact Or.inr (hcl b hb)
    | domain =>
      exfalso
      simp only [hpk] at h
      have hho : hostOnly str Kind.domain = str := by simp [hostOnly]
      rw [hho] at h
      cases hf : Lex.fastParseHost str with
      | none => simp [hf] at h
      | some hr =>
        obtain ⟨host, r⟩ := hr
        simp only [hf] at h
        simp only [show (Kind.domain == Kind.subdomains) = false from rfl, Bool.false_and, Bool.false_eq_true, if_false] at h
        cases hip : host.assumeIP with
        | true =>
          simp only [hip, if_true] at h
          cases hv : ipVerdict ext host.value with
          | bad => simp [hv] at h
          | prohibited => simp [hv] at h
          | ok lb =>
            simp only [hv, Except.ok.injEq, Prod.mk.injEq] at h
            cases lb <;> simp at h
        | false =>
          simp only [hip, Bool.false_eq_true, if_false] at h
          split at h
          · cases h
          · simp at h
    | nonLoopbackIP => simp [peekKind] at hpk; split at hpk <;> cases hpk
    | loopbackIP => simp [peekKind] at hpk; split at hpk <;> cases hpk
  · obtain ⟨host, hf, hval⟩ := parseHostPattern_nonwild h hk
    rcases fastParseHost_cases hf with ⟨hbr, hip⟩ | ⟨happ, hnc, hcl⟩
    · right
      rcases hval with ⟨_, hv⟩ | ⟨hip', _⟩
      · exact ⟨hk, by rw [hv]; exact hbr⟩
      · rw [hip] at hip'; cases hip'
    · left
      rcases hval with ⟨_, hv⟩ | ⟨_, hv, _⟩
      · exact ⟨by rw [hv]; exact happ, by rw [hv]; exact hnc, by rw [hv]; exact fun b hb => Or.inr (hcl b hb)⟩
      · have : value = host.value := by
          rw [hv]
          conv => lhs; rw [happ]
          simp
        exact ⟨by rw [this]; exact happ, by rw [this]; exact hnc, by rw [this]; exact fun b hb => Or.inr (hcl b hb)⟩

/-! ### ports -/

theorem isDigit_B : ∀ c, c < 128 → Lex.isDigit c = true → Bytes.isDigitB c = true := by decide

theorem isDigit_lt {c : Nat} (h : Lex.isDigit c = true) : c < 128 := by
  simp only [Lex.isDigit, asciiContains, Facts.origins_digits, List.contains_iff_mem, List.mem_cons, List.mem_nil_iff, or_false] at h
  omega

theorem nonZero_class : ∀ c, c < 128 → Lex.isNonZeroDigit c = true → Bytes.isDigitB c = true ∧ c ≠ 48 := by decide

theorem nonZero_lt {c : Nat} (h : Lex.isNonZeroDigit c = true) : c < 128 := by
  simp only [Lex.isNonZeroDigit, asciiContains, Facts.origins_nonzeroDigits, List.contains_iff_mem, List.mem_cons, List.mem_nil_iff, or_false] at h
  omega

theorem portLoop_inv (k : Nat) (t : Bytes) (acc n : Nat) (h : Lex.portLoop k t acc = (n, [])) :
    t.all Bytes.isDigitB = true ∧ n = t.foldl (fun a c => 10 * a + (c - 48)) acc := by
  induction k generalizing t acc with
  | zero =>
    simp only [Lex.portLoop, Prod.mk.injEq] at h
    obtain ⟨rfl, rfl⟩ := h
    exact ⟨rfl, rfl⟩
  | succ k ih =>
    cases t with
    | nil =>
      simp only [Lex.portLoop, Prod.mk.injEq] at h
      exact ⟨rfl, h.1.symm⟩
    | cons c t =>
      simp only [Lex.portLoop] at h
      split at h
      · rename_i hd
        obtain ⟨h1, h2⟩ := ih t _ h
        refine ⟨?_, ?_⟩
        · simp only [List.all_cons, h1, Bool.and_true]
          exact isDigit_B c (isDigit_lt hd) hd
        · simp only [List.foldl_cons]
          rw [h2]
          rfl
      · simp at h

theorem parsePort_inv {ds : Bytes} {n : Nat} (h : Lex.parsePort ds = some (n, [])) :
    ds = Bytes.itoa n ∧ 1 ≤ n ∧ n ≤ 65535 := by
  unfold Lex.parsePort at h
  cases ds with
  | nil => simp at h
  | cons d t =>
    simp only [] at h
    split at h
    · cases h
    · rename_i hnz
      have hnz' : Lex.isNonZeroDigit d = true := by simpa using hnz
      obtain ⟨hdB, hd48⟩ := nonZero_class d (nonZero_lt hnz') hnz'
      cases hpl : Lex.portLoop (Facts.origins_maxPortLen - 1) t (d - 48) with
      | mk port rest =>
        simp only [hpl] at h
        split at h
        · cases h
        · rename_i hle
          simp only [Option.some.injEq, Prod.mk.injEq] at h
          obtain ⟨rfl, rfl⟩ := h
          obtain ⟨hall, hval⟩ := portLoop_inv _ t _ _ hpl
          have hv : Bytes.digitsValue (d :: t) = port := by
            rw [hval]; simp [Bytes.digitsValue]
          obtain ⟨h1, h2⟩ := Bytes.itoa_digitsValue (d :: t) (by simp [hdB, hall]) (by simp) (by simpa using hd48)
          rw [hv] at h1 h2
          refine ⟨h1.symm, h2, ?_⟩
          simp only [Facts.origins_maxUint16] at hle
          omega

theorem cutPrefix_some {s p r : Bytes} (h : Bytes.cutPrefix s p = some r) : s = p ++ r := by
  induction p generalizing s with
  | nil => simp [Bytes.cutPrefix] at h; subst h; rfl
  | cons b bs ih =>
    cases s with
    | nil => simp [Bytes.cutPrefix] at h
    | cons a as =>
      simp only [Bytes.cutPrefix] at h
      split at h
      · rename_i hab
        have : a = b := by simpa using hab
        subst this
        rw [ih h]; rfl
      · cases h

theorem parsePortPattern_inv {r : Bytes} {port : Nat} (h : parsePortPattern r = some (port, [])) :
    (r = [42] ∧ port = 65536) ∨ (r = Bytes.itoa port ∧ 1 ≤ port ∧ port ≤ 65535) := by
  unfold parsePortPattern at h
  cases hc : r.cutPrefix Facts.origins_portWildcard with
  | some x =>
    simp only [hc, Option.some.injEq, Prod.mk.injEq] at h
    obtain ⟨rfl, rfl⟩ := h
    left
    exact ⟨by rw [cutPrefix_some hc]; rfl, rfl⟩
  | none =>
    simp only [hc] at h
    exact Or.inr (parsePort_inv h)

/-! ### rendering an accepted pattern gives back the string it was parsed from -/

/-- The stored entry of a pattern. -/
def entryOf (p : Pattern) : Bytes × Bytes × Int := ((treeKey p).1, p.scheme, Node.code p.port (treeKey p).2)

/-- What `node.elems` renders for the stored entry of `p`. -/
def renderOf (p : Pattern) : Bytes := Node.renderEntry p.scheme (treeKey p).1.reverse (Node.code p.port (treeKey p).2)

theorem treeKey_plain {p : Pattern} (h : p.value.head? ≠ some 42) : treeKey p = (p.value.reverse, false) := by
  unfold treeKey
  cases hv : p.value with
  | nil => rfl
  | cons a t =>
    rw [hv] at h
    simp only [List.head?_cons, ne_eq, Option.some.injEq] at h
    split
    · rename_i s hs; simp at hs; exact absurd hs.1 h
    · rfl

theorem renderEntry_eq (scheme host : Bytes) (port : Nat) (w : Bool) (hp : port ≤ 65536) :
    Node.renderEntry scheme host (Node.code port w) =
      scheme ++ Facts.origins_schemeHostSep ++ (if w then Facts.origins_subdomainWildcard else [])
        ++ (if host.contains Facts.origins_hostPortSep then [91] ++ host ++ [93] else host)
        ++ (if port = 0 then [] else if port = 65536 then [Facts.origins_hostPortSep] ++ Facts.origins_portWildcard
            else [Facts.origins_hostPortSep] ++ Bytes.itoa port) := by
  unfold Node.renderEntry Node.code
  have hO : Node.portOffset = 65537 := rfl
  have hW : Node.wildcardPort = 65536 := rfl
  cases w with
  | true =>
    have hneg : ((port : Int) - Node.portOffset < 0) = True := by rw [hO]; simp; omega
    simp only [if_true, hneg, decide_true]
    have hpp : (port : Int) - Node.portOffset + Node.portOffset = (port : Int) := by omega
    rw [hpp, hW]
    by_cases h0 : port = 0
    · subst h0; simp
    · by_cases h1 : port = 65536
      · subst h1; simp
      · have e0 : ((port : Int) == 0) = false := by simp; omega
        have e1 : ((port : Int) == 65536) = false := by simp; omega
        simp [e0, e1, h0, h1]
  | false =>
    have hneg : ((port : Int) < 0) = False := by simp
    simp only [Bool.false_eq_true, if_false, hneg, decide_false]
    rw [hW]
    by_cases h0 : port = 0
    · subst h0; simp
    · by_cases h1 : port = 65536
      · subst h1; simp
      · have e0 : ((port : Int) == 0) = false := by simp; omega
        have e1 : ((port : Int) == 65536) = false := by simp; omega
        simp [e0, e1, h0, h1]

/-- **Rendering is the inverse of parsing.** For every accepted pattern string — provided
brackets are used only around hosts containing a colon (IPv6 literals) — the rendering of the
stored entry is the string itself. -/
theorem render_eq_raw {ext : Ext} {s : Bytes} {p : Pattern} (h : ParsedAs ext s p) (hwf : p.WF)
    (hbr : (91 : Nat) ∈ s → (58 : Nat) ∈ p.value) : renderOf p = s := by
  obtain ⟨rest, hps, rest2, hcp, rest3, hhp, hport⟩ := h.scheme
  have hs1 := (parseScheme_append hps).1
  have hs2 := cutPrefix_some hcp
  have hsplit := parseHostPattern_split hhp
  -- the port part of the string
  have hportStr : rest3 = (if p.port = 0 then [] else if p.port = 65536 then [Facts.origins_hostPortSep] ++ Facts.origins_portWildcard
      else [Facts.origins_hostPortSep] ++ Bytes.itoa p.port) := by
    rcases hport with ⟨h3, h0⟩ | ⟨rest4, hc4, hpp⟩
    · rw [h3, h0]; rfl
    · have h4 := cutPrefix_some hc4
      rcases parsePortPattern_inv hpp with ⟨hr, hp⟩ | ⟨hr, hp1, hp2⟩
      · rw [h4, hr, hp]; rfl
      · rw [h4, hr]
        have h0 : p.port ≠ 0 := by omega
        have h1 : p.port ≠ 65536 := by omega
        simp [h0, h1]
  unfold renderOf
  by_cases hk : p.kind = .subdomains
  · obtain ⟨base, hv⟩ := hwf.wild hk
    have hkey : treeKey p = ((46 :: base).reverse, true) := by unfold treeKey; rw [hv]; rfl
    rw [hkey]
    simp only [List.reverse_reverse]
    rw [renderEntry_eq _ _ _ _ hwf.port]
    rcases hsplit with ⟨hstr, hnc, _⟩ | ⟨hnk, _⟩
    · have hnc' : (46 :: base).contains Facts.origins_hostPortSep = false := by
        rw [hv] at hnc
        simp only [List.mem_cons, not_or] at hnc
        cases hcc : (46 :: base).contains Facts.origins_hostPortSep with
        | false => rfl
        | true =>
          have := List.contains_iff_mem.mp hcc
          simp only [Facts.origins_hostPortSep, List.mem_cons] at this
          rcases this with h | h
          · omega
          · exact absurd h hnc.2.2
      rw [hnc']
      simp only [if_true, Bool.false_eq_true, if_false]
      rw [hs1, hs2, hstr, hv, ← hportStr]
      simp [Facts.origins_subdomainWildcard]
    · exact absurd hk hnk
  · have hplain := hwf.plain hk
    rw [treeKey_plain hplain]
    simp only [List.reverse_reverse]
    rw [renderEntry_eq _ _ _ _ hwf.port]
    simp only [Bool.false_eq_true, if_false, List.append_nil]
    rcases hsplit with ⟨hstr, hnc, _⟩ | ⟨_, hstr⟩
    · have hnc' : p.value.contains Facts.origins_hostPortSep = false := by
        cases hcc : p.value.contains Facts.origins_hostPortSep with
        | false => rfl
        | true => exact absurd (List.contains_iff_mem.mp hcc) hnc
      rw [hnc']
      simp only [Bool.false_eq_true, if_false]
      rw [hs1, hs2, hstr, ← hportStr]
      simp
    · have h91 : (91 : Nat) ∈ s := by rw [hs1, hs2, hstr]; simp
      have hc : p.value.contains Facts.origins_hostPortSep = true := List.contains_iff_mem.mpr (hbr h91)
      rw [hc]
      simp only [if_true]
      rw [hs1, hs2, hstr, ← hportStr]
      simp

end RoundTrip
end Cors
