import CorsVerif.Proofs.Twins
import CorsVerif.Proofs.Sound
import CorsVerif.Proofs.Tables
/-
  Re-spelt configurations (C15): entries that differ in the letter case of header names, in the
  spelling of a method that Fetch normalises, or that validation drops (safelisted methods and
  response-header names).  Such configurations are twins, and they are accepted together.
-/
namespace Cors
open Gen Headers Validate Folds

/-! ### Bytes: case mapping and token validity -/

theorem upperByte_idem (b : Nat) : Bytes.upperByte (Bytes.upperByte b) = Bytes.upperByte b := by
  unfold Bytes.upperByte
  split <;> (try split) <;> omega

theorem upper_idem (s : Bytes) : s.upper.upper = s.upper := by
  unfold Bytes.upper
  rw [List.map_map]
  apply List.map_congr_left
  intro b _
  exact upperByte_idem b

theorem tchar_lower_iff (b : Nat) : isTchar (Bytes.lowerByte b) = isTchar b := by
  unfold Bytes.lowerByte
  split
  · rename_i hb
    have h1 : isTchar (b + 32) = true := by
      unfold isTchar
      simp only [Bool.or_eq_true, Bool.and_eq_true, decide_eq_true_eq]
      exact Or.inl (Or.inr ⟨by omega, by omega⟩)
    have h2 : isTchar b = true := by
      unfold isTchar
      simp only [Bool.or_eq_true, Bool.and_eq_true, decide_eq_true_eq]
      exact Or.inl (Or.inl (Or.inr ⟨by omega, by omega⟩))
    rw [h1, h2]
  · rfl

theorem tchar_upper_iff (b : Nat) : isTchar (Bytes.upperByte b) = isTchar b := by
  unfold Bytes.upperByte
  split
  · rename_i hb
    have h1 : isTchar (b - 32) = true := by
      unfold isTchar
      simp only [Bool.or_eq_true, Bool.and_eq_true, decide_eq_true_eq]
      exact Or.inl (Or.inl (Or.inr ⟨by omega, by omega⟩))
    have h2 : isTchar b = true := by
      unfold isTchar
      simp only [Bool.or_eq_true, Bool.and_eq_true, decide_eq_true_eq]
      exact Or.inl (Or.inr ⟨by omega, by omega⟩)
    rw [h1, h2]
  · rfl

theorem valid_lower_eq (n : Bytes) : Headers.isValid n.lower = Headers.isValid n := by
  unfold Headers.isValid Bytes.lower
  rw [List.all_map]
  have : (isTchar ∘ Bytes.lowerByte) = isTchar := funext tchar_lower_iff
  rw [this]
  cases n <;> rfl

theorem valid_upper_eq (n : Bytes) : Headers.isValid n.upper = Headers.isValid n := by
  unfold Headers.isValid Bytes.upper
  rw [List.all_map]
  have : (isTchar ∘ Bytes.upperByte) = isTchar := funext tchar_upper_iff
  rw [this]
  cases n <;> rfl

theorem upper_eq_star {n : Bytes} (h : n.upper = Validate.star) : n = Validate.star := by
  cases n with
  | nil => cases h
  | cons b t =>
    cases t with
    | cons _ _ => simp [Bytes.upper, Validate.star, Facts.headers_ValueWildcard] at h
    | nil =>
      simp only [Bytes.upper, List.map_cons, List.map_nil, Validate.star, Facts.headers_ValueWildcard, List.cons.injEq, and_true] at h
      have : b = 42 := by
        unfold Bytes.upperByte at h
        split at h <;> omega
      subst this
      rfl

theorem star_iff_lower (n : Bytes) : (n == Validate.star) = (n.lower == Validate.star) := by
  rw [Bool.eq_iff_iff, beq_iff_eq, beq_iff_eq]
  constructor
  · intro h; subst h; rfl
  · exact lower_eq_star

theorem star_iff_upper (n : Bytes) : (n == Validate.star) = (n.upper == Validate.star) := by
  rw [Bool.eq_iff_iff, beq_iff_eq, beq_iff_eq]
  constructor
  · intro h; subst h; rfl
  · exact upper_eq_star

/-! ### Header names with the same byte-lowercase form -/

/-- Two spellings of one header name: `Content-Type`, `content-type`, `CONTENT-TYPE`. -/
def SameName (a b : Bytes) : Prop := a.lower = b.lower

instance (a b : Bytes) : Decidable (SameName a b) := inferInstanceAs (Decidable (a.lower = b.lower))

theorem SameName.star {a b : Bytes} (h : SameName a b) : (a == Validate.star) = (b == Validate.star) := by
  rw [star_iff_lower a, star_iff_lower b, h]

theorem SameName.valid {a b : Bytes} (h : SameName a b) : Headers.isValid a = Headers.isValid b := by
  rw [← valid_lower_eq a, ← valid_lower_eq b, h]

theorem SameName.isAuth {a b : Bytes} (h : SameName a b) : isAuth a = isAuth b := by
  unfold Folds.isAuth
  simp only [bne, h.star, h.valid]
  rw [h]

theorem SameName.goodReq {a b : Bytes} (h : SameName a b) : goodReq a = goodReq b := by
  unfold Folds.goodReq
  simp only [bne, h.star, h.valid]
  rw [h]

theorem SameName.goodRes {a b : Bytes} (h : SameName a b) : goodRes a = goodRes b := by
  unfold Folds.goodRes
  simp only [bne, h.star, h.valid]
  rw [h]

/-- Whether an entry of `RequestHeaders` raises no error, as a function of what `SameName` preserves. -/
def reqClean (n : Bytes) : Bool :=
  n == Validate.star || (Headers.isValid n && (n.lower == Facts.headers_Authorization ||
    (!Headers.isForbiddenRequestHeaderName n.lower && !Headers.isProhibitedRequestHeaderName n.lower)))

theorem reqHdrErr_nil_iff (n : Bytes) : reqHdrErr n = [] ↔ reqClean n = true := by
  unfold reqHdrErr reqClean
  cases (n == Validate.star) <;> cases Headers.isValid n <;> cases (n.lower == Facts.headers_Authorization) <;>
    cases Headers.isForbiddenRequestHeaderName n.lower <;> cases Headers.isProhibitedRequestHeaderName n.lower <;> simp

theorem SameName.reqClean {a b : Bytes} (h : SameName a b) : reqClean a = reqClean b := by
  unfold Cors.reqClean
  simp only [h.star, h.valid]
  rw [h]

def resClean (cred : Bool) (n : Bytes) : Bool :=
  if n == Validate.star then !cred
  else Headers.isValid n && !Headers.isForbiddenResponseHeaderName n.lower && !Headers.isProhibitedResponseHeaderName n.lower

theorem resHdrErr_nil_iff (cred : Bool) (n : Bytes) : resHdrErr cred n = [] ↔ resClean cred n = true := by
  unfold resHdrErr resClean
  cases (n == Validate.star) <;> cases cred <;> cases Headers.isValid n <;>
    cases Headers.isForbiddenResponseHeaderName n.lower <;> cases Headers.isProhibitedResponseHeaderName n.lower <;> simp

theorem SameName.resClean {a b : Bytes} (h : SameName a b) (cred : Bool) : resClean cred a = resClean cred b := by
  unfold Cors.resClean
  simp only [h.star, h.valid]
  rw [h]

/-! ### Methods with the same normal form -/

/-- Two spellings of one method: equal after Fetch's method normalisation (`put`/`PUT`; `patch` and
`PATCH` are *different* methods). -/
def SameMethod (a b : Bytes) : Prop := Methods.normalize a = Methods.normalize b

instance (a b : Bytes) : Decidable (SameMethod a b) := inferInstanceAs (Decidable (Methods.normalize a = Methods.normalize b))

theorem SameMethod.upper {a b : Bytes} (h : SameMethod a b) : a.upper = b.upper := by
  unfold SameMethod Methods.normalize at h
  simp only [] at h
  by_cases ha : (SortedSet.ofList Facts.methods_browserNormalizedMethods).contains a.upper = true
  · by_cases hb : (SortedSet.ofList Facts.methods_browserNormalizedMethods).contains b.upper = true
    · rw [if_pos ha, if_pos hb] at h; exact h
    · rw [if_pos ha, if_neg hb] at h
      exfalso; apply hb; rw [← h, upper_idem]; exact ha
  · by_cases hb : (SortedSet.ofList Facts.methods_browserNormalizedMethods).contains b.upper = true
    · rw [if_neg ha, if_pos hb] at h
      exfalso; apply ha; rw [h, upper_idem]; exact hb
    · rw [if_neg ha, if_neg hb] at h; rw [h]

theorem SameMethod.star {a b : Bytes} (h : SameMethod a b) : (a == Validate.star) = (b == Validate.star) := by
  rw [star_iff_upper a, star_iff_upper b, h.upper]

theorem SameMethod.valid {a b : Bytes} (h : SameMethod a b) : Methods.isValid a = Methods.isValid b := by
  unfold Methods.isValid
  rw [← valid_upper_eq a, ← valid_upper_eq b, h.upper]

theorem SameMethod.goodMethod {a b : Bytes} (h : SameMethod a b) : goodMethod a = goodMethod b := by
  unfold Folds.goodMethod
  simp only [bne, h.star, h.valid]
  have : Methods.normalize a = Methods.normalize b := h
  rw [this]

def methodClean (n : Bytes) : Bool :=
  n == Validate.star || (Methods.isValid n && (Methods.isSafelisted (Methods.normalize n) || !Methods.isForbidden (Methods.normalize n)))

theorem methodErr_nil_iff (n : Bytes) : methodErr n = [] ↔ methodClean n = true := by
  unfold methodErr methodClean
  cases (n == Validate.star) <;> cases Methods.isValid n <;> cases Methods.isSafelisted (Methods.normalize n) <;>
    cases Methods.isForbidden (Methods.normalize n) <;> simp

theorem SameMethod.methodClean {a b : Bytes} (h : SameMethod a b) : methodClean a = methodClean b := by
  unfold Cors.methodClean
  simp only [h.star, h.valid]
  have : Methods.normalize a = Methods.normalize b := h
  rw [this]

/-! ### Entries that validation drops -/

/-- A safelisted method in any spelling (`GET`, `get`, `Post`): accepted and dropped. -/
def DroppedMethod (n : Bytes) : Prop :=
  (n == Validate.star) = false ∧ Methods.isValid n = true ∧ Methods.isSafelisted (Methods.normalize n) = true

/-- A safelisted response-header name in any spelling (`Cache-Control`): accepted and dropped. -/
def DroppedRes (n : Bytes) : Prop :=
  (n == Validate.star) = false ∧ Headers.isValid n = true ∧ Headers.isSafelistedResponseHeaderName n.lower = true

instance (n : Bytes) : Decidable (DroppedMethod n) := inferInstanceAs (Decidable (_ ∧ _ ∧ _))
instance (n : Bytes) : Decidable (DroppedRes n) := inferInstanceAs (Decidable (_ ∧ _ ∧ _))

theorem safelisted_res_clean (x : Bytes) (h : Headers.isSafelistedResponseHeaderName x = true) :
    Headers.isForbiddenResponseHeaderName x = false ∧ Headers.isProhibitedResponseHeaderName x = false := by
  unfold Headers.isSafelistedResponseHeaderName at h
  unfold Headers.isForbiddenResponseHeaderName Headers.isProhibitedResponseHeaderName
  rw [SortedSet.ofList_contains] at h ⊢
  rw [SortedSet.ofList_contains]
  have hx : x ∈ Facts.headers_safelistedResponseHeaderNames := by simpa using h
  have all : ∀ y ∈ Facts.headers_safelistedResponseHeaderNames,
      Facts.headers_forbiddenResponseHeaderNames.contains y = false ∧ Facts.headers_prohibitedResponseHeaderNames.contains y = false := by
    decide
  exact all x hx

theorem DroppedMethod.clean {n : Bytes} (h : DroppedMethod n) : methodClean n = true := by
  unfold methodClean; rw [h.1, h.2.1, h.2.2]; rfl

theorem DroppedMethod.notGood {n : Bytes} (h : DroppedMethod n) : goodMethod n = false := by
  unfold Folds.goodMethod; rw [h.2.2]; simp

theorem DroppedRes.clean {n : Bytes} (h : DroppedRes n) (cred : Bool) : resClean cred n = true := by
  obtain ⟨h1, h2⟩ := safelisted_res_clean _ h.2.2
  unfold resClean; rw [h.1, h.2.1, h1, h2]; rfl

theorem DroppedRes.notGood {n : Bytes} (h : DroppedRes n) : goodRes n = false := by
  unfold Folds.goodRes; rw [h.2.2]; simp

/-! ### Re-spelt configurations -/

/-- `c2` says the same as `c1` in other words: the same scalars and origin patterns; every method of
one is a spelling of a method of the other or a safelisted method; every request-header name of one is
a spelling of a name of the other; every response-header name of one is a spelling of a name of the
other or a safelisted name.  Order and multiplicity are free. -/
structure Respelt (c1 c2 : Config) : Prop where
  credentialed : c1.credentialed = c2.credentialed
  maxAge : c1.maxAge = c2.maxAge
  status : c1.status = c2.status
  pna : c1.pna = c2.pna
  pnaNoCors : c1.pnaNoCors = c2.pnaNoCors
  tolInsecure : c1.tolInsecure = c2.tolInsecure
  tolPSL : c1.tolPSL = c2.tolPSL
  origins : ∀ raw, raw ∈ c1.origins ↔ raw ∈ c2.origins
  methods12 : ∀ n ∈ c1.methods, (∃ n' ∈ c2.methods, SameMethod n n') ∨ DroppedMethod n
  methods21 : ∀ n ∈ c2.methods, (∃ n' ∈ c1.methods, SameMethod n n') ∨ DroppedMethod n
  req12 : ∀ n ∈ c1.requestHeaders, ∃ n' ∈ c2.requestHeaders, SameName n n'
  req21 : ∀ n ∈ c2.requestHeaders, ∃ n' ∈ c1.requestHeaders, SameName n n'
  res12 : ∀ n ∈ c1.responseHeaders, (∃ n' ∈ c2.responseHeaders, SameName n n') ∨ DroppedRes n
  res21 : ∀ n ∈ c2.responseHeaders, (∃ n' ∈ c1.responseHeaders, SameName n n') ∨ DroppedRes n

theorem Respelt.symm {c1 c2 : Config} (h : Respelt c1 c2) : Respelt c2 c1 :=
  ⟨h.credentialed.symm, h.maxAge.symm, h.status.symm, h.pna.symm, h.pnaNoCors.symm, h.tolInsecure.symm, h.tolPSL.symm,
   fun r => (h.origins r).symm, h.methods21, h.methods12, h.req21, h.req12, h.res21, h.res12⟩

private theorem contains_star_of {l1 l2 : List Bytes} {R : Bytes → Bytes → Prop} {D : Bytes → Prop}
    (hR : ∀ a b, R a b → (a == Validate.star) = (b == Validate.star)) (hD : ∀ a, D a → (a == Validate.star) = false)
    (h12 : ∀ n ∈ l1, (∃ n' ∈ l2, R n n') ∨ D n) :
    l1.contains Validate.star = true → l2.contains Validate.star = true := by
  intro h
  rw [List.contains_iff_mem] at h ⊢
  rcases h12 _ h with ⟨n', hn', hr⟩ | hd
  · have := hR _ _ hr
    rw [beq_self_eq_true] at this
    have : n' = Validate.star := by simpa using this.symm
    rw [← this]; exact hn'
  · have := hD _ hd
    rw [beq_self_eq_true] at this
    cases this

private theorem bool_eq_of_imp {a b : Bool} (h1 : a = true → b = true) (h2 : b = true → a = true) : a = b := by
  cases a <;> cases b <;> simp_all

/-- Re-spelt configurations are twins: they mean the same sets. -/
theorem Respelt.twin {c1 c2 : Config} (h : Respelt c1 c2) : Twin c1 c2 where
  credentialed := h.credentialed
  maxAge := h.maxAge
  status := h.status
  pna := h.pna
  pnaNoCors := h.pnaNoCors
  tolInsecure := h.tolInsecure
  tolPSL := h.tolPSL
  origins := h.origins
  methodsStar := bool_eq_of_imp
    (contains_star_of (fun _ _ r => SameMethod.star r) (fun _ d => d.1) h.methods12)
    (contains_star_of (fun _ _ r => SameMethod.star r) (fun _ d => d.1) h.methods21)
  methods := by
    intro x
    constructor
    · rintro ⟨n, hn, hg, rfl⟩
      rcases h.methods12 n hn with ⟨n', hn', hr⟩ | hd
      · exact ⟨n', hn', by rw [← hr.goodMethod]; exact hg, hr⟩
      · rw [hd.notGood] at hg; cases hg
    · rintro ⟨n, hn, hg, rfl⟩
      rcases h.methods21 n hn with ⟨n', hn', hr⟩ | hd
      · exact ⟨n', hn', by rw [← hr.goodMethod]; exact hg, hr⟩
      · rw [hd.notGood] at hg; cases hg
  reqStar := bool_eq_of_imp
    (contains_star_of (D := fun _ => False) (fun _ _ r => SameName.star r) (fun _ d => d.elim) (fun n hn => Or.inl (h.req12 n hn)))
    (contains_star_of (D := fun _ => False) (fun _ _ r => SameName.star r) (fun _ d => d.elim) (fun n hn => Or.inl (h.req21 n hn)))
  reqAuth := by
    apply bool_eq_of_imp
    · intro ha
      rw [List.any_eq_true] at ha ⊢
      obtain ⟨n, hn, hq⟩ := ha
      obtain ⟨n', hn', hr⟩ := h.req12 n hn
      exact ⟨n', hn', by rw [← hr.isAuth]; exact hq⟩
    · intro ha
      rw [List.any_eq_true] at ha ⊢
      obtain ⟨n, hn, hq⟩ := ha
      obtain ⟨n', hn', hr⟩ := h.req21 n hn
      exact ⟨n', hn', by rw [← hr.isAuth]; exact hq⟩
  req := by
    intro x
    constructor
    · rintro ⟨n, hn, hg, rfl⟩
      obtain ⟨n', hn', hr⟩ := h.req12 n hn
      exact ⟨n', hn', by rw [← hr.goodReq]; exact hg, hr⟩
    · rintro ⟨n, hn, hg, rfl⟩
      obtain ⟨n', hn', hr⟩ := h.req21 n hn
      exact ⟨n', hn', by rw [← hr.goodReq]; exact hg, hr⟩
  resStar := bool_eq_of_imp
    (contains_star_of (fun _ _ r => SameName.star r) (fun _ d => d.1) h.res12)
    (contains_star_of (fun _ _ r => SameName.star r) (fun _ d => d.1) h.res21)
  res := by
    intro x
    constructor
    · rintro ⟨n, hn, hg, rfl⟩
      rcases h.res12 n hn with ⟨n', hn', hr⟩ | hd
      · exact ⟨n', hn', by rw [← hr.goodRes]; exact hg, hr⟩
      · rw [hd.notGood] at hg; cases hg
    · rintro ⟨n, hn, hg, rfl⟩
      rcases h.res21 n hn with ⟨n', hn', hr⟩ | hd
      · exact ⟨n', hn', by rw [← hr.goodRes]; exact hg, hr⟩
      · rw [hd.notGood] at hg; cases hg

end Cors
