import CorsVerif.Proofs.TreeRoundTrip
import CorsVerif.Proofs.CfgRoundTrip
import CorsVerif.Proofs.Twins
/-
  Putting the round trips of the fields together (C06).
-/
namespace Cors
open Gen Validate Folds CfgRT TreeRT

namespace C06A

/-- The handler reads `allowAuthorization` only under a non-credentialed `*`. -/
theorem serveDec_congr_auth (dec : Dec) (i : ICfg) (a : Bool)
    (h : (i.asteriskReqHdrs && i.credentialed) = true ∨ a = i.allowAuthorization) :
    Serve.serveDec dec { i with allowAuthorization := a } = Serve.serveDec dec i := by
  rcases h with h | h
  · funext dbg r pre
    simp only [Bool.and_eq_true] at h
    unfold Serve.serveDec Serve.handleNonCORS Serve.handleCORSPreflight Serve.handleCORSActual Serve.preflightSteps
      Serve.processOriginForPreflight Serve.processACRPN Serve.processACRM Serve.processACRH Serve.okStatus
    simp only [h.1, h.2, Bool.not_true, Bool.and_false, Bool.false_eq_true, if_false]
  · subst h; rfl

/-- `newConfig` in terms of the rendering functions. -/
theorem newConfig_eq (icfg : ICfg) :
    newConfig icfg =
      { origins := if icfg.tree.isEmpty then [Validate.star] else Tree.elems icfg.tree,
        credentialed := icfg.credentialed,
        methods := renderMethods icfg.allowAnyMethod icfg.allowedMethods,
        requestHeaders := renderReqHdrs icfg.credentialed icfg.asteriskReqHdrs icfg.allowAuthorization icfg.allowedReqHdrs,
        maxAge := renderMaxAge icfg.acma,
        responseHeaders := renderResHdrs icfg.aceh,
        status := if (icfg.statusMinus200 + 200) % 256 != Facts.cors_defaultPreflightStatus % 256 then (icfg.statusMinus200 : Int) + 200 else 0,
        pna := icfg.pna, pnaNoCors := icfg.pnaNoCors, tolInsecure := icfg.insecureOrigins, tolPSL := icfg.subsOfPublicSuffixes } := by
  unfold newConfig renderMethods renderReqHdrs renderMaxAge renderResHdrs
  rfl

end C06A
end Cors

namespace Cors
open Gen Validate Folds CfgRT TreeRT
namespace C06A

/-- `validateOrigins` in closed form. -/
theorem origins_eq (ext : Ext) (cred pna tolI tolP : Bool) (raws : List Bytes) (hne : raws ≠ []) :
    Validate.origins ext cred pna tolI tolP raws =
      (raws.flatMap (rawErrs ext cred pna tolI tolP),
       if raws.contains Validate.star then Node.empty else (parsedPatterns ext raws).foldl Tree.insert Node.empty) := by
  unfold Validate.origins
  have : raws.isEmpty = false := by cases raws with | nil => exact absurd rfl hne | cons _ _ => rfl
  rw [this]
  simp only [Bool.false_eq_true, if_false]
  obtain ⟨ht, ha⟩ := origins_fold_parsed ext cred pna tolI tolP raws {}
  rw [fold_errs, ht, ha]
  simp

/-- Two trees that the handler cannot tell apart. -/
def TreeEquiv (t' t : Tree) : Prop :=
  t'.isEmpty = t.isEmpty ∧ ∀ o : Origin, o.port ≤ 65535 → Tree.contains t' o = Tree.contains t o

/-- **The origins of `Config()` validate without error to an equivalent tree.** -/
theorem origins_part (ext : Ext) (hext : ∀ h info, ext.ip6 h = some info → h.head? ≠ some 42)
    (cred pna tolI tolP : Bool) (raws : List Bytes) (hne : raws ≠ [])
    (hclean : raws.flatMap (rawErrs ext cred pna tolI tolP) = []) :
    let t := (Validate.origins ext cred pna tolI tolP raws).2
    let raws' := if t.isEmpty then [Validate.star] else Tree.elems t
    raws' ≠ [] ∧ (Validate.origins ext cred pna tolI tolP raws').1 = [] ∧
      TreeEquiv (Validate.origins ext cred pna tolI tolP raws').2 t := by
  simp only []
  rw [origins_eq ext cred pna tolI tolP raws hne]
  simp only []
  have hcl := nil_of_flatMap_nil hclean
  cases hs : raws.contains Validate.star with
  | true =>
    simp only [if_true]
    have he : Node.isEmpty Node.empty = true := rfl
    rw [he]
    simp only [if_true]
    have hstarErr := hcl _ (List.contains_iff_mem.mp hs)
    refine ⟨by simp, ?_, ?_⟩
    · rw [origins_eq _ _ _ _ _ _ (by simp)]
      simp [hstarErr]
    · rw [origins_eq _ _ _ _ _ _ (by simp)]
      simp only [List.contains_cons, beq_self_eq_true, Bool.true_or, if_true]
      exact ⟨rfl, fun _ _ => rfl⟩
  | false =>
    simp only [Bool.false_eq_true, if_false]
    have hok : OriginsOK ext cred pna tolI tolP raws := ⟨hne, hs, hcl⟩
    obtain ⟨hsub, hne', hequiv⟩ := origins_roundtrip ext hext cred pna tolI tolP raws hok
    -- the original tree is not empty
    have hnotEmpty : Node.isEmpty ((parsedPatterns ext raws).foldl Tree.insert Node.empty) = false := by
      obtain ⟨raw0, hraw0⟩ : ∃ raw0, raw0 ∈ raws := by
        cases hr : raws with
        | nil => exact absurd hr hne
        | cons a _ => exact ⟨a, List.mem_cons_self⟩
      obtain ⟨hs0, p0, hp0⟩ := ok_parses hok hraw0
      have hmem0 : p0 ∈ parsedPatterns ext raws := mem_parsed.mpr ⟨raw0, hraw0, hs0, hp0⟩
      -- a fold of insertions over a non-empty list is non-empty
      have key : ∀ (ps : List Pattern) (t : Tree), ps ≠ [] → Node.isEmpty (ps.foldl Tree.insert t) = false := by
        intro ps
        induction ps with
        | nil => intro _ h; exact absurd rfl h
        | cons p ps ih =>
          intro t _
          rw [List.foldl_cons]
          cases ps with
          | nil => exact tree_insert_nonempty t p
          | cons q qs => exact ih _ (by simp)
      exact key _ _ (fun h => by rw [h] at hmem0; cases hmem0)
    rw [hnotEmpty]
    simp only [Bool.false_eq_true, if_false]
    have hns' : (Tree.elems ((parsedPatterns ext raws).foldl Tree.insert Node.empty)).contains Validate.star = false := by
      cases hc : (Tree.elems ((parsedPatterns ext raws).foldl Tree.insert Node.empty)).contains Validate.star with
      | false => rfl
      | true => exact absurd rfl (hsub _ (List.contains_iff_mem.mp hc)).1
    refine ⟨hne', ?_, ?_⟩
    · rw [origins_eq _ _ _ _ _ _ hne']
      simp only []
      apply flatMap_nil_of
      intro x hx
      exact (hsub x hx).2.1
    · rw [origins_eq _ _ _ _ _ _ hne']
      simp only [hns', Bool.false_eq_true, if_false]
      refine ⟨?_, hequiv⟩
      rw [hnotEmpty]
      -- the rebuilt tree is not empty either: it contains what the original contains
      have key : ∀ (ps : List Pattern) (t : Tree), ps ≠ [] → Node.isEmpty (ps.foldl Tree.insert t) = false := by
        intro ps
        induction ps with
        | nil => intro _ h; exact absurd rfl h
        | cons p ps ih =>
          intro t _
          rw [List.foldl_cons]
          cases ps with
          | nil => exact tree_insert_nonempty t p
          | cons q qs => exact ih _ (by simp)
      apply key
      -- some rendered element parses
      obtain ⟨x0, hx0⟩ : ∃ x0, x0 ∈ Tree.elems ((parsedPatterns ext raws).foldl Tree.insert Node.empty) := by
        cases hr : Tree.elems ((parsedPatterns ext raws).foldl Tree.insert Node.empty) with
        | nil => exact absurd hr hne'
        | cons a _ => exact ⟨a, List.mem_cons_self⟩
      obtain ⟨hs0, _, p0, _, hp0⟩ := hsub x0 hx0
      intro hnil
      have : p0 ∈ parsedPatterns ext (Tree.elems ((parsedPatterns ext raws).foldl Tree.insert Node.empty)) :=
        mem_parsed.mpr ⟨x0, hx0, hs0, hp0⟩
      rw [hnil] at this; cases this

end C06A
end Cors

namespace Cors
open Gen Validate Folds CfgRT TreeRT
namespace C06A

/-- Two internal configurations that agree on everything the handler reads. -/
structure SameBut (i1 i2 : ICfg) : Prop where
  tree : TreeEquiv i1.tree i2.tree
  allowedMethods : i1.allowedMethods = i2.allowedMethods
  allowedReqHdrs : i1.allowedReqHdrs = i2.allowedReqHdrs
  acah : i1.acah = i2.acah
  statusMinus200 : i1.statusMinus200 = i2.statusMinus200
  credentialed : i1.credentialed = i2.credentialed
  allowAnyMethod : i1.allowAnyMethod = i2.allowAnyMethod
  asteriskReqHdrs : i1.asteriskReqHdrs = i2.asteriskReqHdrs
  allowAuthorization : (i2.asteriskReqHdrs && i2.credentialed) = true ∨ i1.allowAuthorization = i2.allowAuthorization
  pna : i1.pna = i2.pna
  pnaNoCors : i1.pnaNoCors = i2.pnaNoCors
  acma : i1.acma = i2.acma
  aceh : i1.aceh = i2.aceh
  subsOfPublicSuffixes : i1.subsOfPublicSuffixes = i2.subsOfPublicSuffixes
  insecureOrigins : i1.insecureOrigins = i2.insecureOrigins

theorem serve_congr {i1 i2 : ICfg} (h : SameBut i1 i2) : Serve.serve i1 = Serve.serve i2 := by
  cases i1 with
  | mk t1 am1 ar1 ah1 s1 c1 any1 ast1 au1 p1 pn1 ma1 eh1 sp1 io1 =>
  cases i2 with
  | mk t2 am2 ar2 ah2 s2 c2 any2 ast2 au2 p2 pn2 ma2 eh2 sp2 io2 =>
    obtain ⟨⟨hte, htc⟩, h1, h2, h3, h4, h5, h6, h7, h8, h9, h10, h11, h12, h13, h14⟩ := h
    simp only at hte htc h1 h2 h3 h4 h5 h6 h7 h8 h9 h10 h11 h12 h13 h14
    subst h1 h2 h3 h4 h5 h6 h7 h9 h10 h11 h12 h13 h14
    unfold Serve.serve
    have hdec : Serve.modelDec ⟨t1, am1, ar1, ah1, s1, c1, any1, ast1, au1, p1, pn1, ma1, eh1, sp1, io1⟩ =
        Serve.modelDec ⟨t2, am1, ar1, ah1, s1, c1, any1, ast1, au2, p1, pn1, ma1, eh1, sp1, io1⟩ := by
      unfold Serve.modelDec
      congr 1
      funext raw
      cases hp : Lex.parse raw with
      | none => rfl
      | some o => exact htc o (parse_port_le hp)
    rw [hdec]
    have e1 := serveDec_congr_tree (Serve.modelDec ⟨t2, am1, ar1, ah1, s1, c1, any1, ast1, au2, p1, pn1, ma1, eh1, sp1, io1⟩)
      ⟨t2, am1, ar1, ah1, s1, c1, any1, ast1, au1, p1, pn1, ma1, eh1, sp1, io1⟩ t1 hte
    have e2 := serveDec_congr_auth (Serve.modelDec ⟨t2, am1, ar1, ah1, s1, c1, any1, ast1, au2, p1, pn1, ma1, eh1, sp1, io1⟩)
      ⟨t2, am1, ar1, ah1, s1, c1, any1, ast1, au2, p1, pn1, ma1, eh1, sp1, io1⟩ au1 h8
    exact e1.trans e2

end C06A
end Cors
