import CorsVerif.Proofs.Order
/-
  Sorted sets are canonical: two sets built by `Add` with the same members are equal
  (same element list, same `maxLen`).
-/
namespace Cors

/-- The maximum length of a list of byte strings. -/
def maxLenOf : List Bytes → Nat
  | [] => 0
  | x :: xs => max x.length (maxLenOf xs)

/-- Exact invariant of a `SortedSet`: strictly sorted and `maxLen` is exactly the longest length. -/
structure SortedSet.Exact (set : SortedSet) : Prop where
  sorted : StrictSorted set.elems
  exact : set.maxLen = maxLenOf set.elems

theorem le_maxLenOf (l : List Bytes) (x : Bytes) (hx : x ∈ l) : x.length ≤ maxLenOf l := by
  induction l with
  | nil => cases hx
  | cons y ys ih =>
    simp only [maxLenOf]
    rcases List.mem_cons.mp hx with rfl | hx
    · exact Nat.le_max_left _ _
    · exact Nat.le_trans (ih hx) (Nat.le_max_right _ _)

theorem SortedSet.Exact.wf {set : SortedSet} (h : set.Exact) : set.WF := by
  refine ⟨h.sorted, ?_⟩
  rw [h.exact]
  exact le_maxLenOf set.elems

theorem maxLenOf_insertSorted (x : Bytes) (l : List Bytes) :
    maxLenOf (insertSorted Bytes.lt x l) = max (maxLenOf l) x.length := by
  induction l with
  | nil => simp [insertSorted, maxLenOf, Nat.max_comm]
  | cons y ys ih =>
    simp only [insertSorted]
    split
    · simp only [maxLenOf]; omega
    · simp only [maxLenOf, ih]; omega

theorem SortedSet.empty_exact : SortedSet.Exact {} := ⟨List.Pairwise.nil, rfl⟩

theorem SortedSet.add_exact (set : SortedSet) (h : set.Exact) (e : Bytes) : (set.add e).Exact := by
  unfold SortedSet.add
  split
  · exact h
  · rename_i hc
    have hne : e ∉ set.elems := by simpa using hc
    refine ⟨insertSorted_sorted h.sorted hne, ?_⟩
    simp only [maxLenOf_insertSorted, h.exact]

/-- Strictly sorted lists with the same members are equal. -/
theorem sorted_ext {l1 l2 : List Bytes} (h1 : StrictSorted l1) (h2 : StrictSorted l2)
    (hm : ∀ x, x ∈ l1 ↔ x ∈ l2) : l1 = l2 := by
  induction l1 generalizing l2 with
  | nil =>
    cases l2 with
    | nil => rfl
    | cons y ys => exact absurd ((hm y).mpr List.mem_cons_self) (by simp)
  | cons x xs ih =>
    cases l2 with
    | nil => exact absurd ((hm x).mp List.mem_cons_self) (by simp)
    | cons y ys =>
      unfold StrictSorted at h1 h2
      rw [List.pairwise_cons] at h1 h2
      -- the heads are the minima of the same set
      have hxy : x = y := by
        have hx := (hm x).mp List.mem_cons_self
        have hy := (hm y).mpr List.mem_cons_self
        rcases List.mem_cons.mp hx with hx | hx
        · exact hx
        · rcases List.mem_cons.mp hy with hy | hy
          · exact hy.symm
          · have a := h2.1 x hx
            have b := h1.1 y hy
            rw [Bytes.lt_asymm a] at b; cases b
      subst hxy
      congr 1
      apply ih h1.2 h2.2
      intro z
      constructor
      · intro hz
        have := (hm z).mp (List.mem_cons_of_mem _ hz)
        rcases List.mem_cons.mp this with rfl | h
        · have := h1.1 z hz; rw [Bytes.lt_irrefl] at this; cases this
        · exact h
      · intro hz
        have := (hm z).mpr (List.mem_cons_of_mem _ hz)
        rcases List.mem_cons.mp this with rfl | h
        · have := h2.1 z hz; rw [Bytes.lt_irrefl] at this; cases this
        · exact h

/-- **Canonicity.** Two exact sets with the same members are the same value. -/
theorem SortedSet.ext_members {s1 s2 : SortedSet} (h1 : s1.Exact) (h2 : s2.Exact)
    (hm : ∀ x, x ∈ s1.elems ↔ x ∈ s2.elems) : s1 = s2 := by
  have he : s1.elems = s2.elems := sorted_ext h1.sorted h2.sorted hm
  have hl : s1.maxLen = s2.maxLen := by rw [h1.exact, h2.exact, he]
  cases s1; cases s2
  simp only [SortedSet.mk.injEq]
  exact ⟨he, hl⟩

end Cors
